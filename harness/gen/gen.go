// Package gen holds the seeded generators for entity contents and payloads.
package gen

import (
	"encoding/json"
	"fmt"
	"math/rand"
	"sort"
	"strings"

	"github.com/mimiro-io/datahub/internal/verif/model"
)

const (
	NsA = "http://ex.org/a/" // slash namespace: entity ids
	NsP = "http://ex.org/p#" // hash namespace: property keys
	NsR = "http://ex.org/r/" // reference predicates
)

type Vocab struct {
	IDs   []string
	Props []string
	Preds []string
}

func NewVocab(nIDs, nProps, nPreds int) *Vocab {
	v := &Vocab{}
	for i := 0; i < nIDs; i++ {
		v.IDs = append(v.IDs, fmt.Sprintf("%se%d", NsA, i))
	}
	for i := 0; i < nProps; i++ {
		v.Props = append(v.Props, fmt.Sprintf("%sk%d", NsP, i))
	}
	for i := 0; i < nPreds; i++ {
		v.Preds = append(v.Preds, fmt.Sprintf("%sr%d", NsR, i))
	}
	return v
}

var strs = []string{"", "x", "abc", "hello world", "æøå", "日本", "a\"b", "0123456789abc", "true", "1"}

// Scalar returns a JSON scalar whose round trip is exact.
func Scalar(r *rand.Rand) any {
	switch r.Intn(8) {
	case 0, 1, 2:
		return strs[r.Intn(len(strs))]
	case 3:
		return float64(r.Intn(5))
	case 4:
		return float64(r.Int63n(1<<53)) * float64(1-2*r.Intn(2))
	case 5:
		return []float64{0.5, 1.25, -3.75, 1e21, 1e-7, 123456.789}[r.Intn(6)]
	case 6:
		return r.Intn(2) == 0
	default:
		return fmt.Sprintf("s%d", r.Intn(4))
	}
}

// Value returns a property value of any JSON shape the data model allows.
func Value(r *rand.Rand, v *Vocab, depth int) any {
	switch k := r.Intn(12); {
	case k < 7:
		return Scalar(r)
	case k < 9: // flat array
		n := r.Intn(4)
		a := make([]any, n)
		for i := range a {
			a[i] = Scalar(r)
		}
		return a
	case k < 10 && depth < 2: // nested / mixed array
		n := 1 + r.Intn(3)
		a := make([]any, n)
		for i := range a {
			if r.Intn(3) == 0 {
				a[i] = Value(r, v, depth+1)
			} else {
				a[i] = Scalar(r)
			}
		}
		return a
	case k < 11 && depth < 2: // nested entity
		ne := map[string]any{
			"id":    v.IDs[r.Intn(len(v.IDs))] + "-sub",
			"props": map[string]any{v.Props[r.Intn(len(v.Props))]: Scalar(r)},
			"refs":  map[string]any{},
		}
		switch r.Intn(4) {
		case 0:
			ne["refs"].(map[string]any)[v.Preds[r.Intn(len(v.Preds))]] = v.IDs[r.Intn(len(v.IDs))]
		case 1: // list-valued reference inside the nested entity
			ne["refs"].(map[string]any)[v.Preds[r.Intn(len(v.Preds))]] = []any{v.IDs[r.Intn(len(v.IDs))], v.IDs[r.Intn(len(v.IDs))]}
		case 2: // array-valued property inside the nested entity
			ne["props"].(map[string]any)[v.Props[r.Intn(len(v.Props))]] = []any{Scalar(r), Scalar(r)}
		}
		return ne
	default:
		return Scalar(r)
	}
}

// RefValue returns a single ref or an array of refs into the id pool.
func RefValue(r *rand.Rand, v *Vocab) any {
	if r.Intn(3) == 0 {
		n := 1 + r.Intn(3)
		dups := r.Intn(4) == 0 // the same target more than once in one array is valid input
		seen := map[string]bool{}
		var a []any
		for i := 0; i < n; i++ {
			t := v.IDs[r.Intn(len(v.IDs))]
			if !seen[t] || dups {
				seen[t] = true
				a = append(a, t)
			}
		}
		return a
	}
	return v.IDs[r.Intn(len(v.IDs))]
}

// Entity generates a random entity content for id.
func Entity(r *rand.Rand, v *Vocab, id string) model.Ent {
	e := model.Ent{ID: id, Props: map[string]any{}, Refs: map[string]any{}}
	np := r.Intn(3)
	for i := 0; i < np; i++ {
		e.Props[v.Props[r.Intn(len(v.Props))]] = Value(r, v, 0)
	}
	nr := r.Intn(3)
	for i := 0; i < nr; i++ {
		e.Refs[v.Preds[r.Intn(len(v.Preds))]] = RefValue(r, v)
	}
	if r.Intn(6) == 0 {
		e.Deleted = true
		if r.Intn(2) == 0 { // tombstones usually carry nothing
			e.Props = map[string]any{}
			e.Refs = map[string]any{}
		}
	}
	return model.NormEnt(e)
}

// Mutate derives a new content from prev (the typical "next version").
func Mutate(r *rand.Rand, v *Vocab, prev model.Ent) model.Ent {
	e := Clone(prev)
	switch r.Intn(10) {
	case 0: // identical
	case 1: // flip deleted only
		e.Deleted = !e.Deleted
	case 2: // delete and clear
		e.Deleted = true
		e.Props = map[string]any{}
		e.Refs = map[string]any{}
	case 3: // un-delete with new content
		e.Deleted = false
		e.Props[v.Props[r.Intn(len(v.Props))]] = Value(r, v, 0)
	case 4: // drop a ref
		for k := range e.Refs {
			delete(e.Refs, k)
			break
		}
	case 5: // add / change a ref
		e.Refs[v.Preds[r.Intn(len(v.Preds))]] = RefValue(r, v)
	case 6: // change a prop, keep refs
		e.Props[v.Props[r.Intn(len(v.Props))]] = Value(r, v, 0)
	case 7: // drop a prop
		for k := range e.Props {
			delete(e.Props, k)
			break
		}
	case 8: // re-shape one reference value: same targets, other multiplicities / fewer members
		keys := make([]string, 0, len(e.Refs))
		for k := range e.Refs {
			keys = append(keys, k)
		}
		if len(keys) == 0 {
			return Entity(r, v, prev.ID)
		}
		sort.Strings(keys)
		k := keys[r.Intn(len(keys))]
		if ts := model.RefTargets(e.Refs[k]); len(ts) >= 2 && r.Intn(3) == 0 {
			// the same targets in another order: a different content for the feed (the stored value is a list)
			p := r.Perm(len(ts))
			a := make([]any, len(ts))
			same := true
			for i, j := range p {
				a[i] = ts[j]
				same = same && ts[j] == ts[i]
			}
			if !same {
				e.Refs[k] = a
				break
			}
		}
		var a []any
		for _, t := range model.RefTargets(e.Refs[k]) {
			switch r.Intn(4) {
			case 0: // drop
			case 1:
				a = append(a, t, t)
			default:
				a = append(a, t)
			}
		}
		if len(a) == 0 {
			a = append(a, model.RefTargets(e.Refs[k])[0])
		}
		e.Refs[k] = a
	default:
		return Entity(r, v, prev.ID)
	}
	return model.NormEnt(e)
}

// EqualLenUndelete returns (tombstone, revived) such that the stored JSON of
// both has the same length: `,"deleted":true` is 15 bytes, and so is a
// property `"nsX:kY":"zzzz"` of the right width once separators are counted.
// The exact width depends on the prefix the hub assigns, so several widths
// around the target are returned.
func EqualLenUndelete(r *rand.Rand, v *Vocab, id string) (model.Ent, []model.Ent) {
	base := model.Ent{ID: id, Props: map[string]any{}, Refs: map[string]any{}, Deleted: true}
	var out []model.Ent
	key := v.Props[r.Intn(len(v.Props))]
	for w := 0; w <= 6; w++ {
		e := model.Ent{ID: id, Props: map[string]any{key: strings.Repeat("z", w)}, Refs: map[string]any{}}
		out = append(out, e)
	}
	// array-valued variant `"ns3:k0":[1,"x"]`
	out = append(out, model.Ent{ID: id, Props: map[string]any{key: []any{float64(1), "x"}}, Refs: map[string]any{}})
	return base, out
}

func Clone(e model.Ent) model.Ent {
	b, _ := json.Marshal(e)
	var c model.Ent
	_ = json.Unmarshal(b, &c)
	if c.Props == nil {
		c.Props = map[string]any{}
	}
	if c.Refs == nil {
		c.Refs = map[string]any{}
	}
	return c
}

// Payload renders entities as a UDA JSON array with a context. If prefixed is
// true, ids/keys are written as CURIEs against local prefixes (and the id
// namespace as the default "_" prefix); otherwise as absolute URIs.
func Payload(ents []model.Ent, prefixed bool) []byte {
	ctx := map[string]any{"id": "@context", "namespaces": map[string]any{}}
	conv := func(u string) string { return u }
	if prefixed {
		ctx["namespaces"] = map[string]any{"_": NsA, "pp": NsP, "rr": NsR}
		conv = func(u string) string {
			switch {
			case strings.HasPrefix(u, NsA):
				return u[len(NsA):] // default prefix
			case strings.HasPrefix(u, NsP):
				return "pp:" + u[len(NsP):]
			case strings.HasPrefix(u, NsR):
				return "rr:" + u[len(NsR):]
			}
			return u
		}
	}
	arr := []any{ctx}
	for _, e := range ents {
		arr = append(arr, entJSON(e, conv))
	}
	b, err := json.Marshal(arr)
	if err != nil {
		panic(err)
	}
	return b
}

func entJSON(e model.Ent, conv func(string) string) map[string]any {
	m := map[string]any{"id": conv(e.ID)}
	props := map[string]any{}
	for k, v := range e.Props {
		props[conv(k)] = valJSON(v, conv)
	}
	refs := map[string]any{}
	for k, v := range e.Refs {
		switch t := v.(type) {
		case string:
			refs[conv(k)] = conv(t)
		case []any:
			a := make([]any, len(t))
			for i, x := range t {
				a[i] = conv(x.(string))
			}
			refs[conv(k)] = a
		}
	}
	m["props"] = props
	m["refs"] = refs
	if e.Deleted {
		m["deleted"] = true
	}
	return m
}

func valJSON(v any, conv func(string) string) any {
	switch t := v.(type) {
	case map[string]any:
		if _, ok := t["id"]; ok {
			ne := model.Ent{ID: t["id"].(string), Props: map[string]any{}, Refs: map[string]any{}}
			if p, ok := t["props"].(map[string]any); ok {
				ne.Props = p
			}
			if p, ok := t["refs"].(map[string]any); ok {
				ne.Refs = p
			}
			if d, ok := t["deleted"].(bool); ok {
				ne.Deleted = d
			}
			return entJSON(ne, conv)
		}
		return t
	case []any:
		a := make([]any, len(t))
		for i, x := range t {
			a[i] = valJSON(x, conv)
		}
		return a
	}
	return v
}

// TxnPayload renders a transaction document.
func TxnPayload(batches map[string][]model.Ent) []byte {
	var sb strings.Builder
	sb.WriteString(`{"@context":{"namespaces":{}}`)
	names := make([]string, 0, len(batches))
	for n := range batches {
		names = append(names, n)
	}
	sort.Strings(names)
	for _, n := range names {
		sb.WriteString(",")
		nb, _ := json.Marshal(n)
		sb.Write(nb)
		sb.WriteString(":")
		arr := make([]any, 0)
		for _, e := range batches[n] {
			arr = append(arr, entJSON(e, func(s string) string { return s }))
		}
		b, _ := json.Marshal(arr)
		sb.Write(b)
	}
	sb.WriteString("}")
	return []byte(sb.String())
}
