// Package out writes the JSONL event/verdict log of a vchild process.
package out

import (
	"bufio"
	"crypto/sha1"
	"encoding/hex"
	"encoding/json"
	"fmt"
	"os"
	"sort"
	"sync"
)

type W struct {
	mu    sync.Mutex
	f     *os.File
	bw    *bufio.Writer
	stats map[string]int64
	Sync  bool // flush after every line (needed when the process may be killed)
}

func Open(path string) (*W, error) {
	f, err := os.OpenFile(path, os.O_CREATE|os.O_WRONLY|os.O_APPEND, 0o644)
	if err != nil {
		return nil, err
	}
	return &W{f: f, bw: bufio.NewWriterSize(f, 1<<16), stats: map[string]int64{}, Sync: true}, nil
}

func (w *W) Emit(m map[string]any) {
	b, err := json.Marshal(m)
	if err != nil {
		b, _ = json.Marshal(map[string]any{"t": "error", "msg": "marshal: " + err.Error(), "raw": fmt.Sprintf("%v", m)})
	}
	w.mu.Lock()
	w.bw.Write(b)
	w.bw.WriteByte('\n')
	if w.Sync {
		w.bw.Flush()
	}
	w.mu.Unlock()
}

func Hash(v any) string {
	b, _ := json.Marshal(v)
	h := sha1.Sum(b)
	return hex.EncodeToString(h[:8])
}

// Case announces a case. ops is the full input (history / configuration).
func (w *W) Case(id string, seed int64, ops any, nontrivial bool, tags []string) {
	w.Emit(map[string]any{"t": "case", "id": id, "seed": seed, "ops": ops, "nontrivial": nontrivial, "tags": tags})
}

func (w *W) Begin(cas string, op int, what any) {
	w.Emit(map[string]any{"t": "begin", "case": cas, "op": op, "what": what})
}

func (w *W) Ack(cas string, op int, err error) {
	e := ""
	if err != nil {
		e = err.Error()
	}
	w.Emit(map[string]any{"t": "ack", "case": cas, "op": op, "err": e})
}

// Viol reports a violation witnessed by an in-child monitor.
func (w *W) Viol(cas, prop, class, msg string, expected, observed any, extra map[string]any) {
	m := map[string]any{"t": "viol", "case": cas, "prop": prop, "class": class, "msg": msg, "expected": expected, "observed": observed}
	for k, v := range extra {
		m[k] = v
	}
	w.Emit(m)
}

func (w *W) Inconclusive(cas, prop, why string) {
	w.Emit(map[string]any{"t": "inconclusive", "case": cas, "prop": prop, "why": why})
}

func (w *W) Ev(m map[string]any) { m["t"] = "ev"; w.Emit(m) }

// Stat accumulates a counter that is dumped by Close.
func (w *W) Stat(k string, d int64) {
	w.mu.Lock()
	w.stats[k] += d
	w.mu.Unlock()
}

// StatMax keeps the maximum.
func (w *W) StatMax(k string, v int64) {
	w.mu.Lock()
	if v > w.stats[k] {
		w.stats[k] = v
	}
	w.mu.Unlock()
}

func (w *W) FlushStats() {
	w.mu.Lock()
	keys := make([]string, 0, len(w.stats))
	for k := range w.stats {
		keys = append(keys, k)
	}
	sort.Strings(keys)
	st := w.stats
	w.stats = map[string]int64{}
	w.mu.Unlock()
	for _, k := range keys {
		w.Emit(map[string]any{"t": "stat", "k": k, "v": st[k]})
	}
}

func (w *W) Close() {
	w.FlushStats()
	w.Emit(map[string]any{"t": "done"})
	w.mu.Lock()
	w.bw.Flush()
	w.f.Close()
	w.mu.Unlock()
}
