// Package obs takes canonical observations of the hub's read APIs.
package obs

import (
	"encoding/json"
	"fmt"
	"sort"
	"strings"

	"github.com/mimiro-io/datahub/internal/server"
	"github.com/mimiro-io/datahub/internal/verif/model"
)

// Rec is an observed entity in canonical (expanded) form.
type Rec struct {
	model.Ent
	Recorded   uint64 `json:"recorded,omitempty"`
	InternalID uint64 `json:"internalId,omitempty"`
}

func expand(st *server.Store, c string) string {
	if strings.HasPrefix(c, "http://") || strings.HasPrefix(c, "https://") {
		return c
	}
	u, err := st.ExpandCurie(c)
	if err != nil {
		return "!unexpandable:" + c
	}
	return u
}

func canonVal(st *server.Store, v any) any {
	switch t := v.(type) {
	case map[string]any:
		_, hasProps := t["props"]
		_, hasRefs := t["refs"]
		if hasProps || hasRefs {
			r := map[string]any{}
			if id, ok := t["id"].(string); ok {
				r["id"] = expand(st, id)
			}
			props := map[string]any{}
			if p, ok := t["props"].(map[string]any); ok {
				for k, x := range p {
					props[expand(st, k)] = canonVal(st, x)
				}
			}
			r["props"] = props
			refs := map[string]any{}
			if p, ok := t["refs"].(map[string]any); ok {
				for k, x := range p {
					refs[expand(st, k)] = canonRef(st, x)
				}
			}
			r["refs"] = refs
			if d, ok := t["deleted"].(bool); ok && d {
				r["deleted"] = true
			}
			return r
		}
		return t
	case []any:
		a := make([]any, len(t))
		for i, x := range t {
			a[i] = canonVal(st, x)
		}
		return a
	}
	return v
}

func canonRef(st *server.Store, v any) any {
	switch t := v.(type) {
	case string:
		return expand(st, t)
	case []any:
		a := make([]any, len(t))
		for i, x := range t {
			if s, ok := x.(string); ok {
				a[i] = expand(st, s)
			} else {
				a[i] = x
			}
		}
		return a
	case []string:
		a := make([]any, len(t))
		for i, x := range t {
			a[i] = expand(st, x)
		}
		return a
	}
	return v
}

// Canon converts a server entity to canonical form (through JSON, as a client sees it).
func Canon(st *server.Store, e *server.Entity) Rec {
	b, _ := json.Marshal(e)
	var m map[string]any
	_ = json.Unmarshal(b, &m)
	r := Rec{Ent: model.Ent{Props: map[string]any{}, Refs: map[string]any{}}}
	if id, ok := m["id"].(string); ok {
		r.ID = expand(st, id)
	}
	if p, ok := m["props"].(map[string]any); ok {
		for k, x := range p {
			r.Props[expand(st, k)] = canonVal(st, x)
		}
	}
	if p, ok := m["refs"].(map[string]any); ok {
		for k, x := range p {
			r.Refs[expand(st, k)] = canonRef(st, x)
		}
	}
	r.Deleted = e.IsDeleted
	r.Recorded = e.Recorded
	r.InternalID = e.InternalID
	return r
}

// Listing reads all entities of ds with the given page size (0 = one call).
// It follows continuation tokens to the end and one call beyond it.
func Listing(st *server.Store, ds *server.Dataset, page int) ([]Rec, error) {
	var out []Rec
	from := ""
	count := -1
	if page > 0 {
		count = page
	}
	for i := 0; i < 100000; i++ {
		res, err := ds.GetEntities(from, count)
		if err != nil {
			return out, err
		}
		for _, e := range res.Entities {
			out = append(out, Canon(st, e))
		}
		if page <= 0 {
			// one more call from the token must give nothing
			res2, err := ds.GetEntities(res.ContinuationToken, count)
			if err != nil {
				return out, err
			}
			if res.ContinuationToken != "" && len(res2.Entities) != 0 {
				return out, fmt.Errorf("listing: call after the end returned %d entities", len(res2.Entities))
			}
			return out, nil
		}
		if len(res.Entities) == 0 {
			return out, nil
		}
		from = res.ContinuationToken
	}
	return out, fmt.Errorf("listing did not terminate")
}

// Feed reads the change feed from `since` following tokens with the given
// limit sequence (cycled; 0 = unlimited) until a call returns nothing.
func Feed(st *server.Store, ds *server.Dataset, since uint64, limits []int, latestOnly bool) ([]Rec, uint64, error) {
	var out []Rec
	tok := since
	for i := 0; i < 100000; i++ {
		lim := 0
		if len(limits) > 0 {
			lim = limits[i%len(limits)]
		}
		ch, err := ds.GetChanges(tok, lim, latestOnly)
		if err != nil {
			return out, tok, err
		}
		for _, e := range ch.Entities {
			out = append(out, Canon(st, e))
		}
		if ch.NextToken == tok && len(ch.Entities) == 0 {
			return out, tok, nil
		}
		if ch.NextToken < tok {
			return out, tok, fmt.Errorf("feed token went backwards: %d -> %d", tok, ch.NextToken)
		}
		tok = ch.NextToken
	}
	return out, tok, fmt.Errorf("feed did not terminate")
}

// Lookup performs Store.GetEntity; nil result means "nothing".
func Lookup(st *server.Store, uri string, scope []string) (*Rec, error) {
	e, err := st.GetEntity(uri, scope, true)
	if err != nil {
		return nil, err
	}
	if e == nil {
		return nil, nil
	}
	r := Canon(st, e)
	return &r, nil
}

// RelResult is the outcome of a (possibly paged) relation query.
type RelResult struct {
	Pairs  []model.Pair       // in the order returned, duplicates kept
	Bodies map[model.Pair]Rec // related entity body per pair (last seen)
	Calls  int
}

func (r RelResult) Set() map[model.Pair]bool {
	m := map[model.Pair]bool{}
	for _, p := range r.Pairs {
		m[p] = true
	}
	return m
}

// DupPairs returns the pairs that were returned more than once.
func (r RelResult) DupPairs() []model.Pair {
	seen := map[model.Pair]int{}
	for _, p := range r.Pairs {
		seen[p]++
	}
	var d []model.Pair
	for p, n := range seen {
		if n > 1 {
			d = append(d, p)
		}
	}
	return d
}

func (r RelResult) Dups() []string {
	seen := map[model.Pair]int{}
	for _, p := range r.Pairs {
		seen[p]++
	}
	var d []string
	for p, n := range seen {
		if n > 1 {
			d = append(d, fmt.Sprintf("%s x%d", p, n))
		}
	}
	sort.Strings(d)
	return d
}

// Related runs a relation query "now" with limit (0 = unlimited), following
// continuations to the end.
func Related(st *server.Store, start, pred string, inverse bool, scope []string, limit int) (RelResult, error) {
	res := RelResult{Bodies: map[model.Pair]Rec{}}
	q, err := st.GetManyRelatedEntitiesBatch([]string{start}, pred, inverse, scope, limit, true)
	if err != nil {
		return res, err
	}
	return followRel(st, q, limit, res)
}

// RelatedAt runs the query pinned at `at`.
func RelatedAt(st *server.Store, start, pred string, inverse bool, scope []string, limit int, at int64) (RelResult, error) {
	res := RelResult{Bodies: map[model.Pair]Rec{}}
	from, err := st.ToRelatedFrom([]string{start}, pred, inverse, scope, at)
	if err != nil {
		return res, err
	}
	for _, f := range from {
		if f == nil {
			return res, nil
		}
	}
	q, err := st.GetManyRelatedEntitiesAtTime(from, limit, true)
	if err != nil {
		return res, err
	}
	return followRel(st, q, limit, res)
}

func followRel(st *server.Store, q server.RelatedEntitiesQueryResult, limit int, res RelResult) (RelResult, error) {
	for i := 0; i < 10000; i++ {
		res.Calls++
		for _, r := range q.Relations {
			other := ""
			if r.RelatedEntity != nil {
				other = expand(st, r.RelatedEntity.ID)
			}
			p := model.Pair{Pred: expand(st, r.PredicateURI), Other: other}
			res.Pairs = append(res.Pairs, p)
			if r.RelatedEntity != nil {
				res.Bodies[p] = Canon(st, r.RelatedEntity)
			}
		}
		if len(q.Cont) == 0 {
			return res, nil
		}
		var err error
		q, err = st.GetManyRelatedEntitiesAtTime(q.Cont, limit, true)
		if err != nil {
			return res, err
		}
	}
	return res, fmt.Errorf("relation paging did not terminate")
}
