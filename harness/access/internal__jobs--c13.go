//go:build verif

package jobs

// Accessor for the C13 monitor: the identifier compaction the HTTP transform applies to the entities a remote
// transform service hands back (SupportContext=true). Exposes only.

import (
	egdm "github.com/mimiro-io/entity-graph-data-model"

	"github.com/mimiro-io/datahub/internal/server"
)

// VerifShimIdentifier compacts a full URI through the namespace shim of the HTTP transform's response path.
func VerifShimIdentifier(nsm *server.NamespaceManager, uri string) (string, error) {
	shim := &EgdmNamespaceManagerShim{nsManager: nsm, localContext: egdm.NewNamespaceContext()}
	return shim.AssertPrefixedIdentifierFromURI(uri)
}
