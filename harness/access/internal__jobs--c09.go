//go:build verif

package jobs

import (
	"context"

	"github.com/mimiro-io/datahub/internal/server"
)

// VerifC09Sink exposes the unexported datasetSink (the sink of a job that
// writes into a dataset) to the verification harness. Expose only: every
// method forwards to the sink method the pipelines call.
type VerifC09Sink struct {
	s *datasetSink
	r *Runner
}

func VerifC09NewDatasetSink(name string, store *server.Store, dsm *server.DsManager, eb server.EventBus) *VerifC09Sink {
	return &VerifC09Sink{
		s: &datasetSink{DatasetName: name, Store: store, DatasetManager: dsm},
		r: &Runner{store: store, eventBus: eb},
	}
}

// StartFullSync is what FullSyncPipeline.sync calls before the first batch.
func (v *VerifC09Sink) StartFullSync() error { return v.s.startFullSync(v.r) }

// ProcessEntities is what every pipeline calls per batch.
func (v *VerifC09Sink) ProcessEntities(entities []*server.Entity) error {
	return v.s.processEntities(v.r, entities)
}

// EndFullSync is what FullSyncPipeline.sync calls after the last batch.
func (v *VerifC09Sink) EndFullSync(ctx context.Context) error { return v.s.endFullSync(ctx, v.r) }
