//go:build verif

package web

import "github.com/labstack/echo/v4"

// VerifC16Echo exposes the echo instance (router + all middlewares) so that
// the C15/C16 monitors can send requests with e.ServeHTTP in-process.
func (ws *WebService) VerifC16Echo() *echo.Echo { return ws.echo }
