//go:build verif

package jobs

// Accessor for the C11 monitor (run-slot conservation). Only exposes state of the
// raffle; contains no logic of the system under test.

// VerifRunning is one entry of raffle.runningJobs.
type VerifRunning struct {
	ID     string
	IsFull bool
	Event  bool
}

// VerifRaffleSnapshot calls f with the remaining incremental / fullsync tickets and
// the running-jobs map, all read inside one critical section of raffle.runningMu.
// f must not call anything that borrows or returns a ticket.
func (s *Scheduler) VerifRaffleSnapshot(f func(ticketsIncr, ticketsFull int, running []VerifRunning)) {
	r := s.Runner.raffle
	r.runningMu.Lock()
	defer r.runningMu.Unlock()
	rs := make([]VerifRunning, 0, len(r.runningJobs))
	for id, st := range r.runningJobs {
		rs = append(rs, VerifRunning{ID: id, IsFull: st.isFull, Event: st.isEvent})
	}
	f(r.ticketsIncr, r.ticketsFull, rs)
}
