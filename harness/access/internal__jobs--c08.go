//go:build verif

package jobs

// Accessor for the C08 / C18 monitors: hands out the job objects that the
// scheduler builds from a configuration (exactly what AddJob schedules with
// the cron / what the package's own tests run), so that a run can be issued
// synchronously and its end is an event, not a timing guess. Exposes only.

// VerifC08Job is a handle on one triggered job of a configuration.
type VerifC08Job struct{ j *job }

// VerifC08Jobs returns one handle per trigger of cfg, in trigger order.
func (s *Scheduler) VerifC08Jobs(cfg *JobConfiguration) ([]*VerifC08Job, error) {
	js, err := s.toTriggeredJobs(cfg)
	if err != nil {
		return nil, err
	}
	r := make([]*VerifC08Job, 0, len(js))
	for _, j := range js {
		r = append(r, &VerifC08Job{j: j})
	}
	return r, nil
}

// Run runs the job the way the cron entry does (job.Run), synchronously.
func (v *VerifC08Job) Run() { v.j.Run() }

// IsFullSync tells which trigger type the handle belongs to.
func (v *VerifC08Job) IsFullSync() bool { return v.j.pipeline.isFullSync() }

// VerifC08LastRun returns the recorded outcome of the last run of a job id.
func (s *Scheduler) VerifC08LastRun(id string) (found bool, lastError string, processed int) {
	for _, h := range s.GetJobHistory() {
		if h.ID == id {
			return true, h.LastError, h.Processed
		}
	}
	return false, "", 0
}
