//go:build verif

package server

import "github.com/dgraph-io/badger/v4"

// VerifDB exposes the badger handle for raw key scans (read-only use by the harness).
func (s *Store) VerifDB() *badger.DB { return s.database }

// VerifDeletedDatasets returns a copy of the deleted-dataset id set.
func (s *Store) VerifDeletedDatasets() map[uint32]bool {
	r := map[uint32]bool{}
	for k, v := range s.deletedDatasets {
		r[k] = v
	}
	return r
}

// VerifNextDatasetID exposes the next internal dataset id.
func (s *Store) VerifNextDatasetID() uint32 { return s.nextDatasetID }
