//go:build verif

package dataset

// VerifCompactSync runs deduplicating compaction synchronously with the given
// flush threshold (0 = the strategy's default) and returns the strategy's stats.
func (c *CompactionWorker) VerifCompactSync(datasetID string, flushAfter int) (map[string]int, error) {
	strat := DeduplicationStrategy().(*deduplicationStrategy)
	strat.flushAfter = flushAfter
	err := c.compact(datasetID, strat)
	return strat.stats(), err
}
