//go:build verif

package datahub

// Accessors for the C15/C16 monitors: expose parts of a DatahubInstance built
// by NewDatahubInstance. No logic of the system under test lives here.

import (
	"github.com/labstack/echo/v4"

	"github.com/mimiro-io/datahub/internal/security"
	"github.com/mimiro-io/datahub/internal/server"
)

func (dhi *DatahubInstance) VerifC16Echo() *echo.Echo { return dhi.webService.VerifC16Echo() }

func (dhi *DatahubInstance) VerifC16Store() *server.Store { return dhi.store }

func (dhi *DatahubInstance) VerifC16DsManager() *server.DsManager { return dhi.dsManager }

func (dhi *DatahubInstance) VerifC16SecurityCore() *security.ServiceCore {
	return dhi.securityServiceCore
}
