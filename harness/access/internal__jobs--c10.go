//go:build verif

package jobs

import (
	"github.com/bamzi/jobrunner"
)

// Accessors for the C10 / C17 monitors. They only expose: the job objects the
// scheduler itself builds for a configuration's triggers (with the error
// handlers of the trigger attached, which the manual RunJob path drops), and
// the way cron executes such an object.

// VerifC10Job is an opaque handle to a trigger's job object.
type VerifC10Job struct{ j *job }

// VerifC10Jobs returns the job objects of cfg's triggers exactly as AddJob
// builds them (Scheduler.toTriggeredJobs). cfg must have passed AddJob (which
// verifies it and initialises the error handlers) before.
func (s *Scheduler) VerifC10Jobs(cfg *JobConfiguration) ([]*VerifC10Job, error) {
	js, err := s.toTriggeredJobs(cfg)
	if err != nil {
		return nil, err
	}
	r := make([]*VerifC10Job, len(js))
	for i, j := range js {
		r[i] = &VerifC10Job{j: j}
	}
	return r, nil
}

// RunAsCron executes the job the way the cron scheduler does
// (Runner.schedule wraps the job in jobrunner.New(job); cron calls its Run).
// A panic of the job is re-raised by jobrunner (log.Panic) and reaches the caller.
func (v *VerifC10Job) RunAsCron() { jobrunner.New(v.j).Run() }

// ID returns the job id.
func (v *VerifC10Job) ID() string { return v.j.id }

// IsFullSync tells the pipeline type.
func (v *VerifC10Job) IsFullSync() bool { return v.j.pipeline.isFullSync() }
