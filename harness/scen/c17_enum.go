package scen

// c17enum: fault enumeration for C17 (log error handler).
//
// A real job DatasetSource -> [JavascriptTransform] -> HttpDatasetSink with
// "onError":[{"errorHandler":"log","maxItems":M}] on a cron trigger is built by
// the scheduler from JSON. The sink is a loopback HTTP server scripted to reject
// every request that contains one of the failing entities (permanently, or only
// the first t times = transient). The monitor decides from two recorded event
// streams that share one logical clock: the sink's accept/reject log and the
// handler's log lines (recording zap core), plus the stored job result.

import (
	"encoding/json"
	"fmt"
	"io"
	"math/rand"
	"net/http"
	"net/http/httptest"
	"os"
	"sort"
	"strconv"
	"strings"
	"sync"
	"time"

	"github.com/mimiro-io/datahub/internal/verif/gen"
	"github.com/mimiro-io/datahub/internal/verif/model"
)

func init() { Register("c17enum", c17Enum) }

type c17Case struct {
	K         int    `json:"k"`         // source entities
	B         int    `json:"b"`         // batch size
	Fail      []int  `json:"fail"`      // indices whose presence makes the sink reject a request
	Budget    int    `json:"budget"`    // 0 = permanent, t>0 = each failing entity poisons only the first t requests it is in
	MaxItems  int    `json:"maxItems"`  // log handler maxItems (0 = unlimited)
	Kind      string `json:"kind"`      // incremental | fullsync
	Trigger   string `json:"trigger"`   // direct = executed as cron executes it; cron = real "@every 1s" schedule
	Transform bool   `json:"transform"` // JS identity transform in the pipeline
	Sampled   bool   `json:"sampled,omitempty"`
	// Refire: the trigger fires again on the SAME job object (what a cron tick / on-change event /
	// reRun timer does) while the run waits for the sink's answer to its r-th request, for every r
	// listed (1-based, per run); -r means "at every request from the r-th on". The extra execution
	// gets no ticket and must be skipped without any effect on the run in progress.
	Refire []int `json:"refire,omitempty"`
	// Runs > 1: the SAME job object is executed Runs times one after the other (what the next cron
	// ticks do); the sink rejects every request during the first FailRuns executions and is healthy afterwards.
	Runs     int `json:"runs,omitempty"`
	FailRuns int `json:"failRuns,omitempty"`
	// Trig2 != "": the job has a SECOND trigger of the same job type ("cron" with another schedule, or
	// "onchange") whose log handler has MaxItems2. First says which trigger's job object is executed first
	// (1 or 2), the other one is executed right after it. Each execution has to obey its own trigger's handler.
	Trig2     string `json:"trig2,omitempty"`
	MaxItems2 int    `json:"maxItems2,omitempty"`
	First     int    `json:"first,omitempty"`
}

func c17Subset(mask, k int) []int {
	f := []int{}
	for i := 0; i < k; i++ {
		if mask&(1<<i) != 0 {
			f = append(f, i)
		}
	}
	return f
}

var c17MaxItems = []int{0, 1, 2, 3, 9}

// c17EnumList is the deterministic part of the stage's work list (shared by all children).
func c17EnumList(tier string, transform bool) []c17Case {
	kmax := 5
	if tier == "thorough" {
		kmax = 8
	}
	if transform {
		kmax -= 2
	}
	var out []c17Case
	i := 0
	add := func(c c17Case) {
		c.Kind = "incremental"
		c.Trigger = "direct"
		c.Transform = transform
		if i%7 == 6 {
			c.Kind = "fullsync"
		}
		i++
		out = append(out, c)
	}
	for k := 1; k <= kmax; k++ {
		for mask := 0; mask < 1<<k; mask++ {
			f := c17Subset(mask, k)
			// one batch holding everything: all subsets x all maxItems, permanent
			for _, m := range c17MaxItems {
				add(c17Case{K: k, B: k, Fail: f, MaxItems: m})
			}
			// several batches
			for b := 1; b <= 3 && b < k; b++ {
				for _, m := range c17MaxItems {
					add(c17Case{K: k, B: b, Fail: f, MaxItems: m})
				}
			}
			// transient rejections
			if mask != 0 {
				for _, t := range []int{1, 2} {
					for _, m := range []int{0, 1} {
						add(c17Case{K: k, B: k, Fail: f, Budget: t, MaxItems: m})
					}
				}
			}
		}
	}
	// the trigger fires again while a run that has already rejected entities is in progress
	if !transform {
		for k := 2; k <= kmax; k++ {
			for mask := 1; mask < 1<<k; mask++ {
				f := c17Subset(mask, k)
				for _, b := range []int{1, 2, k} {
					if b > k || (b == 2 && k == 2) {
						continue
					}
					for _, m := range []int{0, 2} {
						for _, rf := range [][]int{{2}, {3}, {-2}} {
							c := c17Case{K: k, B: b, Fail: f, MaxItems: m, Refire: rf, Kind: "incremental", Trigger: "direct"}
							out = append(out, c)
						}
					}
				}
			}
		}
	}
	// failing-then-clean executions of one job object: sink down during the first execution(s), healthy afterwards;
	// with and without a transform in the pipeline (the transform wrapper and the sink wrapper are re-used by later executions)
	if !transform {
		ks := []int{3, 5}
		if kmax > 5 {
			ks = append(ks, kmax)
		}
		for _, k := range ks {
			for _, b := range []int{1, 2, k} {
				for _, m := range []int{0, 1, 2} {
					for _, fr := range []int{1, 2} {
						for _, tr := range []bool{false, true} {
							for _, kind := range []string{"incremental", "fullsync"} {
								out = append(out, c17Case{K: k, B: b, Fail: []int{}, MaxItems: m, Kind: kind, Trigger: "direct", Transform: tr, Runs: fr + 2, FailRuns: fr})
							}
						}
					}
				}
			}
		}
	}
	// two triggers of the same job type with different log handlers; the second one runs after the first
	if !transform {
		x := 0
		for _, k := range []int{3, 5} {
			for mask := 1; mask < 1<<k; mask++ {
				f := c17Subset(mask, k)
				if len(f) < 2 {
					continue
				}
				for _, b := range []int{2, k} {
					if f[0] >= b {
						continue // the first rejection has to fall into the first batch: then both executions read the whole source
					}
					for _, mm := range [][2]int{{1, 0}, {0, 1}, {1, 3}, {2, 0}} {
						for _, first := range []int{1, 2} {
							firstM := mm[first-1]
							kind := "fullsync"
							inFirst := 0
							for _, fi := range f {
								if fi < b {
									inFirst++
								}
							}
							if firstM > 0 && inFirst >= firstM && x%2 == 0 {
								kind = "incremental" // the first execution stops in the first batch and leaves the token where it was
							}
							t2 := "cron"
							if x%3 == 0 {
								t2 = "onchange"
							}
							x++
							out = append(out, c17Case{K: k, B: b, Fail: f, MaxItems: mm[0], Kind: kind, Trigger: "direct", Trig2: t2, MaxItems2: mm[1], First: first})
						}
					}
				}
			}
		}
	}
	return out
}

func c17WorkList(ctx *Ctx) []c17Case {
	if ctx.Replay != "" {
		b, err := os.ReadFile(ctx.Replay)
		if err != nil {
			return nil
		}
		var rp struct {
			Ops c17Case `json:"ops"`
		}
		if json.Unmarshal(b, &rp) != nil {
			return nil
		}
		return []c17Case{rp.Ops}
	}
	transform := ctx.Arg("transform", "") != ""
	idx, n := c10ChildIndex(ctx)
	var mine []c17Case
	for i, c := range c17EnumList(ctx.Tier, transform) {
		if i%n == idx {
			mine = append(mine, c)
		}
	}
	r := rand.New(rand.NewSource(ctx.Seed))
	ncron, _ := strconv.Atoi(ctx.Arg("cron", "0"))
	for i := 0; i < ctx.Cases+ncron; i++ {
		k := 6 + r.Intn(35)
		if transform {
			k = 3 + r.Intn(12)
		}
		var b int
		switch r.Intn(4) {
		case 0:
			b = 1 + r.Intn(3)
		case 1:
			b = k + r.Intn(2)
		default:
			b = 1 + r.Intn(k)
		}
		dens := []float64{0.05, 0.15, 0.3, 0.6, 1.0}[r.Intn(5)]
		f := []int{}
		for j := 0; j < k; j++ {
			if r.Float64() < dens {
				f = append(f, j)
			}
		}
		m := []int{0, 0, 1, 2, 3, 9, len(f), len(f) + 1}[r.Intn(8)]
		c := c17Case{K: k, B: b, Fail: f, MaxItems: m, Budget: []int{0, 0, 0, 1, 2, 3}[r.Intn(6)], Kind: "incremental", Trigger: "direct", Transform: transform, Sampled: true}
		if r.Intn(5) == 0 {
			c.Kind = "fullsync"
		}
		if i >= ctx.Cases {
			c.Trigger = "cron"
			if c.K > 12 {
				c.K = 12
				c.Fail = c17Clip(c.Fail, c.K)
				if c.B > c.K+1 {
					c.B = c.K
				}
			}
		}
		mine = append(mine, c)
	}
	return mine
}

func c17Clip(f []int, k int) []int {
	o := []int{}
	for _, x := range f {
		if x < k {
			o = append(o, x)
		}
	}
	return o
}

// ---------- scripted sink

type c17Ev struct {
	Seq  int64  `json:"seq"`
	Ns   int64  `json:"ns"`
	Kind string `json:"k"` // start | sink | handler | end
	IDs  []int  `json:"ids,omitempty"`
	OK   bool   `json:"ok,omitempty"`
	Msg  string `json:"msg,omitempty"`
}

type c17Script struct {
	Fail     map[int]int // idx -> remaining poisoned requests (<0 = forever)
	FailRuns int         // reject every request while the run number is <= FailRuns
	run      int
	block    bool // block one request until released …
	blockAt  int  // … the blockAt-th request of the current run (0/1 = the first)
	reached  chan struct{}
	release  chan struct{}
	reqNo    int // requests seen in the current run
	refire   []int
	onRefire func() // called (synchronously, while the request is pending) at the refire points
	inRefire bool
	refired  int
	events   []c17Ev
}

func (sc *c17Script) refireNow() bool {
	for _, r := range sc.refire {
		if r == sc.reqNo || (r < 0 && sc.reqNo >= -r) {
			return true
		}
	}
	return false
}

type c17Sink struct {
	mu      sync.Mutex
	srv     *httptest.Server
	scripts map[string]*c17Script
	start   time.Time
}

func c17NewSink() *c17Sink {
	s := &c17Sink{scripts: map[string]*c17Script{}, start: time.Now()}
	s.srv = httptest.NewServer(http.HandlerFunc(s.handle))
	return s
}

func (s *c17Sink) handle(w http.ResponseWriter, r *http.Request) {
	job := strings.TrimPrefix(r.URL.Path, "/sink/")
	body, _ := io.ReadAll(r.Body)
	var arr []map[string]any
	if err := json.Unmarshal(body, &arr); err != nil {
		w.WriteHeader(422)
		return
	}
	var ids []int
	for _, m := range arr {
		id, _ := m["id"].(string)
		if id == "@context" {
			continue
		}
		n, err := strconv.Atoi(strings.TrimPrefix(c10Local(id), "e"))
		if err != nil {
			n = -1
		}
		ids = append(ids, n)
	}
	s.mu.Lock()
	sc := s.scripts[job]
	if sc == nil {
		s.mu.Unlock()
		w.WriteHeader(404)
		return
	}
	sc.reqNo++
	if sc.onRefire != nil && !sc.inRefire && sc.refireNow() {
		sc.inRefire = true
		f := sc.onRefire
		s.mu.Unlock()
		f()
		s.mu.Lock()
		sc.inRefire = false
		sc.refired++
	}
	if sc.block && sc.reqNo >= sc.blockAt {
		sc.block = false
		reached, release := sc.reached, sc.release
		s.mu.Unlock()
		close(reached)
		<-release
		s.mu.Lock()
	}
	ok := true
	if sc.run <= sc.FailRuns {
		ok = false
	}
	for _, i := range ids {
		if b, bad := sc.Fail[i]; bad && b != 0 {
			ok = false
			if b > 0 {
				sc.Fail[i] = b - 1
			}
		}
	}
	sc.events = append(sc.events, c17Ev{Seq: c10Tick(), Ns: int64(time.Since(s.start)), Kind: "sink", IDs: ids, OK: ok})
	s.mu.Unlock()
	if ok {
		w.WriteHeader(200)
		return
	}
	w.WriteHeader(400) // 4xx: the sink's HTTP client retries 5xx by itself (3 x 2 s)
	_, _ = w.Write([]byte("scripted reject"))
}

func (s *c17Sink) install(job string, sc *c17Script) {
	s.mu.Lock()
	s.scripts[job] = sc
	s.mu.Unlock()
}

func (s *c17Sink) remove(job string) []c17Ev {
	s.mu.Lock()
	defer s.mu.Unlock()
	sc := s.scripts[job]
	delete(s.scripts, job)
	if sc == nil {
		return nil
	}
	return sc.events
}

// noteStart is called (from the recording zap core) when the hub logs the start of a run of job.
func (s *c17Sink) noteStart(job string) {
	s.mu.Lock()
	if sc := s.scripts[job]; sc != nil {
		sc.run++
		sc.reqNo = 0
	}
	s.mu.Unlock()
}

// ---------- state

type c17State struct {
	trig2 map[string]any // extra trigger put into the next job configuration (nil = none)
	ctx   *Ctx
	h     *c10Hub
	sink  *c17Sink
	srcs  map[int]bool
}

func c17Open(ctx *Ctx) *c17State {
	c10SetMaxStack()
	dir := ctx.NewDir("c17")
	st := &c17State{ctx: ctx, srcs: map[int]bool{}}
	st.sink = c17NewSink()
	st.h = c10OpenHub(dir, nil)
	st.h.Log.OnRec = func(rec *c10LogRec) {
		if strings.HasPrefix(rec.Msg, "Starting ") {
			if id, ok := rec.Fields["job.jobId"].(string); ok {
				st.sink.noteStart(id)
			}
		}
	}
	return st
}

func (st *c17State) Close() {
	st.h.Close()
	st.sink.srv.Close()
	_ = os.RemoveAll(st.h.Core.Env.StoreLocation)
}

func (st *c17State) ensureSource(k int) (string, error) {
	name := "c17src" + strconv.Itoa(k)
	if st.srcs[k] {
		return name, nil
	}
	if _, err := st.h.Core.Dsm.CreateDataset(name, nil); err != nil {
		return name, err
	}
	var batch []model.Ent
	for i := 0; i < k; i++ {
		batch = append(batch, model.Ent{ID: gen.NsA + "e" + strconv.Itoa(i),
			Props: map[string]any{gen.NsP + "idx": float64(i), gen.NsP + "name": "n" + strconv.Itoa(i)},
			Refs:  map[string]any{gen.NsR + "next": gen.NsA + "e" + strconv.Itoa((i+1)%k)}})
		if len(batch) == 9 || i == k-1 {
			if err := StoreBatch(st.h.Core, name, batch, false); err != nil {
				return name, err
			}
			batch = nil
		}
	}
	st.srcs[k] = true
	return name, nil
}

const c17IdentityJS = `function transform_entities(entities) { return entities; }`

func (st *c17State) jobJSON(id, src, kind string, b int, transform bool, schedule string, paused bool, onError []map[string]any) string {
	trig := map[string]any{"triggerType": "cron", "jobType": kind, "schedule": schedule}
	if onError != nil {
		trig["onError"] = onError
	}
	trigs := []any{trig}
	if st.trig2 != nil {
		trigs = append(trigs, st.trig2)
	}
	cfg := map[string]any{
		"id": id, "title": id, "paused": paused, "batchSize": b,
		"triggers": trigs,
		"source":   map[string]any{"Type": "DatasetSource", "Name": src},
		"sink":     map[string]any{"Type": "HttpDatasetSink", "Url": st.sink.srv.URL + "/sink/" + id},
	}
	if transform {
		cfg["transform"] = map[string]any{"Type": "JavascriptTransform", "Code": c10B64(c17IdentityJS)}
	}
	bs, _ := json.Marshal(cfg)
	return string(bs)
}

// c17Merge merges sink events and the relevant log lines of job into one stream ordered by the logical clock.
func c17Merge(job string, sinkEv []c17Ev, logs []c10LogRec) []c17Ev {
	evs := append([]c17Ev(nil), sinkEv...)
	for _, l := range logs {
		jid, _ := l.Fields["job.jobId"].(string)
		switch {
		case strings.HasPrefix(l.Msg, "Starting ") && jid == job:
			evs = append(evs, c17Ev{Seq: l.Seq, Ns: l.Ns, Kind: "start", Msg: l.Msg})
		case strings.HasPrefix(l.Msg, "entity ") && strings.Contains(l.Msg, " failed to process") && jid == job:
			tok := strings.TrimPrefix(l.Msg, "entity ")
			if i := strings.Index(tok, " "); i >= 0 {
				tok = tok[:i]
			}
			n, err := strconv.Atoi(strings.TrimPrefix(c10Local(tok), "e"))
			if err != nil {
				n = -1
			}
			evs = append(evs, c17Ev{Seq: l.Seq, Ns: l.Ns, Kind: "handler", IDs: []int{n}, Msg: c10Trunc(l.Msg, 80)})
		case jid == job && (strings.HasPrefix(l.Msg, "Finished ") || strings.HasPrefix(l.Msg, "Failed running task") || strings.Contains(l.Msg, "was terminated")):
			st := "finished"
			if strings.HasPrefix(l.Msg, "Failed") {
				st = "failed"
			} else if strings.Contains(l.Msg, "was terminated") {
				st = "terminated"
			}
			evs = append(evs, c17Ev{Seq: l.Seq, Ns: l.Ns, Kind: "end", Msg: st})
			if em, _ := l.Fields["job.executionErrorMessage"].(string); st == "failed" && em == "got job interrupt" {
				// the pipeline stopped because its context was cancelled, i.e. the kill took effect,
				// whatever the hub then made of that error
				evs = append(evs, c17Ev{Seq: l.Seq, Ns: l.Ns, Kind: "end", Msg: "interrupted"})
			}
		case strings.Contains(l.Msg, "completed, but errors occurred") && c17HasValue(l.Fields, job):
			// handleJobError logs title and id as a key/value pair (Warnw with a format string)
			evs = append(evs, c17Ev{Seq: l.Seq, Ns: l.Ns, Kind: "end", Msg: "failed-late"})
		case strings.HasPrefix(l.Msg, "re-running job") && strings.Contains(l.Msg, "("+job+")"):
			evs = append(evs, c17Ev{Seq: l.Seq, Ns: l.Ns, Kind: "rerun-log", Msg: l.Msg})
		}
	}
	sort.Slice(evs, func(i, j int) bool { return evs[i].Seq < evs[j].Seq })
	return evs
}

// c17Runs splits the merged stream at the start markers.
func c17Runs(evs []c17Ev) [][]c17Ev {
	var runs [][]c17Ev
	for _, e := range evs {
		if e.Kind == "start" {
			runs = append(runs, []c17Ev{e})
			continue
		}
		if len(runs) == 0 {
			runs = append(runs, nil) // events before any start marker
		}
		runs[len(runs)-1] = append(runs[len(runs)-1], e)
	}
	return runs
}

type c17RunObs struct {
	Acc, RejSingle, Rep map[int]int
	NRep                int
	SinkAfterStop       int // sink requests after the maxItems-th report
	Requests            int
	Rejected            int
	End                 string
}

func c17Observe(run []c17Ev, maxItems int) c17RunObs {
	o := c17RunObs{Acc: map[int]int{}, RejSingle: map[int]int{}, Rep: map[int]int{}}
	for _, e := range run {
		switch e.Kind {
		case "sink":
			if len(e.IDs) == 0 {
				continue // the empty full-sync-end request
			}
			o.Requests++
			if maxItems > 0 && o.NRep >= maxItems {
				o.SinkAfterStop++
			}
			if e.OK {
				for _, i := range e.IDs {
					o.Acc[i]++
				}
			} else {
				o.Rejected++
				if len(e.IDs) == 1 {
					o.RejSingle[e.IDs[0]]++
				}
			}
		case "handler":
			o.NRep++
			for _, i := range e.IDs {
				o.Rep[i]++
			}
		case "end":
			if o.End == "" || e.Msg == "failed-late" {
				o.End = e.Msg
			}
		}
	}
	return o
}

// c17Judge applies the per-run rules of C17. all: the run's source entities are
// known to be 0..K-1 (first run of a fresh job); otherwise only the rules that
// do not need the run's input are applied.
func c17Judge(o c17RunObs, k, maxItems int, all bool, viol func(class, msg string, exp, got any)) (stopped bool) {
	ids := map[int]bool{}
	for i := range o.Acc {
		ids[i] = true
	}
	for i := range o.RejSingle {
		ids[i] = true
	}
	for i := range o.Rep {
		ids[i] = true
	}
	if all {
		for i := 0; i < k; i++ {
			ids[i] = true
		}
	}
	var keys []int
	for i := range ids {
		keys = append(keys, i)
	}
	sort.Ints(keys)
	stopped = maxItems > 0 && o.NRep >= maxItems
	var twice, notRep, repTwice, repNotRej, lost []int
	for _, i := range keys {
		if o.Acc[i] > 1 {
			twice = append(twice, i)
		}
		if o.Acc[i] >= 1 && o.RejSingle[i] >= 1 {
			// accepted in one request and finally rejected in another one of the same run
			twice = append(twice, i)
		}
		switch {
		case o.RejSingle[i] >= 1 && o.Rep[i] == 0:
			notRep = append(notRep, i)
		case o.Rep[i] > 1:
			repTwice = append(repTwice, i)
		case o.Rep[i] == 1 && o.RejSingle[i] == 0:
			repNotRej = append(repNotRej, i)
		}
		if all && !stopped && o.Acc[i] == 0 && o.RejSingle[i] == 0 {
			lost = append(lost, i)
		}
	}
	if len(twice) > 0 {
		viol("delivered-twice", fmt.Sprintf("entities %v were accepted by the sink more than once in one run", twice), "each at most once", twice)
	}
	if len(notRep) > 0 {
		viol("rejected-not-reported", fmt.Sprintf("entities %v were rejected on their own by the sink but never reported to the log handler", notRep), "one report each", notRep)
	}
	if len(repTwice) > 0 {
		viol("reported-twice", fmt.Sprintf("entities %v were reported to the log handler more than once", repTwice), "one report each", repTwice)
	}
	if len(repNotRej) > 0 {
		viol("reported-not-rejected", fmt.Sprintf("entities %v were reported to the log handler although the sink never rejected them on their own", repNotRej), "no report", repNotRej)
	}
	if len(lost) > 0 {
		viol("entity-lost", fmt.Sprintf("entities %v were neither accepted by the sink nor rejected-and-reported, and the run did not stop at maxItems (reports=%d, maxItems=%d)", lost, o.NRep, maxItems), "every non-rejected entity delivered", lost)
	}
	if maxItems > 0 && o.NRep > maxItems {
		viol("continued-after-maxitems", fmt.Sprintf("%d entities were reported although maxItems=%d", o.NRep, maxItems), maxItems, o.NRep)
	} else if o.SinkAfterStop > 0 {
		viol("continued-after-maxitems", fmt.Sprintf("%d more sink requests were sent after the maxItems-th (=%d) rejection had been reported", o.SinkAfterStop, maxItems), 0, o.SinkAfterStop)
	}
	return stopped
}

func c17Enum(ctx *Ctx) error {
	if ctx.Replay != "" {
		// replays always enter through the plan's first stage: hand reRun witnesses over
		if b, err := os.ReadFile(ctx.Replay); err == nil && strings.Contains(string(b), `"maxRetries"`) {
			return c17Rerun(ctx)
		}
	}
	list := c17WorkList(ctx)
	if !c10IsSub(ctx) {
		c10Supervise(ctx, "c17enum", "C17", len(list), func(what map[string]any, sig string) string {
			var s []string
			if b, _ := what["transform"].(bool); b {
				s = append(s, "transform")
			}
			s = append(s, "log-handler")
			return strings.Join(s, "+")
		})
		return nil
	}
	st := c17Open(ctx)
	defer st.Close()
	for pos := c10SubFrom(ctx); pos < len(list); pos++ {
		c := list[pos]
		id := outHash(c)
		var tags []string
		tags = append(tags, c.Kind, "trigger:"+c.Trigger)
		if c.Transform {
			tags = append(tags, "transform")
		}
		if c.Budget > 0 {
			tags = append(tags, "transient")
		} else {
			tags = append(tags, "permanent")
		}
		if c.B < c.K {
			tags = append(tags, "multi-batch")
		}
		if len(c.Refire) > 0 {
			tags = append(tags, "trigger-refired-while-running")
		}
		if c.Runs > 1 {
			tags = append(tags, "failing-then-clean-executions")
		}
		if c.Trig2 != "" {
			tags = append(tags, "two-triggers-of-one-job-type", "trigger2:"+c.Trig2)
		}
		if c.Sampled {
			tags = append(tags, "sampled")
		} else {
			tags = append(tags, "enumerated")
		}
		ctx.Out.Case(id, ctx.Seed, c, (len(c.Fail) > 0 && len(c.Fail) < c.K) || (c.FailRuns > 0 && c.Runs > c.FailRuns), tags)
		ctx.Out.Begin(id, pos, c)
		st.runEnum(id, pos, c)
		ctx.Out.Ack(id, pos, nil)
		ctx.Out.FlushStats()
	}
	return nil
}

func (st *c17State) runEnum(caseID string, pos int, c c17Case) {
	out := st.ctx.Out
	viol := func(class, msg string, exp, got any, evs []c17Ev) {
		rf := ""
		if len(c.Refire) > 0 {
			// input class: the same job object was triggered again while this run was in progress
			class += "/trigger-refired-while-running"
			rf = fmt.Sprintf(" refire@%v", c.Refire)
		}
		if c.Runs > 1 {
			rf += fmt.Sprintf(" executions=%d sinkDownDuringFirst=%d", c.Runs, c.FailRuns)
		}
		if c.Trig2 != "" {
			class += "/two-triggers-of-one-job-type"
			rf += fmt.Sprintf(" trigger2=%s(maxItems %d) first=%d", c.Trig2, c.MaxItems2, c.First)
		}
		out.Stat("viol:"+class, 1)
		out.Viol(caseID, "C17", class, fmt.Sprintf("k=%d b=%d fail=%v budget=%d maxItems=%d %s/%s transform=%v%s: %s", c.K, c.B, c.Fail, c.Budget, c.MaxItems, c.Kind, c.Trigger, c.Transform, rf, msg),
			exp, got, map[string]any{"events": c17HeadEv(evs, 120)})
	}
	src, err := st.ensureSource(c.K)
	if err != nil {
		out.Inconclusive(caseID, "C17", "cannot build source: "+err.Error())
		return
	}
	jobID := "c17-" + strconv.Itoa(pos)
	sc := &c17Script{Fail: map[int]int{}}
	for _, i := range c.Fail {
		if c.Budget > 0 {
			sc.Fail[i] = c.Budget
		} else {
			sc.Fail[i] = -1
		}
	}
	st.sink.install(jobID, sc)
	onErr := []map[string]any{{"errorHandler": "log", "maxItems": c.MaxItems}}
	st.h.Log.Take()
	var panicked bool
	var pmsg string
	if c.Trigger == "cron" {
		cfg, err := st.h.Sched.Parse([]byte(st.jobJSON(jobID, src, c.Kind, c.B, c.Transform, "@every 1s", false, onErr)))
		if err == nil {
			err = st.h.Sched.AddJob(cfg)
		}
		if err != nil {
			out.Inconclusive(caseID, "C17", "cannot configure job: "+err.Error())
			st.sink.remove(jobID)
			return
		}
		// wait for the outcome of the first cron-fired run (watchdog -> inconclusive)
		deadline := time.Now().Add(20 * time.Second)
		got := false
		for time.Now().Before(deadline) {
			if r, _ := st.h.JobResult(jobID); r != nil && st.h.Sched.GetRunningJob(jobID) == nil {
				got = true
				break
			}
			time.Sleep(20 * time.Millisecond)
		}
		_ = st.h.Sched.DeleteJob(jobID)
		for i := 0; i < 500 && st.h.Sched.GetRunningJob(jobID) != nil; i++ {
			time.Sleep(20 * time.Millisecond)
		}
		time.Sleep(150 * time.Millisecond) // let the deferred error handling of the last run finish
		if !got {
			out.Inconclusive(caseID, "C17", "watchdog: cron did not produce a job result within 20s")
			st.sink.remove(jobID)
			return
		}
		out.Stat("runs_via_real_cron", 1)
	} else {
		wantJobs := 1
		if c.Trig2 != "" {
			wantJobs = 2
			t2 := map[string]any{"triggerType": "cron", "jobType": c.Kind, "schedule": "@every 25h",
				"onError": []map[string]any{{"errorHandler": "log", "maxItems": c.MaxItems2}}}
			if c.Trig2 == "onchange" {
				t2 = map[string]any{"triggerType": "onchange", "jobType": c.Kind, "monitoredDataset": src,
					"onError": []map[string]any{{"errorHandler": "log", "maxItems": c.MaxItems2}}}
			}
			st.trig2 = t2
		}
		_, js, err := st.h.c10AddPaused(st.jobJSON(jobID, src, c.Kind, c.B, c.Transform, "@every 24h", true, onErr))
		st.trig2 = nil
		if err != nil || len(js) != wantJobs {
			out.Inconclusive(caseID, "C17", fmt.Sprintf("cannot configure job: %v", err))
			st.sink.remove(jobID)
			return
		}
		var rfPanic string
		if len(c.Refire) > 0 {
			sc.refire = c.Refire
			sc.onRefire = func() {
				// what a second cron tick does while the first run is busy: the same wrapped job object is run again
				if p, m, _ := c10RunGuarded(js[0].RunAsCron); p {
					rfPanic = m
				}
			}
		}
		sc.FailRuns = c.FailRuns
		nruns := c.Runs
		if nruns < 1 {
			nruns = 1
		}
		if c.Trig2 != "" {
			// one execution per trigger: each trigger has its own job object (and its own handlers)
			order := []int{0, 1}
			if c.First == 2 {
				order = []int{1, 0}
			}
			for _, ji := range order {
				if !panicked {
					panicked, pmsg, _ = c10RunGuarded(js[ji].RunAsCron)
				}
			}
			out.Stat("two_trigger_cases", 1)
			nruns = 0
		}
		for x := 0; x < nruns && !panicked; x++ {
			// every execution uses the same job object, like consecutive cron ticks
			panicked, pmsg, _ = c10RunGuarded(js[0].RunAsCron)
			if x > 0 {
				out.Stat("later_executions_of_job_object", 1)
			}
		}
		_ = st.h.Sched.DeleteJob(jobID)
		out.Stat("runs_as_cron_direct", 1)
		if len(c.Refire) > 0 {
			out.Stat("refire_cases", 1)
			out.Stat("refires_issued", int64(sc.refired))
			if rfPanic != "" && !panicked {
				panicked, pmsg = true, "re-fired execution: "+rfPanic
			}
		}
	}
	logs := st.h.Log.Take()
	evs := c17Merge(jobID, st.sink.remove(jobID), logs)
	if len(c.Refire) > 0 {
		for _, l := range logs {
			if jid, _ := l.Fields["job.jobId"].(string); jid == jobID && strings.Contains(l.Msg, "did not get a ticket") {
				out.Stat("refires_skipped_by_hub", 1)
			}
		}
	}
	out.Stat("cases_run", 1)
	out.Stat("cases:"+c.Kind, 1)
	if c.Transform {
		out.Stat("cases_with_transform", 1)
	}
	if c.Budget > 0 {
		out.Stat("cases_transient", 1)
	}
	if panicked {
		out.Stat("job_panics", 1)
		viol("job-panic", "the job goroutine panicked (jobrunner re-panics, which ends the hub process): "+firstLine(pmsg), nil, pmsg, evs)
		return
	}
	runs := c17Runs(evs)
	if len(runs) == 0 || len(runs[0]) == 0 || runs[0][0].Kind != "start" {
		out.Inconclusive(caseID, "C17", "no start marker of the run was logged")
		return
	}
	for ri, run := range runs {
		runMax, runAll := c.MaxItems, ri == 0
		if c.Trig2 != "" {
			// execution ri belongs to trigger 1 or 2; both read the whole source (see the enumeration)
			if (ri == 0) == (c.First == 2) {
				runMax = c.MaxItems2
			}
			runAll = ri <= 1
		}
		o := c17Observe(run, runMax)
		out.Stat("runs_observed", 1)
		out.Stat("ev:sink_requests", int64(o.Requests))
		out.Stat("ev:sink_rejects", int64(o.Rejected))
		out.Stat("ev:handler_reports", int64(o.NRep))
		for _, n := range o.Acc {
			out.Stat("ev:entities_accepted", int64(n))
		}
		stopped := c17Judge(o, c.K, runMax, runAll, func(class, msg string, exp, got any) {
			viol(class, fmt.Sprintf("run %d: %s", ri+1, msg), exp, got, run)
		})
		if stopped {
			out.Stat("runs_stopped_at_maxitems", 1)
		}
		// a clean execution (the sink was offered something and rejected nothing, nothing was reported)
		// must be recorded without error. Executions that offered nothing are not judged (the statement
		// does not say what an empty run after a failed one records).
		if o.Requests > 0 && o.Rejected == 0 && o.NRep == 0 {
			out.Stat("clean_executions", 1)
			if ri > 0 {
				out.Stat("clean_executions_after_failed_one", 1)
			}
			bad := o.End == "failed" || o.End == "failed-late"
			lastErr := ""
			if !bad && ri == len(runs)-1 && c.Trigger != "cron" {
				if res, _ := st.h.JobResult(jobID); res != nil && res.LastError != "" {
					bad, lastErr = true, res.LastError
				}
			}
			if bad {
				viol(c17CleanClass(ri, c.Transform), fmt.Sprintf("run %d: the sink accepted all %d requests and nothing was reported, but the execution was recorded as failed (%s %s)", ri+1, o.Requests, o.End, lastErr), "no error", o.End+" "+lastErr, run)
			} else {
				out.Stat("clean_executions_recorded_without_error", 1)
			}
		}
		if ri == 0 {
			// the recorded outcome of the (first) run carries the error
			res, _ := st.h.JobResult(jobID)
			if len(runs) > 1 {
				// later cron firings overwrote the stored result: use the run's own end markers
				if o.NRep > 0 && o.End != "failed" && o.End != "failed-late" {
					viol(c17OutcomeClass(c, run), fmt.Sprintf("run 1 reported %d rejected entities but ended as %q", o.NRep, o.End), "failed", o.End, run)
				}
				continue
			}
			if res == nil {
				viol("no-job-result", "the run left no recorded outcome", "a jobResult", nil, run)
				continue
			}
			out.Stat("outcomes_read", 1)
			if o.NRep > 0 {
				if res.LastError == "" {
					time.Sleep(300 * time.Millisecond)
					res, _ = st.h.JobResult(jobID)
				}
				if res == nil || res.LastError == "" {
					viol(c17OutcomeClass(c, run), fmt.Sprintf("%d rejected entities were reported (maxItems=%d) but the recorded outcome carries no error", o.NRep, c.MaxItems), "lastError set", res, run)
				} else {
					out.Stat("outcomes_with_error", 1)
				}
			} else if res.LastError != "" && o.Rejected == 0 {
				out.Stat("outcome_error_without_any_rejection", 1)
			}
		}
	}
}

// c17OutcomeClass names the input class of a missing error in the outcome: was
// the last thing the sink did in the run to accept an unsplit source batch
// (nothing of it had been rejected before), after the rejection(s)?
func c17OutcomeClass(c c17Case, run []c17Ev) string {
	var reqs []c17Ev
	for _, e := range run {
		if e.Kind == "sink" && len(e.IDs) > 0 {
			reqs = append(reqs, e)
		}
	}
	if len(reqs) > 0 && reqs[len(reqs)-1].OK {
		split := false
		for _, e := range reqs {
			if !e.OK && len(e.IDs) > 1 {
				split = true
			}
		}
		if !split {
			return "outcome-without-error/only-single-entity-batches-rejected-then-accepted-batch"
		}
	}
	return "outcome-without-error"
}

func c17HeadEv(e []c17Ev, n int) []c17Ev {
	if len(e) > n {
		return e[:n]
	}
	return e
}

func c17HasValue(f map[string]any, v string) bool {
	for k, x := range f {
		if k == v {
			return true
		}
		if s, ok := x.(string); ok && s == v {
			return true
		}
	}
	return false
}

// c17CleanClass names the input class of a clean execution that was recorded as failed.
func c17CleanClass(ri int, transform bool) string {
	cl := "clean-run-recorded-failed"
	if ri > 0 {
		cl += "/later-execution-of-job-object"
	}
	if transform {
		cl += "+transform"
	}
	return cl
}
