package scen

// c13ns: namespace prefixes and internal identifiers are one-to-one, permanent and
// race-free (C13).
//  - concurrent history of assert / lookup / expand recorded at the client boundary
//    (porcupine "set once forever" model per expansion, checked in the driver)
//  - global injectivity of every (expansion, prefix) and (URI, internal id) pair ever
//    observed, also across a restart
//  - CURIE round trip over generated URI shapes
//  - serialisers of contexts running while namespaces are asserted (panic / fatal monitor;
//    crash-capable race blocks when run under -race)

import (
	"encoding/json"
	"fmt"
	"github.com/mimiro-io/datahub/internal/jobs"
	"github.com/mimiro-io/datahub/internal/service/entity"
	"math/rand"
	"os"
	"sort"
	"strings"
	"sync"
	"sync/atomic"

	"github.com/mimiro-io/datahub/internal/server"
	"github.com/mimiro-io/datahub/internal/service/types"
	"github.com/mimiro-io/datahub/internal/verif/gen"
	"github.com/mimiro-io/datahub/internal/verif/hub"
	"github.com/mimiro-io/datahub/internal/verif/model"
	"github.com/mimiro-io/datahub/internal/verif/obs"
)

func init() { Register("c13ns", c13NS) }

type c13Op struct {
	Kind string `json:"k"` // assert | lookup | expand | store | ctx | gctx | ctxstore
	Exp  string `json:"exp,omitempty"`
	URI  string `json:"uri,omitempty"`
	DS   string `json:"ds,omitempty"`
}

type c13Case struct {
	Expansions []string  `json:"expansions"`
	Ops        [][]c13Op `json:"ops"`
}

func c13Expansion(r *rand.Rand, i int) string {
	scheme := []string{"http://", "https://"}[r.Intn(2)]
	host := fmt.Sprintf("h%d.example.org", r.Intn(4))
	path := []string{"/", "/a/", "/a/b/", "/a#", "/a/b#", "/x:y/", "/q%20r/"}[r.Intn(7)]
	return fmt.Sprintf("%s%s/n%d%s", scheme, host, i, path)
}

var c13Locals = []string{"x", "", "a:b", "a:b:c", "p.q", "1", "ü", "with space", "a-b_c"}

func genC13Case(r *rand.Rand, writers, readers, opsPer int) c13Case {
	c := c13Case{}
	for i := 0; i < 14; i++ {
		c.Expansions = append(c.Expansions, c13Expansion(r, i))
	}
	for g := 0; g < writers+readers; g++ {
		var ops []c13Op
		for i := 0; i < opsPer; i++ {
			// all goroutines walk the expansions in roughly the same order so that the same
			// new expansion is asserted by several goroutines at the same time
			e := c.Expansions[(i*len(c.Expansions)/opsPer+r.Intn(2))%len(c.Expansions)]
			if g < writers {
				switch r.Intn(10) {
				case 0, 1, 2, 3:
					ops = append(ops, c13Op{Kind: "assert", Exp: e})
				case 4, 5, 6:
					ops = append(ops, c13Op{Kind: "store", Exp: e, URI: e + c13Locals[1+r.Intn(len(c13Locals)-1)], DS: []string{"da", "db"}[r.Intn(2)]})
				case 7:
					if r.Intn(2) == 0 {
						// a batch that the store rejects (a nil reference value, as a transform can produce it)
						ops = append(ops, c13Op{Kind: "badstore", Exp: e, URI: e + "bad", DS: []string{"da", "db"}[r.Intn(2)]})
					} else {
						ops = append(ops, c13Op{Kind: "ctxstore", Exp: e, URI: e + c13Locals[r.Intn(len(c13Locals))]})
					}
				default:
					ops = append(ops, c13Op{Kind: "lookup", Exp: e})
				}
			} else {
				switch r.Intn(8) {
				case 5, 6, 7:
					// entity details by CURIE through the service layer (what POST /query with details does)
					ops = append(ops, c13Op{Kind: "details", Exp: e, URI: e + c13Locals[1+r.Intn(len(c13Locals)-1)]})
				case 0:
					ops = append(ops, c13Op{Kind: "lookup", Exp: e})
				case 1:
					ops = append(ops, c13Op{Kind: "expand", Exp: e})
				case 2:
					ops = append(ops, c13Op{Kind: "ctx", DS: []string{"da", "db"}[r.Intn(2)]})
				default:
					ops = append(ops, c13Op{Kind: "gctx"})
				}
			}
		}
		c.Ops = append(c.Ops, ops)
	}
	return c
}

func c13NS(ctx *Ctx) error {
	r := rand.New(rand.NewSource(ctx.Seed))
	writers, readers, opsPer := 8, 6, 60
	fmt.Sscanf(ctx.Arg("ops", "60"), "%d", &opsPer)
	if ctx.Replay != "" {
		b, err := os.ReadFile(ctx.Replay)
		if err != nil {
			return err
		}
		var w struct {
			Ops json.RawMessage `json:"ops"`
		}
		if err := json.Unmarshal(b, &w); err != nil {
			return err
		}
		var c c13Case
		if json.Unmarshal(w.Ops, &c) == nil && len(c.Ops) > 0 {
			for i := 0; i < 5; i++ {
				runC13Case(ctx, c)
			}
		} else {
			c13RoundTrip(ctx, r, 2000)
		}
		return nil
	}
	c13RoundTrip(ctx, r, 400)
	c13ContextRounds(ctx, r, 600)
	for i := 0; i < ctx.Cases; i++ {
		runC13Case(ctx, genC13Case(r, writers, readers, opsPer))
	}
	return nil
}

// c13ContextRounds: readers poll the complete context while one writer introduces small bursts of new namespaces (a
// batch with a few unseen namespaces); after every burst, with the writer idle, the context that is served contains
// every prefix handed out so far with its expansion. Decided on the answers alone, no clock.
func c13ContextRounds(ctx *Ctx, r *rand.Rand, rounds int) {
	dir := ctx.NewDir("c13cr")
	defer os.RemoveAll(dir)
	core := hub.OpenCore(dir)
	defer core.Close()
	c := map[string]any{"kind": "context-rounds", "rounds": rounds, "salt": r.Int63()}
	id := outHash(c)
	var stop int32
	var reads int64
	var rw sync.WaitGroup
	for k := 0; k < 6; k++ {
		rw.Add(1)
		go func(k int) {
			defer rw.Done()
			ba := server.NewBadgerAccess(core.Store, core.Dsm)
			for atomic.LoadInt32(&stop) == 0 {
				switch k % 3 {
				case 0:
					_ = core.Store.GetGlobalContext(false)
				case 1:
					_ = core.Store.NamespaceManager.GetContext(nil)
				default:
					// the service layer's way of resolving prefixes and expansions (entity details, compaction)
					_, _ = ba.LookupNamespaceExpansion(types.Prefix(fmt.Sprintf("ns%d", atomic.LoadInt64(&reads)%40)))
					_, _ = ba.LookupExpansionPrefix(types.URI("http://rounds.example.org/none/"))
				}
				atomic.AddInt64(&reads, 1)
			}
		}(k)
	}
	defer func() { atomic.StoreInt32(&stop, 1); rw.Wait() }()
	handed := map[string]string{}
	checked := 0
	for round := 0; round < rounds; round++ {
		burst := map[string]string{}
		for b := 0; b < 1+round%3; b++ {
			exp := fmt.Sprintf("http://rounds.example.org/%s/%d/%d/", id, round, b)
			var prefix string
			var err error
			if b%2 == 0 {
				var curie string
				curie, err = core.Store.GetNamespacedIdentifierFromURI(exp + "thing")
				if i := strings.Index(curie, ":"); err == nil && i > 0 {
					prefix = curie[:i]
				}
			} else {
				prefix, err = core.Store.NamespaceManager.AssertPrefixMappingForExpansion(exp)
			}
			if err != nil || prefix == "" {
				ctx.Out.Case(id, ctx.Seed, c, false, []string{"context-rounds"})
				ctx.Out.Inconclusive(id, "C13", fmt.Sprintf("context rounds: expansion %q was refused: %v", exp, err))
				return
			}
			burst[prefix] = exp
		}
		for p, e := range burst {
			if old, ok := handed[p]; ok && old != e {
				ctx.Out.Case(id, ctx.Seed, c, true, []string{"context-rounds"})
				ctx.Out.Viol(id, "C13", "prefix-two-expansions", fmt.Sprintf("prefix %s was handed out for %q and for %q", p, old, e), nil, nil, nil)
				return
			}
			handed[p] = e
		}
		for _, served := range []map[string]string{core.Store.GetGlobalContext(false).Namespaces, core.Store.NamespaceManager.GetContext(nil).Namespaces} {
			for p, e := range burst {
				if got, ok := served[p]; !ok || got != e {
					ctx.Out.Case(id, ctx.Seed, c, true, []string{"context-rounds"})
					ctx.Out.Viol(id, "C13", "context-misses-handed-out-prefix", fmt.Sprintf("round %d: prefix %s was handed out for %q, the writer is idle, and the complete context served afterwards has %q for it (present=%v; %d of %d prefixes in it)", round, p, e, got, ok, len(served), len(handed)), e, got, nil)
					return
				}
			}
			checked++
		}
	}
	ctx.Out.Case(id, ctx.Seed, c, atomic.LoadInt64(&reads) > int64(rounds), []string{"context-rounds"})
	ctx.Out.Stat("c13_context_rounds_complete", int64(checked))
	ctx.Out.Stat("c13_context_reads_during_rounds", atomic.LoadInt64(&reads))
}

// c13RoundTrip: compacting an http(s) URI to a CURIE and expanding it again returns the URI.
func c13RoundTrip(ctx *Ctx, r *rand.Rand, n int) {
	dir := ctx.NewDir("c13rt")
	defer os.RemoveAll(dir)
	core := hub.OpenCore(dir)
	defer core.Close()
	var uris []string
	for i := 0; i < n; i++ {
		uris = append(uris, c13Expansion(r, r.Intn(30))+c13Locals[r.Intn(len(c13Locals))])
	}
	uris = append(uris, "http://a.b/c", "https://a.b/c#", "http://a.b/c#d/e", "http://a.b/c/d#e", "http://a.b/", "http://a.b/x:y", "https://a.b/c/:", "http://a.b/c##", "http://a.b//")
	c := map[string]any{"kind": "roundtrip", "uris": uris}
	id := outHash(c)
	ctx.Out.Case(id, ctx.Seed, c, true, []string{"roundtrip"})
	pairs := map[string]string{}
	for _, u := range uris {
		for _, via := range []string{"parser", "uri"} {
			var curie string
			var err error
			func() {
				defer func() {
					if p := recover(); p != nil {
						err = fmt.Errorf("panic: %v", p)
					}
				}()
				if via == "parser" {
					curie, err = core.Store.GetNamespacedIdentifier(u, map[string]string{})
				} else {
					curie, err = core.Store.GetNamespacedIdentifierFromURI(u)
				}
			}()
			if err != nil {
				if strings.HasPrefix(err.Error(), "panic") {
					ctx.Out.Viol(id, "C13", "roundtrip-panic", fmt.Sprintf("compacting %q panicked: %v", u, err), nil, nil, nil)
				}
				continue // a refused URI is not a round-trip violation
			}
			back, err := core.Store.ExpandCurie(curie)
			if err != nil || back != u {
				ctx.Out.Viol(id, "C13", "roundtrip", fmt.Sprintf("URI %q compacts to %q which expands to %q (%v)", u, curie, back, err), u, back, nil)
				return
			}
			if i := strings.Index(curie, ":"); i > 0 {
				pfx := curie[:i]
				exp := u[:len(u)-len(curie[i+1:])]
				if old, ok := pairs[pfx]; ok && old != exp {
					ctx.Out.Viol(id, "C13", "prefix-reused", fmt.Sprintf("prefix %s stands for %q and for %q", pfx, old, exp), nil, nil, nil)
					return
				}
				pairs[pfx] = exp
			}
			ctx.Out.Stat("c13_roundtrips_ok", 1)
		}
	}
	// one URI, one CURIE: the compaction applied to what a remote transform service hands back (HTTP transform with
	// SupportContext) agrees with the store's own
	for _, u := range append(uris, "http://a.b/doc/page#section/part", "http://a.b/doc#x/y/z", "https://a.b/c#d#e/f") {
		var viaShim, viaStore string
		var e1, e2 error
		func() {
			defer func() {
				if p := recover(); p != nil {
					e1 = fmt.Errorf("panic: %v", p)
				}
			}()
			viaShim, e1 = jobs.VerifShimIdentifier(core.Store.NamespaceManager, u)
			viaStore, e2 = core.Store.GetNamespacedIdentifierFromURI(u)
		}()
		if e1 != nil || e2 != nil {
			ctx.Out.Stat("c13_shim_compactions_refused", 1)
			continue
		}
		if viaShim != viaStore {
			ctx.Out.Viol(id, "C13", "uri-two-curies", fmt.Sprintf("URI %q is compacted to %q by the store and to %q by the HTTP transform's response path: one identifier, two CURIEs (and two internal ids)", u, viaStore, viaShim), viaStore, viaShim, nil)
			return
		}
		ctx.Out.Stat("c13_shim_compactions_agree", 1)
	}
	// the same through the prefixed form a client may post (local context prefix -> expansion), with local parts
	// that contain colons, slashes and hashes, and through the default prefix "_"
	locals := append([]string{"urn:isbn:111", "urn:isbn:222", "a:b", "x:y:z", "k:", "order:1001/7", "dim:width#mm"}, c13Locals...)
	for i := 0; i < n/4+len(locals); i++ {
		exp := c13Expansion(r, r.Intn(30))
		local := locals[i%len(locals)]
		for _, form := range []string{"prefixed", "default"} {
			in, lctx := "p:"+local, map[string]string{"p": exp}
			if form == "default" {
				if strings.Contains(local, ":") || local == "" {
					continue
				}
				in, lctx = local, map[string]string{"_": exp}
			}
			var curie string
			var err error
			func() {
				defer func() {
					if p := recover(); p != nil {
						err = fmt.Errorf("panic: %v", p)
					}
				}()
				curie, err = core.Store.GetNamespacedIdentifier(in, lctx)
			}()
			if err != nil {
				if strings.HasPrefix(err.Error(), "panic") {
					ctx.Out.Viol(id, "C13", "roundtrip-panic", fmt.Sprintf("compacting %q (context %v) panicked: %v", in, lctx, err), nil, nil, nil)
				}
				continue
			}
			back, err := core.Store.ExpandCurie(curie)
			if err != nil || back != exp+local {
				ctx.Out.Viol(id, "C13", "roundtrip-prefixed-form", fmt.Sprintf("%q posted with context %v stands for %q; it is stored as %q, which expands to %q (%v)", in, lctx, exp+local, curie, back, err), exp+local, back, nil)
				return
			}
			ctx.Out.Stat("c13_roundtrips_prefixed_form_ok", 1)
		}
	}
}

type c13Ev struct {
	g         int
	kind      string
	exp       string
	prefix    string
	ok        bool
	call, ret int64
}

func runC13Case(ctx *Ctx, c c13Case) {
	id := outHash(c)
	dir := ctx.NewDir("c13")
	defer os.RemoveAll(dir)
	core := hub.OpenCore(dir)
	closed := false
	defer func() {
		if !closed {
			core.Close()
		}
	}()
	core.Dsm.CreateDataset("da", nil)
	core.Dsm.CreateDataset("db", &server.CreateDatasetConfig{PublicNamespaces: []string{"http://data.mimiro.io/core/dataset/"}})
	cstore := server.NewContextualStore(core.Store)
	var nDetailsOK, nDetailsErr int64
	defer func() {
		ctx.Out.Stat("c13_service_details_lookups_answered", atomic.LoadInt64(&nDetailsOK))
		ctx.Out.Stat("c13_service_details_lookups_entity_unknown", atomic.LoadInt64(&nDetailsErr))
	}()
	var svcLookup *entity.Lookup
	if l, err := entity.NewLookup(server.NewBadgerAccess(core.Store, core.Dsm)); err == nil {
		svcLookup = &l
	}
	var clock int64
	now := func() int64 { return atomic.AddInt64(&clock, 1) }
	var mu sync.Mutex
	var evs []c13Ev
	var panics []string
	uriIDs := map[string]map[uint64]bool{}
	var wg sync.WaitGroup
	start := make(chan struct{})
	for g := range c.Ops {
		wg.Add(1)
		go func(g int) {
			defer wg.Done()
			<-start
			for i, op := range c.Ops[g] {
				ev := c13Ev{g: g, kind: op.Kind, exp: op.Exp}
				ev.call = now()
				func() {
					defer func() {
						if p := recover(); p != nil {
							mu.Lock()
							panics = append(panics, fmt.Sprintf("goroutine %d op %d (%s): panic: %v", g, i, op.Kind, p))
							mu.Unlock()
							ev.kind = "panicked"
						}
					}()
					st := core.Store
					switch op.Kind {
					case "assert":
						p, err := st.NamespaceManager.AssertPrefixMappingForExpansion(op.Exp)
						ev.prefix, ev.ok = p, err == nil
					case "lookup":
						p, err := st.NamespaceManager.GetPrefixMappingForExpansion(op.Exp)
						ev.prefix, ev.ok = p, err == nil
					case "expand":
						// expand with whatever prefix a previous lookup gives; answers must be consistent
						p, err := st.NamespaceManager.GetPrefixMappingForExpansion(op.Exp)
						if err == nil {
							u, err2 := st.ExpandCurie(p + ":loc")
							if err2 != nil || u != op.Exp+"loc" {
								mu.Lock()
								panics = append(panics, fmt.Sprintf("expand(%s:loc) = %q, %v; expected %q", p, u, err2, op.Exp+"loc"))
								mu.Unlock()
							}
						}
						ev.kind = "skip"
					case "store":
						e := model.Ent{ID: op.URI, Props: map[string]any{op.URI + "-p": "v"}, Refs: map[string]any{}}
						if err := StoreBatch(core, op.DS, []model.Ent{e}, false); err != nil {
							mu.Lock()
							panics = append(panics, "store: "+err.Error())
							mu.Unlock()
						}
						ev.kind = "implicit" // the parser asserted the expansion at some point inside this call
					case "badstore":
						bad := server.NewEntity("", 0)
						if cur, err := st.GetNamespacedIdentifier(op.URI, map[string]string{}); err == nil {
							bad.ID = cur
							bad.References[cur+"-r"] = nil
							ds := core.Dsm.GetDataset(op.DS)
							if err := ds.StoreEntities([]*server.Entity{bad}); err == nil {
								mu.Lock()
								panics = append(panics, "a batch with a nil reference value was accepted")
								mu.Unlock()
							}
						}
						ev.kind = "implicit"
					case "details":
						if p, err := st.NamespaceManager.GetPrefixMappingForExpansion(op.Exp); err == nil && svcLookup != nil {
							_, derr := svcLookup.Details(p+":"+op.URI[len(op.Exp):], nil) // the entity may not exist (yet)
							if derr == nil {
								atomic.AddInt64(&nDetailsOK, 1)
							} else {
								atomic.AddInt64(&nDetailsErr, 1)
							}
						}
						ev.kind = "skip"
					case "ctxstore":
						_, _ = cstore.GetNamespacedIdentifier(op.URI, map[string]string{})
						ev.kind = "implicit"
					case "ctx":
						ds := core.Dsm.GetDataset(op.DS)
						b, err := json.Marshal(ds.GetContext())
						if err != nil || len(b) == 0 {
							mu.Lock()
							panics = append(panics, fmt.Sprintf("marshal dataset context: %v", err))
							mu.Unlock()
						}
						ev.kind = "skip"
					case "gctx":
						gc := st.GetGlobalContext(true)
						n := 0
						for range gc.Namespaces {
							n++
						}
						if _, err := json.Marshal(st.GetGlobalContext(false)); err != nil {
							mu.Lock()
							panics = append(panics, fmt.Sprintf("marshal global context: %v", err))
							mu.Unlock()
						}
						ev.kind = "skip"
					}
				}()
				ev.ret = now()
				if ev.kind == "assert" || ev.kind == "lookup" || ev.kind == "implicit" {
					mu.Lock()
					evs = append(evs, ev)
					mu.Unlock()
				}
			}
		}(g)
	}
	close(start)
	wg.Wait()

	// store burst: six writers store the same 300 brand-new identifiers at the same moment, into two datasets
	{
		var bw sync.WaitGroup
		go3 := make(chan struct{})
		var ents []model.Ent
		for k := 0; k < 300; k++ {
			u := fmt.Sprintf("http://storeburst.example.org/%s/e%d", id, k)
			ents = append(ents, model.Ent{ID: u, Props: map[string]any{u + "-p": "v"}, Refs: map[string]any{fmt.Sprintf("http://storeburst.example.org/%s/r%d", id, k%7): fmt.Sprintf("http://storeburst.example.org/%s/e%d", id, (k+1)%300)}})
		}
		for g := 0; g < 6; g++ {
			bw.Add(1)
			go func(g int) {
				defer bw.Done()
				<-go3
				if err := StoreBatch(core, []string{"da", "db"}[g%2], ents, false); err != nil {
					mu.Lock()
					panics = append(panics, "store burst: "+err.Error())
					mu.Unlock()
				}
			}(g)
		}
		close(go3)
		bw.Wait()
		ctx.Out.Stat("c13_identifiers_stored_by_six_writers_at_once", 300)
	}
	// last write before the restart: a transaction that only UPDATES an existing entity and thereby introduces a new
	// predicate and a new reference target (identifiers nobody has used before)
	txnPred := fmt.Sprintf("http://txnonly.example.org/%s/pred", id)
	txnTarget := fmt.Sprintf("http://txnonly.example.org/%s/target", id)
	txnSubject := fmt.Sprintf("http://storeburst.example.org/%s/e0", id)
	if err := StoreTxn(core, map[string][]model.Ent{"da": {{ID: txnSubject, Props: map[string]any{txnSubject + "-p": "v2"}, Refs: map[string]any{txnPred: txnTarget}}}}); err != nil {
		ctx.Out.Viol(id, "C13", "update-transaction-refused", err.Error(), nil, nil, nil)
	}
	checkTxnIDs := func(c *hub.Core, when string) {
		r, err := obs.Related(c.Store, txnSubject, txnPred, false, []string{"da"}, 0)
		if err != nil || !r.Set()[model.Pair{Pred: txnPred, Other: txnTarget}] {
			ctx.Out.Viol(id, "C13", "identifiers-of-update-transaction-lost", fmt.Sprintf("%s: an acknowledged transaction that only updated %s introduced predicate %s and target %s; the relation query by that predicate answers %v (err %v)", when, txnSubject, txnPred, txnTarget, model.PairList(r.Set()), err), txnTarget, model.PairList(r.Set()), nil)
		}
	}
	// final burst: every writer asserts a namespace of its own at the same moment, nothing is asserted
	// afterwards (keep it the LAST thing that touches the namespace state before the restart: a later
	// assertion would re-persist the complete mapping and hide a lost one); what is on disk after this
	// must be the complete mapping
	{
		var bw sync.WaitGroup
		go2 := make(chan struct{})
		for g := 0; g < 8; g++ {
			bw.Add(1)
			go func(g int) {
				defer bw.Done()
				exp := fmt.Sprintf("http://burst.example.org/%s/%d/", id, g)
				<-go2
				ev := c13Ev{g: 100 + g, kind: "assert", exp: exp}
				ev.call = now()
				p, err := core.Store.NamespaceManager.AssertPrefixMappingForExpansion(exp)
				ev.prefix, ev.ok = p, err == nil
				ev.ret = now()
				mu.Lock()
				evs = append(evs, ev)
				mu.Unlock()
			}(g)
		}
		// ... while readers keep asking for the complete context (whatever they cache must not outlive the burst)
		stopReaders := make(chan struct{})
		var rw sync.WaitGroup
		for k := 0; k < 4; k++ {
			rw.Add(1)
			go func() {
				defer rw.Done()
				for {
					select {
					case <-stopReaders:
						return
					default:
					}
					_ = core.Store.GetGlobalContext(true)
					_ = core.Store.NamespaceManager.GetContext(nil)
				}
			}()
		}
		close(go2)
		bw.Wait()
		close(stopReaders)
		rw.Wait()
	}

	// non-triviality: several goroutines asserted the same new expansion concurrently
	firstAssert := map[string][]c13Ev{}
	for _, e := range evs {
		if e.kind == "assert" {
			firstAssert[e.exp] = append(firstAssert[e.exp], e)
		}
	}
	concurrentNew := 0
	for _, l := range firstAssert {
		sort.Slice(l, func(i, j int) bool { return l[i].call < l[j].call })
		if len(l) >= 2 && l[1].call < l[0].ret {
			concurrentNew++
		}
	}
	ctx.Out.Case(id, ctx.Seed, c, concurrentNew >= 1, nil)
	ctx.Out.Stat("c13_expansions_asserted_concurrently", int64(concurrentNew))
	for _, p := range panics {
		cls := "panic-or-inconsistent-answer"
		if strings.Contains(p, "panic") {
			cls = "panic"
		}
		ctx.Out.Viol(id, "C13", cls, p, nil, nil, nil)
		break
	}
	// emit the history for porcupine and check global injectivity of what was observed
	e2p := map[string]string{}
	p2e := map[string]string{}
	for _, e := range evs {
		ctx.Out.Ev(map[string]any{"case": id, "k": "ns", "c": e.g, "op": e.kind, "key": e.exp, "val": e.prefix, "ok": e.ok, "call": e.call, "ret": e.ret})
		if !e.ok || e.kind == "implicit" {
			continue
		}
		if old, ok := e2p[e.exp]; ok && old != e.prefix {
			ctx.Out.Viol(id, "C13", "expansion-two-prefixes", fmt.Sprintf("expansion %q was answered with prefix %s and with prefix %s", e.exp, old, e.prefix), nil, nil, nil)
		}
		e2p[e.exp] = e.prefix
		if old, ok := p2e[e.prefix]; ok && old != e.exp {
			ctx.Out.Viol(id, "C13", "prefix-two-expansions", fmt.Sprintf("prefix %s was handed out for %q and for %q", e.prefix, old, e.exp), nil, nil, nil)
		}
		p2e[e.prefix] = e.exp
	}
	ctx.Out.Stat("c13_ns_events", int64(len(evs)))
	final := core.Store.GetGlobalContext(false).Namespaces
	finalCopy := map[string]string{}
	for p, e := range final {
		finalCopy[p] = e
	}
	seenExp := map[string]string{}
	for p, e := range finalCopy {
		if o, ok := seenExp[e]; ok {
			ctx.Out.Viol(id, "C13", "expansion-two-prefixes", fmt.Sprintf("final context maps prefixes %s and %s to %q", o, p, e), nil, nil, nil)
		}
		seenExp[e] = p
	}
	for e, p := range e2p {
		if finalCopy[p] != e {
			ctx.Out.Viol(id, "C13", "mapping-changed", fmt.Sprintf("prefix %s was handed out for %q but the final context says %q", p, e, finalCopy[p]), nil, nil, nil)
		}
	}
	// URI -> internal id, over everything stored
	collect := func(c *hub.Core) {
		for _, d := range []string{"da", "db"} {
			ds := c.Dsm.GetDataset(d)
			l, _ := obs.Listing(c.Store, ds, 0)
			for _, r := range l {
				if uriIDs[r.ID] == nil {
					uriIDs[r.ID] = map[uint64]bool{}
				}
				uriIDs[r.ID][r.InternalID] = true
			}
		}
	}
	checkTxnIDs(core, "before the restart")
	collect(core)
	// every identifier that was stored resolves to its entity, and the id indexes are mutually inverse
	resolve := func(c *hub.Core, when string) {
		n := 0
		for u := range uriIDs {
			found := false
			for _, d := range []string{"da", "db"} {
				if r, err := obs.Lookup(c.Store, u, []string{d}); err == nil && r != nil && len(r.Props) > 0 {
					found = true
				}
			}
			n++
			if !found {
				ctx.Out.Viol(id, "C13", "stored-identifier-does-not-resolve", fmt.Sprintf("%s: the entity stored under %q is listed in its dataset but cannot be found by its identifier", when, u), nil, nil, nil)
				return
			}
		}
		ctx.Out.Stat("c13_identifiers_resolved", int64(n))
		if msg := crossIndexInvariant(c); msg != "" {
			ctx.Out.Viol(id, "C13", "id-index-"+firstColon(msg), when+": raw key scan: "+msg, nil, nil, nil)
		}
	}
	resolve(core, "after the concurrent workload")
	// restart: mappings are permanent
	if err := core.Close(); err != nil {
		ctx.Out.Viol(id, "C13", "close-error", err.Error(), nil, nil, nil)
	}
	closed = true
	core2, err := hub.TryOpenCore(dir)
	if err != nil {
		ctx.Out.Viol(id, "C13", "reopen-failed", firstLine(err.Error()), nil, nil, nil)
		return
	}
	defer core2.Close()
	after := core2.Store.GetGlobalContext(false).Namespaces
	for p, e := range finalCopy {
		if after[p] != e {
			ctx.Out.Viol(id, "C13", "mapping-changed-by-restart", fmt.Sprintf("prefix %s stood for %q before the restart and for %q after it", p, e, after[p]), nil, nil, nil)
			break
		}
	}
	collect(core2)
	resolve(core2, "after the restart")
	checkTxnIDs(core2, "after the restart")
	// new namespaces after the restart get prefixes that were never used
	for i := 0; i < 3; i++ {
		exp := fmt.Sprintf("http://after.restart/%d/", i)
		p, err := core2.Store.NamespaceManager.AssertPrefixMappingForExpansion(exp)
		if err == nil {
			if old, ok := finalCopy[p]; ok && old != exp {
				ctx.Out.Viol(id, "C13", "prefix-reused-after-restart", fmt.Sprintf("new expansion %q got prefix %s which already stands for %q", exp, p, old), nil, nil, nil)
			}
		}
	}
	idOwner := map[uint64]string{}
	for u, ids := range uriIDs {
		if len(ids) != 1 {
			ctx.Out.Viol(id, "C13", "uri-two-ids", fmt.Sprintf("identifier %q was observed with %d internal ids", u, len(ids)), nil, nil, nil)
		}
		for i := range ids {
			if o, ok := idOwner[i]; ok && o != u {
				ctx.Out.Viol(id, "C13", "id-two-uris", fmt.Sprintf("internal id %d stands for %q and %q", i, o, u), nil, nil, nil)
			}
			idOwner[i] = u
		}
	}
	ctx.Out.Stat("c13_uri_id_pairs", int64(len(uriIDs)))
	_ = gen.NsA
}
