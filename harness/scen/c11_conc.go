package scen

// c11conc: concurrency part of property C11. Three job ids with small pools
// (incremental 2, fullsync 1); cron `@every 1s`, on-change events (writes to the source
// datasets), manual RunJob, error-handler re-runs, fullsync queue retries and KillJob are
// fired concurrently while the status API is polled. Run intervals come from three
// independent probes: the raffle's own ticket events (statsd client), the request
// intervals of a loopback HTTP sink and enter/exit markers logged by the JS transform.
//   - two intervals of one job id never overlap
//   - the number of simultaneously open intervals of a job type never exceeds its pool
//   - tickets + running jobs == pool at every poll (one critical section)
//   - every run that gives its slot back has a stored result newer than its start
// The hub runs in a sub-child so that a fatal ending is classified by this monitor.

import (
	"encoding/json"
	"fmt"
	"math/rand"
	"os"
	"strconv"
	"strings"
	"sync"
	"sync/atomic"
	"time"
)

func init() { Register("c11conc", c11Conc) }

type c11ConcCase struct {
	Seed     int64    `json:"seed"`
	K        int      `json:"k"`
	Steps    int      `json:"steps"`
	PoolIncr int      `json:"poolIncr"`
	PoolFull int      `json:"poolFull"`
	Jobs     []string `json:"jobs"`
	Triggers []string `json:"triggers"`
	Actors   []string `json:"actors"`
}

func c11ConcCaseOf(ctx *Ctx, k int) c11ConcCase {
	steps, _ := strconv.Atoi(ctx.Arg("steps", "40"))
	return c11ConcCase{Seed: ctx.Seed, K: k, Steps: steps, PoolIncr: 2, PoolFull: 1,
		Jobs: []string{"j0", "j1", "j2"},
		Triggers: []string{"j0: cron incremental @every 1s (reRun 1s) + onchange incremental", "j1: cron incremental @every 1s (reRun 1s) + onchange fullsync",
			"j2: cron fullsync @every 1s (reRun 1s) + onchange incremental"},
		Actors: []string{"writer+event", "RunJob incremental|fullsync", "KillJob", "status poller"}}
}

func c11Conc(ctx *Ctx) error {
	if ctx.Arg("mode", "") == "sub" {
		k, _ := strconv.Atoi(ctx.Arg("k", "0"))
		return c11ConcSub(ctx, k)
	}
	n := ctx.Cases
	if n < 1 {
		n = 1
	}
	if ctx.Replay != "" {
		n = 1
	}
	for k := 0; k < n; k++ {
		cs := c11ConcCaseOf(ctx, k)
		if ctx.Replay != "" {
			if b, err := os.ReadFile(ctx.Replay); err == nil {
				var rp struct {
					Ops c11ConcCase `json:"ops"`
				}
				if json.Unmarshal(b, &rp) == nil && rp.Ops.Steps > 0 {
					cs.K, cs.Steps = rp.Ops.K, rp.Ops.Steps
				}
			}
		}
		caseID := outHash(cs)
		ctx.Out.Begin(caseID, k, map[string]any{"spawn": cs})
		sub := c11Spawn(ctx, "c11conc", fmt.Sprintf("mode=sub,k=%d,steps=%d", cs.K, cs.Steps), fmt.Sprintf("conc%d", k), 6*time.Minute,
			[]string{"JOB_FULLSYNC_RETRY_INTERVAL=300ms"})
		cases := c11Forward(ctx, sub)
		if len(cases) == 0 {
			ctx.Out.Case(caseID, ctx.Seed, cs, false, []string{"conc"})
		}
		ctx.Out.Stat("conc.cases_run", 1)
		if sub.Done {
			ctx.Out.Ack(caseID, k, nil)
			continue
		}
		if sub.TimedOut {
			ctx.Out.Emit(map[string]any{"t": "inconclusive", "case": caseID, "prop": "C11", "why": "watchdog: hub sub-process did not finish", "last_begin": sub.LastBegin, "stderr_tail": c11Tail(sub.Stderr, 40)})
			continue
		}
		d := c11ParseDeath(sub.Stderr)
		class := c11ConcDeathClass(d)
		ctx.Out.Stat("conc.hub_died", 1)
		ctx.Out.Stat("conc.died:"+class, 1)
		ctx.Out.Viol(caseID, "C11", class,
			fmt.Sprintf("hub process died (%s) under concurrent run requests; last step: %v; %s", sub.ExitErr, c11What(sub.LastBegin), d.Head),
			"the hub process survives concurrent cron / on-change / manual / retry / kill requests", d,
			map[string]any{"last_begin": sub.LastBegin, "stderr_tail": c11Tail(sub.Stderr, 45)})
	}
	return nil
}

func c11ConcDeathClass(d c11Death) string {
	if d.Kind == "concurrent-map" {
		for _, f := range d.Frames {
			if strings.HasPrefix(f, "jobs.(*raffle).") || strings.HasPrefix(f, "jobs.(*Scheduler).GetRunningJobs") {
				return "died-raffle-runningJobs-unsynchronised-access"
			}
		}
	}
	return c11DeathClass(d, nil)
}

func c11ConcSub(ctx *Ctx, k int) error {
	o := ctx.Out
	cs := c11ConcCaseOf(ctx, k)
	caseID := outHash(cs)
	o.Case(caseID, ctx.Seed, cs, false, []string{"conc"})
	dir := ctx.NewDir("c11conc")
	defer os.RemoveAll(dir)
	h, err := c11OpenHub(dir, cs.PoolIncr, cs.PoolFull, true)
	if err != nil {
		return err
	}
	loop := newC11Loop()
	loop.delay = 12 * time.Millisecond
	loop.flakyN = 9
	srcOf := map[string]string{"j0": "alpha", "j1": "bravo", "j2": "charlie"}
	for _, ds := range []string{"alpha", "bravo", "charlie"} {
		if _, err := h.dsm.CreateDataset(ds, nil); err != nil {
			return err
		}
		if err := h.writeEntitiesNoEmit(ds, 0, 6, 0); err != nil {
			return err
		}
	}
	viols := int64(0)
	viol := func(class, msg string, exp, obs any, extra map[string]any) {
		atomic.AddInt64(&viols, 1)
		o.Viol(caseID, "C11", class, msg, exp, obs, extra)
		o.Stat("conc.viol:"+class, 1)
	}
	rerun := []any{map[string]any{"errorHandler": "reRun", "maxRetries": 6, "retryDelay": 1}}
	trig := func(tt, jt, ds string) map[string]any {
		m := map[string]any{"triggerType": tt, "jobType": jt}
		if tt == "cron" {
			m["schedule"] = "@every 1s"
			m["onError"] = rerun
		} else {
			m["monitoredDataset"] = ds
		}
		return m
	}
	// cron triggers first: Scheduler.verify stops validating at the first on-change trigger
	trigs := map[string][]any{
		"j0": {trig("cron", "incremental", ""), trig("onchange", "incremental", "alpha")},
		"j1": {trig("cron", "incremental", ""), trig("onchange", "fullsync", "bravo")},
		"j2": {trig("cron", "fullsync", ""), trig("onchange", "incremental", "charlie")},
	}
	o.Begin(caseID, 0, map[string]any{"step": "AddJob x3"})
	for _, id := range cs.Jobs {
		jc := map[string]any{"id": id, "title": id, "batchSize": 2,
			"source":    map[string]any{"Type": "DatasetSource", "Name": srcOf[id]},
			"transform": map[string]any{"Type": "JavascriptTransform", "Parallelism": 1, "Code": c11JS(id, 30000, false)},
			"sink":      map[string]any{"Type": "HttpDatasetSink", "Url": loop.url() + "/sink/" + id + "/flaky"},
			"triggers":  trigs[id]}
		raw, _ := json.Marshal(jc)
		parsed, err := h.sched.Parse(raw)
		if err == nil {
			err = h.sched.AddJob(parsed)
		}
		if err != nil {
			return fmt.Errorf("AddJob %s: %w", id, err)
		}
	}
	o.Ack(caseID, 0, nil)

	var stop, draining int32
	var wg sync.WaitGroup
	var cnt struct {
		writes, runJobOK, runJobBusy, runJobErr, kills, polls, pollsBusy, consChecks int64
	}
	actor := func(name string, seed int64, steps int, minMs, maxMs int, f func(r *rand.Rand)) {
		wg.Add(1)
		go func() {
			defer wg.Done()
			r := rand.New(rand.NewSource(seed))
			for i := 0; i < steps; i++ {
				f(r)
				time.Sleep(time.Duration(minMs+r.Intn(maxMs-minMs+1)) * time.Millisecond)
			}
		}()
	}
	base := ctx.Seed*1000 + int64(k)
	next := map[string]int{"alpha": 6, "bravo": 6, "charlie": 6}
	var nextMu sync.Mutex
	o.Begin(caseID, 1, map[string]any{"step": "concurrent phase", "steps": cs.Steps})
	// writer: stores entities and emits the dataset event like the web handler
	actor("writer", base+1, cs.Steps, 30, 120, func(r *rand.Rand) {
		ds := []string{"alpha", "bravo", "charlie"}[r.Intn(3)]
		nextMu.Lock()
		from := next[ds]
		n := 1 + r.Intn(2)
		next[ds] += n
		nextMu.Unlock()
		if from > 60 {
			from = 2 + r.Intn(50) // overwrite instead of growing without bound
		}
		_ = h.writeEntities(ds, from, from+n, from, "")
		atomic.AddInt64(&cnt.writes, 1)
	})
	actor("manual", base+2, cs.Steps, 40, 140, func(r *rand.Rand) {
		id := cs.Jobs[r.Intn(3)]
		jt := "incremental"
		if r.Intn(3) == 0 {
			jt = "fullsync"
		}
		_, err := h.sched.RunJob(id, jt)
		switch {
		case err == nil:
			atomic.AddInt64(&cnt.runJobOK, 1)
		case strings.Contains(err.Error(), "already running"):
			atomic.AddInt64(&cnt.runJobBusy, 1)
		default:
			atomic.AddInt64(&cnt.runJobErr, 1)
		}
	})
	actor("killer", base+3, cs.Steps/2+1, 90, 260, func(r *rand.Rand) {
		h.sched.KillJob(cs.Jobs[r.Intn(3)])
		atomic.AddInt64(&cnt.kills, 1)
	})
	// status poller: public status API + slot conservation in one critical section
	var pwg sync.WaitGroup
	pwg.Add(1)
	go func() {
		defer pwg.Done()
		i := 0
		reported := map[string]bool{}
		for atomic.LoadInt32(&stop) == 0 {
			i++
			rj := h.sched.GetRunningJobs()
			if len(rj) > 0 {
				atomic.AddInt64(&cnt.pollsBusy, 1)
			}
			_ = h.sched.GetRunningJob(cs.Jobs[i%3])
			if i%5 == 0 {
				_ = h.sched.GetJobHistory()
				if atomic.LoadInt32(&draining) == 0 {
					// not while jobs are being paused: job management (AddJob / clearCrontab) racing with
					// this status call is outside "concurrent run requests"
					_ = h.sched.GetScheduleEntries()
				}
			}
			bad, _, _ := h.conservation()
			atomic.AddInt64(&cnt.consChecks, 1)
			for _, b := range bad {
				key := c11FirstWords(b, 1)
				if !reported[key] {
					reported[key] = true
					viol("slot-conservation", "run slots are not conserved: "+b, "tickets + running == pool; running == runs holding a slot", b, nil)
				}
			}
			atomic.AddInt64(&cnt.polls, 1)
			time.Sleep(2 * time.Millisecond)
		}
	}()
	wg.Wait()
	o.Ack(caseID, 1, nil)

	// drain: pause all jobs (cron entries and subscriptions removed), let retries die out
	o.Begin(caseID, 2, map[string]any{"step": "pause + drain"})
	atomic.StoreInt32(&draining, 1)
	time.Sleep(20 * time.Millisecond)
	atomic.StoreInt64(&loop.flakyN, 0) // no more injected sink rejections: pending re-runs succeed and the retry chains end
	for _, id := range cs.Jobs {
		if err := h.sched.PauseJob(id); err != nil {
			o.Stat("conc.pause_error", 1)
		}
	}
	rec := h.rec
	quiet := false
	for i := 0; i < 15; i++ {
		if !rec.waitFor(c11Watchdog, func() bool { return len(rec.open) == 0 }) {
			break
		}
		rec.mu.Lock()
		g := rec.gen
		rec.mu.Unlock()
		time.Sleep(1400 * time.Millisecond)
		rec.mu.Lock()
		quiet = rec.gen == g && len(rec.open) == 0
		rec.mu.Unlock()
		if quiet {
			break
		}
	}
	atomic.StoreInt32(&stop, 1)
	pwg.Wait()
	o.Ack(caseID, 2, nil)

	// ---- verdicts from the recorded events
	o.Begin(caseID, 3, map[string]any{"step": "final-state + offline checks"})
	// a run whose pipeline has reported its outcome only has to store its result and give the
	// slot back; wait for that (watchdog) before judging
	rec.waitFor(c11Watchdog, func() bool {
		for _, r := range rec.open {
			if r.Outcome != "" {
				return false
			}
		}
		return true
	})
	// runs that hold a slot without an outcome: decide from the goroutine state whether they can ever end
	if n := c11JudgeStuck(h, viol); n > 0 {
		o.Stat("conc.runs_blocked_forever", int64(n))
	}
	runs := rec.snapshotRuns()
	stuck := 0
	for _, r := range runs {
		if r.SeqReturn == 0 {
			stuck++
			if r.Outcome != "" {
				viol("slot-not-released:"+r.Outcome, fmt.Sprintf("run of %s reported outcome %q but still holds its run slot", r.ID, r.Outcome), "slot returned", r, nil)
			}
			continue
		}
		o.Stat("conc.runs_ended", 1)
		o.Stat("conc.outcome:"+c11nz(r.Outcome, "none"), 1)
		if r.Full {
			o.Stat("conc.runs_fullsync", 1)
		}
		if r.ID == "" {
			o.Stat("conc.run_without_id", 1)
			continue
		}
		if !r.ResFound || r.ResID != r.ID || r.ResEnd.Before(r.TBorrow.Round(0).Add(-time.Millisecond)) {
			viol("result-missing:"+c11nz(r.Outcome, "none"),
				fmt.Sprintf("run of %s (outcome %q) gave its slot back but no run result newer than its start is stored", r.ID, r.Outcome),
				"job result with End >= start of the run", r, nil)
		} else {
			o.Stat("conc.results_checked", 1)
		}
		max := cs.PoolIncr
		if r.Full {
			max = cs.PoolFull
		}
		if r.AfterBorrow < 0 || r.AfterBorrow > max-1 {
			viol("tickets-out-of-range", fmt.Sprintf("tickets left after a borrow = %d with pool %d", r.AfterBorrow, max), "0..pool-1", r, nil)
		}
	}
	if !quiet {
		o.Stat("conc.not_quiescent_at_end", 1)
		var open []c11Run
		for _, r := range runs {
			if r.SeqReturn == 0 {
				open = append(open, r)
			}
		}
		o.Emit(map[string]any{"t": "inconclusive", "case": caseID, "prop": "C11", "open_runs": open,
			"why": fmt.Sprintf("watchdog: hub did not become quiescent after pausing all jobs (%d runs still hold a slot)", stuck)})
	}
	bad, _, _ := h.conservation()
	for _, b := range bad {
		viol("slot-conservation", "run slots are not conserved: "+b, "tickets + running == pool", b, nil)
	}
	if listed, checked := h.publicRunningCheck(); checked {
		o.Stat("conc.public_running_checks", 1)
		if len(listed) != 0 {
			viol("running-after-end", fmt.Sprintf("GetRunningJobs lists %v although no run holds a slot", listed), "[]", listed, nil)
		}
	} else {
		o.Stat("conc.public_running_check_skipped", 1)
	}
	// probe 1: raffle intervals
	var rivs []c11Interval
	for _, iv := range c11RunIntervals(runs) {
		if iv.Key != "" {
			rivs = append(rivs, iv)
		}
	}
	// probe 2: loopback sink request intervals
	var sivs []c11Interval
	reqs := loop.requests()
	for _, r := range reqs {
		o.Stat(fmt.Sprintf("conc.loopback.%s.%d", r.Kind, r.Code), 1)
		if r.Kind != "sink" {
			continue
		}
		t := "incremental"
		if r.Full {
			t = "fullsync"
		}
		sivs = append(sivs, c11Interval{Key: r.Job, Typ: t, Start: r.Start, End: r.End, Src: "sink-probe"})
	}
	// probe 3: JS enter/exit markers (parallelism 1: calls of one run are sequential)
	var jivs []c11Interval
	openJS := map[string]int64{}
	for _, m := range h.markersCopy() {
		ps := strings.Split(m.Msg, ":")
		if len(ps) < 3 {
			continue
		}
		switch ps[1] {
		case "enter":
			if s, ok := openJS[ps[2]]; ok {
				jivs = append(jivs, c11Interval{Key: ps[2], Start: s, End: 0, Src: "js-probe"})
			}
			openJS[ps[2]] = m.Seq
			o.Stat("conc.jsmarker.enter", 1)
		case "exit":
			if s, ok := openJS[ps[2]]; ok {
				jivs = append(jivs, c11Interval{Key: ps[2], Start: s, End: m.Seq, Src: "js-probe"})
				delete(openJS, ps[2])
			}
			o.Stat("conc.jsmarker.exit", 1)
		}
	}
	pools := map[string]int{"incremental": cs.PoolIncr, "fullsync": cs.PoolFull}
	overl := 0
	for _, probe := range []struct {
		name string
		ivs  []c11Interval
		pool bool
	}{{"raffle", rivs, true}, {"sink-probe", sivs, true}, {"js-probe", jivs, false}} {
		seen := map[string]bool{}
		for _, p := range c11Overlaps(probe.ivs) {
			if seen[p[0].Key] {
				continue
			}
			seen[p[0].Key] = true
			viol("overlap-same-id:"+probe.name, fmt.Sprintf("two runs of job %s were active at the same time (%s intervals overlap)", p[0].Key, probe.name),
				"disjoint run intervals per job id", p, nil)
		}
		mx, conc := c11MaxOpen(probe.ivs)
		overl += conc
		o.Stat("conc.intervals:"+probe.name, int64(len(probe.ivs)))
		o.Stat("conc.simultaneous_starts:"+probe.name, int64(conc))
		for t, m := range mx {
			if t != "" {
				o.StatMax("max:conc.open_"+t+":"+probe.name, int64(m))
			}
			if probe.pool && m > pools[t] {
				viol("pool-exceeded:"+t+":"+probe.name, fmt.Sprintf("%d %s runs were active at once with a pool of %d (%s)", m, t, pools[t], probe.name), pools[t], m, nil)
			}
		}
	}
	rec.mu.Lock()
	for kk, v := range rec.counts {
		o.Stat("conc."+kk, v)
	}
	anom := append([]string(nil), rec.anomalies...)
	started := rec.started
	backpressure := rec.counts["ev.backpressure"]
	rec.mu.Unlock()
	for _, a := range anom {
		o.Stat("conc.recorder_anomaly", 1)
		o.Emit(map[string]any{"t": "ev", "case": caseID, "k": "anomaly", "msg": a})
	}
	o.Stat("conc.runs_started", int64(started))
	o.Stat("conc.writes+events", cnt.writes)
	o.Stat("conc.RunJob_ok", cnt.runJobOK)
	o.Stat("conc.RunJob_already_running", cnt.runJobBusy)
	o.Stat("conc.RunJob_error", cnt.runJobErr)
	o.Stat("conc.KillJob", cnt.kills)
	o.Stat("conc.status_polls", cnt.polls)
	o.Stat("conc.status_polls_with_running_jobs", cnt.pollsBusy)
	o.Stat("conc.conservation_checks", cnt.consChecks)
	if os.Getenv("GORACE") != "" {
		o.Stat("race_runs", 1)
	}
	nontrivial := overl > 0 || cnt.runJobBusy > 0 || backpressure > 0
	tags := []string{"conc"}
	if nontrivial {
		tags = append(tags, "overlapping-requests")
	}
	o.Case(caseID, ctx.Seed, cs, nontrivial, tags)
	o.Ack(caseID, 3, nil)
	rec.mu.Lock()
	rec.closing = true // the store stays open until the process exits (pending re-run timers)
	rec.mu.Unlock()
	return nil
}
