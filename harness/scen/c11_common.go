package scen

// Shared parts of the C11 monitors ("every accepted job ends with a recorded outcome;
// one run per job id"): in-process assembly of store / bus / runner / scheduler, the
// run-lifecycle recorder (statsd client handed to the runner), the marker-capturing
// logger, the loopback HTTP building blocks, sub-process spawning and the classifier
// of fatal endings.

import (
	"bytes"
	"context"
	"encoding/base64"
	"encoding/json"
	"fmt"
	"io"
	"net/http"
	"net/http/httptest"
	"os"
	"os/exec"
	"path/filepath"
	"runtime"
	"sort"
	"strconv"
	"strings"
	"sync"
	"sync/atomic"
	"syscall"
	"time"

	"github.com/DataDog/datadog-go/v5/statsd"
	"go.uber.org/zap"
	"go.uber.org/zap/zapcore"

	"github.com/mimiro-io/datahub/internal/conf"
	"github.com/mimiro-io/datahub/internal/jobs"
	"github.com/mimiro-io/datahub/internal/security"
	"github.com/mimiro-io/datahub/internal/server"
)

// one logical clock for everything the monitors record (statsd events, probe
// requests, JS markers); only the order of its values is ever used.
var c11Clock int64

func c11Tick() int64 { return atomic.AddInt64(&c11Clock, 1) }

func c11Goid() int64 {
	var buf [64]byte
	n := runtime.Stack(buf[:], false)
	// "goroutine 123 [running]:"
	s := string(buf[:n])
	s = strings.TrimPrefix(s, "goroutine ")
	if i := strings.IndexByte(s, ' '); i > 0 {
		if v, err := strconv.ParseInt(s[:i], 10, 64); err == nil {
			return v
		}
	}
	return -1
}

// ---------------------------------------------------------------- run recorder

// c11Run is one run of a job as the raffle / job.Run reported it through the statsd
// client: ticket gauge (borrow) -> jobs.count -> jobs.success|error|cancelled ->
// ticket gauge (return); all four are issued by the goroutine that executes job.Run.
type c11Run struct {
	Gid         int64     `json:"gid"`
	Full        bool      `json:"full"`
	ID          string    `json:"id"`
	SeqBorrow   int64     `json:"seqBorrow"`
	SeqReturn   int64     `json:"seqReturn"` // 0 = slot still held
	SeqOutcome  int64     `json:"seqOutcome"`
	TBorrow     time.Time `json:"tBorrow"`
	AfterBorrow int       `json:"ticketsAfterBorrow"`
	AfterReturn int       `json:"ticketsAfterReturn"`
	Outcome     string    `json:"outcome"` // success | error | cancelled | ""
	ResFound    bool      `json:"resFound"`
	ResID       string    `json:"resId"`
	ResEnd      time.Time `json:"resEnd"`
	ResStart    time.Time `json:"resStart"`
	ResErr      string    `json:"resErr"`
	judged      bool
}

type c11StoredResult struct {
	ID        string    `json:"id"`
	Title     string    `json:"title"`
	Start     time.Time `json:"start"`
	End       time.Time `json:"end"`
	LastError string    `json:"lastError"`
	Processed int       `json:"processed"`
}

type c11Rec struct {
	statsd.NoOpClient
	mu        sync.Mutex
	cond      *sync.Cond
	store     *server.Store
	open      map[int64]*c11Run
	runs      []*c11Run
	ended     int
	started   int
	anomalies []string
	counts    map[string]int64
	gen       int64 // bumped at every event (lets waiters see progress)
	closing   bool  // the scenario is over: do not read results any more
	endedA    int64 // == ended, readable without the lock
}

func newC11Rec() *c11Rec {
	r := &c11Rec{open: map[int64]*c11Run{}, counts: map[string]int64{}}
	r.cond = sync.NewCond(&r.mu)
	return r
}

func (r *c11Rec) Gauge(name string, value float64, tags []string, rate float64) error {
	full := false
	switch name {
	case "jobs.tickets.incr":
	case "jobs.tickets.full":
		full = true
	default:
		return nil
	}
	gid := c11Goid()
	now := time.Now()
	r.mu.Lock()
	defer r.mu.Unlock()
	r.gen++
	seq := c11Tick()
	if run, ok := r.open[gid]; ok && run.Full == full {
		// second ticket gauge of this goroutine: the slot is given back. The run result is
		// stored by job.Run before its deferred returnTicket runs, so it must be readable now.
		run.SeqReturn = seq
		run.AfterReturn = int(value)
		if r.store != nil && run.ID != "" && !r.closing {
			res := &c11StoredResult{}
			if err := r.store.GetObject(server.JobResultIndex, run.ID, res); err == nil && res.ID != "" {
				run.ResFound, run.ResID, run.ResEnd, run.ResStart, run.ResErr = true, res.ID, res.End, res.Start, res.LastError
			}
		}
		delete(r.open, gid)
		r.ended++
		atomic.AddInt64(&r.endedA, 1)
		r.counts["ev.return"]++
		r.cond.Broadcast()
		return nil
	}
	run := &c11Run{Gid: gid, Full: full, SeqBorrow: seq, TBorrow: now, AfterBorrow: int(value)}
	r.open[gid] = run
	r.runs = append(r.runs, run)
	r.started++
	r.counts["ev.borrow"]++
	r.cond.Broadcast()
	return nil
}

func (r *c11Rec) Count(name string, value int64, tags []string, rate float64) error {
	switch name {
	case "jobs.count", "jobs.success", "jobs.error", "jobs.cancelled":
	case "jobs.backpressure":
		r.mu.Lock()
		r.counts["ev.backpressure"]++
		r.gen++
		r.mu.Unlock()
		return nil
	default:
		return nil
	}
	gid := c11Goid()
	title := ""
	for _, t := range tags {
		if strings.HasPrefix(t, "jobs:job-") {
			title = strings.TrimPrefix(t, "jobs:job-")
		}
	}
	r.mu.Lock()
	defer r.mu.Unlock()
	r.gen++
	seq := c11Tick()
	run := r.open[gid]
	if run == nil {
		r.anomalies = append(r.anomalies, fmt.Sprintf("%s for %q from goroutine %d that holds no ticket", name, title, gid))
		return nil
	}
	if name == "jobs.count" {
		run.ID = title // the scenarios use title == id
		r.counts["ev.start"]++
	} else {
		run.Outcome = strings.TrimPrefix(name, "jobs.")
		run.SeqOutcome = seq
		r.counts["ev."+run.Outcome]++
	}
	r.cond.Broadcast()
	return nil
}

// waitFor blocks until pred (evaluated under the lock) holds or the watchdog expires.
func (r *c11Rec) waitFor(d time.Duration, pred func() bool) bool {
	deadline := time.Now().Add(d)
	stop := make(chan struct{})
	defer close(stop)
	go func() { // wake the waiter periodically so that the watchdog is noticed
		t := time.NewTicker(50 * time.Millisecond)
		defer t.Stop()
		for {
			select {
			case <-stop:
				return
			case <-t.C:
				r.mu.Lock()
				r.cond.Broadcast()
				r.mu.Unlock()
			}
		}
	}()
	r.mu.Lock()
	defer r.mu.Unlock()
	for !pred() {
		if time.Now().After(deadline) {
			return false
		}
		r.cond.Wait()
	}
	return true
}

// takeUnjudged returns the runs that gave their slot back and were not returned before.
func (r *c11Rec) takeUnjudged() []c11Run {
	r.mu.Lock()
	defer r.mu.Unlock()
	var out []c11Run
	for _, x := range r.runs {
		if x.SeqReturn != 0 && !x.judged {
			x.judged = true
			out = append(out, *x)
		}
	}
	return out
}

func c11nz(s, d string) string {
	if s == "" {
		return d
	}
	return s
}

func c11FirstWords(s string, n int) string {
	f := strings.Fields(s)
	if len(f) > n {
		f = f[:n]
	}
	return strings.Join(f, "_")
}

func (r *c11Rec) snapshotRuns() []c11Run {
	r.mu.Lock()
	defer r.mu.Unlock()
	out := make([]c11Run, len(r.runs))
	for i, x := range r.runs {
		out[i] = *x
	}
	return out
}

// ---------------------------------------------------------------- logger that captures markers

type c11LogCore struct {
	mu      *sync.Mutex
	markers *[]c11Marker
}

type c11Marker struct {
	Seq int64
	Msg string
}

func (c c11LogCore) Enabled(l zapcore.Level) bool      { return l >= zapcore.InfoLevel }
func (c c11LogCore) With([]zapcore.Field) zapcore.Core { return c }
func (c c11LogCore) Sync() error                       { return nil }
func (c c11LogCore) Check(e zapcore.Entry, ce *zapcore.CheckedEntry) *zapcore.CheckedEntry {
	if c.Enabled(e.Level) {
		return ce.AddCore(e, c)
	}
	return ce
}
func (c c11LogCore) Write(e zapcore.Entry, _ []zapcore.Field) error {
	if strings.HasPrefix(e.Message, "c11:") {
		c.mu.Lock()
		*c.markers = append(*c.markers, c11Marker{Seq: c11Tick(), Msg: e.Message})
		c.mu.Unlock()
	}
	return nil
}

// ---------------------------------------------------------------- hub

type c11Hub struct {
	dir      string
	env      *conf.Config
	store    *server.Store
	dsm      *server.DsManager
	bus      server.EventBus
	runner   *jobs.Runner
	sched    *jobs.Scheduler
	rec      *c11Rec
	poolIncr int
	poolFull int
	markMu   sync.Mutex
	markers  []c11Marker
	prefix   string // namespace prefix of http://data.c11/
}

// c11OpenHub assembles store, event bus, dataset manager, token providers, runner and
// scheduler the way app.go does (real bus, production runner settings Concurrent=1).
// dev selects a development-mode logger like the default profile "local" of the hub
// (zap DPanic-level messages panic there).
func c11OpenHub(dir string, poolIncr, poolFull int, dev bool) (*c11Hub, error) {
	h := &c11Hub{dir: dir, poolIncr: poolIncr, poolFull: poolFull}
	opts := []zap.Option{}
	if dev {
		opts = append(opts, zap.Development())
	}
	logger := zap.New(c11LogCore{mu: &h.markMu, markers: &h.markers}, opts...).Sugar()
	h.env = &conf.Config{
		Logger:        logger,
		StoreLocation: dir,
		RunnerConfig:  &conf.RunnerConfig{PoolIncremental: poolIncr, PoolFull: poolFull, Concurrent: 1},
	}
	_ = os.MkdirAll(dir, 0o755)
	h.rec = newC11Rec()
	eb, err := server.NewBus(h.env)
	if err != nil {
		return nil, err
	}
	h.bus = eb
	h.store = server.NewStore(h.env, h.rec)
	h.rec.store = h.store
	h.dsm = server.NewDsManager(h.env, h.store, h.bus)
	pm := security.NewProviderManager(h.env, h.store, logger)
	tps := security.NewTokenProviders(logger, pm, nil)
	h.runner = jobs.NewRunner(h.env, h.store, tps, h.bus, h.rec)
	h.sched = jobs.NewScheduler(h.env, h.store, h.dsm, h.runner)
	p, err := h.store.NamespaceManager.AssertPrefixMappingForExpansion("http://data.c11/")
	if err != nil {
		return nil, err
	}
	h.prefix = p
	return h, nil
}

func (h *c11Hub) close() {
	h.runner.Stop()
	_ = h.store.Close()
}

func (h *c11Hub) markersCopy() []c11Marker {
	h.markMu.Lock()
	defer h.markMu.Unlock()
	return append([]c11Marker(nil), h.markers...)
}

// writeEntities stores entities e-<from>..e-<to-1> (version v) in a dataset and emits the
// dataset event exactly as the web handler does after a POST to /datasets/<name>/entities.
func (h *c11Hub) writeEntities(ds string, from, to int, v int, refTo string) error {
	d := h.dsm.GetDataset(ds)
	if d == nil {
		return fmt.Errorf("no dataset %s", ds)
	}
	ents := h.mkEntities(from, to, v)
	if refTo != "" {
		for i, e := range ents {
			e.ID = fmt.Sprintf("%s:d-%d", h.prefix, from+i)
			e.References[h.prefix+":ref"] = fmt.Sprintf("%s:e-%d", h.prefix, from+i)
		}
	}
	if err := d.StoreEntities(ents); err != nil {
		return err
	}
	ctx := context.Background()
	h.bus.Emit(ctx, "dataset."+ds, nil)
	h.bus.Emit(ctx, "dataset.core.Dataset", nil)
	return nil
}

func (h *c11Hub) mkEntities(from, to, v int) []*server.Entity {
	var ents []*server.Entity
	for i := from; i < to; i++ {
		e := server.NewEntity(fmt.Sprintf("%s:e-%d", h.prefix, i), 0)
		e.Properties[h.prefix+":v"] = float64(v)
		ents = append(ents, e)
	}
	return ents
}

// conservation reads tickets and running jobs in one critical section of the raffle and
// compares them with the pool sizes and with the recorder's open runs. Returns
// descriptions of broken invariants (empty = fine).
func (h *c11Hub) conservation() (bad []string, nIncr, nFull int) {
	h.sched.VerifRaffleSnapshot(func(ti, tf int, running []jobs.VerifRunning) {
		ids := map[string]bool{}
		for _, r := range running {
			ids[r.ID] = true
			if r.IsFull {
				nFull++
			} else {
				nIncr++
			}
		}
		if ti+nIncr != h.poolIncr {
			bad = append(bad, fmt.Sprintf("incremental: tickets %d + running %d != pool %d", ti, nIncr, h.poolIncr))
		}
		if tf+nFull != h.poolFull {
			bad = append(bad, fmt.Sprintf("fullsync: tickets %d + running %d != pool %d", tf, nFull, h.poolFull))
		}
		if ti < 0 || tf < 0 {
			bad = append(bad, fmt.Sprintf("negative tickets incr=%d full=%d", ti, tf))
		}
		// recorder side (its borrow/return events are issued inside the same critical sections)
		h.rec.mu.Lock()
		oi, of := 0, 0
		for _, r := range h.rec.open {
			if r.Full {
				of++
			} else {
				oi++
			}
			if r.ID != "" && !ids[r.ID] {
				bad = append(bad, fmt.Sprintf("run of %s holds a slot but is not in runningJobs", r.ID))
			}
		}
		h.rec.mu.Unlock()
		if oi != nIncr || of != nFull {
			bad = append(bad, fmt.Sprintf("running jobs (incr %d, full %d) != runs that hold a slot (incr %d, full %d)", nIncr, nFull, oi, of))
		}
	})
	return
}

// publicRunningCheck asks the public status API for the running jobs at an instant at which
// the recorder knows that no run holds a slot: the recorder's event counter is read before
// and after the call (ticket events are issued inside the raffle's critical sections, so an
// unchanged counter means that no slot was taken or returned in between). Returns the
// listing that should have been empty (nil = fine) and whether such an instant was found.
func (h *c11Hub) publicRunningCheck() (listed []string, checked bool) {
	for try := 0; try < 50; try++ {
		h.rec.mu.Lock()
		g1, open1 := h.rec.gen, len(h.rec.open)
		h.rec.mu.Unlock()
		if open1 != 0 {
			time.Sleep(20 * time.Millisecond)
			continue
		}
		rj := h.sched.GetRunningJobs()
		h.rec.mu.Lock()
		g2, open2 := h.rec.gen, len(h.rec.open)
		h.rec.mu.Unlock()
		if g1 != g2 || open2 != 0 {
			continue
		}
		for _, j := range rj {
			listed = append(listed, j.JobID)
		}
		return listed, true
	}
	return nil, false
}

// ---------------------------------------------------------------- loopback building blocks

type c11Req struct {
	Kind  string `json:"kind"` // src | tr | sink
	Job   string `json:"job"`
	Full  bool   `json:"full"`
	Start int64  `json:"start"`
	End   int64  `json:"end"`
	N     int    `json:"n"`
	Code  int    `json:"code"`
}

type c11Loop struct {
	srv      *httptest.Server
	mu       sync.Mutex
	reqs     []*c11Req
	gen      map[string]int // per job: data generation served by the source endpoint
	nEnt     map[string]int
	delay    time.Duration
	flakyN   int64 // sink: every flakyN-th request is rejected (0 = never)
	sinkReqs int64
	prefixNS string
	stalled  map[string]int // per job: source requests that the remote end is holding right now
	release  chan struct{}  // closed by stopStalling
	noStall  int32
	relOnce  sync.Once
}

// stalledNow says how many source requests of the job the stalling remote end holds right now.
func (l *c11Loop) stalledNow(job string) int {
	l.mu.Lock()
	defer l.mu.Unlock()
	return l.stalled[job]
}

// stopStalling lets every held request go and makes the stall endpoints answer normally.
func (l *c11Loop) stopStalling() {
	atomic.StoreInt32(&l.noStall, 1)
	l.relOnce.Do(func() { close(l.release) })
}

func newC11Loop() *c11Loop {
	l := &c11Loop{gen: map[string]int{}, nEnt: map[string]int{}, stalled: map[string]int{}, release: make(chan struct{})}
	l.srv = httptest.NewServer(http.HandlerFunc(l.serve))
	return l
}

func (l *c11Loop) url() string { return l.srv.URL }

func (l *c11Loop) begin(kind, job string) *c11Req {
	r := &c11Req{Kind: kind, Job: job, Start: c11Tick()}
	l.mu.Lock()
	l.reqs = append(l.reqs, r)
	l.mu.Unlock()
	return r
}

func (l *c11Loop) finish(r *c11Req, code, n int) {
	l.mu.Lock()
	r.Code, r.N = code, n
	r.End = c11Tick()
	l.mu.Unlock()
}

func (l *c11Loop) requests() []c11Req {
	l.mu.Lock()
	defer l.mu.Unlock()
	out := make([]c11Req, len(l.reqs))
	for i, r := range l.reqs {
		out[i] = *r
	}
	return out
}

// paths: /src/<job>/<ok|fail>   /tr/<job>/<ok|fail>   /sink/<job>/<ok|fail|flaky>
func (l *c11Loop) serve(w http.ResponseWriter, req *http.Request) {
	parts := strings.Split(strings.Trim(req.URL.Path, "/"), "/")
	if len(parts) < 3 {
		http.Error(w, "bad path", 404)
		return
	}
	kind, job, mode := parts[0], parts[1], parts[2]
	r := l.begin(kind, job)
	body, _ := io.ReadAll(req.Body)
	if l.delay > 0 {
		time.Sleep(l.delay)
	}
	switch kind {
	case "src":
		if mode == "fail" {
			l.finish(r, 500, 0)
			http.Error(w, "c11 injected source failure", 500)
			return
		}
		if (mode == "stallh" || mode == "stallb") && atomic.LoadInt32(&l.noStall) == 0 {
			// a remote end that stalls: before answering at all, or after the headers and the
			// beginning of the payload. It lets go when the client goes away or the case is over.
			if mode == "stallb" {
				w.Header().Set("Content-Type", "application/json")
				w.WriteHeader(200)
				_, _ = w.Write([]byte(`[{"id":"@context","namespaces":{"c11h":"http://data.c11/"}},{"id":"c11h:e-0","refs":{},"props":{"c11h:v":0}},`))
				if f, ok := w.(http.Flusher); ok {
					f.Flush()
				}
			}
			l.mu.Lock()
			l.stalled[job]++
			l.mu.Unlock()
			gone := false
			select {
			case <-l.release:
			case <-req.Context().Done():
				gone = true
			}
			l.mu.Lock()
			l.stalled[job]--
			l.mu.Unlock()
			if gone || mode == "stallb" {
				l.finish(r, 499, 0) // client went away / truncated body
				return
			}
		}
		l.mu.Lock()
		gen, n := l.gen[job], l.nEnt[job]
		l.mu.Unlock()
		tok := "g" + strconv.Itoa(gen)
		arr := []any{map[string]any{"id": "@context", "namespaces": map[string]string{"c11h": "http://data.c11/"}}}
		cnt := 0
		if req.URL.Query().Get("since") != tok {
			for i := 0; i < n; i++ {
				arr = append(arr, map[string]any{"id": fmt.Sprintf("c11h:e-%d", i), "refs": map[string]any{}, "props": map[string]any{"c11h:v": gen}})
				cnt++
			}
		}
		arr = append(arr, map[string]any{"id": "@continuation", "token": tok})
		b, _ := json.Marshal(arr)
		l.finish(r, 200, cnt)
		w.Header().Set("Content-Type", "application/json")
		_, _ = w.Write(b)
	case "tr":
		if mode == "fail" {
			l.finish(r, 400, 0)
			http.Error(w, "c11 injected transform failure", 400)
			return
		}
		l.finish(r, 200, bytes.Count(body, []byte(`"id"`)))
		w.Header().Set("Content-Type", "application/json")
		_, _ = w.Write(body)
	case "sink":
		r.Full = req.Header.Get("universal-data-api-full-sync-id") != ""
		var arr []map[string]any
		_ = json.Unmarshal(body, &arr)
		n, poisoned := 0, false
		for _, e := range arr {
			id, _ := e["id"].(string)
			if id == "@context" || id == "" {
				continue
			}
			n++
			if strings.HasSuffix(id, "-1") {
				poisoned = true
			}
		}
		reject := (mode == "fail" && poisoned) || mode == "failall"
		if fn := atomic.LoadInt64(&l.flakyN); mode == "flaky" && fn > 0 && atomic.AddInt64(&l.sinkReqs, 1)%fn == 0 {
			reject = true
		}
		if reject {
			l.finish(r, 400, n)
			http.Error(w, "c11 injected sink rejection", 400) // 4xx: heimdall does not retry
			return
		}
		l.finish(r, 200, n)
		w.WriteHeader(200)
	default:
		l.finish(r, 404, 0)
		http.Error(w, "bad kind", 404)
	}
}

// c11JS returns the base64 code of a marker-emitting transform. It logs enter/exit
// markers through Log() (captured by the hub logger), spins a little so that the
// interval is not empty, and throws on an entity whose id ends in "-1" when fail is set.
func c11JS(job string, spin int, fail bool) string {
	code := fmt.Sprintf(`
function transform_entities(entities) {
	Log("c11:enter:%[1]s:" + entities.length);
	var x = 0;
	for (var k = 0; k < %[2]d; k++) { x = (x + k) %% 7; }
	for (var i = 0; i < entities.length; i++) {
		var id = "" + GetId(entities[i]);
		if (%[3]t && id.length >= 2 && id.substring(id.length - 2) === "-1") {
			Log("c11:throw:%[1]s");
			throw "c11 injected transform failure";
		}
	}
	Log("c11:exit:%[1]s:" + entities.length);
	return entities;
}`, job, spin, fail)
	return base64.StdEncoding.EncodeToString([]byte(code))
}

// ---------------------------------------------------------------- sub-process plumbing

type c11Sub struct {
	Lines     []map[string]any
	Done      bool
	TimedOut  bool
	Stderr    string
	LastBegin map[string]any
	ExitErr   string
}

// c11Spawn runs os.Args[0] as a sub-child with the given scenario and -args string and
// reads back its JSONL output. The sub-child stays in the process group of the parent
// (the driver kills the whole group when its own watchdog fires).
func c11Spawn(ctx *Ctx, scenario, args, tag string, timeout time.Duration, env []string) *c11Sub {
	dir := ctx.NewDir("sub-" + tag)
	defer os.RemoveAll(dir)
	outf := filepath.Join(dir, "out.jsonl")
	errf := filepath.Join(dir, "stderr.txt")
	cmd := exec.Command(os.Args[0], "-scenario", scenario, "-seed", strconv.FormatInt(ctx.Seed, 10), "-cases", "1",
		"-tier", ctx.Tier, "-scratch", filepath.Join(dir, "s"), "-out", outf, "-args", args)
	_ = os.MkdirAll(filepath.Join(dir, "s"), 0o755)
	cmd.Env = append(os.Environ(), env...)
	ef, _ := os.Create(errf)
	cmd.Stdout, cmd.Stderr = ef, ef
	res := &c11Sub{}
	if err := cmd.Start(); err != nil {
		ef.Close()
		res.ExitErr = "start: " + err.Error()
		return res
	}
	var timedOut int32
	timer := time.AfterFunc(timeout, func() {
		atomic.StoreInt32(&timedOut, 1)
		_ = cmd.Process.Signal(syscall.SIGQUIT) // goroutine dump into stderr.txt
		time.Sleep(2 * time.Second)
		_ = cmd.Process.Kill()
	})
	werr := cmd.Wait()
	timer.Stop()
	ef.Close()
	res.TimedOut = atomic.LoadInt32(&timedOut) == 1
	if werr != nil {
		res.ExitErr = werr.Error()
	}
	if b, err := os.ReadFile(errf); err == nil {
		res.Stderr = string(b)
	}
	if b, err := os.ReadFile(outf); err == nil {
		for _, ln := range bytes.Split(b, []byte("\n")) {
			if len(ln) == 0 {
				continue
			}
			var m map[string]any
			if json.Unmarshal(ln, &m) != nil {
				continue
			}
			switch m["t"] {
			case "done":
				res.Done = true
			case "begin":
				res.LastBegin = m
			case "ack":
			default:
				res.Lines = append(res.Lines, m)
			}
		}
	}
	return res
}

// c11Forward copies what a sub-child reported into the parent's output.
func c11Forward(ctx *Ctx, sub *c11Sub) (cases []string) {
	for _, m := range sub.Lines {
		switch m["t"] {
		case "stat":
			k, _ := m["k"].(string)
			v, _ := m["v"].(float64)
			if strings.HasPrefix(k, "hook:") && !strings.HasPrefix(k, "hook:pipeline.") {
				continue
			}
			if strings.HasPrefix(k, "max:") {
				ctx.Out.StatMax(k, int64(v))
			} else {
				ctx.Out.Stat(k, int64(v))
			}
		case "case":
			id, _ := m["id"].(string)
			cases = append(cases, id)
			ctx.Out.Emit(m)
		default:
			ctx.Out.Emit(m)
		}
	}
	return
}

// ---------------------------------------------------------------- classifier of fatal endings

// c11Death describes how a hub process ended, from its stderr.
type c11Death struct {
	Kind   string   `json:"kind"`   // stack-overflow | concurrent-map | nil-deref | makeslice | index | dpanic-log | panic | fatal | killed | exit
	Frame  string   `json:"frame"`  // first datahub (non-harness) function below the failure
	Frames []string `json:"frames"` // first few distinct datahub frames
	Head   string   `json:"head"`   // the fatal / panic line
}

func c11ParseDeath(stderr string) c11Death {
	d := c11Death{Kind: "exit"}
	lines := strings.Split(stderr, "\n")
	start := -1
	for i, l := range lines {
		if strings.HasPrefix(l, "fatal error:") || strings.HasPrefix(l, "panic:") {
			start = i
			d.Head = strings.TrimSpace(l)
			break
		}
	}
	if start < 0 {
		if strings.Contains(stderr, "SIGQUIT") {
			d.Kind = "killed"
		}
		return d
	}
	h := d.Head
	switch {
	case strings.Contains(h, "stack overflow"):
		d.Kind = "stack-overflow"
	case strings.Contains(h, "concurrent map"):
		d.Kind = "concurrent-map"
	case strings.Contains(h, "invalid memory address or nil pointer"):
		d.Kind = "nil-deref"
	case strings.Contains(h, "makeslice"):
		d.Kind = "makeslice"
	case strings.Contains(h, "index out of range") || strings.Contains(h, "slice bounds out of range"):
		d.Kind = "index"
	case strings.Contains(h, "Ignored key without a value") || strings.Contains(h, "non-string key"):
		d.Kind = "dpanic-log"
	case strings.HasPrefix(h, "fatal error:"):
		d.Kind = "fatal"
	default:
		d.Kind = "panic"
	}
	end := start + 400
	if end > len(lines) {
		end = len(lines)
	}
	seen := map[string]bool{}
	const modp = "github.com/mimiro-io/datahub/"
	inBlock := false
	for _, l := range lines[start:end] {
		// only the first goroutine block after the failure line: the failing goroutine (for a
		// panic re-raised by jobrunner's recover it is the embedded debug.Stack of the panic site)
		if strings.HasPrefix(l, "goroutine ") {
			if inBlock {
				break
			}
			inBlock = true
			continue
		}
		if !inBlock {
			continue
		}
		l = strings.TrimSpace(l)
		if !strings.HasPrefix(l, modp) {
			continue // "created by ..." lines and file:line lines do not start with the module path
		}
		f := strings.TrimPrefix(l, modp)
		if i := strings.LastIndex(f, "("); i > 0 {
			f = f[:i] // argument list
		}
		if strings.HasPrefix(f, "internal/verif/") || strings.HasPrefix(f, "internal/verifhook") {
			continue
		}
		f = strings.TrimPrefix(f, "internal/")
		if !seen[f] {
			seen[f] = true
			d.Frames = append(d.Frames, f)
			if len(d.Frames) >= 6 {
				break
			}
		}
	}
	if len(d.Frames) > 0 {
		d.Frame = d.Frames[0]
	}
	// a zap DPanic raised by a development logger carries the message in the panic value
	if d.Kind == "panic" {
		blob := strings.Join(lines[start:end], "\n")
		if strings.Contains(blob, "Ignored key without a value") || strings.Contains(blob, "Ignored key-value pairs with non-string keys") {
			d.Kind = "dpanic-log"
		}
	}
	return d
}

// c11DeathClass names the narrowest input class of a fatal ending: known root causes are
// recognised by (failure kind, first datahub frame, features of the configuration that
// the root cause needs); anything else is named by kind and frame.
func c11DeathClass(d c11Death, cfg *c11Cfg) string {
	hasLog := cfg != nil && strings.Contains(cfg.Handlers, "log")
	switch {
	case d.Kind == "stack-overflow" && strings.HasPrefix(d.Frame, "jobs.(*wrappedTransform).EndStoreContext") && (cfg == nil || (hasLog && cfg.Transform != "none")):
		return "died-transform+log-handler-EndStoreContext-recursion"
	case d.Kind == "nil-deref" && cfg != nil && cfg.Trigger == "onchange" && hasLog &&
		(strings.HasPrefix(d.Frame, "jobs.(*wrappedSink).") || strings.HasPrefix(d.Frame, "jobs.(*wrappedTransform).")):
		return "died-onchange+log-handler-not-initialised"
	case cfg != nil && (cfg.Transform == "js3" || cfg.Transform == "js5") && hasLog && c11HasFrame(d, "jobs.(*wrappedTransform).transformEntities") &&
		c11HasFrame(d, "jobs.(*IncrementalPipeline).sync.func"):
		// parallel workers of the incremental pipeline share one JS runtime when the transform is wrapped
		return "died-js-parallelism+log-handler-shared-runtime"
	case d.Kind == "stack-overflow" && c11HasFrame(d, "jobs.(*wrappedSink).processEntities") && (cfg == nil || hasLog):
		// the split-and-retry recursion of the per-entity error handling does not terminate
		return "died-log-handler-sink-bisection-recursion"
	case cfg != nil && cfg.Transform == "jsNoFunc" && d.Kind == "nil-deref" && c11HasFrame(d, "jobs.(*JavascriptTransform).transformEntities"):
		return "died-js-transform-code-without-transform_entities"
	case cfg != nil && (cfg.Transform == "jsNoCode" || cfg.Transform == "jsEmptyCode") && d.Kind == "nil-deref" && c11HasFrame(d, "jobs.(*JavascriptTransform)."):
		return "died-js-transform-without-code-nil-receiver"
	case d.Kind == "makeslice" && strings.HasPrefix(d.Frame, "jobs.(*IncrementalPipeline).sync"):
		return "via-C10-psize"
	case d.Kind == "dpanic-log" && c11HasFrame(d, "jobs.(*job).handleJobError"):
		return "died-devlogger-handleJobError-Warnw"
	}
	f := d.Frame
	if f == "" {
		f = "noframe"
	}
	return "died:" + d.Kind + ":" + f
}

func c11HasFrame(d c11Death, f string) bool {
	for _, x := range d.Frames {
		if strings.HasPrefix(x, f) {
			return true
		}
	}
	return false
}

func c11Tail(s string, n int) string {
	ls := strings.Split(s, "\n")
	for i, l := range ls {
		if strings.HasPrefix(l, "fatal error:") || strings.HasPrefix(l, "panic:") {
			e := i + n
			if e > len(ls) {
				e = len(ls)
			}
			return strings.Join(ls[i:e], "\n")
		}
	}
	if len(ls) > n {
		ls = ls[len(ls)-n:]
	}
	return strings.Join(ls, "\n")
}

// ---------------------------------------------------------------- interval checkers

type c11Interval struct {
	Key   string `json:"key"` // job id
	Typ   string `json:"typ"` // incremental | fullsync | ""
	Start int64  `json:"start"`
	End   int64  `json:"end"` // 0 = still open at the end of the observation
	Src   string `json:"src"` // which probe produced it
}

// c11Overlaps returns pairs of intervals of the same key that overlap.
func c11Overlaps(ivs []c11Interval) (pairs [][2]c11Interval) {
	by := map[string][]c11Interval{}
	for _, iv := range ivs {
		by[iv.Key] = append(by[iv.Key], iv)
	}
	keys := make([]string, 0, len(by))
	for k := range by {
		keys = append(keys, k)
	}
	sort.Strings(keys)
	const inf = int64(1) << 62
	for _, k := range keys {
		l := by[k]
		sort.Slice(l, func(i, j int) bool { return l[i].Start < l[j].Start })
		for i := 1; i < len(l); i++ {
			pe := l[i-1].End
			if pe == 0 {
				pe = inf
			}
			if l[i].Start < pe {
				pairs = append(pairs, [2]c11Interval{l[i-1], l[i]})
			}
		}
	}
	return
}

// c11MaxOpen returns the maximal number of simultaneously open intervals per type and
// the number of instants at which at least two intervals (of any key) were open.
func c11MaxOpen(ivs []c11Interval) (max map[string]int, concurrentPairs int) {
	type ev struct {
		at    int64
		delta int
		typ   string
	}
	var evs []ev
	const inf = int64(1) << 62
	for _, iv := range ivs {
		e := iv.End
		if e == 0 {
			e = inf
		}
		evs = append(evs, ev{iv.Start, +1, iv.Typ}, ev{e, -1, iv.Typ})
	}
	sort.Slice(evs, func(i, j int) bool {
		if evs[i].at != evs[j].at {
			return evs[i].at < evs[j].at
		}
		return evs[i].delta < evs[j].delta
	})
	max = map[string]int{}
	cur := map[string]int{}
	tot := 0
	for _, e := range evs {
		cur[e.typ] += e.delta
		tot += e.delta
		if cur[e.typ] > max[e.typ] {
			max[e.typ] = cur[e.typ]
		}
		if e.delta > 0 && tot >= 2 {
			concurrentPairs++
		}
	}
	return
}

func c11RunIntervals(runs []c11Run) []c11Interval {
	var ivs []c11Interval
	for _, r := range runs {
		t := "incremental"
		if r.Full {
			t = "fullsync"
		}
		ivs = append(ivs, c11Interval{Key: r.ID, Typ: t, Start: r.SeqBorrow, End: r.SeqReturn, Src: "raffle"})
	}
	return ivs
}

// ---------------------------------------------------------------- state of a run that does not end

// c11G is one goroutine of a full goroutine dump (runtime.Stack(all): the world is stopped
// while it is taken, so the dump is one consistent state of the process).
type c11G struct {
	ID        int64    `json:"id"`
	State     string   `json:"state"`
	Funcs     []string `json:"funcs"` // innermost first, without arguments
	CreatedBy string   `json:"createdBy"`
	Parent    int64    `json:"parent"` // "created by ... in goroutine N"
}

func c11DumpAll() string {
	n := 1 << 20
	for {
		buf := make([]byte, n)
		m := runtime.Stack(buf, true)
		if m < n || n >= 1<<27 {
			return string(buf[:m])
		}
		n *= 2
	}
}

func c11ParseGoroutines(dump string) map[int64]*c11G {
	gs := map[int64]*c11G{}
	var cur *c11G
	for _, l := range strings.Split(dump, "\n") {
		switch {
		case strings.HasPrefix(l, "goroutine ") && strings.HasSuffix(l, ":"):
			rest := strings.TrimPrefix(l, "goroutine ")
			i := strings.IndexByte(rest, ' ')
			if i < 0 {
				cur = nil
				continue
			}
			id, err := strconv.ParseInt(rest[:i], 10, 64)
			if err != nil {
				cur = nil
				continue
			}
			st := strings.Trim(rest[i+1:], "[]:")
			if j := strings.IndexByte(st, ','); j >= 0 {
				st = st[:j] // drop ", 2 minutes" / ", locked to thread"
			}
			cur = &c11G{ID: id, State: st}
			gs[id] = cur
		case cur == nil || l == "" || strings.HasPrefix(l, "\t"):
		case strings.HasPrefix(l, "created by "):
			cb := strings.TrimPrefix(l, "created by ")
			if k := strings.Index(cb, " in goroutine "); k >= 0 {
				cur.Parent, _ = strconv.ParseInt(strings.TrimSpace(cb[k+len(" in goroutine "):]), 10, 64)
				cb = cb[:k]
			}
			cur.CreatedBy = cb
		default:
			f := l
			if k := strings.LastIndex(f, "("); k > 0 {
				f = f[:k]
			}
			cur.Funcs = append(cur.Funcs, f)
		}
	}
	return gs
}

// c11Parked describes a run whose goroutine can never continue, decided from the state of
// the process alone (no duration enters the decision).
type c11Parked struct {
	Kind     string `json:"kind"` // waitgroup-without-workers | chan-without-counterpart
	Run      c11G   `json:"runGoroutine"`
	Children int    `json:"liveGoroutinesCreatedByTheRun"`
	WaitIn   string `json:"blockedIn"` // pipeline function that executes the blocking operation
}

const c11JobsPkg = "github.com/mimiro-io/datahub/internal/jobs."

func c11IsPipelineSync(f string) bool {
	return strings.HasPrefix(f, c11JobsPkg+"(*IncrementalPipeline).sync") || strings.HasPrefix(f, c11JobsPkg+"(*FullSyncPipeline).sync")
}

// c11ParkedIn judges one dump: the goroutine that executes the run (gid: the goroutine that
// took the run slot) is parked in a blocking operation issued directly by the pipeline's sync
// function (so the source is not being read and the sink is not being written) and no goroutine
// created by the run's goroutine is alive. For sync.WaitGroup.Wait that is final: the
// WaitGroup is a local variable of the batch, only the transform workers started by this very
// goroutine call Done on it, and they do not exist.
func c11ParkedIn(gs map[int64]*c11G, gid int64) *c11Parked {
	g := gs[gid]
	if g == nil || len(g.Funcs) == 0 {
		return nil
	}
	kind, at := "", -1
	for i, f := range g.Funcs {
		if f == "sync.(*WaitGroup).Wait" && (strings.HasPrefix(g.State, "semacquire") || strings.HasPrefix(g.State, "sync.WaitGroup.Wait")) {
			kind, at = "waitgroup-without-workers", i
			break
		}
		if strings.HasPrefix(f, "github.com/") {
			// first non-runtime frame: a channel operation issued right here?
			if (g.State == "chan receive" || g.State == "chan send" || g.State == "select (no cases)") && c11IsPipelineSync(f) {
				kind, at = "chan-without-counterpart", i-1
			}
			break
		}
	}
	if kind == "" || at+1 >= len(g.Funcs) || !c11IsPipelineSync(g.Funcs[at+1]) {
		return nil
	}
	children := 0
	for _, o := range gs {
		if o.Parent == gid {
			children++
		}
	}
	if children > 0 {
		return nil // a goroutine started by the run is alive and may release it
	}
	return &c11Parked{Kind: kind, Run: *g, Children: 0, WaitIn: strings.TrimPrefix(g.Funcs[at+1], c11JobsPkg)}
}

// c11BlockedForever takes two consistent dumps and reports a verdict only when both show the
// same final state (the second dump excludes the instant at which the last worker has just
// called Done and the waiter is not yet marked runnable).
func c11BlockedForever(gid int64) (*c11Parked, string) {
	d1 := c11DumpAll()
	p1 := c11ParkedIn(c11ParseGoroutines(d1), gid)
	if p1 == nil {
		return nil, ""
	}
	time.Sleep(150 * time.Millisecond)
	d2 := c11DumpAll()
	p2 := c11ParkedIn(c11ParseGoroutines(d2), gid)
	if p2 == nil || p2.Kind != p1.Kind || strings.Join(p2.Run.Funcs, ">") != strings.Join(p1.Run.Funcs, ">") {
		return nil, ""
	}
	return p2, c11StackOf(d2, gid)
}

func c11StackOf(dump string, gid int64) string {
	h := fmt.Sprintf("goroutine %d [", gid)
	i := strings.Index(dump, h)
	if i < 0 {
		return ""
	}
	s := dump[i:]
	if j := strings.Index(s, "\n\n"); j > 0 {
		s = s[:j]
	}
	return s
}

// c11JudgeStuck examines the runs that hold a slot without having reported an outcome. For
// each one whose goroutine is parked for good it reports `run-blocked-forever:<kind>`, then
// asks the hub to kill the job and, if the run is still listed as running and still parked,
// reports `kill-ignored:<kind>`. Returns the number of runs judged blocked.
func c11JudgeStuck(h *c11Hub, viol func(class, msg string, exp, obs any, extra map[string]any)) int {
	n := 0
	for _, r := range h.rec.snapshotRuns() {
		if r.SeqReturn != 0 || r.Outcome != "" {
			continue
		}
		p, stack := c11BlockedForever(r.Gid)
		if p == nil {
			continue
		}
		n++
		viol("run-blocked-forever:"+p.Kind,
			fmt.Sprintf("run of %s is parked in %s (state %q) inside %s and no goroutine started by the run exists that could release it: the run can never end, never stores a result and never gives its slot back",
				c11nz(r.ID, "?"), p.Run.Funcs[0], p.Run.State, p.WaitIn),
			"the run ends as success, failure or kill", p, map[string]any{"run": r, "stack": stack})
		if r.ID == "" {
			continue
		}
		h.sched.KillJob(r.ID)
		time.Sleep(200 * time.Millisecond)
		p2, stack2 := c11BlockedForever(r.Gid)
		listed := false
		for _, j := range h.sched.GetRunningJobs() {
			if j.JobID == r.ID {
				listed = true
			}
		}
		h.rec.mu.Lock()
		_, stillOpen := h.rec.open[r.Gid]
		h.rec.mu.Unlock()
		if p2 != nil && listed && stillOpen {
			viol("kill-ignored:"+p2.Kind,
				fmt.Sprintf("KillJob(%s) was issued but the run is still listed by GetRunningJobs and its goroutine is still parked in %s inside %s with nothing left to release it: the run cannot end as killed", r.ID, p2.Run.Funcs[0], p2.WaitIn),
				"after KillJob the run ends with outcome kill and leaves the running jobs", p2, map[string]any{"run": r, "stack": stack2})
		}
	}
	return n
}

// ---------------------------------------------------------------- killed run parked in a network read

const c11HTTPSourceRead = "github.com/mimiro-io/datahub/internal/jobs/source.(*HTTPDatasetSource).ReadEntities"

func c11HasVerifFrame(g *c11G) bool {
	for _, f := range g.Funcs {
		if strings.Contains(f, "/internal/verif/") {
			return true
		}
	}
	return strings.Contains(g.CreatedBy, "/internal/verif/") && len(g.Funcs) == 0
}

// c11ParkedNet judges one dump: the run's goroutine is parked in the HTTP client (waiting for
// the response headers or reading the body) below HTTPDatasetSource.ReadEntities, and the whole
// process is at rest: no goroutine of the hub is running or runnable, so nothing is under way
// that could still wake it (a cancellation that had reached the HTTP transport would show as a
// runnable transport goroutine or as the run's goroutine itself being runnable).
func c11ParkedNet(gs map[int64]*c11G, gid int64) *c11Parked {
	g := gs[gid]
	if g == nil || len(g.Funcs) == 0 {
		return nil
	}
	if g.State != "select" && g.State != "IO wait" {
		return nil
	}
	inner := g.Funcs[0]
	if !strings.HasPrefix(inner, "net/http.") && !strings.HasPrefix(inner, "internal/poll.") {
		return nil
	}
	under := false
	for _, f := range g.Funcs {
		if f == c11HTTPSourceRead {
			under = true
		}
	}
	if !under {
		return nil
	}
	for _, o := range gs {
		if o.ID == gid {
			continue
		}
		if (o.State == "running" || o.State == "runnable") && !c11HasVerifFrame(o) {
			return nil // something of the hub is still under way
		}
	}
	return &c11Parked{Kind: "http-source-read-not-cancelled", Run: *g, WaitIn: "source.(*HTTPDatasetSource).ReadEntities"}
}

// c11JudgeNetAfterKill: KillJob has returned (the run's context is cancelled: closing its Done
// channel readies every goroutine that waits on it before cancel returns), the remote end of the
// run's HttpDatasetSource is known to hold the request (the harness controls it and does not
// answer), and yet the run's goroutine is parked in the HTTP client with the rest of the hub at
// rest, in two dumps: nothing is left that ends this run, it cannot end as killed.
func c11JudgeNetAfterKill(h *c11Hub, loop *c11Loop, id string, killSeq int64, viol func(class, msg string, exp, obs any, extra map[string]any)) int {
	n := 0
	for _, r := range h.rec.snapshotRuns() {
		if r.SeqReturn != 0 || r.Outcome != "" || r.ID != id || r.SeqBorrow > killSeq {
			continue
		}
		var p *c11Parked
		stack := ""
		for try := 0; try < 4 && p == nil; try++ {
			if loop.stalledNow(id) == 0 {
				break
			}
			d1 := c11DumpAll()
			p1 := c11ParkedNet(c11ParseGoroutines(d1), r.Gid)
			if p1 == nil {
				time.Sleep(100 * time.Millisecond)
				continue
			}
			time.Sleep(150 * time.Millisecond)
			d2 := c11DumpAll()
			p2 := c11ParkedNet(c11ParseGoroutines(d2), r.Gid)
			if p2 != nil && loop.stalledNow(id) > 0 && strings.Join(p2.Run.Funcs, ">") == strings.Join(p1.Run.Funcs, ">") {
				p, stack = p2, c11StackOf(d2, r.Gid)
			}
		}
		if p == nil {
			continue
		}
		listed := false
		for _, j := range h.sched.GetRunningJobs() {
			if j.JobID == id {
				listed = true
			}
		}
		h.rec.mu.Lock()
		_, stillOpen := h.rec.open[r.Gid]
		h.rec.mu.Unlock()
		if !stillOpen {
			continue
		}
		n++
		viol("kill-ignored:"+p.Kind,
			fmt.Sprintf("KillJob(%s) has returned but the run still holds its slot (listed by GetRunningJobs: %v): its goroutine is parked in %s (state %q) below %s while the remote end stalls, and no goroutine of the hub is running or runnable - the kill never reached the HTTP request, the run cannot end as killed",
				id, listed, p.Run.Funcs[0], p.Run.State, p.WaitIn),
			"after KillJob the run ends (kill / failure) with a stored result and gives its slot back", p, map[string]any{"run": r, "stack": stack, "listed_by_GetRunningJobs": listed})
	}
	return n
}

// ---------------------------------------------------------------- run that recurses without end

const c11WrappedSinkProcess = c11JobsPkg + "(*wrappedSink).processEntities"

// c11JudgeRecursion: the per-entity error handling bisects a rejected batch; for a batch of b
// entities wrappedSink.processEntities is at most ceil(log2 b)+1 levels deep on the stack. The
// jobs of the sweep use batches of at most 7 entities (4 levels). A run whose goroutine shows
// the function 40 times or more (a goroutine dump prints at most 100 frames) is in a recursion
// that does not terminate - decided from the stack, not from how long the run has taken.
func c11JudgeRecursion(h *c11Hub, viol func(class, msg string, exp, obs any, extra map[string]any)) int {
	n := 0
	var gs map[int64]*c11G
	dump := ""
	for _, r := range h.rec.snapshotRuns() {
		if r.SeqReturn != 0 || r.Outcome != "" {
			continue
		}
		if gs == nil {
			dump = c11DumpAll()
			gs = c11ParseGoroutines(dump)
		}
		depth := 0
		// the run's goroutine, or (parallel transform / http) none other: the sink is called by the run's goroutine
		if g := gs[r.Gid]; g != nil {
			for _, f := range g.Funcs {
				if f == c11WrappedSinkProcess {
					depth++
				}
			}
		}
		if depth < 40 {
			continue
		}
		n++
		stack := c11StackOf(dump, r.Gid)
		if len(stack) > 6000 {
			stack = stack[:6000]
		}
		viol("run-recursing-without-end:wrappedSink.processEntities",
			fmt.Sprintf("run of %s: wrappedSink.processEntities is at least %d levels deep on the stack of the run's goroutine although bisecting a batch of at most 7 entities needs 4: the split-and-retry recursion does not terminate, the run never ends (and the hub dies once the stack limit is reached)", c11nz(r.ID, "?"), depth),
			"the run ends as success, failure or kill", map[string]any{"depth_at_least": depth}, map[string]any{"run": r, "stack": stack})
	}
	return n
}
