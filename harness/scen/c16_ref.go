package scen

// c16_ref: the reference decision function of C16, written from the property
// statement (not from authorization.go), the ACL lattice and the concrete
// requests of every registered route.

import (
	"fmt"
	"net/url"
	"sort"
	"strings"
)

// C16AC mirrors the JSON shape of an access-control entry.
type C16AC struct {
	Resource string
	Action   string
	Deny     bool
}

func (a C16AC) String() string {
	s := a.Resource + " " + a.Action
	if a.Deny {
		s += " deny"
	}
	return s
}

// c16Match: the entry's pattern grants the path exactly or by trailing-* prefix.
func c16Match(pattern, path string) bool {
	if pattern == path {
		return true
	}
	if strings.HasSuffix(pattern, "*") {
		return strings.HasPrefix(path, pattern[:len(pattern)-1])
	}
	return false
}

// c16Needed: every state-changing method needs write; read never suffices for a mutation.
func c16Needed(method string) string {
	switch method {
	case "GET", "HEAD", "OPTIONS":
		return "read"
	}
	return "write"
}

// c16Granted: some allow entry matches the path for the needed action. A write
// grant is taken to include read (the weaker reading; the documentation's
// "full access" example is a single write entry).
func c16Granted(acl []C16AC, path, needed string) bool {
	for _, a := range acl {
		if a.Deny || !c16Match(a.Resource, path) {
			continue
		}
		if a.Action == needed || (needed == "read" && a.Action == "write") {
			return true
		}
	}
	return false
}

// c16Denied: an explicit deny entry matches the path for exactly the needed
// action (weakest reading: deny-write does not deny reads and vice versa).
func c16Denied(acl []C16AC, path, needed string) bool {
	for _, a := range acl {
		if a.Deny && c16Match(a.Resource, path) && a.Action == needed {
			return true
		}
	}
	return false
}

// c16MayServe is the reference decision: served => granted and not denied.
func c16MayServe(acl []C16AC, method, path string) bool {
	n := c16Needed(method)
	return c16Granted(acl, path, n) && !c16Denied(acl, path, n)
}

// c16Interacts: some entry's pattern matches the path (non-triviality rule).
func c16Interacts(acl []C16AC, path string) bool {
	for _, a := range acl {
		if c16Match(a.Resource, path) {
			return true
		}
	}
	return false
}

var c16Resources = []string{"/datasets/a", "/datasets/a*", "/datasets/*", "/datasets/a/entities", "/jobs*", "/*"}

// c16Lattice: all 24 entries resource x action x allow/deny.
func c16Lattice() []C16AC {
	var l []C16AC
	for _, r := range c16Resources {
		for _, act := range []string{"read", "write"} {
			for _, d := range []bool{false, true} {
				l = append(l, C16AC{Resource: r, Action: act, Deny: d})
			}
		}
	}
	return l
}

// Star-shaped resources. The statement's pattern language is "exact, or prefix with a
// trailing *": a '*' that is not the last character of a resource is an ordinary character
// (c16Match treats it so). These entries must grant / deny nothing but the literal path
// (or, with a trailing star as well, the literal prefix that contains the inner star).
var c16StarResources = []string{"/datasets/*/changes", "/datasets/a*/entities", "/*/clients", "/datasets/a*b*", "*/entities"}

func c16StarLattice() []C16AC {
	var l []C16AC
	for _, r := range c16StarResources {
		for _, act := range []string{"read", "write"} {
			for _, d := range []bool{false, true} {
				l = append(l, C16AC{Resource: r, Action: act, Deny: d})
			}
		}
	}
	return l
}

// c16StarLists: every star-shaped entry alone; from size 2 on paired (both orders) with
// companions: two fixed ones at max 2, the whole lattice and the other star entries at max 3.
func c16StarLists(max int) [][]C16AC {
	var res [][]C16AC
	star := c16StarLattice()
	if max >= 1 {
		for _, a := range star {
			res = append(res, []C16AC{a})
		}
	}
	if max >= 2 {
		comp := []C16AC{{Resource: "/datasets/a*", Action: "read", Deny: true}, {Resource: "/jobs*", Action: "read"}}
		if max >= 3 {
			comp = append(c16Lattice(), star...)
		}
		for _, a := range star {
			for _, b := range comp {
				if a != b {
					res = append(res, []C16AC{a, b}, []C16AC{b, a})
				}
			}
		}
	}
	return res
}

// c16StarPrefixCovers: an allow entry whose resource has a '*' before its last character
// and whose text before the first '*' is a prefix of the path (what a "cut at the first
// star" matcher would grant).
func c16StarPrefixCovers(acl []C16AC, path string) bool {
	for _, a := range acl {
		if i := strings.Index(a.Resource, "*"); !a.Deny && i >= 0 && i < len(a.Resource)-1 && strings.HasPrefix(path, a.Resource[:i]) {
			return true
		}
	}
	return false
}

// c16Lists enumerates all ACL lists (ordered, without repetition) of size <= max.
func c16Lists(max int) [][]C16AC {
	lat := c16Lattice()
	res := [][]C16AC{{}}
	if max >= 1 {
		for _, a := range lat {
			res = append(res, []C16AC{a})
		}
	}
	if max >= 2 {
		for i, a := range lat {
			for j, b := range lat {
				if i != j {
					res = append(res, []C16AC{a, b})
				}
			}
		}
	}
	if max >= 3 {
		for i, a := range lat {
			for j, b := range lat {
				for k, c := range lat {
					if i != j && i != k && j != k {
						res = append(res, []C16AC{a, b, c})
					}
				}
			}
		}
	}
	return res
}

// c16Req is one concrete request of a registered route.
type c16Req struct {
	Method string
	Route  string // echo route pattern
	Path   string // concrete path
	Body   string
	CT     string
	Open   bool // documented open route (no token needed)
	// Spell: name of the path spelling ("" = the plain one). Path is what is sent on the
	// wire; Dec is the percent-decoded request path, the path the ACL entries speak about
	// ("" = same as Path); Route is the route the router picks for the spelled path.
	Spell string
	Dec   string
}

func (r c16Req) key() string { return r.Method + " " + r.Path }

// dec: the path the reference decision is taken on.
func (r c16Req) dec() string {
	if r.Dec != "" {
		return r.Dec
	}
	return r.Path
}

// ---------- path spellings
//
// The statement speaks about "(path, needed action)". Two spellings of a request path
// that percent-decode to the same string name the same path (RFC 3986 §2.3/§6.2.2), so
// the reference decision of every spelling is taken on the decoded path. Spellings that
// decode to a DIFFERENT string (double slash, trailing slash, dot segments) are judged
// on that different string: nothing is normalised away that the statement does not
// normalise. A spelling the router does not route (its own 404 / 405) serves nothing
// and is not judged.

func c16Pct(b byte, upper bool) string {
	if upper {
		return fmt.Sprintf("%%%02X", b)
	}
	return fmt.Sprintf("%%%02x", b)
}

// c16Spellings returns name -> spelled path for one concrete request of a route pattern.
func c16Spellings(route, path string) map[string]string {
	rs, ps := strings.Split(route, "/"), strings.Split(path, "/")
	out := map[string]string{}
	if len(rs) != len(ps) {
		return out
	}
	join := func(segs []string) string { return strings.Join(segs, "/") }
	cp := func() []string { return append([]string{}, ps...) }
	isParam := func(i int) bool { return strings.HasPrefix(rs[i], ":") }
	firstParam, lastStatic, firstStatic := -1, -1, -1
	for i := 1; i < len(rs); i++ {
		if ps[i] == "" {
			continue
		}
		if isParam(i) {
			if firstParam < 0 {
				firstParam = i
			}
		} else {
			if firstStatic < 0 {
				firstStatic = i
			}
			lastStatic = i
		}
	}
	encFirst := func(s string, upper bool) string { return c16Pct(s[0], upper) + s[1:] }
	encLast := func(s string, upper bool) string { return s[:len(s)-1] + c16Pct(s[len(s)-1], upper) }
	encAll := func(s string) string {
		var b strings.Builder
		for i := 0; i < len(s); i++ {
			b.WriteString(c16Pct(s[i], true))
		}
		return b.String()
	}
	if firstParam >= 0 {
		for _, up := range []bool{false, true} {
			n := "lc"
			if up {
				n = "uc"
			}
			a, b := cp(), cp()
			for i := 1; i < len(rs); i++ {
				if isParam(i) && ps[i] != "" {
					a[i] = encFirst(ps[i], up)
					b[i] = encLast(ps[i], up)
				}
			}
			out["pct-param-first-"+n] = join(a)
			out["pct-param-last-"+n] = join(b)
		}
		a := cp()
		for i := 1; i < len(rs); i++ {
			if isParam(i) && ps[i] != "" {
				a[i] = encAll(ps[i])
			}
		}
		out["pct-param-all"] = join(a)
		// percent-encoded twice: decodes (once) to a path that still holds an escape sequence
		for name, once := range map[string]string{"pct-twice-param-first": out["pct-param-first-lc"], "pct-twice-param-all": out["pct-param-all"]} {
			out[name] = strings.ReplaceAll(once, "%", "%25")
		}
		// an encoded slash glued to the parameter, on either side
		if firstParam+1 < len(ps) {
			out["enc-slash-after-param"] = join(ps[:firstParam+1]) + "%2F" + join(ps[firstParam+1:])
			out["enc-slash-after-param-lc"] = join(ps[:firstParam+1]) + "%2f" + join(ps[firstParam+1:])
			out["double-slash-after-param"] = join(ps[:firstParam+1]) + "//" + join(ps[firstParam+1:])
		}
		out["enc-slash-before-param"] = join(ps[:firstParam]) + "%2F" + join(ps[firstParam:])
		out["double-slash-before-param"] = join(ps[:firstParam]) + "//" + join(ps[firstParam:])
		out["dot-segment-before-param"] = join(ps[:firstParam]) + "/./" + join(ps[firstParam:])
		out["dotdot-segment-before-param"] = join(ps[:firstParam]) + "/zz/../" + join(ps[firstParam:])
		out["enc-dot-segment-before-param"] = join(ps[:firstParam]) + "/%2e/" + join(ps[firstParam:])
	}
	if firstStatic >= 0 {
		for _, up := range []bool{false, true} {
			n := "lc"
			if up {
				n = "uc"
			}
			a := cp()
			a[firstStatic] = encFirst(ps[firstStatic], up)
			out["pct-static-first-"+n] = join(a)
			if lastStatic != firstStatic {
				b := cp()
				b[lastStatic] = encFirst(ps[lastStatic], up)
				out["pct-static-last-"+n] = join(b)
			}
		}
	}
	if path != "/" {
		out["trailing-slash"] = path + "/"
		out["enc-trailing-slash"] = path + "%2F"
		out["leading-double-slash"] = "/" + path
	}
	for n, p := range out {
		if p == path {
			delete(out, n)
		}
	}
	return out
}

// c16SpellFamily: the spelling without its variant suffixes (hex-digit case, which
// character was encoded); violation classes name the family, messages the exact spelling.
func c16SpellFamily(name string) string {
	for _, suf := range []string{"-lc", "-uc"} {
		name = strings.TrimSuffix(name, suf)
	}
	for _, suf := range []string{"-first", "-last", "-all"} {
		name = strings.TrimSuffix(name, suf)
	}
	return name
}

// c16Decode: the decoded path of a spelled request target ("" = not a valid request target).
func c16Decode(target string) string {
	u, err := url.ParseRequestURI(target)
	if err != nil || u.Host != "" || u.RawQuery != "" {
		return ""
	}
	return u.Path
}

// documented open routes: health, the token endpoint (and static assets / api docs, which have no registered route)
func c16IsOpen(route string) bool {
	return route == "/health" || route == "/security/token"
}

// c16Concretize turns route patterns into concrete requests. Parameters are
// chosen inside the ACL lattice (/datasets/a...) and so that handlers fail fast
// after authorization. Dataset routes are also asked for the neighbours "ab"
// and "b" so that prefix patterns are exercised on both sides.
func c16Concretize(method, route string, neighbours bool) []c16Req {
	if method == "echo_route_not_found" {
		return nil
	}
	fill := func(ds string) string {
		p := route
		p = strings.ReplaceAll(p, ":dataset", ds)
		p = strings.ReplaceAll(p, ":ds", ds)
		p = strings.ReplaceAll(p, ":jobid", "j1")
		p = strings.ReplaceAll(p, ":contentId", "ct1")
		p = strings.ReplaceAll(p, ":providerName", "p1")
		p = strings.ReplaceAll(p, ":clientid", "c9")
		return p
	}
	body, ct := "", ""
	if method == "POST" && route == "/security/token" {
		body, ct = "grant_type=none", "application/x-www-form-urlencoded"
	}
	names := []string{"a"}
	if neighbours && (strings.Contains(route, ":dataset") || strings.Contains(route, ":ds")) {
		names = []string{"a", "ab", "b"}
	}
	var out []c16Req
	for _, n := range names {
		if method == "PATCH" && route == "/datasets/:dataset" {
			body = `{"ID":"` + n + `_renamed"}` // a served PATCH renames the dataset (observable effect)
		}
		out = append(out, c16Req{Method: method, Route: route, Path: fill(n), Body: body, CT: ct, Open: c16IsOpen(route)})
	}
	return out
}

// c16OrderRequests: reads first, then mutations, the most destructive ones last.
func c16OrderRequests(rs []c16Req) []c16Req {
	rank := func(r c16Req) int {
		switch {
		case r.Method == "GET":
			return 0
		case r.Method == "DELETE" && r.Route == "/datasets":
			return 9
		case r.Method == "DELETE" && r.Route == "/datasets/:dataset":
			return 8
		case r.Method == "PATCH":
			return 7
		case r.Method == "DELETE":
			return 6
		}
		return 3
	}
	sort.SliceStable(rs, func(i, j int) bool {
		if rank(rs[i]) != rank(rs[j]) {
			return rank(rs[i]) < rank(rs[j])
		}
		return rs[i].key() < rs[j].key()
	})
	return rs
}
