package scen

// c16_ref: the reference decision function of C16, written from the property
// statement (not from authorization.go), the ACL lattice and the concrete
// requests of every registered route.

import (
	"sort"
	"strings"
)

// C16AC mirrors the JSON shape of an access-control entry.
type C16AC struct {
	Resource string
	Action   string
	Deny     bool
}

func (a C16AC) String() string {
	s := a.Resource + " " + a.Action
	if a.Deny {
		s += " deny"
	}
	return s
}

// c16Match: the entry's pattern grants the path exactly or by trailing-* prefix.
func c16Match(pattern, path string) bool {
	if pattern == path {
		return true
	}
	if strings.HasSuffix(pattern, "*") {
		return strings.HasPrefix(path, pattern[:len(pattern)-1])
	}
	return false
}

// c16Needed: every state-changing method needs write; read never suffices for a mutation.
func c16Needed(method string) string {
	switch method {
	case "GET", "HEAD", "OPTIONS":
		return "read"
	}
	return "write"
}

// c16Granted: some allow entry matches the path for the needed action. A write
// grant is taken to include read (the weaker reading; the documentation's
// "full access" example is a single write entry).
func c16Granted(acl []C16AC, path, needed string) bool {
	for _, a := range acl {
		if a.Deny || !c16Match(a.Resource, path) {
			continue
		}
		if a.Action == needed || (needed == "read" && a.Action == "write") {
			return true
		}
	}
	return false
}

// c16Denied: an explicit deny entry matches the path for exactly the needed
// action (weakest reading: deny-write does not deny reads and vice versa).
func c16Denied(acl []C16AC, path, needed string) bool {
	for _, a := range acl {
		if a.Deny && c16Match(a.Resource, path) && a.Action == needed {
			return true
		}
	}
	return false
}

// c16MayServe is the reference decision: served => granted and not denied.
func c16MayServe(acl []C16AC, method, path string) bool {
	n := c16Needed(method)
	return c16Granted(acl, path, n) && !c16Denied(acl, path, n)
}

// c16Interacts: some entry's pattern matches the path (non-triviality rule).
func c16Interacts(acl []C16AC, path string) bool {
	for _, a := range acl {
		if c16Match(a.Resource, path) {
			return true
		}
	}
	return false
}

var c16Resources = []string{"/datasets/a", "/datasets/a*", "/datasets/*", "/datasets/a/entities", "/jobs*", "/*"}

// c16Lattice: all 24 entries resource x action x allow/deny.
func c16Lattice() []C16AC {
	var l []C16AC
	for _, r := range c16Resources {
		for _, act := range []string{"read", "write"} {
			for _, d := range []bool{false, true} {
				l = append(l, C16AC{Resource: r, Action: act, Deny: d})
			}
		}
	}
	return l
}

// c16Lists enumerates all ACL lists (ordered, without repetition) of size <= max.
func c16Lists(max int) [][]C16AC {
	lat := c16Lattice()
	res := [][]C16AC{{}}
	if max >= 1 {
		for _, a := range lat {
			res = append(res, []C16AC{a})
		}
	}
	if max >= 2 {
		for i, a := range lat {
			for j, b := range lat {
				if i != j {
					res = append(res, []C16AC{a, b})
				}
			}
		}
	}
	if max >= 3 {
		for i, a := range lat {
			for j, b := range lat {
				for k, c := range lat {
					if i != j && i != k && j != k {
						res = append(res, []C16AC{a, b, c})
					}
				}
			}
		}
	}
	return res
}

// c16Req is one concrete request of a registered route.
type c16Req struct {
	Method string
	Route  string // echo route pattern
	Path   string // concrete path
	Body   string
	CT     string
	Open   bool // documented open route (no token needed)
}

func (r c16Req) key() string { return r.Method + " " + r.Path }

// documented open routes: health, the token endpoint (and static assets / api docs, which have no registered route)
func c16IsOpen(route string) bool {
	return route == "/health" || route == "/security/token"
}

// c16Concretize turns route patterns into concrete requests. Parameters are
// chosen inside the ACL lattice (/datasets/a...) and so that handlers fail fast
// after authorization. Dataset routes are also asked for the neighbours "ab"
// and "b" so that prefix patterns are exercised on both sides.
func c16Concretize(method, route string, neighbours bool) []c16Req {
	if method == "echo_route_not_found" {
		return nil
	}
	fill := func(ds string) string {
		p := route
		p = strings.ReplaceAll(p, ":dataset", ds)
		p = strings.ReplaceAll(p, ":ds", ds)
		p = strings.ReplaceAll(p, ":jobid", "j1")
		p = strings.ReplaceAll(p, ":contentId", "ct1")
		p = strings.ReplaceAll(p, ":providerName", "p1")
		p = strings.ReplaceAll(p, ":clientid", "c9")
		return p
	}
	body, ct := "", ""
	if method == "POST" && route == "/security/token" {
		body, ct = "grant_type=none", "application/x-www-form-urlencoded"
	}
	names := []string{"a"}
	if neighbours && (strings.Contains(route, ":dataset") || strings.Contains(route, ":ds")) {
		names = []string{"a", "ab", "b"}
	}
	var out []c16Req
	for _, n := range names {
		if method == "PATCH" && route == "/datasets/:dataset" {
			body = `{"ID":"` + n + `_renamed"}` // a served PATCH renames the dataset (observable effect)
		}
		out = append(out, c16Req{Method: method, Route: route, Path: fill(n), Body: body, CT: ct, Open: c16IsOpen(route)})
	}
	return out
}

// c16OrderRequests: reads first, then mutations, the most destructive ones last.
func c16OrderRequests(rs []c16Req) []c16Req {
	rank := func(r c16Req) int {
		switch {
		case r.Method == "GET":
			return 0
		case r.Method == "DELETE" && r.Route == "/datasets":
			return 9
		case r.Method == "DELETE" && r.Route == "/datasets/:dataset":
			return 8
		case r.Method == "PATCH":
			return 7
		case r.Method == "DELETE":
			return 6
		}
		return 3
	}
	sort.SliceStable(rs, func(i, j int) bool {
		if rank(rs[i]) != rank(rs[j]) {
			return rank(rs[i]) < rank(rs[j])
		}
		return rs[i].key() < rs[j].key()
	})
	return rs
}
