package scen

// c20backup: a backup contains everything committed before it ran (C20).
// Histories interleaving writes, dataset create/delete, backup runs and hub
// restarts (new BackupManager, so the persisted cursor is used). After every
// completed backup run the backup location is restored into an empty store
// and the restored hub must answer every read like the source hub did when
// the run started. A location belonging to another store is never touched.

import (
	"crypto/sha256"
	"encoding/hex"
	"encoding/json"
	"fmt"
	"io"
	"math/rand"
	"os"
	"os/exec"
	"path/filepath"
	"regexp"
	"runtime/debug"
	"sort"
	"strings"
	"sync"
	"time"

	"github.com/bamzi/jobrunner"
	"github.com/dgraph-io/badger/v4"

	"github.com/mimiro-io/datahub/internal/server"
	"github.com/mimiro-io/datahub/internal/verif/gen"
	"github.com/mimiro-io/datahub/internal/verif/hub"
	"github.com/mimiro-io/datahub/internal/verif/model"
	"github.com/mimiro-io/datahub/internal/verif/obs"
)

func init() { Register("c20backup", c20Backup) }

func genC20Case(r *rand.Rand, rsync bool) SDCase {
	c := SDCase{Datasets: []string{"da", "db"}, NIDs: 3}
	v := gen.NewVocab(c.NIDs, 3, 3)
	tags := map[string]bool{}
	if rsync {
		tags["rsync"] = true
	} else {
		tags["native"] = true
	}
	cur := map[string]model.Ent{}
	n := 6 + r.Intn(10)
	backups := 0
	busy := 0
	restarts := 0
	wroteSince := false
	dcLive := false
	opening := -1
	if !rsync {
		opening = r.Intn(3)
	}
	if opening == 1 {
		// directed opening: a dataset is deleted as the first write of a hub lifetime that ends without a backup run
		// (whatever the storage engine does with delete markers at shutdown or start-up, the next run's backup has
		// to carry the deletion)
		e0, e1 := gen.Entity(r, v, v.IDs[0]), gen.Entity(r, v, v.IDs[1])
		cur["da|"+v.IDs[0]] = e0
		c.Ops = append(c.Ops, SDOp{Kind: "batch", DS: "da", Ents: []model.Ent{e0}}, SDOp{Kind: "create", DS: "dc"},
			SDOp{Kind: "batch", DS: "dc", Ents: []model.Ent{e1}}, SDOp{Kind: "backup"}, SDOp{Kind: "restart"},
			SDOp{Kind: "delete", DS: "dc"}, SDOp{Kind: "restart"})
		// (sometimes several restarts: every shutdown leaves one more level-0 table, the fifth starts a compaction)
		for k := []int{0, 0, 6}[r.Intn(3)]; k > 0; k-- {
			c.Ops = append(c.Ops, SDOp{Kind: "restart", Reader: 400})
			tags["many-restarts-after-delete"] = true
		}
		c.Ops = append(c.Ops, SDOp{Kind: "backup"})
		backups = 2
		restarts = 2
		tags["delete-between-restarts"] = true
		tags["write-between-backups"] = true
		tags["restart-between-backups"] = true
	}
	if opening == 0 {
		// directed opening: an idle run (nothing written since the previous run) followed by a deletion and a run
		e0, e1 := gen.Entity(r, v, v.IDs[0]), gen.Entity(r, v, v.IDs[1])
		cur["da|"+v.IDs[0]] = e0
		c.Ops = append(c.Ops, SDOp{Kind: "batch", DS: "da", Ents: []model.Ent{e0}}, SDOp{Kind: "create", DS: "dc"},
			SDOp{Kind: "batch", DS: "dc", Ents: []model.Ent{e1}}, SDOp{Kind: "backup"}, SDOp{Kind: "backup"},
			SDOp{Kind: "delete", DS: "dc"}, SDOp{Kind: "backup"})
		backups = 3
		tags["idle-run-then-delete"] = true
		tags["write-between-backups"] = true
	}
	for i := 0; i < n; i++ {
		switch k := r.Intn(100); {
		case k < 50:
			ds := c.Datasets[r.Intn(2)]
			if dcLive && r.Intn(3) == 0 {
				ds = "dc"
			}
			var ents []model.Ent
			for j := 0; j < 1+r.Intn(3); j++ {
				id := v.IDs[r.Intn(len(v.IDs))]
				var e model.Ent
				if p, ok := cur[ds+"|"+id]; ok && r.Intn(2) == 0 {
					e = gen.Mutate(r, v, p)
				} else {
					e = gen.Entity(r, v, id)
				}
				cur[ds+"|"+id] = e
				ents = append(ents, e)
			}
			c.Ops = append(c.Ops, SDOp{Kind: "batch", DS: ds, Ents: ents})
			wroteSince = true
		case k < 56:
			if !dcLive {
				dcLive = true
				c.Ops = append(c.Ops, SDOp{Kind: "create", DS: "dc"})
				wroteSince = true
			}
		case k < 62:
			if dcLive {
				dcLive = false
				c.Ops = append(c.Ops, SDOp{Kind: "delete", DS: "dc"})
				for key := range cur {
					if strings.HasPrefix(key, "dc|") {
						delete(cur, key)
					}
				}
				wroteSince = true
			}
		case k < 70 && !rsync && busy < 2:
			// a backup run that overlaps client writes and further scheduler invocations, followed by a quiet run
			busy++
			backups += 2
			wroteSince = false
			tags["backup-during-writes"] = true
			tags["write-between-backups"] = true
			c.Ops = append(c.Ops, SDOp{Kind: "backup-busy"})
		case k < 88:
			if backups > 0 && wroteSince {
				tags["write-between-backups"] = true
			}
			backups++
			wroteSince = false
			c.Ops = append(c.Ops, SDOp{Kind: "backup"})
		default:
			// rsync mode copies the live directory: every restart flushes a memtable into a new table and the
			// fifth table starts a background compaction that can tear the copy (listed finding). Keep rsync
			// histories below that so that their verdict does not depend on compaction timing.
			if rsync && restarts >= 2 {
				continue
			}
			restarts++
			if backups > 0 {
				tags["restart-between-backups"] = true
			}
			c.Ops = append(c.Ops, SDOp{Kind: "restart"})
		}
	}
	if backups > 0 && wroteSince {
		tags["write-between-backups"] = true
	}
	c.Ops = append(c.Ops, SDOp{Kind: "backup"})
	if backups+1 >= 2 {
		tags["multi-backup"] = true
	}
	switch tail := r.Intn(5); {
	case rsync:
	case tail == 1:
		// the backup location changes owner while the hub keeps running: it is emptied and another store's backup
		// appears there; the hub's next runs must leave it alone
		c.Ops = append(c.Ops, SDOp{Kind: "reassign-location"}, SDOp{Kind: "batch", DS: "da", Ents: []model.Ent{gen.Entity(r, v, v.IDs[0])}}, SDOp{Kind: "backup-foreign"}, SDOp{Kind: "backup-foreign"})
		tags["location-reassigned"] = true
	case tail == 2:
		// a run fails inside the dump (no space left at the backup location); the next run of the same process may or
		// may not complete, the first completed run afterwards must hold everything
		e1, e2, e3 := gen.Entity(r, v, v.IDs[0]), gen.Entity(r, v, v.IDs[1]), gen.Entity(r, v, v.IDs[2])
		c.Ops = append(c.Ops, SDOp{Kind: "batch", DS: "da", Ents: []model.Ent{e1}}, SDOp{Kind: "backup-fails"},
			SDOp{Kind: "batch", DS: "db", Ents: []model.Ent{e2}}, SDOp{Kind: "backup-after-failure"},
			SDOp{Kind: "restart"}, SDOp{Kind: "batch", DS: "da", Ents: []model.Ent{e3}}, SDOp{Kind: "backup"})
		tags["failed-run"] = true
	}
	if !rsync && r.Intn(4) == 0 && !tags["location-reassigned"] && !tags["failed-run"] {
		// the store is wiped (DELETE /datasets): what follows is a different store, whose runs must leave the
		// backup location of the wiped one alone
		c.Ops = append(c.Ops, SDOp{Kind: "wipe"}, SDOp{Kind: "batch", DS: "da", Ents: []model.Ent{gen.Entity(r, v, v.IDs[0])}}, SDOp{Kind: "backup-after-wipe"})
		if r.Intn(2) == 0 {
			c.Ops = append(c.Ops, SDOp{Kind: "restart"}, SDOp{Kind: "backup-after-wipe"})
		}
		tags["store-wiped"] = true
	}
	for t := range tags {
		c.Tags = append(c.Tags, t)
	}
	sort.Strings(c.Tags)
	return c
}

var c20CronStarted bool

func c20Backup(ctx *Ctx) error {
	if !c20CronStarted {
		jobrunner.Start() // BackupManager registers itself with jobrunner.MainCron
		c20CronStarted = true
	}
	_, rsyncErr := exec.LookPath("rsync")
	if ctx.Replay != "" {
		b, err := os.ReadFile(ctx.Replay)
		if err != nil {
			return err
		}
		var w struct {
			Ops SDCase `json:"ops"`
		}
		if err := json.Unmarshal(b, &w); err != nil {
			return err
		}
		runC20Case(ctx, w.Ops)
		return nil
	}
	r := rand.New(rand.NewSource(ctx.Seed))
	for i := 0; i < ctx.Cases; i++ {
		rs := rsyncErr == nil && (ctx.Arg("rsyncall", "") != "" || (i%4 == 3 && (ctx.Tier == "thorough" || ctx.Seed%4 == 0)))
		runC20Case(ctx, genC20Case(r, rs))
	}
	// a backup location that belongs to another store
	c20Foreign(ctx, r)
	return nil
}

func c20Env(dir string, rsync bool) *hubEnv {
	e := hub.Env(filepath.Join(dir, "store"))
	e.BackupLocation = filepath.Join(dir, "backup")
	e.BackupSchedule = "0 0 1 1 *"
	e.BackupRsync = rsync
	if rsync {
		// rsync -z copies the (sparse, mostly empty) value log byte by byte: keep it small
		e.ValueLogFileSize = 4 << 20
	}
	return &hubEnv{e}
}

type hubEnv struct{ *confAlias }

func runC20Case(ctx *Ctx, c SDCase) {
	id := outHash(c)
	rsync := hasTag(c.Tags, "rsync")
	ctx.Out.Case(id, ctx.Seed, c, hasTag(c.Tags, "multi-backup") && hasTag(c.Tags, "write-between-backups"), c.Tags)
	dir := ctx.NewDir("c20")
	defer os.RemoveAll(dir)
	env := c20Env(dir, rsync)
	core := hub.OpenCoreEnv(env.confAlias)
	s := &sdRun{ctx: ctx, id: id, c: c, core: core, dir: dir, m: model.New(), vocab: gen.NewVocab(c.NIDs, 3, 3),
		seen: map[string]bool{}, rec: map[string][]uint64{}, iids: map[string]uint64{}}
	s.mg = &mgmtState{deletedIDs: map[uint32]string{}, everNames: map[string]bool{}}
	s.mg.ctxStore = server.NewContextualStore(core.Store)
	defer func() { s.core.Close() }()
	defer c20DropCronEntries()
	defer func() {
		if p := recover(); p != nil {
			s.viol("C20", "panic", fmt.Sprintf("panic: %v", p), nil, string(debug.Stack()))
		}
	}()
	for _, d := range c.Datasets {
		core.Dsm.CreateDataset(d, nil)
		s.m.Create(d)
	}
	bm, err := server.NewBackupManager(core.Store, env.confAlias)
	if err != nil || bm == nil {
		ctx.Out.Inconclusive(id, "C20", fmt.Sprintf("backup manager: %v", err))
		return
	}
	nBackups := 0
	for i, op := range c.Ops {
		s.opIdx = i
		ctx.Out.Begin(id, i, op.Kind)
		switch op.Kind {
		case "backup":
			want := s.c20Snapshot(s.core)
			func() {
				defer func() {
					if p := recover(); p != nil {
						s.viol("C20", "backup-run-panic", fmt.Sprintf("backup run panicked: %v", p), nil, nil)
						s.abort = true
					}
				}()
				bm.Run()
			}()
			if s.abort {
				break
			}
			nBackups++
			ctx.Out.Stat("c20_backup_runs", 1)
			s.c20RestoreAndCompare(dir, rsync, want, nBackups)
		case "backup-busy":
			s.c20EnsureBulk()
			if s.abort {
				break
			}
			pre := s.c20Snapshot(s.core)
			s.c20BusyBackup(bm)
			if s.abort {
				break
			}
			nBackups++
			// what the busy run left behind restores to a state the source hub passed through during the run
			s.c20RestorePointInTime(dir, pre, s.c20Snapshot(s.core), nBackups)
			if s.abort {
				break
			}
			// the quiet run that follows must pick up everything that was acknowledged during the busy run
			want := s.c20Snapshot(s.core)
			func() {
				defer func() {
					if p := recover(); p != nil {
						s.viol("C20", "backup-run-panic", fmt.Sprintf("backup run panicked: %v", p), nil, nil)
						s.abort = true
					}
				}()
				bm.Run()
			}()
			if s.abort {
				break
			}
			nBackups++
			ctx.Out.Stat("c20_backup_runs", 2)
			s.c20RestoreAndCompare(dir, rsync, want, nBackups)
		case "wipe":
			if err := s.core.Store.Delete(); err != nil {
				s.ctx.Out.Inconclusive(id, "C20", "wipe: "+err.Error())
				s.abort = true
				break
			}
			// the wiped store has no core.Dataset any more (the running hub cannot create datasets until it is
			// restarted): restart, as an operator would
			if err := s.core.Close(); err != nil {
				s.viol("C20", "close-error", err.Error(), nil, nil)
				s.abort = true
				break
			}
			c20DropCronEntries()
			s.core = hub.OpenCoreEnv(env.confAlias)
			s.mg.ctxStore = server.NewContextualStore(s.core.Store)
			bm, err = server.NewBackupManager(s.core.Store, env.confAlias)
			if err != nil || bm == nil {
				ctx.Out.Inconclusive(id, "C20", fmt.Sprintf("backup manager after wipe: %v", err))
				s.abort = true
				break
			}
			s.m = model.New()
			s.rec, s.iids, s.seen = map[string][]uint64{}, map[string]uint64{}, map[string]bool{}
			for _, d := range c.Datasets {
				s.core.Dsm.CreateDataset(d, nil)
				s.m.Create(d)
			}
		case "reassign-location":
			loc := filepath.Join(dir, "backup")
			_ = os.RemoveAll(loc)
			_ = os.MkdirAll(loc, 0o755)
			_ = os.WriteFile(filepath.Join(loc, server.StorageIDFileName), []byte("424242"), 0o644)
			_ = os.WriteFile(filepath.Join(loc, "datahub-backup.kv"), []byte("someone else's backup"), 0o644)
			_ = os.WriteFile(filepath.Join(loc, "datahub-backup.lastseen"), []byte{9, 0, 0, 0, 0, 0, 0, 0}, 0o644)
		case "backup-foreign":
			loc := filepath.Join(dir, "backup")
			before := dirHash(loc)
			func() {
				defer func() { _ = recover() }()
				bm.Run()
			}()
			if after := dirHash(loc); after != before {
				s.viol("C20", "reassigned-location-overwritten", "the backup location was emptied and taken over by another store (its DATAHUB_BACKUPID differs) while the hub kept running; the hub's next backup run modified it", before, after)
				s.abort = true
				break
			}
			ctx.Out.Stat("c20_runs_on_reassigned_location_refused", 1)
		case "backup-fails":
			kv := filepath.Join(dir, "backup", "datahub-backup.kv")
			if _, err := os.Stat("/dev/full"); err != nil {
				break
			}
			if _, err := os.Stat(kv); err != nil {
				break
			}
			_ = os.Rename(kv, kv+".real")
			_ = os.Symlink("/dev/full", kv)
			func() {
				defer func() { _ = recover() }() // the hub reports a failed native run with a panic
				bm.Run()
			}()
			_ = os.Remove(kv)
			_ = os.Rename(kv+".real", kv)
			ctx.Out.Stat("c20_runs_failed_by_a_full_location", 1)
		case "backup-after-failure":
			// the run after a failed one, same process: if it completes (the cursor file is rewritten), the restore
			// must be the state at its start; if the hub skips it, the next completed run is judged instead
			ls := filepath.Join(dir, "backup", "datahub-backup.lastseen")
			stamp := func() string {
				fi, err := os.Stat(ls)
				if err != nil {
					return "-"
				}
				b, _ := os.ReadFile(ls)
				return fmt.Sprintf("%d|%x", fi.ModTime().UnixNano(), b)
			}
			want := s.c20Snapshot(s.core)
			before := stamp()
			func() {
				defer func() { _ = recover() }()
				bm.Run()
			}()
			if stamp() == before {
				ctx.Out.Stat("c20_runs_after_a_failure_not_completed", 1)
				break
			}
			nBackups++
			ctx.Out.Stat("c20_runs_after_a_failure_completed", 1)
			s.c20RestoreAndCompare(dir, rsync, want, nBackups)
		case "backup-after-wipe":
			loc := filepath.Join(dir, "backup")
			before := dirHash(loc)
			func() {
				defer func() { _ = recover() }() // refusing with a panic is the hub's way of saying no
				bm.Run()
			}()
			if after := dirHash(loc); after != before {
				s.viol("C20", "location-of-wiped-store-overwritten", "the store was wiped (Store.Delete) and written again: it is a different store, yet its backup run modified the backup location that belongs to the wiped one", before, after)
				s.abort = true
				break
			}
			ctx.Out.Stat("c20_runs_after_wipe_refused", 1)
		case "restart":
			if err := s.core.Close(); err != nil {
				s.viol("C20", "close-error", err.Error(), nil, nil)
				s.abort = true
				break
			}
			c20DropCronEntries()
			s.core = hub.OpenCoreEnv(env.confAlias)
			if op.Reader > 0 {
				// the hub stays up for a moment (scheduling aid, not part of any verdict): the storage engine's
				// start-up compaction of level 0 gets the time to finish that any real hub lifetime gives it
				time.Sleep(time.Duration(op.Reader) * time.Millisecond)
			}
			s.mg.ctxStore = server.NewContextualStore(s.core.Store)
			bm, err = server.NewBackupManager(s.core.Store, env.confAlias)
			if err != nil || bm == nil {
				ctx.Out.Inconclusive(id, "C20", fmt.Sprintf("backup manager after restart: %v", err))
				s.abort = true
			}
		default:
			if err := s.apply(op); err != nil {
				s.viol("C20", "op-error", err.Error(), nil, op)
				s.abort = true
			}
		}
		ctx.Out.Ack(id, i, nil)
		if s.abort {
			break
		}
	}
	ctx.Out.Stat("queries", s.nQueries)
}

// c20Snapshot: catalogue, every scoped read of every dataset, unscoped lookups and relations, namespaces.
func (s *sdRun) c20Snapshot(core *hub.Core) map[string]string {
	t := &sdRun{ctx: s.ctx, id: s.id, c: s.c, core: core, m: s.m, vocab: s.vocab, seen: map[string]bool{}, rec: map[string][]uint64{}, iids: map[string]uint64{}}
	snap := t.scopedSnapshot()
	var names []string
	for _, n := range core.Dsm.GetDatasetNames() {
		names = append(names, n.Name)
	}
	sort.Strings(names)
	snap["datasets|"] = strings.Join(names, ",")
	for _, id := range s.vocab.IDs {
		r, _ := obs.Lookup(core.Store, id, nil)
		snap["lookup|*|"+id] = lookupAnswer(r)
		o, err := obs.Related(core.Store, id, "*", false, nil, 0)
		if err == nil {
			a, b := relAnswer(o)
			snap["out|*|"+id] = a + " // " + b
		}
	}
	if cd := core.Dsm.GetDataset("core.Dataset"); cd != nil {
		l, _ := obs.Listing(core.Store, cd, 0)
		sort.Slice(l, func(i, j int) bool { return l[i].ID < l[j].ID })
		snap["list|core.Dataset"] = strings.Join(recStr(l), "\n")
	}
	b, _ := json.Marshal(core.Store.GetGlobalContext(false).Namespaces)
	snap["namespaces|"] = string(b)
	s.nQueries += t.nQueries
	return snap
}

func (s *sdRun) c20RestoreAndCompare(dir string, rsync bool, want map[string]string, n int) {
	rdir := filepath.Join(dir, fmt.Sprintf("restore-%d", n))
	defer os.RemoveAll(rdir)
	if rsync {
		// rsync copies the store directory into the backup location
		src := filepath.Join(dir, "backup", "store")
		if _, err := os.Stat(src); err != nil {
			s.viol("C20", "rsync-backup-missing", "rsync backup run left no copy of the store directory", nil, nil)
			return
		}
		if out, err := exec.Command("cp", "-a", src, rdir).CombinedOutput(); err != nil {
			s.ctx.Out.Inconclusive(s.id, "C20", "cp: "+string(out))
			return
		}
		_ = os.Remove(filepath.Join(rdir, "LOCK"))
	} else {
		file := filepath.Join(dir, "backup", "datahub-backup.kv")
		f, err := os.Open(file)
		if err != nil {
			s.viol("C20", "backup-file-missing", "native backup run left no backup file", nil, nil)
			return
		}
		_ = os.MkdirAll(rdir, 0o755)
		db, err := badger.Open(badger.DefaultOptions(rdir).WithLogger(nil).WithMemTableSize(8 << 20).WithValueLogFileSize(32 << 20).WithNumMemtables(2).WithBlockCacheSize(1 << 20).WithIndexCacheSize(1 << 20).WithDetectConflicts(false))
		if err != nil {
			f.Close()
			s.ctx.Out.Inconclusive(s.id, "C20", "open restore db: "+err.Error())
			return
		}
		lerr := db.Load(f, 16)
		f.Close()
		cerr := db.Close()
		if lerr != nil || cerr != nil {
			s.viol("C20", "backup-unreadable", fmt.Sprintf("badger cannot load the backup file: %v %v", lerr, cerr), nil, nil)
			return
		}
	}
	rc, err := hub.TryOpenCore(rdir)
	if err != nil && rsync && strings.Contains(err.Error(), "file does not exist for table") {
		s.viol("C20", "rsync-copy-torn-by-background-compaction", "rsync mode: the copied directory does not open, its MANIFEST references a table file that is not in the copy (the live store was compacting while rsync ran): "+firstLine(err.Error()), nil, nil)
		return
	}
	if err != nil {
		s.viol("C20", "restore-open-failed", "the restored store does not open: "+firstLine(err.Error()), nil, err.Error())
		return
	}
	defer rc.Close()
	got := s.c20Snapshot(rc)
	keys := make([]string, 0, len(want))
	for k := range want {
		keys = append(keys, k)
	}
	sort.Strings(keys)
	for _, k := range keys {
		if got[k] != want[k] {
			cls := "restore-" + strings.SplitN(k, "|", 2)[0]
			if n > 1 {
				cls += "-after-incremental-run"
			}
			if k == "datasets|" && n > 1 && s.c20DeletedBackAfterRestarts(want[k], got[k]) {
				// listed finding: see known_findings.json (the storage engine's level-0 compaction at start-up
				// drops delete markers the incremental backup has not seen yet)
				cls = "deleted-dataset-back-after-restarts-without-backup"
				// every later restore of this history carries the dataset as well: the history ends here
				s.abort = true
			}
			s.viol("C20", cls, fmt.Sprintf("backup run %d: the restored hub answers %s differently from the source hub at the time the run started", n, k), want[k], got[k])
			return
		}
	}
	s.ctx.Out.Stat("c20_restores_compared", 1)
	s.ctx.Out.Stat("c20_answers_compared", int64(len(keys)))
}

// c20Foreign: a backup location carrying another store's id must not be modified.
// c20DeletedBackAfterRestarts: every dataset the restore has and the source has not was deleted after the previous
// backup run, and at least four restarts lie between that deletion and the run being judged.
func (s *sdRun) c20DeletedBackAfterRestarts(want, got string) bool {
	have := map[string]bool{}
	for _, n := range strings.Split(want, ",") {
		have[n] = true
	}
	var back []string
	for _, n := range strings.Split(got, ",") {
		if !have[n] {
			back = append(back, n)
		}
	}
	if len(back) == 0 || len(strings.Split(got, ",")) != len(have)+len(back) {
		return false
	}
	for _, n := range back {
		del, restarts := -1, 0
		for i := s.opIdx - 1; i >= 0; i-- {
			k := s.c.Ops[i].Kind
			if strings.HasPrefix(k, "backup") {
				break
			}
			if k == "restart" {
				restarts++
			}
			if k == "delete" && s.c.Ops[i].DS == n {
				del = i
				break
			}
		}
		if del < 0 || restarts < 4 {
			return false
		}
	}
	return true
}

func c20Foreign(ctx *Ctx, r *rand.Rand) {
	c := map[string]any{"kind": "foreign-location", "n": r.Intn(1000)}
	id := outHash(c)
	ctx.Out.Case(id, ctx.Seed, c, true, []string{"foreign-location"})
	dir := ctx.NewDir("c20f")
	defer os.RemoveAll(dir)
	env := c20Env(dir, false)
	_ = os.MkdirAll(env.BackupLocation, 0o755)
	_ = os.WriteFile(filepath.Join(env.BackupLocation, server.StorageIDFileName), []byte("424242"), 0o644)
	_ = os.WriteFile(filepath.Join(env.BackupLocation, "datahub-backup.kv"), []byte("someone else's backup"), 0o644)
	if c["n"].(int)%2 == 1 {
		// configuration variant: BACKUP_SOURCE_LOCATION still points at the directory of the store the backup
		// belongs to (the hub has moved to a new, empty store); the location is foreign to the running store all the same
		old := filepath.Join(dir, "old-store")
		_ = os.MkdirAll(old, 0o755)
		_ = os.WriteFile(filepath.Join(old, server.StorageIDFileName), []byte("424242"), 0o644)
		env.BackupSourceLocation = old
		ctx.Out.Stat("c20_foreign_locations_with_stale_source_location", 1)
	}
	core := hub.OpenCoreEnv(env.confAlias)
	defer core.Close()
	defer c20DropCronEntries()
	core.Dsm.CreateDataset("da", nil)
	v := gen.NewVocab(3, 3, 3)
	_ = StoreBatch(core, "da", []model.Ent{gen.Entity(r, v, v.IDs[0])}, false)
	before := dirHash(env.BackupLocation)
	bm, err := server.NewBackupManager(core.Store, env.confAlias)
	if err != nil || bm == nil {
		ctx.Out.Inconclusive(id, "C20", "backup manager")
		return
	}
	func() {
		defer func() { _ = recover() }() // refusing with a panic is the hub's way of saying no
		bm.Run()
	}()
	after := dirHash(env.BackupLocation)
	if before != after {
		ctx.Out.Viol(id, "C20", "foreign-location-overwritten", "a backup location carrying another store's DATAHUB_BACKUPID was modified by a backup run", before, after, nil)
	}
	ctx.Out.Stat("c20_foreign_locations_checked", 1)
}

func dirHash(dir string) string {
	h := sha256.New()
	var files []string
	_ = filepath.Walk(dir, func(p string, info os.FileInfo, err error) error {
		if err == nil && !info.IsDir() {
			files = append(files, p)
		}
		return nil
	})
	sort.Strings(files)
	for _, f := range files {
		io.WriteString(h, f)
		if fh, err := os.Open(f); err == nil {
			io.Copy(h, fh)
			fh.Close()
		}
	}
	return hex.EncodeToString(h.Sum(nil))
}

func (s *sdRun) c20EnsureBulk() {
	// make the run long enough to overlap something: a bulk dataset, written once per case
	if s.core.Dsm.GetDataset("bulk") == nil {
		if _, err := s.core.Dsm.CreateDataset("bulk", nil); err != nil {
			s.viol("C20", "op-error", err.Error(), nil, nil)
			s.abort = true
			return
		}
		s.m.Create("bulk")
		var ents []model.Ent
		for i := 0; i < 4000; i++ {
			ents = append(ents, model.Ent{ID: fmt.Sprintf("%sbulk%d", gen.NsA, i), Props: map[string]any{gen.NsP + "k0": fmt.Sprintf("some payload to make the backup run take a moment %d", i)}, Refs: map[string]any{}})
		}
		for i := 0; i < len(ents); i += 500 {
			if err := StoreBatch(s.core, "bulk", ents[i:i+500], false); err != nil {
				s.viol("C20", "op-error", err.Error(), nil, nil)
				s.abort = true
				return
			}
			s.m.Apply("bulk", ents[i:i+500])
		}
	}
}

// c20BusyBackup runs one backup while a client keeps writing single-entity batches and the scheduler
// "fires" three more times. Every write that was acknowledged is applied to the model in order.
func (s *sdRun) c20BusyBackup(bm *server.BackupManager) {
	stop := make(chan struct{})
	var acked []model.Ent
	var wg sync.WaitGroup
	wg.Add(1)
	go func() {
		defer wg.Done()
		for k := 0; ; k++ {
			select {
			case <-stop:
				return
			default:
			}
			e := model.Ent{ID: fmt.Sprintf("%sw%d-%d", gen.NsA, s.opIdx, k), Props: map[string]any{gen.NsP + "k1": float64(k)}, Refs: map[string]any{}}
			if err := StoreBatch(s.core, "da", []model.Ent{e}, false); err == nil {
				acked = append(acked, e)
			}
		}
	}()
	var rw sync.WaitGroup
	runGuarded := func() {
		defer rw.Done()
		defer func() { _ = recover() }()
		bm.Run()
	}
	bfile := filepath.Join(s.dir, "backup", "datahub-backup.kv")
	sizeOf := func() int64 {
		if fi, err := os.Stat(bfile); err == nil {
			return fi.Size()
		}
		return -1
	}
	before := sizeOf()
	first := make(chan struct{})
	rw.Add(1)
	go func() { defer close(first); runGuarded() }()
	// the scheduler's firings are minutes apart: the further ones must find the first run inside its work (the
	// backup file has started to grow), not merely started as a goroutine - on a loaded machine that can take long
	for entered := false; !entered; {
		select {
		case <-first:
			entered = true
		default:
			if sizeOf() > before && sizeOf() > 0 {
				entered = true
			} else {
				time.Sleep(200 * time.Microsecond)
			}
		}
	}
	for i := 0; i < 3; i++ { // further scheduler invocations while the run is in progress
		time.Sleep(3 * time.Millisecond)
		rw.Add(1)
		go runGuarded()
	}
	rw.Wait()
	close(stop)
	wg.Wait()
	for _, e := range acked {
		s.m.Apply("da", []model.Ent{e})
	}
	s.ctx.Out.Stat("c20_writes_acknowledged_during_backup_runs", int64(len(acked)))
	s.ctx.Out.Stat("c20_busy_backup_runs", 1)
}

var c20BusyID = regexp.MustCompile(`/a/w(\d+)-(\d+)"`)

// c20RestorePointInTime: during the busy run one client appended the new entities w<op>-0, w<op>-1, ... to "da",
// one acknowledged batch each, and nothing else was written. The state "when the run started" is therefore only
// known up to the writes that overlapped the run: the restore must be the state before the run plus the first j of
// those writes, the same j in the listing and in the change feed, and every other answer unchanged.
func (s *sdRun) c20RestorePointInTime(dir string, pre, post map[string]string, n int) {
	rdir := filepath.Join(dir, fmt.Sprintf("restore-%d-busy", n))
	defer os.RemoveAll(rdir)
	f, err := os.Open(filepath.Join(dir, "backup", "datahub-backup.kv"))
	if err != nil {
		s.viol("C20", "backup-file-missing", "native backup run left no backup file", nil, nil)
		return
	}
	_ = os.MkdirAll(rdir, 0o755)
	db, err := badger.Open(badger.DefaultOptions(rdir).WithLogger(nil).WithMemTableSize(8 << 20).WithValueLogFileSize(32 << 20).WithNumMemtables(2).WithBlockCacheSize(1 << 20).WithIndexCacheSize(1 << 20).WithDetectConflicts(false))
	if err != nil {
		f.Close()
		s.ctx.Out.Inconclusive(s.id, "C20", "open restore db: "+err.Error())
		return
	}
	lerr := db.Load(f, 16)
	f.Close()
	cerr := db.Close()
	if lerr != nil || cerr != nil {
		s.viol("C20", "backup-unreadable", fmt.Sprintf("badger cannot load the backup file written by a run that overlapped writes: %v %v", lerr, cerr), nil, nil)
		s.abort = true
		return
	}
	rc, err := hub.TryOpenCore(rdir)
	if err != nil {
		s.viol("C20", "restore-open-failed", "the restored store does not open: "+firstLine(err.Error()), nil, err.Error())
		s.abort = true
		return
	}
	defer rc.Close()
	var got map[string]string
	func() {
		defer func() {
			if p := recover(); p != nil {
				s.viol("C20", "restore-torn-during-writes", fmt.Sprintf("backup run %d overlapped acknowledged writes: a read API of the restored hub panics (%v): the restore holds part of a batch", n, p), nil, string(debug.Stack()))
				s.abort = true
			}
		}()
		got = s.c20Snapshot(rc)
	}()
	if got == nil {
		return
	}
	lines := func(v string) []string {
		var out []string
		for _, l := range strings.Split(v, "\n") {
			if l != "" && !strings.HasPrefix(l, "token=") {
				out = append(out, l)
			}
		}
		return out
	}
	// j from the change feed: old lines, then a prefix of the new ones
	preF, postF, gotF := lines(pre["feed|da"]), lines(post["feed|da"]), lines(got["feed|da"])
	okPrefix := len(gotF) >= len(preF) && len(gotF) <= len(postF)
	for i := 0; okPrefix && i < len(gotF); i++ {
		okPrefix = gotF[i] == postF[i]
	}
	if !okPrefix {
		s.viol("C20", "restore-feed-not-a-point-in-time", fmt.Sprintf("backup run %d overlapped %d acknowledged single-entity batches: the restored change feed of da is not the feed before the run plus a prefix of those batches", n, len(postF)-len(preF)), strings.Join(postF, "\n"), strings.Join(gotF, "\n"))
		s.abort = true
		return
	}
	j := len(gotF) - len(preF)
	// the listing holds exactly the entities of those j batches
	preL := map[string]bool{}
	for _, l := range lines(pre["list|da"]) {
		preL[l] = true
	}
	seen := map[int]bool{}
	for _, l := range lines(got["list|da"]) {
		if preL[l] {
			delete(preL, l)
			continue
		}
		m := c20BusyID.FindStringSubmatch(l)
		if m == nil {
			s.viol("C20", "restore-list-not-a-point-in-time", fmt.Sprintf("backup run %d: the restored listing of da holds a record that is neither from before the run nor written during it", n), nil, l)
			s.abort = true
			return
		}
		var op, k int
		fmt.Sscanf(m[1]+" "+m[2], "%d %d", &op, &k)
		seen[k] = true
	}
	bad := len(preL) > 0 || len(seen) != j
	for k := 0; k < j && !bad; k++ {
		bad = !seen[k]
	}
	if bad {
		s.viol("C20", "restore-list-not-a-point-in-time", fmt.Sprintf("backup run %d overlapped acknowledged writes: the restored change feed of da holds the first %d of them, the restored listing holds %d of them (missing from before the run: %d)", n, j, len(seen), len(preL)), nil, got["list|da"])
		s.abort = true
		return
	}
	keys := make([]string, 0, len(pre))
	for k := range pre {
		// (the items counter kept in core.Dataset moves with every write)
		if k != "feed|da" && k != "list|da" && !strings.Contains(k, "core.Dataset") {
			keys = append(keys, k)
		}
	}
	sort.Strings(keys)
	for _, k := range keys {
		if got[k] != pre[k] && got[k] != post[k] {
			s.viol("C20", "restore-"+strings.SplitN(k, "|", 2)[0]+"-during-writes", fmt.Sprintf("backup run %d overlapped writes that do not touch %s, yet the restored hub answers it differently from the source hub", n, k), pre[k], got[k])
			s.abort = true
			return
		}
	}
	s.ctx.Out.Stat("c20_busy_restores_compared", 1)
	s.ctx.Out.Stat("c20_busy_restore_prefix_lengths_seen", int64(j))
	if j > 0 && j < len(postF)-len(preF) {
		s.ctx.Out.Stat("c20_busy_restores_strictly_inside_the_write_sequence", 1)
	}
}

// c20DropCronEntries: every NewBackupManager registers itself with the process-wide cron of jobrunner, which keeps
// the manager, its store and badger's caches (~400 MB) reachable after the store was closed. A hub process creates
// one manager in its life; this process creates hundreds, so the harness forgets the closed ones.
func c20DropCronEntries() {
	if jobrunner.MainCron == nil {
		return
	}
	for _, e := range jobrunner.MainCron.Entries() {
		jobrunner.MainCron.Remove(e.ID)
	}
}
