package scen

// c11storm: request pressure on ONE job id from an idle state ("at no time do two runs of
// the same job id overlap"). In every round N goroutines are parked on a barrier and released
// together; each fires a burst of back-to-back run requests for the same job id: a change event of the monitored
// dataset through the real event bus (what the web handler emits after a POST) or a manual
// Scheduler.RunJob. A cron trigger `@every 1s` of the same job ticks meanwhile. Rounds start
// either when the job is idle (no run holds a slot) or at the instant a run gives its slot back.
// Oracles (the same probes as c11conc):
//   - raffle ticket events and loopback sink request intervals of the job id never overlap
//   - tickets + running jobs == pool, running jobs == runs that hold a slot (one critical section)
//   - every run that gives its slot back has a stored result newer than its start
//   - a run that never ends is judged from the goroutine state
// The hub runs in a sub-child; GOMAXPROCS comes from the stage (16 and 2), one stage runs under
// the race detector.

import (
	"context"
	"encoding/json"
	"fmt"
	"math/rand"
	"os"
	"runtime"
	"strconv"
	"strings"
	"sync"
	"sync/atomic"
	"time"
)

func init() { Register("c11storm", c11Storm) }

type c11StormCase struct {
	Seed       int64    `json:"seed"`
	K          int      `json:"k"`
	Rounds     int      `json:"rounds"`
	N          int      `json:"goroutinesPerRound"`
	Burst      int      `json:"requestsPerGoroutine"`
	GOMAXPROCS int      `json:"gomaxprocs"`
	PoolIncr   int      `json:"poolIncr"`
	PoolFull   int      `json:"poolFull"`
	Job        string   `json:"job"`
	Requests   []string `json:"requests"`
}

func c11StormCaseOf(ctx *Ctx, k int) c11StormCase {
	rounds, _ := strconv.Atoi(ctx.Arg("rounds", "150"))
	n, _ := strconv.Atoi(ctx.Arg("n", "8"))
	burst, _ := strconv.Atoi(ctx.Arg("burst", "25"))
	return c11StormCase{Seed: ctx.Seed, K: k, Rounds: rounds, N: n, Burst: burst, GOMAXPROCS: runtime.GOMAXPROCS(0), PoolIncr: 4, PoolFull: 2, Job: "storm",
		Requests: []string{"on-change event of the monitored dataset (event bus)", "Scheduler.RunJob incremental", "cron @every 1s (background)"}}
}

func c11Storm(ctx *Ctx) error {
	if ctx.Arg("mode", "") == "sub" {
		k, _ := strconv.Atoi(ctx.Arg("k", "0"))
		return c11StormSub(ctx, k)
	}
	n := ctx.Cases
	if n < 1 || ctx.Replay != "" {
		n = 1
	}
	for k := 0; k < n; k++ {
		cs := c11StormCaseOf(ctx, k)
		if ctx.Replay != "" {
			if b, err := os.ReadFile(ctx.Replay); err == nil {
				var rp struct {
					Ops c11StormCase `json:"ops"`
				}
				if json.Unmarshal(b, &rp) == nil && rp.Ops.Rounds > 0 {
					cs.K, cs.Rounds, cs.N, cs.Burst = rp.Ops.K, rp.Ops.Rounds, rp.Ops.N, rp.Ops.Burst
				}
			}
		}
		caseID := outHash(cs)
		ctx.Out.Begin(caseID, k, map[string]any{"spawn": cs})
		sub := c11Spawn(ctx, "c11storm", fmt.Sprintf("mode=sub,k=%d,rounds=%d,n=%d,burst=%d", cs.K, cs.Rounds, cs.N, cs.Burst), fmt.Sprintf("storm%d", k), 8*time.Minute,
			[]string{"JOB_FULLSYNC_RETRY_INTERVAL=300ms"})
		cases := c11Forward(ctx, sub)
		if len(cases) == 0 {
			ctx.Out.Case(caseID, ctx.Seed, cs, false, []string{"storm"})
		}
		ctx.Out.Stat("storm.cases_run", 1)
		if sub.Done {
			ctx.Out.Ack(caseID, k, nil)
			continue
		}
		if sub.TimedOut {
			ctx.Out.Emit(map[string]any{"t": "inconclusive", "case": caseID, "prop": "C11", "why": "watchdog: hub sub-process did not finish", "last_begin": sub.LastBegin, "stderr_tail": c11Tail(sub.Stderr, 40)})
			continue
		}
		d := c11ParseDeath(sub.Stderr)
		class := c11ConcDeathClass(d)
		ctx.Out.Stat("storm.hub_died", 1)
		ctx.Out.Stat("storm.died:"+class, 1)
		ctx.Out.Viol(caseID, "C11", class,
			fmt.Sprintf("hub process died (%s) under a storm of run requests for one job id; last step: %v; %s", sub.ExitErr, c11What(sub.LastBegin), d.Head),
			"the hub process survives simultaneous run requests for one job id", d,
			map[string]any{"last_begin": sub.LastBegin, "stderr_tail": c11Tail(sub.Stderr, 45)})
	}
	return nil
}

func c11StormSub(ctx *Ctx, k int) error {
	o := ctx.Out
	cs := c11StormCaseOf(ctx, k)
	caseID := outHash(cs)
	o.Case(caseID, ctx.Seed, cs, false, []string{"storm"})
	dir := ctx.NewDir("c11storm")
	defer os.RemoveAll(dir)
	h, err := c11OpenHub(dir, cs.PoolIncr, cs.PoolFull, true)
	if err != nil {
		return err
	}
	loop := newC11Loop()
	loop.delay = 300 * time.Microsecond
	const src = "stormsrc"
	if _, err := h.dsm.CreateDataset(src, nil); err != nil {
		return err
	}
	if err := h.writeEntitiesNoEmit(src, 0, 4, 0); err != nil {
		return err
	}
	reported := map[string]bool{}
	var vmu sync.Mutex
	viol := func(class, msg string, exp, obs any, extra map[string]any) {
		vmu.Lock()
		first := !reported[class]
		reported[class] = true
		vmu.Unlock()
		o.Stat("storm.viol:"+class, 1)
		if first { // one witness per class and case
			o.Viol(caseID, "C11", class, msg, exp, obs, extra)
		}
	}
	id := cs.Job
	jc := map[string]any{"id": id, "title": id, "batchSize": 50,
		"source": map[string]any{"Type": "DatasetSource", "Name": src},
		"sink":   map[string]any{"Type": "HttpDatasetSink", "Url": loop.url() + "/sink/" + id + "/ok"},
		"triggers": []any{
			map[string]any{"triggerType": "cron", "jobType": "incremental", "schedule": "@every 1s"},
			map[string]any{"triggerType": "onchange", "jobType": "incremental", "monitoredDataset": src},
		}}
	raw, _ := json.Marshal(jc)
	o.Begin(caseID, 0, map[string]any{"step": "AddJob", "job": jc})
	parsed, err := h.sched.Parse(raw)
	if err == nil {
		err = h.sched.AddJob(parsed)
	}
	o.Ack(caseID, 0, err)
	if err != nil {
		return fmt.Errorf("AddJob: %w", err)
	}
	rec := h.rec

	// poller: slot conservation in one critical section + public status API
	var stop int32
	var polls, consChecks int64
	var pwg sync.WaitGroup
	pwg.Add(1)
	go func() {
		defer pwg.Done()
		for atomic.LoadInt32(&stop) == 0 {
			_ = h.sched.GetRunningJobs()
			_ = h.sched.GetRunningJob(id)
			bad, _, _ := h.conservation()
			atomic.AddInt64(&consChecks, 1)
			for _, b := range bad {
				viol("slot-conservation", "run slots are not conserved: "+b, "tickets + running == pool; running == runs holding a slot", b, nil)
			}
			atomic.AddInt64(&polls, 1)
			time.Sleep(500 * time.Microsecond)
		}
	}()

	// status poller: what a client following the job does - GetRunningJobs / GetRunningJob as fast as
	// it can while slots are taken and given back (under -race every poll between a return and the
	// next borrow is decisive; without it a reader of shared state meets a writer sooner or later)
	var statusPolls int64
	pwg.Add(1)
	go func() {
		defer pwg.Done()
		for atomic.LoadInt32(&stop) == 0 {
			for i := 0; i < 20; i++ {
				for _, j := range h.sched.GetRunningJobs() {
					_ = j.JobID
				}
				_ = h.sched.GetRunningJob(id)
			}
			atomic.AddInt64(&statusPolls, 20)
			time.Sleep(50 * time.Microsecond)
		}
	}()

	r := rand.New(rand.NewSource(ctx.Seed*1000 + int64(k)))
	var inflight, maxInflight int64
	var nEvent, nRunJob, runJobOK, runJobBusy, runJobErr int64
	roundsIdle, roundsAtReturn, roundsWatchdog := 0, 0, 0
	next := 4
	o.Begin(caseID, 1, map[string]any{"step": "storm", "rounds": cs.Rounds, "n": cs.N})
	for round := 0; round < cs.Rounds; round++ {
		// new data for the run(s) of this round (stored before the barrier, no event)
		if next > 60 {
			next = 4
		}
		_ = h.writeEntitiesNoEmit(src, next, next+1, round+1)
		next++
		// start condition: idle, or the instant a run gives its slot back
		if round%3 == 2 {
			rec.mu.Lock()
			e0 := rec.ended
			rec.mu.Unlock()
			// one request to have a run whose end can be waited for
			h.bus.Emit(context.Background(), "dataset."+src, nil)
			if rec.waitFor(c11Watchdog, func() bool { return rec.ended > e0 }) {
				roundsAtReturn++
			} else {
				roundsWatchdog++
			}
		} else {
			if rec.waitFor(c11Watchdog, func() bool { return len(rec.open) == 0 }) {
				roundsIdle++
			} else {
				roundsWatchdog++
				if n := c11JudgeStuck(h, viol); n > 0 {
					o.Stat("storm.runs_blocked_forever", int64(n))
					break
				}
			}
		}
		kinds := make([]int, cs.N)
		for i := range kinds {
			if r.Intn(4) == 0 {
				kinds[i] = 1 // RunJob
			}
		}
		var ready, done sync.WaitGroup
		gate := make(chan struct{})
		e0 := atomic.LoadInt64(&rec.endedA)
		const spans = 3
		ready.Add(cs.N)
		done.Add(cs.N)
		for i := 0; i < cs.N; i++ {
			go func(kind int) {
				defer done.Done()
				ready.Done()
				<-gate
				cur := atomic.AddInt64(&inflight, 1)
				for {
					m := atomic.LoadInt64(&maxInflight)
					if cur <= m || atomic.CompareAndSwapInt64(&maxInflight, m, cur) {
						break
					}
				}
				// a burst of back-to-back requests: the round spans the start from idle and several
				// instants at which a run gives its slot back while requests keep arriving
				// keep firing until `spans` runs have given their slot back since the barrier (bounded):
				// the stream of requests covers the start from idle and the following instants at which a
				// run ends while requests keep arriving
				sent := 0
				for sent < 40*cs.Burst && atomic.LoadInt64(&rec.endedA) < e0+spans {
					if kind == 0 {
						for b := 0; b < cs.Burst; b++ {
							// what the web handler emits after a POST to /datasets/<name>/entities
							h.bus.Emit(context.Background(), "dataset."+src, nil)
						}
						sent += cs.Burst
						atomic.AddInt64(&nEvent, int64(cs.Burst))
					} else {
						_, err := h.sched.RunJob(id, "incremental")
						sent += cs.Burst / 4
						atomic.AddInt64(&nRunJob, 1)
						switch {
						case err == nil:
							atomic.AddInt64(&runJobOK, 1)
						case strings.Contains(err.Error(), "already running"):
							atomic.AddInt64(&runJobBusy, 1)
						default:
							atomic.AddInt64(&runJobErr, 1)
						}
					}
				}
				atomic.AddInt64(&inflight, -1)
			}(kinds[i])
		}
		ready.Wait()
		close(gate)
		done.Wait()
	}
	o.Ack(caseID, 1, nil)

	// drain
	o.Begin(caseID, 2, map[string]any{"step": "pause + drain"})
	if err := h.sched.PauseJob(id); err != nil {
		o.Stat("storm.pause_error", 1)
	}
	quiet := false
	for i := 0; i < 15; i++ {
		if !rec.waitFor(c11Watchdog, func() bool { return len(rec.open) == 0 }) {
			break
		}
		rec.mu.Lock()
		g := rec.gen
		rec.mu.Unlock()
		time.Sleep(400 * time.Millisecond)
		rec.mu.Lock()
		quiet = rec.gen == g && len(rec.open) == 0
		rec.mu.Unlock()
		if quiet {
			break
		}
	}
	atomic.StoreInt32(&stop, 1)
	pwg.Wait()
	o.Ack(caseID, 2, nil)

	o.Begin(caseID, 3, map[string]any{"step": "final-state + offline checks"})
	rec.waitFor(c11Watchdog, func() bool {
		for _, x := range rec.open {
			if x.Outcome != "" {
				return false
			}
		}
		return true
	})
	if n := c11JudgeStuck(h, viol); n > 0 {
		o.Stat("storm.runs_blocked_forever", int64(n))
	}
	runs := rec.snapshotRuns()
	stuck := 0
	for _, x := range runs {
		if x.SeqReturn == 0 {
			stuck++
			if x.Outcome != "" {
				viol("slot-not-released:"+x.Outcome, fmt.Sprintf("run of %s reported outcome %q but still holds its run slot", x.ID, x.Outcome), "slot returned", x, nil)
			}
			continue
		}
		o.Stat("storm.runs_ended", 1)
		o.Stat("storm.outcome:"+c11nz(x.Outcome, "none"), 1)
		if x.ID == "" {
			o.Stat("storm.run_without_id", 1)
			continue
		}
		if !x.ResFound || x.ResID != x.ID || x.ResEnd.Before(x.TBorrow.Round(0).Add(-time.Millisecond)) {
			viol("result-missing:"+c11nz(x.Outcome, "none"),
				fmt.Sprintf("run of %s (outcome %q) gave its slot back but no run result newer than its start is stored", x.ID, x.Outcome),
				"job result with End >= start of the run", x, nil)
		} else {
			o.Stat("storm.results_checked", 1)
		}
		if x.AfterBorrow < 0 || x.AfterBorrow > cs.PoolIncr-1 {
			viol("tickets-out-of-range", fmt.Sprintf("tickets left after a borrow = %d with pool %d", x.AfterBorrow, cs.PoolIncr), "0..pool-1", x, nil)
		}
	}
	if !quiet {
		o.Stat("storm.not_quiescent_at_end", 1)
		o.Emit(map[string]any{"t": "inconclusive", "case": caseID, "prop": "C11",
			"why": fmt.Sprintf("watchdog: hub did not become quiescent after pausing the job (%d runs still hold a slot)", stuck)})
	}
	bad, _, _ := h.conservation()
	for _, b := range bad {
		viol("slot-conservation", "run slots are not conserved: "+b, "tickets + running == pool", b, nil)
	}
	if listed, checked := h.publicRunningCheck(); checked {
		o.Stat("storm.public_running_checks", 1)
		if len(listed) != 0 {
			viol("running-after-end", fmt.Sprintf("GetRunningJobs lists %v although no run holds a slot", listed), "[]", listed, nil)
		}
	}
	var rivs, sivs []c11Interval
	for _, iv := range c11RunIntervals(runs) {
		if iv.Key != "" {
			rivs = append(rivs, iv)
		}
	}
	for _, q := range loop.requests() {
		o.Stat(fmt.Sprintf("storm.loopback.%s.%d", q.Kind, q.Code), 1)
		if q.Kind == "sink" {
			sivs = append(sivs, c11Interval{Key: q.Job, Typ: "incremental", Start: q.Start, End: q.End, Src: "sink-probe"})
		}
	}
	for _, probe := range []struct {
		name string
		ivs  []c11Interval
	}{{"raffle", rivs}, {"sink-probe", sivs}} {
		ov := c11Overlaps(probe.ivs)
		o.Stat("storm.intervals:"+probe.name, int64(len(probe.ivs)))
		o.Stat("storm.overlapping_pairs:"+probe.name, int64(len(ov)))
		if len(ov) > 0 {
			viol("overlap-same-id:"+probe.name, fmt.Sprintf("two runs of job %s were active at the same time (%s intervals overlap; %d overlapping pairs in this case)", ov[0][0].Key, probe.name, len(ov)),
				"disjoint run intervals per job id", ov[0], map[string]any{"pairs": len(ov)})
		}
		mx, _ := c11MaxOpen(probe.ivs)
		o.StatMax("max:storm.open_runs_of_the_id:"+probe.name, int64(mx["incremental"]))
		if mx["incremental"] > cs.PoolIncr {
			viol("pool-exceeded:incremental:"+probe.name, fmt.Sprintf("%d incremental runs at once with a pool of %d", mx["incremental"], cs.PoolIncr), cs.PoolIncr, mx["incremental"], nil)
		}
	}
	rec.mu.Lock()
	for kk, v := range rec.counts {
		o.Stat("storm."+kk, v)
	}
	anom := append([]string(nil), rec.anomalies...)
	started := rec.started
	rec.mu.Unlock()
	for _, a := range anom {
		o.Stat("storm.recorder_anomaly", 1)
		o.Emit(map[string]any{"t": "ev", "case": caseID, "k": "anomaly", "msg": a})
	}
	o.Stat("storm.rounds", int64(roundsIdle+roundsAtReturn+roundsWatchdog))
	o.Stat("storm.rounds_started_idle", int64(roundsIdle))
	o.Stat("storm.rounds_started_at_slot_return", int64(roundsAtReturn))
	o.Stat("storm.rounds_start_watchdog", int64(roundsWatchdog))
	o.StatMax("max:storm.simultaneous_requests_in_flight", maxInflight)
	o.StatMax(fmt.Sprintf("max:storm.simultaneous_requests_in_flight:gomaxprocs=%d", cs.GOMAXPROCS), maxInflight)
	o.Stat("storm.requests_event", nEvent)
	o.Stat("storm.requests_RunJob", nRunJob)
	o.Stat("storm.RunJob_ok", runJobOK)
	o.Stat("storm.RunJob_already_running", runJobBusy)
	o.Stat("storm.RunJob_error", runJobErr)
	o.Stat("storm.runs_started", int64(started))
	o.Stat("storm.status_polls", polls+statusPolls)
	o.Stat("storm.conservation_checks", consChecks)
	o.Stat(fmt.Sprintf("storm.cases:gomaxprocs=%d", cs.GOMAXPROCS), 1)
	if os.Getenv("GORACE") != "" {
		o.Stat("race_runs", 1)
	}
	nontrivial := maxInflight >= 2
	tags := []string{"storm", fmt.Sprintf("gomaxprocs=%d", cs.GOMAXPROCS)}
	if nontrivial {
		tags = append(tags, "overlapping-requests")
	}
	o.Case(caseID, ctx.Seed, cs, nontrivial, tags)
	o.Ack(caseID, 3, nil)
	rec.mu.Lock()
	rec.closing = true
	rec.mu.Unlock()
	return nil
}
