package scen

import "github.com/mimiro-io/datahub/internal/conf"

type confAlias = conf.Config
