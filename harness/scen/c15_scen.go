package scen

// C15 — "What is POSTed is what is GET back; malformed payloads are rejected, not fatal".
//   c15parse  Go boundary: EntityStreamParser.ParseStream / ParseTransaction under recover();
//             valid documents parse to what they denote and store/list/feed as the model says;
//             grammar-mutated and noisy inputs must give an error, never a panic, and never
//             emit an entity assembled from the malformed element
//   c15http   HTTP boundary through the real echo handlers (recover middleware included):
//             POST -> GET entities/changes (paged, with context and continuation) fed back to
//             the hub's own parser; mutated POSTs: no 5xx, no stored partial entity
//   c15deep   very deep nesting, run in a sub-process so that a fatal stack overflow is attributed

import (
	"bytes"
	"encoding/json"
	"fmt"
	"math/rand"
	"net/url"
	"os"
	"os/exec"
	"strconv"
	"strings"

	"github.com/mimiro-io/datahub/internal/server"
	"github.com/mimiro-io/datahub/internal/verif/gen"
	"github.com/mimiro-io/datahub/internal/verif/hub"
	"github.com/mimiro-io/datahub/internal/verif/model"
	"github.com/mimiro-io/datahub/internal/verif/obs"
)

func init() {
	Register("c15parse", c15Parse)
	Register("c15http", c15HTTP)
	Register("c15deep", c15Deep)
	Register("c15deepchild", c15DeepChild)
}

type C15Case struct {
	Doc   C15Doc `json:"doc"`
	NIDs  int    `json:"nids"`
	MSeed int64  `json:"mseed"`
	NMut  int    `json:"nmut"`
	HTTP  bool   `json:"http,omitempty"`
}

func c15GenCase(r *rand.Rand, nmut int, http bool) C15Case {
	c := C15Case{NIDs: 3 + r.Intn(4), MSeed: r.Int63(), NMut: nmut, HTTP: http}
	v := gen.NewVocab(c.NIDs, 3, 3)
	c.Doc.Prefixed = r.Intn(2) == 0
	c.Doc.OSeed = r.Int63()
	c.Doc.Omit = r.Intn(2) == 0 // key-omission dimension
	var sh *c15Shaper           // identifier-shape dimension
	if r.Intn(2) == 0 {
		sh = &c15Shaper{r: rand.New(rand.NewSource(r.Int63())), m: map[string]string{}}
	}
	maxN := 6
	if http {
		maxN = 26 // the handler stores in batches of 10: reach well beyond one batch
	}
	if r.Intn(4) == 0 {
		c.Doc.Kind = "txn"
		c.Doc.Txn = map[string][]model.Ent{}
		nds := 1 + r.Intn(2)
		for i := 0; i < nds; i++ {
			c.Doc.Txn[[]string{"ta", "tb"}[i]] = c15GenEnts(r, v, r.Intn(4), sh)
		}
	} else {
		c.Doc.Kind = "stream"
		n := r.Intn(maxN)
		if http && r.Intn(2) == 0 {
			n = 10 + r.Intn(16)
		}
		c.Doc.Ents = c15GenEnts(r, v, n, sh)
	}
	return c
}

// c15GenBulkCase: a LARGE BUT FLAT valid document: hundreds of entities, each with several
// list-valued properties and list-valued references (well over 1000 arrays in the one
// document, none nested deeper than two levels). Limits on nesting depth are limits on
// depth, not on how much a payload holds side by side.
func c15GenBulkCase(r *rand.Rand, nmut int, http bool) C15Case {
	n := 300 + r.Intn(150)
	c := C15Case{NIDs: n, MSeed: r.Int63(), NMut: nmut, HTTP: http}
	v := gen.NewVocab(n, 6, 3)
	c.Doc.Prefixed = r.Intn(2) == 0
	c.Doc.OSeed = r.Int63()
	c.Doc.Omit = r.Intn(2) == 0
	var ents []model.Ent
	for i := 0; i < n; i++ {
		id := v.IDs[i]
		if i > 0 && r.Intn(20) == 0 {
			id = v.IDs[r.Intn(i)] // now and then a later version of an earlier entity
		}
		e := model.Ent{ID: id, Props: map[string]any{}, Refs: map[string]any{}}
		np := 4 + r.Intn(3)
		for _, k := range r.Perm(len(v.Props))[:np] {
			m := r.Intn(5)
			a := make([]any, m)
			for j := range a {
				a[j] = gen.Scalar(r)
			}
			switch r.Intn(12) {
			case 0: // a list of lists
				a = []any{[]any{gen.Scalar(r)}, []any{gen.Scalar(r), gen.Scalar(r)}}
			case 1: // a list holding a nested entity
				a = append(a, map[string]any{"id": v.IDs[r.Intn(n)] + "-sub", "props": map[string]any{v.Props[0]: []any{gen.Scalar(r)}}, "refs": map[string]any{}})
			}
			e.Props[v.Props[k]] = a
		}
		for j := r.Intn(3); j > 0; j-- {
			m := 1 + r.Intn(3)
			a := make([]any, m)
			for x := range a {
				a[x] = v.IDs[r.Intn(n)]
			}
			e.Refs[v.Preds[r.Intn(len(v.Preds))]] = a
		}
		ents = append(ents, model.NormEnt(e))
	}
	if !http && r.Intn(3) == 0 {
		c.Doc.Kind = "txn"
		c.Doc.Txn = map[string][]model.Ent{"ta": ents[:n/2], "tb": ents[n/2:]}
	} else {
		c.Doc.Kind = "stream"
		c.Doc.Ents = ents
	}
	return c
}

// sizeClass: class suffix of the large-but-flat documents.
func (c C15Case) sizeClass() string {
	if len(c.allEnts()) >= 200 {
		return "-bulk-flat"
	}
	return ""
}

func (c C15Case) allEnts() []model.Ent {
	if c.Doc.Kind == "txn" {
		var all []model.Ent
		for _, n := range []string{"ta", "tb"} {
			all = append(all, c.Doc.Txn[n]...)
		}
		return all
	}
	return c.Doc.Ents
}

func (c C15Case) tags() (tags []string, nontrivial bool) {
	nested, arrays := c15HasShape(c.allEnts())
	if nested {
		tags = append(tags, "nested-entity")
	}
	if arrays {
		tags = append(tags, "array")
	}
	if c.Doc.Prefixed {
		tags = append(tags, "default-prefix")
	} else {
		tags = append(tags, "absolute-uris")
	}
	tags = append(tags, c.Doc.Kind)
	if len(c.allEnts()) >= 200 {
		tags = append(tags, "bulk-flat")
	}
	if c.Doc.Omit && c15HasOmittable(c.allEnts()) {
		tags = append(tags, "omitted-keys")
	}
	shapes := c15IDShapes(c.allEnts())
	for _, n := range []string{"colon", "slash", "hash", "percent", "unicode", "punct"} {
		if shapes[n] {
			tags = append(tags, "id-shape-"+n)
		}
	}
	if c.NMut > 0 {
		tags = append(tags, "mutated")
	}
	return tags, c.NMut > 0 || nested || arrays
}

type c15Run struct {
	ctx  *Ctx
	id   string
	seen map[string]bool
	op   int
}

func (s *c15Run) viol(class, msg string, exp, got any, input []byte) {
	s.ctx.Out.Stat("viol:"+class, 1)
	if s.seen[class] {
		return
	}
	s.seen[class] = true
	extra := map[string]any{"op": s.op}
	if input != nil {
		in := input
		if len(in) > 3000 {
			in = in[:3000]
		}
		extra["input"] = string(in)
		extra["input_len"] = len(input)
	}
	s.ctx.Out.Viol(s.id, "C15", class, msg, exp, got, extra)
}

func c15Short(b []byte) string {
	if len(b) > 300 {
		return string(b[:300]) + fmt.Sprintf("...(%d bytes)", len(b))
	}
	return string(b)
}

// ---------- Go boundary

func c15ParseStream(st *server.Store, in []byte) (ents []*server.Entity, err error, pan any) {
	defer func() {
		if p := recover(); p != nil {
			pan = p
		}
	}()
	esp := server.NewEntityStreamParser(st)
	err = esp.ParseStream(bytes.NewReader(in), func(e *server.Entity) error {
		ents = append(ents, e)
		return nil
	})
	return
}

func c15ParseTxn(st *server.Store, in []byte) (txn *server.Transaction, err error, pan any) {
	defer func() {
		if p := recover(); p != nil {
			pan = p
		}
	}()
	esp := server.NewEntityStreamParser(st)
	txn, err = esp.ParseTransaction(bytes.NewReader(in))
	return
}

func c15Canon(st *server.Store, e *server.Entity) (r obs.Rec, pan any) {
	defer func() {
		if p := recover(); p != nil {
			pan = p
		}
	}()
	return obs.Canon(st, e), nil
}

func c15Parse(ctx *Ctx) error {
	if ctx.Replay != "" {
		b, err := os.ReadFile(ctx.Replay)
		if err != nil {
			return err
		}
		var w struct {
			Ops C15Case `json:"ops"`
		}
		if err := json.Unmarshal(b, &w); err != nil {
			return err
		}
		var k struct {
			Ops struct {
				Kind string `json:"kind"`
			} `json:"ops"`
		}
		_ = json.Unmarshal(b, &k)
		if k.Ops.Kind == "nsconc" {
			return c15NsConc(ctx)
		}
		if w.Ops.HTTP {
			return c15HTTP(ctx)
		}
		if w.Ops.Doc.Kind == "" { // a deep-nesting witness
			return c15Deep(ctx)
		}
		c15RunParseCase(ctx, w.Ops)
		return nil
	}
	nmut, _ := strconv.Atoi(ctx.Arg("nmut", "50"))
	r := rand.New(rand.NewSource(ctx.Seed))
	for i := 0; i < ctx.Cases; i++ {
		if i == 0 && ctx.Arg("bulk", "1") != "0" {
			// one large-but-flat document per child (its own generator stream, few mutations: they are as large)
			c15RunParseCase(ctx, c15GenBulkCase(rand.New(rand.NewSource(ctx.Seed^0xb01c)), 3, false))
			continue
		}
		c15RunParseCase(ctx, c15GenCase(r, nmut, false))
	}
	return nil
}

func c15RunParseCase(ctx *Ctx, c C15Case) {
	id := outHash(c)
	tags, nt := c.tags()
	ctx.Out.Case(id, ctx.Seed, c, nt, tags)
	s := &c15Run{ctx: ctx, id: id, seen: map[string]bool{}}
	dir := ctx.NewDir("c15")
	defer os.RemoveAll(dir)
	core := hub.OpenCore(dir)
	defer core.Close()
	base := c15Build(c.Doc)
	valid := base.bytes()

	// (1) the valid document parses to exactly what it denotes
	ctx.Out.Begin(id, 0, "valid "+c.Doc.Kind)
	ctx.Out.Stat("parser_inputs", 1)
	ctx.Out.Stat("valid_documents", 1)
	if c.Doc.Kind == "txn" {
		txn, err, pan := c15ParseTxn(core.Store, valid)
		ctx.Out.Ack(id, 0, err)
		switch {
		case pan != nil:
			s.viol("parser-panic-valid-document", fmt.Sprintf("ParseTransaction panicked on a valid document: %v", pan), "parsed", "panic", valid)
		case err != nil:
			s.viol("valid-rejected"+c.sizeClass(), "ParseTransaction rejected a valid document: "+err.Error(), "parsed", err.Error(), valid)
		default:
			for _, n := range []string{"ta", "tb"} {
				want, ok := c.Doc.Txn[n]
				got := txn.DatasetEntities[n]
				if !ok && got == nil {
					continue
				}
				if msg := c15CompareParsed(core.Store, want, got); msg != "" {
					s.viol("valid-misparsed", "transaction dataset "+n+": "+msg, want, nil, valid)
				}
			}
			c15StoreAndCheckTxn(s, core, c, txn)
		}
	} else {
		ents, err, pan := c15ParseStream(core.Store, valid)
		ctx.Out.Ack(id, 0, err)
		switch {
		case pan != nil:
			s.viol("parser-panic-valid-document", fmt.Sprintf("ParseStream panicked on a valid document: %v", pan), "parsed", "panic", valid)
		case err != nil:
			s.viol("valid-rejected"+c.sizeClass(), "ParseStream rejected a valid document: "+err.Error(), "parsed", err.Error(), valid)
		default:
			if msg := c15CompareParsed(core.Store, c.Doc.Ents, ents); msg != "" {
				s.viol("valid-misparsed", msg, c.Doc.Ents, nil, valid)
			}
			c15StoreAndCheck(s, core, c.Doc.Ents, ents)
		}
	}

	// (2) mutated inputs
	mr := rand.New(rand.NewSource(c.MSeed))
	for i := 0; i < c.NMut; i++ {
		m := c15Mutate(mr, base, c.Doc.Kind)
		s.op = i + 1
		ctx.Out.Begin(id, s.op, map[string]any{"kind": m.Kind, "detail": m.Detail, "len": len(m.Bytes)})
		ctx.Out.Stat("parser_inputs", 1)
		ctx.Out.Stat("mut:"+m.Kind, 1)
		ctx.Out.Stat("verdict:"+m.Verdict, 1)
		if c.Doc.Kind == "txn" {
			_, err, pan := c15ParseTxn(core.Store, m.Bytes)
			ctx.Out.Ack(id, s.op, err)
			c15Judge(s, m, err, pan, nil, nil, core.Store)
		} else {
			ents, err, pan := c15ParseStream(core.Store, m.Bytes)
			ctx.Out.Ack(id, s.op, err)
			c15Judge(s, m, err, pan, ents, c.Doc.Ents, core.Store)
		}
	}
}

// c15Judge applies the statement to one mutated input at the Go boundary.
func c15Judge(s *c15Run, m C15Mut, err error, pan any, emitted []*server.Entity, baseEnts []model.Ent, st *server.Store) {
	what := fmt.Sprintf("%s (%s)", m.Kind, m.Detail)
	if pan != nil {
		s.ctx.Out.Stat("panics", 1)
		s.viol("parser-panic-"+m.Kind, fmt.Sprintf("parser panicked on %s: %v", what, pan), "error", fmt.Sprint(pan), m.Bytes)
		return
	}
	if err != nil {
		s.ctx.Out.Stat("errors_returned", 1)
	} else {
		s.ctx.Out.Stat("accepted", 1)
	}
	if m.Verdict != c15Invalid {
		return
	}
	if err == nil {
		s.viol("malformed-accepted-"+m.Kind, fmt.Sprintf("parser accepted %s without an error", what), "error", "nil", m.Bytes)
	}
	// entities emitted to the caller before the error may only be the well-formed elements preceding the bad one
	if m.Elem >= 0 && baseEnts != nil {
		for j, e := range emitted {
			if j >= m.Elem && j < m.Elem+m.Slack {
				continue
			}
			if j >= m.Elem || j >= len(baseEnts) {
				s.viol("malformed-emitted-"+m.Kind, fmt.Sprintf("%s: %d entities were emitted to the caller but only %d well-formed elements precede the malformed one", what, len(emitted), m.Elem), m.Elem, len(emitted), m.Bytes)
				return
			}
			got, p := c15Canon(st, e)
			want := model.NormEnt(baseEnts[j])
			if p != nil || !sameEnt(&want, &got.Ent) {
				s.viol("malformed-emitted-"+m.Kind, fmt.Sprintf("%s: emitted entity %d differs from the well-formed element %d", what, j, j), model.CanonString(&want), model.CanonString(&got.Ent), m.Bytes)
				return
			}
		}
		if len(emitted) > 0 {
			s.ctx.Out.Stat("prefix_emitted_before_error", 1)
		}
	}
}

func c15CompareParsed(st *server.Store, want []model.Ent, got []*server.Entity) string {
	if len(want) != len(got) {
		return fmt.Sprintf("%d entities parsed, document has %d", len(got), len(want))
	}
	for i := range want {
		w := model.NormEnt(want[i])
		g, p := c15Canon(st, got[i])
		if p != nil {
			return fmt.Sprintf("entity %d cannot be canonicalised: %v", i, p)
		}
		if !sameEnt(&w, &g.Ent) {
			return fmt.Sprintf("entity %d parsed as %s, document says %s", i, model.CanonString(&g.Ent), model.CanonString(&w))
		}
	}
	return ""
}

// c15StoreAndCheck stores the parsed entities and compares listing and feed with the model.
func c15StoreAndCheck(s *c15Run, core *hub.Core, ents []model.Ent, parsed []*server.Entity) {
	ds, err := core.Dsm.CreateDataset("c15", nil)
	if err != nil {
		s.ctx.Out.Inconclusive(s.id, "C15", "create dataset: "+err.Error())
		return
	}
	m := model.New()
	m.Create("c15")
	if err := ds.StoreEntities(parsed); err != nil {
		s.viol("valid-store-error", "StoreEntities of a parsed valid document failed: "+err.Error(), nil, nil, nil)
		return
	}
	m.Apply("c15", ents)
	c15CheckDataset(s, core.Store, ds, m.Live("c15"), "c15")
}

func c15StoreAndCheckTxn(s *c15Run, core *hub.Core, c C15Case, txn *server.Transaction) {
	m := model.New()
	for n := range c.Doc.Txn {
		if _, err := core.Dsm.CreateDataset(n, nil); err != nil {
			s.ctx.Out.Inconclusive(s.id, "C15", "create dataset: "+err.Error())
			return
		}
		m.Create(n)
	}
	if err := core.Store.ExecuteTransaction(txn); err != nil {
		s.viol("valid-store-error", "ExecuteTransaction of a parsed valid document failed: "+err.Error(), nil, nil, nil)
		return
	}
	m.ApplyTxn(c.Doc.Txn)
	for n := range c.Doc.Txn {
		c15CheckDataset(s, core.Store, core.Dsm.GetDataset(n), m.Live(n), n)
	}
}

func c15CheckDataset(s *c15Run, st *server.Store, ds *server.Dataset, md *model.Dataset, name string) {
	got, err := obs.Listing(st, ds, 0)
	if err != nil {
		s.viol("valid-read-error", "listing: "+err.Error(), nil, nil, nil)
		return
	}
	want := md.Latest(-1)
	if msg := c15CompareSet(want, got); msg != "" {
		s.viol("stored-differs", "dataset "+name+" listing: "+msg, feedStr(want), recStr(got), nil)
	}
	feed, _, err := obs.Feed(st, ds, 0, nil, false)
	if err != nil {
		s.viol("valid-read-error", "feed: "+err.Error(), nil, nil, nil)
		return
	}
	if !eqSeq(md.Feed(), feed) {
		s.viol("stored-differs", "dataset "+name+" change feed differs from what the payload denotes", feedStr(md.Feed()), recStr(feed), nil)
	}
	s.ctx.Out.Stat("entities_compared", int64(len(got)+len(feed)))
	c15SerialiseBack(s, st, ds, md, name)
}

// c15Serialise writes a collection the way the hub's read handlers do: the dataset's
// context, each entity as the hub marshals it, a continuation element.
func c15Serialise(ds *server.Dataset, ents []*server.Entity, token string) []byte {
	var b bytes.Buffer
	b.WriteByte('[')
	cb, _ := json.Marshal(ds.GetContext())
	b.Write(cb)
	for _, e := range ents {
		b.WriteByte(',')
		eb, _ := json.Marshal(e)
		b.Write(eb)
	}
	tb, _ := json.Marshal(token)
	b.WriteString(`, {"id":"@continuation","token":` + string(tb) + `}]`)
	return b.Bytes()
}

// c15ReadBack parses a serialised collection twice: with the hub's own parser (the
// statement's clause) and as a foreign client does (plain JSON + the collection's own
// context, no hub code). which: "listing" (compared as a set) or "feed" (as a sequence).
func c15ReadBack(s *c15Run, st *server.Store, body []byte, what string) (hubView, clientView []obs.Rec, ok bool) {
	s.ctx.Out.Stat("roundtrip_parses", 1)
	if !json.Valid(body) {
		s.viol("serialised-not-json", what+": the serialised collection is not valid JSON", "JSON", c15Short(body), body)
		return nil, nil, false
	}
	ents, err, pan := c15ParseStream(st, body)
	if pan != nil || err != nil {
		s.viol("roundtrip-unparseable", fmt.Sprintf("the hub's parser does not read back %s: err=%v panic=%v", what, err, pan), "parsed", nil, body)
		return nil, nil, false
	}
	for _, e := range ents {
		if e.ID == "@continuation" {
			s.ctx.Out.Stat("continuation_elements_parsed", 1)
			continue
		}
		rec, p := c15Canon(st, e)
		if p != nil {
			s.viol("roundtrip-unparseable", fmt.Sprintf("entity read back from %s cannot be canonicalised: %v", what, p), nil, nil, body)
			return nil, nil, false
		}
		hubView = append(hubView, rec)
	}
	clientView, _, cerr := c15ClientRead(body)
	if cerr != nil {
		s.viol("serialised-unreadable-with-its-own-context", fmt.Sprintf("%s: a client that expands the identifiers with the collection's own context cannot read it: %v", what, cerr), "readable", cerr.Error(), body)
		return hubView, nil, false
	}
	return hubView, clientView, true
}

func c15SerialiseBack(s *c15Run, st *server.Store, ds *server.Dataset, md *model.Dataset, name string) {
	res, err := ds.GetEntities("", -1)
	if err != nil {
		return // reported by the listing check
	}
	want := md.Latest(-1)
	body := c15Serialise(ds, res.Entities, res.ContinuationToken)
	if hv, cv, ok := c15ReadBack(s, st, body, "the serialised entities of dataset "+name); ok {
		if msg := c15CompareSet(want, hv); msg != "" {
			s.viol("roundtrip-differs", "serialised entities of dataset "+name+" parsed back by the hub: "+msg, feedStr(want), recStr(hv), body)
		}
		if msg := c15CompareSet(want, cv); msg != "" {
			s.viol("roundtrip-differs-read-with-response-context", "serialised entities of dataset "+name+" expanded with their own context: "+msg, feedStr(want), recStr(cv), body)
		}
	}
	ch, err := ds.GetChanges(0, 0, false)
	if err != nil {
		return
	}
	body = c15Serialise(ds, ch.Entities, strconv.FormatUint(ch.NextToken, 10))
	if hv, cv, ok := c15ReadBack(s, st, body, "the serialised changes of dataset "+name); ok {
		if !eqSeq(md.Feed(), hv) {
			s.viol("roundtrip-differs", "serialised changes of dataset "+name+" parsed back by the hub differ from what was stored", feedStr(md.Feed()), recStr(hv), body)
		}
		if !eqSeq(md.Feed(), cv) {
			s.viol("roundtrip-differs-read-with-response-context", "serialised changes of dataset "+name+" expanded with their own context differ from what was posted", feedStr(md.Feed()), recStr(cv), body)
		}
	}
}

// ---------- a foreign client's reading of a serialised collection

func c15ClientExpand(v string, ns map[string]string) (string, error) {
	if strings.HasPrefix(v, "http://") || strings.HasPrefix(v, "https://") {
		return v, nil
	}
	i := strings.Index(v, ":")
	if i < 0 {
		exp, ok := ns["_"]
		if !ok {
			return "", fmt.Errorf("identifier %q has no prefix and the context declares no default prefix", v)
		}
		return exp + v, nil
	}
	exp, ok := ns[v[:i]]
	if !ok {
		return "", fmt.Errorf("identifier %q: prefix %q is not declared in the context", v, v[:i])
	}
	return exp + v[i+1:], nil // the local part is everything after the first colon
}

// c15ClientRead: [context, entity..., continuation?] -> canonical entities, token.
// An absent or null "props" / "refs" reads as "none".
func c15ClientRead(body []byte) (recs []obs.Rec, token string, err error) {
	var elems []map[string]any
	if err := json.Unmarshal(body, &elems); err != nil {
		return nil, "", err
	}
	if len(elems) == 0 || elems[0]["id"] != "@context" {
		return nil, "", fmt.Errorf("first element is not a context")
	}
	ns := map[string]string{}
	if m, ok := elems[0]["namespaces"].(map[string]any); ok {
		for k, v := range m {
			if sv, ok := v.(string); ok {
				ns[k] = sv
			}
		}
	}
	var ent func(m map[string]any) (model.Ent, error)
	var val func(v any) (any, error)
	refs := func(m map[string]any) (map[string]any, error) {
		out := map[string]any{}
		for k, v := range m {
			ek, err := c15ClientExpand(k, ns)
			if err != nil {
				return nil, err
			}
			switch t := v.(type) {
			case string:
				if out[ek], err = c15ClientExpand(t, ns); err != nil {
					return nil, err
				}
			case []any:
				a := make([]any, len(t))
				for i, x := range t {
					sx, ok := x.(string)
					if !ok {
						return nil, fmt.Errorf("reference %q has a member that is not a string", k)
					}
					if a[i], err = c15ClientExpand(sx, ns); err != nil {
						return nil, err
					}
				}
				out[ek] = a
			default:
				return nil, fmt.Errorf("reference %q is neither a string nor an array", k)
			}
		}
		return out, nil
	}
	val = func(v any) (any, error) {
		switch t := v.(type) {
		case map[string]any:
			_, hasProps := t["props"]
			_, hasRefs := t["refs"]
			if _, ok := t["id"].(string); ok && (hasProps || hasRefs) {
				e, err := ent(t)
				if err != nil {
					return nil, err
				}
				r := map[string]any{"id": e.ID, "props": e.Props, "refs": e.Refs}
				if e.Deleted {
					r["deleted"] = true
				}
				return r, nil
			}
			return t, nil
		case []any:
			a := make([]any, len(t))
			for i, x := range t {
				var err error
				if a[i], err = val(x); err != nil {
					return nil, err
				}
			}
			return a, nil
		}
		return v, nil
	}
	ent = func(m map[string]any) (model.Ent, error) {
		e := model.Ent{Props: map[string]any{}, Refs: map[string]any{}}
		id, ok := m["id"].(string)
		if !ok {
			return e, fmt.Errorf("entity without a string id")
		}
		var err error
		if e.ID, err = c15ClientExpand(id, ns); err != nil {
			return e, err
		}
		if p, ok := m["props"].(map[string]any); ok {
			for k, v := range p {
				ek, err := c15ClientExpand(k, ns)
				if err != nil {
					return e, err
				}
				if e.Props[ek], err = val(v); err != nil {
					return e, err
				}
			}
		}
		if p, ok := m["refs"].(map[string]any); ok {
			if e.Refs, err = refs(p); err != nil {
				return e, err
			}
		}
		if d, ok := m["deleted"].(bool); ok {
			e.Deleted = d
		}
		return e, nil
	}
	for _, m := range elems[1:] {
		if m["id"] == "@continuation" {
			token, _ = m["token"].(string)
			continue
		}
		e, err := ent(m)
		if err != nil {
			return nil, "", err
		}
		recs = append(recs, obs.Rec{Ent: model.NormEnt(e)})
	}
	return recs, token, nil
}

func c15CompareSet(want []*model.Version, got []obs.Rec) string {
	if len(want) != len(got) {
		return fmt.Sprintf("%d entities, expected %d", len(got), len(want))
	}
	by := map[string]*obs.Rec{}
	for i := range got {
		by[got[i].ID] = &got[i]
	}
	for _, w := range want {
		g := by[w.ID]
		if g == nil || !sameEnt(&w.Ent, &g.Ent) {
			return "entity " + w.ID + " differs"
		}
	}
	return ""
}

// ---------- HTTP boundary

type c15HTTPRun struct {
	c15Run
	app *c16App
	n   int
}

func c15HTTP(ctx *Ctx) error {
	app, err := c16Boot(ctx, ctx.NewDir("c15app"), false)
	if err != nil {
		return err
	}
	defer func() {
		app.Close()
		os.RemoveAll(app.Dir)
	}()
	h := &c15HTTPRun{app: app}
	h.ctx = ctx
	if ctx.Replay != "" {
		b, err := os.ReadFile(ctx.Replay)
		if err != nil {
			return err
		}
		var w struct {
			Ops C15Case `json:"ops"`
		}
		if err := json.Unmarshal(b, &w); err != nil {
			return err
		}
		h.runCase(w.Ops)
		return nil
	}
	nmut, _ := strconv.Atoi(ctx.Arg("nmut", "8"))
	r := rand.New(rand.NewSource(ctx.Seed))
	for i := 0; i < ctx.Cases; i++ {
		if i == 0 && ctx.Arg("bulk", "1") != "0" {
			h.runCase(c15GenBulkCase(rand.New(rand.NewSource(ctx.Seed^0xb01c)), 2, true))
			continue
		}
		h.runCase(c15GenCase(r, nmut, true))
	}
	return nil
}

func (h *c15HTTPRun) newDataset() (string, bool) {
	h.n++
	name := fmt.Sprintf("h%d", h.n)
	r := h.app.Do("POST", "/datasets/"+name, nil, nil)
	if r.Status != 200 {
		h.ctx.Out.Inconclusive(h.id, "C15", fmt.Sprintf("create dataset %s: status %d %s", name, r.Status, r.Body))
		return name, false
	}
	return name, true
}

// fetch follows continuation tokens of GET entities / changes, feeding every
// response back to the hub's own parser (the round-trip oracle) and reading it a second
// time the way a foreign client does (JSON + the response's own context). bodies: the
// raw responses, in order.
func (h *c15HTTPRun) fetch(dsName, what string, limit int) (recs, crecs []obs.Rec, bodies [][]byte, ok bool) {
	tok := ""
	param := "from"
	if what == "changes" {
		param = "since"
	}
	for page := 0; page < 1000; page++ {
		u := "/datasets/" + dsName + "/" + what
		q := []string{}
		if limit > 0 {
			q = append(q, "limit="+strconv.Itoa(limit))
		}
		if tok != "" {
			q = append(q, param+"="+url.QueryEscape(tok))
		}
		if len(q) > 0 {
			u += "?" + strings.Join(q, "&")
		}
		r := h.app.Do("GET", u, nil, nil)
		h.ctx.Out.Stat("http_gets", 1)
		if r.Panicked != nil || r.Status != 200 {
			h.viol("get-failed", fmt.Sprintf("GET %s -> %d %v %s", u, r.Status, r.Panicked, c15Short(r.Body)), 200, r.Status, nil)
			return recs, crecs, bodies, false
		}
		if !json.Valid(r.Body) {
			h.viol("serialised-not-json", "GET "+u+" returned a body that is not valid JSON", "JSON", c15Short(r.Body), r.Body)
			return recs, crecs, bodies, false
		}
		bodies = append(bodies, r.Body)
		ents, err, pan := c15ParseStream(h.app.Store, r.Body)
		h.ctx.Out.Stat("roundtrip_parses", 1)
		if pan != nil || err != nil {
			h.viol("roundtrip-unparseable", fmt.Sprintf("the hub's parser does not read back GET %s: err=%v panic=%v", u, err, pan), "parsed", nil, r.Body)
			return recs, crecs, bodies, false
		}
		next := ""
		n := 0
		for _, e := range ents {
			if e.ID == "@continuation" {
				if t, ok := e.Properties["token"].(string); ok {
					next = t
				}
				h.ctx.Out.Stat("continuation_elements_parsed", 1)
				continue
			}
			rec, p := c15Canon(h.app.Store, e)
			if p != nil {
				h.viol("roundtrip-unparseable", fmt.Sprintf("entity read back from GET %s cannot be canonicalised: %v", u, p), nil, nil, r.Body)
				return recs, crecs, bodies, false
			}
			recs = append(recs, rec)
			n++
		}
		cv, ctok, cerr := c15ClientRead(r.Body)
		if cerr != nil {
			h.viol("serialised-unreadable-with-its-own-context", fmt.Sprintf("GET %s: a client that expands the identifiers with the response's own context cannot read it: %v", u, cerr), "readable", cerr.Error(), r.Body)
			return recs, crecs, bodies, false
		}
		if ctok != next {
			h.viol("roundtrip-differs", fmt.Sprintf("GET %s: continuation token read by a client (%q) differs from the one the hub's parser reads back (%q)", u, ctok, next), ctok, next, r.Body)
		}
		crecs = append(crecs, cv...)
		if limit <= 0 || n == 0 || next == "" || next == tok {
			return recs, crecs, bodies, true
		}
		tok = next
	}
	return recs, crecs, bodies, false
}

func (h *c15HTTPRun) checkDataset(dsName string, md *model.Dataset) {
	ds := h.app.Dsm.GetDataset(dsName)
	if ds == nil {
		h.viol("stored-differs", "dataset "+dsName+" vanished", nil, nil, nil)
		return
	}
	direct, err := obs.Listing(h.app.Store, ds, 0)
	if err != nil {
		h.viol("valid-read-error", err.Error(), nil, nil, nil)
		return
	}
	want := md.Latest(-1)
	if msg := c15CompareSet(want, direct); msg != "" {
		h.viol("stored-differs", "dataset "+dsName+" (Go API listing): "+msg, feedStr(want), recStr(direct), nil)
	}
	var entBody, chBody []byte
	for _, lim := range []int{0, 1, 3, 10} {
		got, cgot, bodies, ok := h.fetch(dsName, "entities", lim)
		if !ok {
			return
		}
		if lim == 0 && len(bodies) == 1 {
			entBody = bodies[0]
		}
		if msg := c15CompareSet(want, got); msg != "" {
			h.viol("roundtrip-differs", fmt.Sprintf("GET entities (limit %d) parsed back: %s", lim, msg), feedStr(want), recStr(got), nil)
		}
		if msg := c15CompareSet(want, cgot); msg != "" {
			h.viol("roundtrip-differs-read-with-response-context", fmt.Sprintf("GET entities (limit %d) expanded with the response's own context: %s", lim, msg), feedStr(want), recStr(cgot), nil)
		}
		feed, cfeed, bodies, ok := h.fetch(dsName, "changes", lim)
		if !ok {
			return
		}
		if lim == 0 && len(bodies) == 1 {
			chBody = bodies[0]
		}
		if !eqSeq(md.Feed(), feed) {
			h.viol("roundtrip-differs", fmt.Sprintf("GET changes (limit %d) parsed back differs from the stored history", lim), feedStr(md.Feed()), recStr(feed), nil)
		}
		if !eqSeq(md.Feed(), cfeed) {
			h.viol("roundtrip-differs-read-with-response-context", fmt.Sprintf("GET changes (limit %d) expanded with the response's own context differs from what was posted", lim), feedStr(md.Feed()), recStr(cfeed), nil)
		}
		h.ctx.Out.Stat("entities_compared", int64(len(got)+len(feed)))
	}
	// what the hub serialises is itself a valid payload: feed it to another dataset of the
	// same hub (as a pipeline with an HTTP source does: the continuation element is for the
	// reader and is taken off) and read that one
	h.copyVia(dsName, "entities", entBody, md, false)
	h.copyVia(dsName, "changes", chBody, md, true)
}

// c15StripContinuation removes the @continuation elements, leaving every other byte of
// the elements as the hub wrote them.
func c15StripContinuation(body []byte) ([]byte, bool) {
	var elems []json.RawMessage
	if err := json.Unmarshal(body, &elems); err != nil {
		return nil, false
	}
	var b bytes.Buffer
	b.WriteByte('[')
	n := 0
	for _, e := range elems {
		var probe struct {
			ID string `json:"id"`
		}
		_ = json.Unmarshal(e, &probe)
		if probe.ID == "@continuation" {
			continue
		}
		if n > 0 {
			b.WriteByte(',')
		}
		b.Write(e)
		n++
	}
	b.WriteByte(']')
	return b.Bytes(), true
}

func (h *c15HTTPRun) copyVia(src, what string, body []byte, md *model.Dataset, wholeFeed bool) {
	if body == nil {
		return
	}
	payload, ok := c15StripContinuation(body)
	if !ok {
		return
	}
	dst, ok := h.newDataset()
	if !ok {
		return
	}
	defer func() { _ = h.app.Do("DELETE", "/datasets/"+dst, nil, nil) }()
	r := h.app.Do("POST", "/datasets/"+dst+"/entities", payload, nil)
	h.ctx.Out.Stat("http_posts", 1)
	h.ctx.Out.Stat("serialised_collections_posted_back", 1)
	if r.Panicked != nil || r.Status != 200 {
		h.viol("roundtrip-own-output-rejected", fmt.Sprintf("the hub refuses the collection it serialised itself (GET %s of a dataset, posted to another dataset) -> %d %v %s", what, r.Status, r.Panicked, c15Short(r.Body)), 200, r.Status, payload)
		return
	}
	ds := h.app.Dsm.GetDataset(dst)
	if ds == nil {
		return
	}
	got, err := obs.Listing(h.app.Store, ds, 0)
	if err != nil {
		h.viol("valid-read-error", err.Error(), nil, nil, nil)
		return
	}
	want := md.Latest(-1)
	if msg := c15CompareSet(want, got); msg != "" {
		h.viol("roundtrip-copy-differs", fmt.Sprintf("GET %s posted back into another dataset gives other entities: %s", what, msg), feedStr(want), recStr(got), payload)
	}
	if wholeFeed {
		feed, _, err := obs.Feed(h.app.Store, ds, 0, nil, false)
		if err == nil && !eqSeq(md.Feed(), feed) {
			h.viol("roundtrip-copy-differs", "GET changes posted back into another dataset gives another history", feedStr(md.Feed()), recStr(feed), payload)
		}
	}
}

func (h *c15HTTPRun) runCase(c C15Case) {
	id := outHash(c)
	tags, nt := c.tags()
	h.ctx.Out.Case(id, h.ctx.Seed, c, nt, append(tags, "http"))
	h.id, h.seen, h.op = id, map[string]bool{}, 0
	base := c15Build(c.Doc)
	valid := base.bytes()
	h.ctx.Out.Stat("http_posts", 1)
	h.ctx.Out.Stat("valid_documents", 1)

	if c.Doc.Kind == "txn" {
		// transaction datasets are fresh per case
		names := map[string]string{}
		m := model.New()
		tx := map[string][]model.Ent{}
		d2 := c.Doc
		d2.Txn = map[string][]model.Ent{}
		for n, ents := range c.Doc.Txn {
			real, ok := h.newDataset()
			if !ok {
				return
			}
			names[n] = real
			d2.Txn[real] = ents
			tx[real] = ents
			m.Create(real)
		}
		base = c15Build(d2)
		valid = base.bytes()
		h.ctx.Out.Begin(id, 0, "POST /transactions valid")
		r := h.app.Do("POST", "/transactions", valid, nil)
		h.ctx.Out.Ack(id, 0, nil)
		if r.Panicked != nil || r.Status != 200 {
			h.viol("valid-rejected"+c.sizeClass(), fmt.Sprintf("POST /transactions of a valid document -> %d %v %s", r.Status, r.Panicked, c15Short(r.Body)), 200, r.Status, valid)
			return
		}
		m.ApplyTxn(tx)
		for _, real := range names {
			h.checkDataset(real, m.Live(real))
		}
		before := map[string]string{}
		for _, real := range names {
			before[real] = h.snapshot(real)
		}
		mr := rand.New(rand.NewSource(c.MSeed))
		for i := 0; i < c.NMut; i++ {
			mu := c15Mutate(mr, base, "txn")
			h.op = i + 1
			h.ctx.Out.Begin(id, h.op, map[string]any{"kind": mu.Kind, "detail": mu.Detail, "len": len(mu.Bytes)})
			r := h.app.Do("POST", "/transactions", mu.Bytes, nil)
			h.ctx.Out.Ack(id, h.op, nil)
			h.ctx.Out.Stat("http_posts", 1)
			h.ctx.Out.Stat("mut:"+mu.Kind, 1)
			if !h.judgeStatus(mu, r, "POST /transactions") {
				continue
			}
			if mu.Verdict == c15Invalid {
				for _, real := range names {
					if now := h.snapshot(real); now != before[real] {
						h.viol("http-malformed-stored-"+mu.Kind, fmt.Sprintf("rejected transaction (%s) changed dataset %s", mu.Detail, real), before[real], now, mu.Bytes)
						before[real] = now
					}
				}
			} else {
				for _, real := range names {
					before[real] = h.snapshot(real)
				}
			}
		}
		return
	}

	dsName, ok := h.newDataset()
	if !ok {
		return
	}
	h.ctx.Out.Begin(id, 0, "POST entities valid")
	r := h.app.Do("POST", "/datasets/"+dsName+"/entities", valid, nil)
	h.ctx.Out.Ack(id, 0, nil)
	if r.Panicked != nil || r.Status != 200 {
		kept := ""
		if ds := h.app.Dsm.GetDataset(dsName); ds != nil {
			if feed, _, err := obs.Feed(h.app.Store, ds, 0, nil, false); err == nil {
				kept = fmt.Sprintf("; %d of its %d entities stay stored", len(feed), len(c.Doc.Ents))
			}
		}
		h.viol("valid-rejected"+c.sizeClass(), fmt.Sprintf("POST of a valid document -> %d %v %s%s", r.Status, r.Panicked, c15Short(r.Body), kept), 200, r.Status, valid)
		return
	}
	m := model.New()
	m.Create(dsName)
	m.Apply(dsName, c.Doc.Ents)
	h.checkDataset(dsName, m.Live(dsName))

	mr := rand.New(rand.NewSource(c.MSeed))
	for i := 0; i < c.NMut; i++ {
		mu := c15Mutate(mr, base, "stream")
		h.op = i + 1
		md, ok := h.newDataset()
		if !ok {
			return
		}
		h.ctx.Out.Begin(id, h.op, map[string]any{"kind": mu.Kind, "detail": mu.Detail, "len": len(mu.Bytes)})
		r := h.app.Do("POST", "/datasets/"+md+"/entities", mu.Bytes, nil)
		h.ctx.Out.Ack(id, h.op, nil)
		h.ctx.Out.Stat("http_posts", 1)
		h.ctx.Out.Stat("mut:"+mu.Kind, 1)
		if !h.judgeStatus(mu, r, "POST entities") {
			_ = h.app.Do("DELETE", "/datasets/"+md, nil, nil)
			continue
		}
		if mu.Verdict == c15Invalid && mu.Elem >= 0 {
			// the dataset may contain only entities of well-formed elements preceding the bad one
			ds := h.app.Dsm.GetDataset(md)
			if ds != nil {
				feed, _, err := obs.Feed(h.app.Store, ds, 0, nil, false)
				if err == nil {
					if len(feed) > 0 {
						h.ctx.Out.Stat("rejected_posts_with_stored_prefix", 1)
					}
					slack := mu.Slack
					for _, g := range feed {
						found := false
						for j := 0; j < mu.Elem && j < len(c.Doc.Ents); j++ {
							w := model.NormEnt(c.Doc.Ents[j])
							if sameEnt(&w, &g.Ent) {
								found = true
								break
							}
						}
						if !found && slack > 0 {
							slack--
							continue
						}
						if !found {
							h.viol("http-malformed-stored-"+mu.Kind, fmt.Sprintf("after the rejected POST (%s: %s, status %d) the dataset holds an entity that is none of the %d well-formed elements preceding the malformed one", mu.Kind, mu.Detail, r.Status, mu.Elem),
								"only preceding well-formed entities", model.CanonString(&g.Ent), mu.Bytes)
							break
						}
					}
				}
			}
		}
		_ = h.app.Do("DELETE", "/datasets/"+md, nil, nil)
	}
}

func (h *c15HTTPRun) snapshot(dsName string) string {
	ds := h.app.Dsm.GetDataset(dsName)
	if ds == nil {
		return "<no dataset>"
	}
	feed, _, err := obs.Feed(h.app.Store, ds, 0, nil, false)
	if err != nil {
		return "error: " + err.Error()
	}
	return strings.Join(recStr(feed), "\n")
}

// judgeStatus: no panic may escape, no 5xx; a definitely malformed body must be refused.
// Returns false when the state check should be skipped.
func (h *c15HTTPRun) judgeStatus(mu C15Mut, r c16Resp, what string) bool {
	desc := fmt.Sprintf("%s (%s)", mu.Kind, mu.Detail)
	if r.Panicked != nil {
		h.viol("http-panic-escaped-"+mu.Kind, fmt.Sprintf("%s with %s: panic escaped the router: %v", what, desc, r.Panicked), "4xx", "panic", mu.Bytes)
		return false
	}
	h.ctx.Out.Stat(fmt.Sprintf("status:%dxx", r.Status/100), 1)
	if r.Status >= 500 {
		// The recover middleware answers a panic with the generic 500 body; a handler that
		// refuses the input itself sends an HTTPError with its own message ("produces an error").
		if strings.Contains(string(r.Body), `"Internal Server Error"`) {
			h.ctx.Out.Stat("http_500_from_recover_middleware", 1)
			h.viol("http-5xx-"+mu.Kind, fmt.Sprintf("%s with %s -> %d %s (generic body of the recover middleware: the handler panicked)", what, desc, r.Status, strings.TrimSpace(c15Short(r.Body))), "4xx", r.Status, mu.Bytes)
			return true
		}
		h.ctx.Out.Stat("http_5xx_handled_error", 1)
		if mu.Verdict == c15Invalid {
			return true
		}
		return false
	}
	if mu.Verdict == c15Invalid && r.Status < 400 {
		h.viol("http-malformed-accepted-"+mu.Kind, fmt.Sprintf("%s with %s -> %d", what, desc, r.Status), "4xx", r.Status, mu.Bytes)
	}
	return true
}

// ---------- very deep nesting (may be fatal: run in a sub-process of our own)

func c15Deep(ctx *Ctx) error {
	depths := []int{10000, 100000, 1000000}
	if ctx.Tier == "thorough" {
		depths = append(depths, 5000000)
	}
	for _, shape := range []string{"array", "entity"} {
		for _, d := range depths {
			cs := map[string]any{"kind": "deep", "shape": shape, "depth": d}
			id := outHash(cs)
			ctx.Out.Case(id, ctx.Seed, cs, true, []string{"deep-nesting"})
			ctx.Out.Begin(id, 0, cs)
			sub := ctx.NewDir("c15deep")
			outf := sub + "/out.jsonl"
			cmd := exec.Command(os.Args[0], "-scenario", "c15deepchild", "-seed", "1", "-cases", "1", "-tier", ctx.Tier, "-scratch", sub, "-out", outf,
				"-args", fmt.Sprintf("shape=%s,depth=%d", shape, d))
			var errb bytes.Buffer
			cmd.Stdout = &errb
			cmd.Stderr = &errb
			err := cmd.Run()
			ctx.Out.Ack(id, 0, err)
			ctx.Out.Stat("deep_inputs", 1)
			ob, _ := os.ReadFile(outf)
			os.RemoveAll(sub)
			if bytes.Contains(ob, []byte(`"t":"done"`)) {
				if bytes.Contains(ob, []byte(`"deep":"panic"`)) {
					ctx.Out.Viol(id, "C15", "parser-panic-deep-"+shape, fmt.Sprintf("parser panicked on a property value nested %d deep", d), "error or parsed", "panic", nil)
				}
				continue
			}
			tail := errb.String()
			if i := strings.Index(tail, "fatal error"); i >= 0 {
				tail = tail[i:]
			}
			if len(tail) > 600 {
				tail = tail[:600]
			}
			ctx.Out.Viol(id, "C15", "parser-fatal-deep-"+shape, fmt.Sprintf("the process died while parsing a property value nested %d deep (%v)", d, err), "error or parsed", tail, map[string]any{"depth": d})
			break // deeper ones die as well
		}
	}
	return nil
}

func c15DeepChild(ctx *Ctx) error {
	d, _ := strconv.Atoi(ctx.Arg("depth", "1000"))
	var in []byte
	in = append(in, []byte(`[{"id":"@context","namespaces":{"a":"http://ex.org/a/"}},{"id":"a:e","refs":{},"props":{"a:p":`)...)
	if ctx.Arg("shape", "array") == "array" {
		in = append(in, bytes.Repeat([]byte("["), d)...)
		in = append(in, bytes.Repeat([]byte("]"), d)...)
	} else {
		in = append(in, bytes.Repeat([]byte(`{"id":"a:n","props":{"a:p":`), d)...)
		in = append(in, '1')
		in = append(in, bytes.Repeat([]byte(`}}`), d)...)
	}
	in = append(in, []byte(`}}]`)...)
	dir := ctx.NewDir("c15deepc")
	defer os.RemoveAll(dir)
	core := hub.OpenCore(dir)
	defer core.Close()
	_, err, pan := c15ParseStream(core.Store, in)
	res := "ok"
	if pan != nil {
		res = "panic"
	} else if err != nil {
		res = "error"
	}
	ctx.Out.Emit(map[string]any{"t": "ev", "deep": res})
	return nil
}
