package scen

// c08jobs: hub-against-hub conservation monitor for C08 ("incremental jobs
// converge and tokens never run ahead of delivered data").
//
// One *schedule* = a job configuration (DatasetSource / UnionDatasetSource,
// ±LatestOnly, DatasetSink or HttpDatasetSink -> loopback server, incremental /
// fullsync / both triggers, batch size) plus a history of source writes
// interleaved with runs. Every schedule is first executed fault-free (probe:
// decides the fault-free clauses and measures how many batches every run
// delivers); then it is executed again once per selected fault (sink 400 at
// a request index, KillJob from a pipeline hook, SIGKILL of a sub-child at a
// pipeline hook). One case = (schedule, fault).
//
// Verdicts are functions of recorded states only: job outcome (job history),
// persisted continuation token, sink / source listings and feeds.

import (
	"bytes"
	"encoding/json"
	"fmt"
	"io"
	"math/rand"
	"net/http"
	"net/http/httptest"
	"os"
	"os/exec"
	"path/filepath"
	"runtime"
	"runtime/pprof"
	"sort"
	"strconv"
	"strings"
	"sync"
	"syscall"
	"time"

	"github.com/DataDog/datadog-go/v5/statsd"

	"github.com/mimiro-io/datahub/internal/jobs"
	"github.com/mimiro-io/datahub/internal/security"
	"github.com/mimiro-io/datahub/internal/server"
	"github.com/mimiro-io/datahub/internal/verif/gen"
	"github.com/mimiro-io/datahub/internal/verif/hub"
	"github.com/mimiro-io/datahub/internal/verif/model"
	"github.com/mimiro-io/datahub/internal/verif/obs"
	"github.com/mimiro-io/datahub/internal/verif/vh"
)

func init() { Register("c08jobs", c08Jobs) }

const (
	c08JobID   = "c08job"
	c08SinkDS  = "sink"
	c08NoCron  = "0 0 1 1 *" // never fires inside a check
	c08PIncrS  = "pipeline.incr.afterSink"
	c08PIncrT  = "pipeline.incr.afterToken"
	c08PFullS  = "pipeline.full.afterSink"
	c08PFullE  = "pipeline.full.afterEndFullSync"
	c08MaxWait = 15 * time.Second
	// a run of these workloads takes milliseconds; a run that is still going after this is not going to end
	c08RunWatchdog = 90 * time.Second
)

// ---------- input

type C08Member struct {
	Name       string `json:"name"`
	LatestOnly bool   `json:"latestOnly,omitempty"`
}

type C08Step struct {
	Kind     string      `json:"kind"` // write | run
	DS       string      `json:"ds,omitempty"`
	Ents     []model.Ent `json:"ents,omitempty"`
	Prefixed bool        `json:"prefixed,omitempty"`
	Type     string      `json:"type,omitempty"` // incr | full
	// oversized-page case: a write of Big generated entities (ids big-<BigFrom>..), each with a BigSize-byte
	// property (generated when the step is executed, so that the recorded case stays small), and a run that is
	// allowed to fail by itself (resource limit of the store): then only the token is judged
	Big     int  `json:"big,omitempty"`
	BigFrom int  `json:"bigFrom,omitempty"`
	BigSize int  `json:"bigSize,omitempty"`
	MayFail bool `json:"mayFail,omitempty"`
}

func c08BigEnts(st C08Step) []model.Ent {
	ents := make([]model.Ent, 0, st.Big)
	for i := 0; i < st.Big; i++ {
		n := st.BigFrom + i
		// different per entity
		pad := strings.Repeat(fmt.Sprintf("%07d-", n), st.BigSize/8+1)[:st.BigSize]
		ents = append(ents, model.Ent{ID: fmt.Sprintf("%sbig-%d", gen.NsA, n), Props: map[string]any{gen.NsP + "k0": pad, gen.NsP + "k1": float64(n)}, Refs: map[string]any{}})
	}
	return ents
}

type C08Sched struct {
	Members  []C08Member `json:"members"`
	Sink     string      `json:"sink"`     // dataset | http
	Triggers []string    `json:"triggers"` // incr, full
	Batch    int         `json:"batch"`
	Reuse    bool        `json:"reuse"` // same job objects for all runs (cron) vs fresh objects per run (RunJob)
	NIDs     int         `json:"nids"`
	Steps    []C08Step   `json:"steps"`
}

type C08Fault struct {
	Kind    string `json:"kind"`            // none | sink400 | kill | crash
	Step    int    `json:"step"`            // index of the faulty run in Steps
	Point   string `json:"point,omitempty"` // hook point (kill / crash)
	Hit     int    `json:"hit,omitempty"`   // k-th hit of the point / k-th sink request of the run
	Recover string `json:"recover,omitempty"`
	// measured by the fault-free probe of the same schedule
	Batches  int `json:"batches,omitempty"`  // sink batches the run delivers when nothing fails
	Requests int `json:"requests,omitempty"` // sink requests incl. the fullsync end request (http)
}

type C08Case struct {
	Sched C08Sched `json:"sched"`
	Fault C08Fault `json:"fault"`
}

// ---------- environment: store + scheduler + runner + loopback sink

type c08Env struct {
	core   *hub.Core
	runner *jobs.Runner
	sched  *jobs.Scheduler
	loop   *c08Loop
	srv    *httptest.Server
}

// c08Loop stands for the remote end of an HttpDatasetSink. In store mode it
// does what web/datasethandler.go does with the body (full-sync headers,
// real parser, StoreEntities); in record mode (C18) it only records.
type c08Loop struct {
	core   *hub.Core
	record bool

	mu        sync.Mutex
	reqs      int // requests seen in the current run
	failAt    int // answer 400 to this request (1-based, 0 = never)
	served400 int
	conflicts int
	accepted  int
	bodies    [][]obs.Rec // record mode: entities of accepted requests of the current run
	parseErr  string
	// overlap cases: request blockAt waits (before anything is stored) until release is closed
	blockAt  int
	reached  chan struct{}
	release  chan struct{}
	inflight int
	maxInfl  int
}

func (l *c08Loop) reset(failAt int) {
	l.mu.Lock()
	l.reqs, l.failAt, l.served400, l.conflicts, l.accepted, l.bodies, l.parseErr = 0, failAt, 0, 0, 0, nil, ""
	l.blockAt, l.reached, l.release, l.maxInfl = 0, nil, nil, 0
	l.mu.Unlock()
}

func (l *c08Loop) ServeHTTP(w http.ResponseWriter, r *http.Request) {
	body, _ := io.ReadAll(r.Body)
	l.mu.Lock()
	l.reqs++
	fail := l.failAt == l.reqs
	if fail {
		l.served400++
	}
	l.inflight++
	if l.inflight > l.maxInfl {
		l.maxInfl = l.inflight
	}
	block := l.blockAt != 0 && l.blockAt == l.reqs
	reached, release := l.reached, l.release
	l.mu.Unlock()
	defer func() {
		l.mu.Lock()
		l.inflight--
		l.mu.Unlock()
	}()
	if block {
		close(reached)
		<-release
	}
	if fail {
		http.Error(w, "injected sink failure", http.StatusBadRequest)
		return
	}
	parts := strings.Split(strings.Trim(r.URL.Path, "/"), "/")
	if len(parts) != 3 || parts[0] != "datasets" || parts[2] != "entities" || r.Method != http.MethodPost {
		http.Error(w, "no route", http.StatusNotFound)
		return
	}
	esp := server.NewEntityStreamParser(l.core.Store)
	if l.record {
		var recs []obs.Rec
		err := esp.ParseStream(bytes.NewReader(body), func(e *server.Entity) error {
			recs = append(recs, obs.Canon(l.core.Store, e))
			return nil
		})
		l.mu.Lock()
		if err != nil {
			l.parseErr = err.Error()
		} else {
			l.accepted++
			l.bodies = append(l.bodies, recs)
		}
		l.mu.Unlock()
		if err != nil {
			http.Error(w, err.Error(), http.StatusBadRequest)
			return
		}
		w.WriteHeader(http.StatusOK)
		return
	}
	ds := l.core.Dsm.GetDataset(parts[1])
	if ds == nil {
		http.Error(w, "dataset does not exist", http.StatusInternalServerError)
		return
	}
	fsID := r.Header.Get("universal-data-api-full-sync-id")
	fsStart := r.Header.Get("universal-data-api-full-sync-start") == "true"
	fsEnd := r.Header.Get("universal-data-api-full-sync-end") == "true"
	conflict := func(err error) {
		l.mu.Lock()
		l.conflicts++
		l.mu.Unlock()
		http.Error(w, err.Error(), http.StatusConflict)
	}
	if fsStart {
		if err := ds.StartFullSyncWithLease(fsID); err != nil {
			conflict(err)
			return
		}
	} else if ds.FullSyncStarted() {
		if err := ds.RefreshFullSyncLease(fsID); err != nil {
			conflict(err)
			return
		}
	}
	var batch []*server.Entity
	err := esp.ParseStream(bytes.NewReader(body), func(e *server.Entity) error {
		batch = append(batch, e)
		if len(batch) == 10 {
			if err := ds.StoreEntities(batch); err != nil {
				return err
			}
			batch = nil
		}
		return nil
	})
	if err == nil && len(batch) > 0 {
		err = ds.StoreEntities(batch)
	}
	if err != nil {
		l.mu.Lock()
		l.parseErr = err.Error()
		l.mu.Unlock()
		http.Error(w, err.Error(), http.StatusBadRequest)
		return
	}
	if fsEnd {
		if err := ds.ReleaseFullSyncLease(fsID); err != nil {
			// the lease timed out between two requests of this run (wall-clock dependent)
			l.mu.Lock()
			l.conflicts++
			l.mu.Unlock()
			http.Error(w, err.Error(), http.StatusGone)
			return
		}
		if err := ds.CompleteFullSync(r.Context()); err != nil {
			http.Error(w, err.Error(), http.StatusInternalServerError)
			return
		}
	}
	l.mu.Lock()
	l.accepted++
	l.mu.Unlock()
	w.WriteHeader(http.StatusOK)
}

func c08Open(dir string, record bool) *c08Env {
	env := hub.Env(dir)
	env.FullsyncLeaseTimeout = 1500 * time.Millisecond
	env.RunnerConfig.Concurrent = 0
	core := hub.OpenCoreEnv(env)
	pm := security.NewProviderManager(env, core.Store, env.Logger)
	tps := security.NewTokenProviders(env.Logger, pm, nil)
	// jobrunner prints a banner on stdout
	runner := jobs.NewRunner(env, core.Store, tps, core.Bus, &statsd.NoOpClient{})
	sched := jobs.NewScheduler(env, core.Store, core.Dsm, runner)
	e := &c08Env{core: core, runner: runner, sched: sched}
	e.loop = &c08Loop{core: core, record: record}
	e.srv = httptest.NewServer(e.loop)
	return e
}

func (e *c08Env) Close() {
	e.srv.Close()
	e.runner.Stop()
	_ = e.core.Close()
}

func c08JobConfig(s C08Sched, baseURL string) map[string]any {
	var src map[string]any
	if len(s.Members) == 1 {
		src = map[string]any{"Type": "DatasetSource", "Name": s.Members[0].Name, "LatestOnly": s.Members[0].LatestOnly}
	} else {
		var dss []any
		for _, m := range s.Members {
			dss = append(dss, map[string]any{"Name": m.Name, "LatestOnly": m.LatestOnly})
		}
		src = map[string]any{"Type": "UnionDatasetSource", "DatasetSources": dss}
	}
	sink := map[string]any{"Type": "DatasetSink", "Name": c08SinkDS}
	if s.Sink == "http" {
		sink = map[string]any{"Type": "HttpDatasetSink", "Url": baseURL + "/datasets/" + c08SinkDS + "/entities"}
	}
	var trg []any
	for _, t := range s.Triggers {
		jt := "incremental"
		if t == "full" {
			jt = "fullsync"
		}
		trg = append(trg, map[string]any{"triggerType": "cron", "jobType": jt, "schedule": c08NoCron})
	}
	return map[string]any{"id": c08JobID, "title": c08JobID, "source": src, "sink": sink, "triggers": trg, "batchSize": s.Batch}
}

// c08AddJob parses cfg the way the HTTP API does and registers it.
func (e *c08Env) addJob(cfg map[string]any) (*jobs.JobConfiguration, error) {
	raw, _ := json.Marshal(cfg)
	jc, err := e.sched.Parse(raw)
	if err != nil {
		return nil, err
	}
	if err := e.sched.AddJob(jc); err != nil {
		return nil, err
	}
	return jc, nil
}

// ---------- running one (schedule, fault)

type c08Run struct {
	ctx   *Ctx
	id    string
	c     C08Case
	env   *c08Env
	dir   string
	jc    *jobs.JobConfiguration
	byTyp map[string]*jobs.VerifC08Job // reuse mode
	abort bool
	seen  map[string]bool
	op    int

	writer bool // sub-child: execute up to the faulty run with the crash armed, nothing else
	probe  *c08Probe

	// idle bookkeeping per run type: a run is "a re-run with nothing new" iff a
	// run of the same type has succeeded and no source write happened since
	// (full syncs over HTTP do not persist the token, so an incremental run
	// after one legitimately moves its own token)
	dirty       map[string]bool
	okRun       map[string]bool
	faultFired  bool
	classSuffix string
	forceNT     bool
	bigBytes    int64
	stuck       bool // a job goroutine never returned: the store cannot be closed, the child must stop
	recovered   bool // a run has succeeded since the fault
}

// c08Probe is what the fault-free execution measures per run step.
type c08Probe struct {
	Runs map[int]*c08RunMeasure
}

type c08RunMeasure struct {
	Type     string
	Hits     map[string]int64
	Requests int
	Idle     bool
}

// c08RunWatched runs the job on its own goroutine and waits for the event
// "Run returned". A watchdog (never a verdict) kills the job if it does not
// end; hung = "" | "killed" (ended after KillJob) | "stuck".
// c08LastDump: goroutine profile taken when the in-run watchdog fired (evidence for an inconclusive, never a verdict)
var c08LastDump string

func c08RunWatched(j *jobs.VerifC08Job, kill func()) (panicked string, hung string) {
	done := make(chan struct{})
	go func() {
		defer close(done)
		defer func() {
			if p := recover(); p != nil {
				panicked = fmt.Sprint(p)
			}
		}()
		j.Run()
	}()
	select {
	case <-done:
		return panicked, ""
	case <-time.After(c08RunWatchdog):
	}
	var gb bytes.Buffer
	_ = pprof.Lookup("goroutine").WriteTo(&gb, 1)
	c08LastDump = gb.String()
	if len(c08LastDump) > 12000 {
		c08LastDump = c08LastDump[:12000]
	}
	kill()
	select {
	case <-done:
		return panicked, "killed"
	case <-time.After(20 * time.Second):
		return "", "stuck"
	}
}

type c08Outcome struct {
	Hung     string
	Found    bool
	Err      string
	Panic    string
	Hits     map[string]int64
	Requests int
	Served   int
	Conflict int
}

func (s *c08Run) viol(class, msg string, exp, got any) {
	class += s.classSuffix
	s.abort = true
	if s.seen[class] {
		return
	}
	s.seen[class] = true
	s.ctx.Out.Viol(s.id, "C08", class, msg, exp, got, map[string]any{"op": s.op, "config": s.cfgString()})
}

func (s *c08Run) cfgString() string {
	c := s.c.Sched
	src := "ds"
	if len(c.Members) > 1 {
		src = fmt.Sprintf("union%d", len(c.Members))
	}
	lo := ""
	for _, m := range c.Members {
		if m.LatestOnly {
			lo = "+latestOnly"
		}
	}
	return fmt.Sprintf("%s%s->%s triggers=%v batch=%d reuse=%v", src, lo, c.Sink, c.Triggers, c.Batch, c.Reuse)
}

func (s *c08Run) jobFor(typ string) (*jobs.VerifC08Job, error) {
	if s.c.Sched.Reuse && s.byTyp != nil {
		if j, ok := s.byTyp[typ]; ok {
			return j, nil
		}
	}
	js, err := s.env.sched.VerifC08Jobs(s.jc)
	if err != nil {
		return nil, err
	}
	m := map[string]*jobs.VerifC08Job{}
	for _, j := range js {
		if j.IsFullSync() {
			m["full"] = j
		} else {
			m["incr"] = j
		}
	}
	if s.c.Sched.Reuse {
		s.byTyp = m
	}
	j, ok := m[typ]
	if !ok {
		return nil, fmt.Errorf("no %s trigger", typ)
	}
	return j, nil
}

// runJob runs the job once, synchronously, and returns the recorded outcome.
func (s *c08Run) runJob(typ string, arm func()) c08Outcome {
	o := c08Outcome{}
	j, err := s.jobFor(typ)
	if err != nil {
		o.Err = "harness: " + err.Error()
		return o
	}
	vh.Clear("")
	vh.ResetHits()
	s.env.loop.reset(0)
	if arm != nil {
		arm()
	}
	o.Panic, o.Hung = c08RunWatched(j, func() { s.env.sched.KillJob(c08JobID) })
	if o.Hung != "" {
		s.ctx.Out.Emit(map[string]any{"t": "inconclusive", "case": s.id, "prop": "C08", "why": "watchdog: job run did not end (" + o.Hung + ")", "goroutines": c08LastDump})
		s.abort = true
		if o.Hung == "stuck" {
			s.stuck = true
		}
	}
	vh.Clear("")
	o.Hits = vh.Hits()
	l := s.env.loop
	l.mu.Lock()
	o.Requests, o.Served, o.Conflict = l.reqs, l.served400, l.conflicts
	l.mu.Unlock()
	o.Found, o.Err, _ = s.env.sched.VerifC08LastRun(c08JobID)
	s.ctx.Out.Stat("runs", 1)
	s.ctx.Out.Stat("runs_"+typ, 1)
	for k, v := range o.Hits {
		s.ctx.Out.Stat("hookhits:"+k, v)
	}
	return o
}

// runOverlap: run A of the job is held while the sink write of batch Fault.Hit
// is in flight (HTTP sink: the remote end holds that request before storing
// anything; dataset sink: A waits in front of the sink dataset's write lock,
// LockWait hook of StoreEntities - a slow / contended write) and killed there;
// the job is started again at once through Scheduler.RunJob (run B; refused or
// accepted, both are outcomes); the monitor waits for the end of B, lets A go
// and waits for the end of A, so that no run of the id is left. Waiting is on
// events (channels, the recorded job result); nothing is decided by time.
// Judged here:
//   - B must not have written to the sink while A was still in progress
//     (at most one run of a job id writes to the sink at any time);
//   - the persisted token must not go backwards when A finally finishes.
//
// The caller then applies the usual protocol (token-vs-sink, recovery run,
// equality, idle run).
func (s *c08Run) runOverlap(typ string) (o c08Outcome, fired bool, ok bool) {
	f := s.c.Fault
	jobA, err := s.jobFor(typ)
	if err != nil {
		o.Err = "harness: " + err.Error()
		return o, false, true
	}
	typB := f.Recover
	if typB == "" {
		typB = typ
	}
	vh.Clear("")
	vh.ResetHits()
	l := s.env.loop
	l.reset(0)
	reached, release := make(chan struct{}), make(chan struct{})
	if s.c.Sched.Sink == "http" {
		l.mu.Lock()
		l.blockAt, l.reached, l.release = f.Hit, reached, release
		l.mu.Unlock()
	} else {
		var mu sync.Mutex
		waits := 0
		vh.SetLockTracer(func(kind, name string, _ int64) {
			if kind != "lockwait" || name != "ds:"+c08SinkDS {
				return
			}
			mu.Lock()
			waits++
			hold := waits == f.Hit
			mu.Unlock()
			if hold {
				close(reached)
				<-release
			}
		})
		defer vh.SetLockTracer(nil)
	}
	doneA := make(chan struct{})
	go func() {
		defer close(doneA)
		defer func() {
			if p := recover(); p != nil {
				o.Panic = fmt.Sprint(p)
			}
		}()
		jobA.Run()
	}()
	finishA := func() bool {
		select {
		case <-doneA:
			return true
		case <-time.After(c08RunWatchdog):
			s.ctx.Out.Inconclusive(s.id, "C08", "watchdog: the killed run did not end after it was let go")
			s.abort, s.stuck = true, true
			return false
		}
	}
	collect := func() {
		vh.Clear("")
		o.Hits = vh.Hits()
		l.mu.Lock()
		o.Requests, o.Served, o.Conflict = l.reqs, l.served400, l.conflicts
		s.ctx.Out.StatMax("max:sink_requests_in_flight", int64(l.maxInfl))
		l.mu.Unlock()
		o.Found, o.Err, _ = s.env.sched.VerifC08LastRun(c08JobID)
		s.ctx.Out.Stat("runs", 1)
		s.ctx.Out.Stat("runs_"+typ, 1)
	}
	select {
	case <-doneA: // the run ended before it reached that batch
		collect()
		return o, false, true
	case <-time.After(c08RunWatchdog):
		close(release)
		s.ctx.Out.Inconclusive(s.id, "C08", "watchdog: run did not reach the batch it was to be held in")
		s.abort = true
		return o, false, finishA() && false
	case <-reached:
	}
	s.ctx.Out.Stat("overlap_holds", 1)
	tok0raw, tok0, ok0 := s.tokens()
	s.env.sched.KillJob(c08JobID)
	hitsBefore := vh.Hits()
	l.mu.Lock()
	accBefore := l.accepted
	l.mu.Unlock()
	// run B: requested right after the kill, while the sink write of A's batch is still in flight
	pB, hungB := "", ""
	t0 := time.Now()
	jt := jobs.JobTypeIncremental
	if typB == "full" {
		jt = jobs.JobTypeFull
	}
	if _, errB := s.env.sched.RunJob(c08JobID, jt); errB != nil {
		s.ctx.Out.Stat("overlap_restart_refused", 1)
	} else {
		// accepted: RunJob starts the run on the job runner's goroutine; its end = the job result it records
		s.ctx.Out.Stat("overlap_restart_accepted", 1)
		deadline := time.Now().Add(c08RunWatchdog)
		for ended := false; !ended; {
			for _, h := range s.env.sched.GetJobHistory() {
				if h.ID == c08JobID && !h.Start.Before(t0) && !h.End.IsZero() {
					ended = true
				}
			}
			if !ended {
				if time.Now().After(deadline) {
					hungB = "no result recorded"
					break
				}
				time.Sleep(2 * time.Millisecond)
			}
		}
	}
	s.ctx.Out.Stat("overlap_restarts", 1)
	hitsAfter := vh.Hits()
	l.mu.Lock()
	accAfter := l.accepted
	l.mu.Unlock()
	wroteB := accAfter > accBefore
	for _, p := range []string{c08PIncrS, c08PFullS} {
		if hitsAfter[p] > hitsBefore[p] {
			wroteB = true
		}
	}
	tok1raw, tok1, ok1 := s.tokens()
	close(release)
	if !finishA() {
		return o, true, false
	}
	collect()
	tok2raw, tok2, ok2 := s.tokens()
	if hungB != "" {
		s.ctx.Out.Inconclusive(s.id, "C08", "watchdog: the restarted run did not end ("+hungB+")")
		s.abort = true
		return o, true, false
	}
	if pB != "" {
		s.viol("panic-in-run", "restarted job run panicked: "+pB, nil, nil)
		return o, true, false
	}
	if wroteB {
		s.ctx.Out.Stat("overlap_second_run_wrote", 1)
		s.viol("two-runs-of-job-write-sink-concurrently/"+typ,
			fmt.Sprintf("the job was killed while inside batch %d and started again at once: the second run delivered %d batch(es) to the sink while the killed run was still in progress (token before the kill %q, after the second run %q, after the killed run ended %q)",
				f.Hit, hitsAfter[c08PIncrS]+hitsAfter[c08PFullS]-hitsBefore[c08PIncrS]-hitsBefore[c08PFullS], tok0raw, tok1raw, tok2raw), 0, 1)
		// not the end of the case: the usual protocol (token-vs-sink, recovery run, equality) still runs, so that the
		// consequence - a stale version written over a newer one - is reported under its own class as well
		s.abort = false
	}
	if typ == "incr" && typB == "incr" && ok0 && ok1 && ok2 {
		for i := range tok2 {
			if tok2[i] < tok1[i] || tok1[i] < tok0[i] {
				s.viol("token-went-backwards/"+s.faultClass(), "the persisted token of an incremental job went backwards", []string{tok0raw, tok1raw}, tok2raw)
				s.abort = false // go on to the recovery run and the equality check
				break
			}
		}
	}
	return o, true, true
}

// checkMonotone: an incremental run never moves the persisted token backwards.
func (s *c08Run) checkMonotone(typ string, before *c08Snapshot) {
	if typ != "incr" || before == nil || !before.tokOK {
		return
	}
	raw, per, ok := s.tokens()
	if !ok {
		return
	}
	s.ctx.Out.Stat("token_monotone_checks", 1)
	for i := range per {
		if i < len(before.tok) && per[i] < before.tok[i] {
			s.viol("token-went-backwards/incr-run", "the persisted token went backwards across an incremental run", before.tokRaw, raw)
			return
		}
	}
}

// ---- observations

type c08View map[string]model.Ent

func (s *c08Run) listing(ds string) (c08View, error) {
	d := s.env.core.Dsm.GetDataset(ds)
	if d == nil {
		return nil, fmt.Errorf("dataset %s missing", ds)
	}
	recs, err := obs.Listing(s.env.core.Store, d, 0)
	if err != nil {
		return nil, err
	}
	v := c08View{}
	for _, r := range recs {
		v[r.ID] = r.Ent
	}
	return v, nil
}

func (s *c08Run) sourceView() (c08View, error) {
	v := c08View{}
	for _, m := range s.c.Sched.Members {
		mv, err := s.listing(m.Name)
		if err != nil {
			return nil, err
		}
		for k, e := range mv {
			v[k] = e
		}
	}
	return v, nil
}

func (s *c08Run) feed(ds string, since uint64) ([]obs.Rec, error) {
	d := s.env.core.Dsm.GetDataset(ds)
	if d == nil {
		return nil, fmt.Errorf("dataset %s missing", ds)
	}
	recs, _, err := obs.Feed(s.env.core.Store, d, since, nil, false)
	return recs, err
}

// c08Same: same latest state of one entity, tombstones included: an entity
// the source lists (live or deleted) must be listed by the sink with the same
// deleted flag; the content of a tombstone is not compared.
func c08Same(src *model.Ent, sink *model.Ent) bool {
	if src == nil || sink == nil {
		return src == nil && sink == nil
	}
	if src.Deleted || sink.Deleted {
		return src.Deleted == sink.Deleted
	}
	return model.SameContent(src, sink)
}

func c08Diff(src, sink c08View) []string {
	var d []string
	ids := map[string]bool{}
	for k := range src {
		ids[k] = true
	}
	for k := range sink {
		ids[k] = true
	}
	for id := range ids {
		var a, b *model.Ent
		if e, ok := src[id]; ok {
			a = &e
		}
		if e, ok := sink[id]; ok {
			b = &e
		}
		if !c08Same(a, b) {
			d = append(d, id)
		}
	}
	sort.Strings(d)
	return d
}

func c08ViewStr(v c08View, ids []string) map[string]string {
	r := map[string]string{}
	for _, id := range ids {
		if e, ok := v[id]; ok {
			r[id] = model.CanonString(&e)
			if len(r[id]) > 600 {
				r[id] = fmt.Sprintf("%s... (%d bytes)", r[id][:600], len(r[id]))
			}
		} else {
			r[id] = "<absent>"
		}
	}
	return r
}

// tokens decodes the persisted continuation token into one change offset per
// member ("" / absent = 0). ok=false when it is not a changes token.
func (s *c08Run) tokens() (raw string, per []uint64, ok bool) {
	st, err := s.env.sched.GetJobState(c08JobID)
	if err != nil || st == nil {
		return "", make([]uint64, len(s.c.Sched.Members)), true
	}
	raw = st.ContinuationToken
	per = make([]uint64, len(s.c.Sched.Members))
	if raw == "" {
		return raw, per, true
	}
	if len(s.c.Sched.Members) == 1 {
		n, err := strconv.ParseUint(raw, 10, 64)
		if err != nil {
			return raw, per, false
		}
		per[0] = n
		return raw, per, true
	}
	var u struct {
		Tokens       []struct{ Token string }
		DatasetNames []string
	}
	if err := json.Unmarshal([]byte(raw), &u); err != nil || len(u.Tokens) != len(per) {
		return raw, per, false
	}
	for i, t := range u.Tokens {
		if t.Token == "" {
			continue
		}
		n, err := strconv.ParseUint(t.Token, 10, 64)
		if err != nil {
			return raw, per, false
		}
		per[i] = n
	}
	return raw, per, true
}

// checkEqual: sink latest view == source latest view.
func (s *c08Run) checkEqual(class, when string) bool {
	src, err := s.sourceView()
	if err != nil {
		s.ctx.Out.Inconclusive(s.id, "C08", "read source: "+err.Error())
		s.abort = true
		return false
	}
	sink, err := s.listing(c08SinkDS)
	if err != nil {
		s.ctx.Out.Inconclusive(s.id, "C08", "read sink: "+err.Error())
		s.abort = true
		return false
	}
	s.ctx.Out.Stat("equality_checks", 1)
	s.ctx.Out.Stat("entities_compared", int64(len(src)))
	d := c08Diff(src, sink)
	if len(d) == 0 {
		return true
	}
	if c := s.classifyRegression(d, sink); c != "" {
		class = c
	}
	tomb := true
	for _, id := range d {
		e, inSrc := src[id]
		if _, inSink := sink[id]; !inSrc || !e.Deleted || inSink {
			tomb = false
		}
	}
	if tomb && strings.HasPrefix(class, "not-equal") {
		// narrowest class: the only difference is deleted entities of the source that the sink does not list at all
		class = "tombstone-missing-in-sink" + strings.TrimPrefix(class, "not-equal")
	}
	// cascade (C01): does the store itself refuse the source's version?
	if s.storeDropsWrite(d[0]) {
		class = "via-C01-store-drops-write"
	}
	raw, _, _ := s.tokens()
	s.viol(class, fmt.Sprintf("%s: sink latest view differs from the source latest view for %v (token %q)", when, d, raw),
		c08ViewStr(src, d), c08ViewStr(sink, d))
	return false
}

// classifyRegression names the narrowest input class of one specific failure:
// an aborted full sync that replays the change feed had re-written OLDER
// versions of entities into the sink, the incremental token persisted by
// earlier runs was kept, and the first successful run afterwards was an
// incremental one. Decidable from the witness: faulty run = fullsync,
// recovery = incremental, and every differing entity's sink version equals an
// older version of that entity in the source's own change feed.
func (s *c08Run) classifyRegression(diff []string, sink c08View) string {
	f := s.c.Fault
	if !s.faultFired || s.recovered || f.Kind == "none" || s.c.Sched.Steps[f.Step].Type != "full" || f.Recover != "incr" {
		return ""
	}
	older := map[string]map[string]bool{}
	for _, m := range s.c.Sched.Members {
		full, err := s.feed(m.Name, 0)
		if err != nil {
			return ""
		}
		last := map[string]int{}
		for k, r := range full {
			last[r.ID] = k
		}
		for k, r := range full {
			if k == last[r.ID] {
				continue
			}
			if older[r.ID] == nil {
				older[r.ID] = map[string]bool{}
			}
			e := r.Ent
			older[r.ID][c08Content(&e)] = true
		}
	}
	for _, id := range diff {
		e, ok := sink[id]
		if !ok || !older[id][c08Content(&e)] {
			return ""
		}
	}
	return "aborted-fullsync-regressed-sink/incremental-token-kept"
}

// storeDropsWrite re-asks the elementary C01 question on the witness entity:
// stored directly into a scratch dataset that holds the sink's version, does
// the source's version become the latest one?
func (s *c08Run) storeDropsWrite(id string) (dropped bool) {
	defer func() {
		if recover() != nil {
			dropped = false
		}
	}()
	src, _ := s.sourceView()
	sink, _ := s.listing(c08SinkDS)
	se, ok := src[id]
	ke, ok2 := sink[id]
	if !ok || !ok2 {
		return false
	}
	if _, err := s.env.core.Dsm.CreateDataset("c08scratch", nil); err != nil {
		return false
	}
	if StoreBatch(s.env.core, "c08scratch", []model.Ent{ke}, false) != nil {
		return false
	}
	if StoreBatch(s.env.core, "c08scratch", []model.Ent{se}, false) != nil {
		return false
	}
	v, err := s.listing("c08scratch")
	if err != nil {
		return false
	}
	got, ok := v[id]
	return !ok || !c08Same(&se, &got)
}

// checkTokenSafe: every source change the persisted token has moved past was
// at some time written to the sink (that version or a later one of the same
// entity). Weak on purpose: a later run may legitimately have replayed older
// versions on top; what decides is the recovery-equality check.
func (s *c08Run) checkTokenSafe(when string) {
	raw, per, ok := s.tokens()
	if !ok {
		s.ctx.Out.Stat("token_not_decodable", 1)
		return
	}
	sinkFeed, err := s.feed(c08SinkDS, 0)
	if err != nil {
		return
	}
	inSink := map[string]map[string]bool{} // id -> contents ever written
	sinkHas := map[string]bool{}
	for _, r := range sinkFeed {
		if inSink[r.ID] == nil {
			inSink[r.ID] = map[string]bool{}
		}
		e := r.Ent
		inSink[r.ID][c08Content(&e)] = true
		sinkHas[r.ID] = true
	}
	for i, m := range s.c.Sched.Members {
		full, err := s.feed(m.Name, 0)
		if err != nil {
			return
		}
		tail, err := s.feed(m.Name, per[i])
		if err != nil {
			return
		}
		if len(tail) > len(full) {
			continue
		}
		covered := len(full) - len(tail)
		s.ctx.Out.Stat("token_checks", 1)
		s.ctx.Out.Stat("token_covered_changes", int64(covered))
		lastCov := map[string]int{}
		for k := 0; k < covered; k++ {
			lastCov[full[k].ID] = k
		}
		for id, k := range lastCov {
			if m.LatestOnly {
				later := false
				for q := covered; q < len(full); q++ {
					if full[q].ID == id {
						later = true
					}
				}
				if later {
					continue // a latest-only reader legitimately skipped the covered version
				}
			}
			okEnt := false
			var want []string
			for q := k; q < len(full); q++ {
				if full[q].ID != id {
					continue
				}
				e := full[q].Ent
				c := c08Content(&e)
				want = append(want, c)
				if inSink[id][c] {
					okEnt = true
				}
			}
			if !okEnt {
				var have []string
				for c := range inSink[id] {
					have = append(have, c)
				}
				sort.Strings(have)
				s.viol("token-ahead-of-sink/"+s.faultClass(),
					fmt.Sprintf("%s: persisted token %q has moved past change #%d of %s in %s, but neither that version nor a later one was ever written to the sink", when, raw, k, id, m.Name),
					want, have)
				return
			}
		}
	}
}

func c08Content(e *model.Ent) string {
	if e.Deleted {
		return "<deleted>"
	}
	c := model.Ent{Props: e.Props, Refs: e.Refs}
	return model.CanonString(&c)
}

func (s *c08Run) faultClass() string {
	f := s.c.Fault
	typ := s.c.Sched.Steps[f.Step].Type
	switch f.Kind {
	case "none":
		return "no-fault"
	case "sink400":
		return fmt.Sprintf("%s-run-sink-failure", typ)
	case "overlap":
		return fmt.Sprintf("%s-run-killed-inside-batch-and-restarted", typ)
	default:
		return fmt.Sprintf("%s-run-%s@%s", typ, f.Kind, strings.TrimPrefix(f.Point, "pipeline."))
	}
}

// waitLease waits for the event "the sink dataset left full-sync mode" (lease
// expiry of an abandoned HTTP full sync). Watchdog -> inconclusive.
func (s *c08Run) waitLease() bool {
	if s.c.Sched.Sink != "http" {
		return true
	}
	ds := s.env.core.Dsm.GetDataset(c08SinkDS)
	if ds == nil || !ds.FullSyncStarted() {
		return true
	}
	s.ctx.Out.Stat("lease_waits", 1)
	deadline := time.Now().Add(c08MaxWait)
	for ds.FullSyncStarted() {
		if time.Now().After(deadline) {
			s.ctx.Out.Inconclusive(s.id, "C08", "watchdog: abandoned full-sync lease did not expire")
			s.abort = true
			return false
		}
		time.Sleep(25 * time.Millisecond)
	}
	return true
}

// afterRun judges a run that was issued without an armed fault, or whose
// fault did not fire.
func (s *c08Run) afterPlainRun(i int, typ string, o c08Outcome, before *c08Snapshot) {
	s.checkMonotone(typ, before)
	if s.abort {
		return
	}
	if o.Panic != "" {
		s.viol("panic-in-run", "job run panicked: "+o.Panic, nil, nil)
		return
	}
	if !o.Found || o.Err != "" {
		if o.Conflict > 0 {
			// the remote end refused because an abandoned full sync still holds its lease: a failed run, allowed
			s.ctx.Out.Stat("runs_refused_by_lease", 1)
			if !s.waitLease() {
				return
			}
			o = s.runJob(typ, nil)
			if o.Panic == "" && o.Found && o.Err == "" {
				s.afterPlainRun(i, typ, o, before)
				return
			}
			if o.Conflict > 0 {
				// refused again for a lease reason: depends on wall-clock time (lease timeout vs. machine load), never a verdict
				s.ctx.Out.Inconclusive(s.id, "C08", "run refused twice by the remote end's full-sync lease: "+o.Err)
				s.abort = true
				return
			}
		}
		if s.abort {
			return
		}
		s.viol("fault-free-run-failed/"+typ, fmt.Sprintf("run without injected fault ended with error %q (found=%v)", o.Err, o.Found), "", o.Err)
		return
	}
	s.ctx.Out.Stat("runs_ok", 1)
	idle := s.isIdle(typ)
	cls := "not-equal-after-successful-run/" + typ
	when := fmt.Sprintf("after successful %s run (step %d)", typ, i)
	if s.faultFired && !s.recovered {
		cls = "not-equal-after-recovery/" + s.faultClass() + "/then-" + typ
		when = fmt.Sprintf("after the first successful %s run following %s", typ, s.faultClass())
	} else if s.faultFired {
		cls += "/after-earlier-fault"
	}
	if !s.checkEqual(cls, when) {
		return
	}
	if s.faultFired {
		s.recovered = true
	}
	if idle && before != nil {
		s.checkIdle(typ, before)
	}
	s.dirty[typ] = false
	s.okRun[typ] = true
}

func (s *c08Run) isIdle(typ string) bool { return s.okRun[typ] && !s.dirty[typ] }

func (s *c08Run) markDirty() {
	s.dirty["incr"], s.dirty["full"] = true, true
}

type c08Snapshot struct {
	tokRaw string
	tok    []uint64
	tokOK  bool
	sink   c08View
	feedN  int
}

func (s *c08Run) snapshot() *c08Snapshot {
	sn := &c08Snapshot{}
	sn.tokRaw, sn.tok, sn.tokOK = s.tokens()
	sn.sink, _ = s.listing(c08SinkDS)
	f, _ := s.feed(c08SinkDS, 0)
	sn.feedN = len(f)
	return sn
}

func (s *c08Run) checkIdle(typ string, before *c08Snapshot) {
	s.ctx.Out.Stat("idle_checks", 1)
	after := s.snapshot()
	if before.tokOK && after.tokOK && fmt.Sprint(before.tok) != fmt.Sprint(after.tok) {
		s.viol("idle-run-moved-token/"+typ, "a run with nothing new changed the persisted token", before.tokRaw, after.tokRaw)
		return
	}
	ids := map[string]bool{}
	for k := range before.sink {
		ids[k] = true
	}
	for k := range after.sink {
		ids[k] = true
	}
	var d []string
	for id := range ids {
		a, ok1 := before.sink[id]
		b, ok2 := after.sink[id]
		if ok1 != ok2 || !(a.Deleted == b.Deleted && model.SameContent(&a, &b)) {
			d = append(d, id)
		}
	}
	if len(d) > 0 {
		sort.Strings(d)
		s.viol("idle-run-changed-sink/"+typ, fmt.Sprintf("a run with nothing new changed the sink's latest view for %v", d), c08ViewStr(before.sink, d), c08ViewStr(after.sink, d))
		return
	}
	if typ == "incr" && after.feedN != before.feedN {
		s.viol("idle-run-grew-sink-feed/incr", "an incremental run with nothing new added entries to the sink's change feed", before.feedN, after.feedN)
	}
}

func (s *c08Run) setup() bool {
	sc := s.c.Sched
	for _, m := range sc.Members {
		if _, err := s.env.core.Dsm.CreateDataset(m.Name, nil); err != nil {
			s.ctx.Out.Inconclusive(s.id, "C08", "create dataset: "+err.Error())
			return false
		}
	}
	if _, err := s.env.core.Dsm.CreateDataset(c08SinkDS, nil); err != nil {
		s.ctx.Out.Inconclusive(s.id, "C08", "create dataset: "+err.Error())
		return false
	}
	jc, err := s.env.addJob(c08JobConfig(sc, s.env.srv.URL))
	if err != nil {
		s.ctx.Out.Inconclusive(s.id, "C08", "add job: "+err.Error())
		return false
	}
	s.jc = jc
	return true
}

// reopen after a process death: new store / scheduler on the same directory;
// the job configuration is the persisted one (only the loopback URL is new).
func (s *c08Run) reopen() bool {
	s.env = c08Open(s.dir, false)
	jc, err := s.env.sched.LoadJob(c08JobID)
	if err != nil || jc == nil || jc.ID == "" {
		// the job configuration itself was lost: the crash came before AddJob returned? cannot be, AddJob is acked in the writer
		s.viol("job-config-lost-after-crash", "persisted job configuration missing after the crash", c08JobID, fmt.Sprint(err))
		return false
	}
	if s.c.Sched.Sink == "http" {
		jc.Sink["Url"] = s.env.srv.URL + "/datasets/" + c08SinkDS + "/entities"
		if err := s.env.sched.AddJob(jc); err != nil {
			s.ctx.Out.Inconclusive(s.id, "C08", "re-add job: "+err.Error())
			return false
		}
	}
	s.jc = jc
	s.byTyp = nil
	return true
}

func (s *c08Run) doWrite(i int, st C08Step) bool {
	s.ctx.Out.Begin(s.id, i, "write "+st.DS)
	if st.Big > 0 {
		st.Ents = c08BigEnts(st)
		s.bigBytes += int64(st.Big) * int64(st.BigSize)
		s.ctx.Out.Stat("big_entities_written", int64(st.Big))
		s.ctx.Out.Stat("big_bytes_written", int64(st.Big)*int64(st.BigSize))
	}
	err := StoreBatch(s.env.core, st.DS, st.Ents, st.Prefixed)
	s.ctx.Out.Ack(s.id, i, err)
	if err != nil {
		s.ctx.Out.Inconclusive(s.id, "C08", "source write failed: "+err.Error())
		s.abort = true
		return false
	}
	s.markDirty()
	s.ctx.Out.Stat("source_writes", 1)
	s.ctx.Out.Stat("source_entities_written", int64(len(st.Ents)))
	return true
}

// execute runs the whole case in this process (crash cases delegate the
// prefix up to the faulty run to a sub-child).
func (s *c08Run) execute() {
	f := s.c.Fault
	start := 0
	defer func() {
		if s.env != nil && !s.stuck {
			s.env.Close()
			s.env = nil
			runtime.GC() // every case opens a store with large arenas; keep the child's footprint flat
		}
	}()
	if f.Kind == "crash" && !s.writer {
		if !s.crashPrefix() {
			return
		}
		start = f.Step + 1
	} else {
		s.env = c08Open(s.dir, false)
		if !s.setup() {
			return
		}
	}
	for i := start; i < len(s.c.Sched.Steps) && !s.abort; i++ {
		s.op = i
		st := s.c.Sched.Steps[i]
		if st.Kind == "write" {
			if !s.doWrite(i, st) {
				return
			}
			continue
		}
		before := s.snapshot()
		if i != f.Step || f.Kind == "none" {
			s.ctx.Out.Begin(s.id, i, "run "+st.Type)
			o := s.runJob(st.Type, nil)
			s.ctx.Out.Ack(s.id, i, nil)
			if s.probe != nil {
				s.probe.Runs[i] = &c08RunMeasure{Type: st.Type, Hits: o.Hits, Requests: o.Requests, Idle: s.isIdle(st.Type)}
			}
			if st.MayFail {
				s.classSuffix = "/oversized-page"
				if s.bigBytes > 20<<20 {
					s.forceNT = true // measured: the page this run had to deliver is larger than one store transaction takes
				}
			}
			if st.MayFail && o.Panic == "" && o.Hung == "" && o.Found && o.Err != "" {
				// the run failed by itself (e.g. the page does not fit into one store transaction): allowed, but then the
				// token must not have moved past anything that did not reach the sink
				s.ctx.Out.Stat("runs_failed_by_themselves", 1)
				s.ctx.Out.Emit(map[string]any{"t": "ev", "case": s.id, "k": "run-failed-by-itself", "err": o.Err})
				s.checkTokenSafe(fmt.Sprintf("after the %s run that failed by itself (%s)", st.Type, strings.TrimSpace(o.Err)))
				after := s.snapshot()
				if before.tokOK && after.tokOK && fmt.Sprint(before.tok) != fmt.Sprint(after.tok) {
					s.ctx.Out.Stat("failed_run_moved_token", 1) // legal as long as the token check holds; recorded
				}
				s.markDirty()
				continue
			}
			s.afterPlainRun(i, st.Type, o, before)
			continue
		}
		// the faulty run
		s.ctx.Out.Begin(s.id, i, fmt.Sprintf("run %s with %s", st.Type, s.faultClass()))
		fired := false
		var o c08Outcome
		switch f.Kind {
		case "sink400":
			o = s.runJob(st.Type, func() { s.env.loop.reset(f.Hit) })
			fired = o.Served > 0
		case "kill":
			o = s.runJob(st.Type, func() {
				vh.OnPoint(f.Point, int64(f.Hit), func(string, int64) {
					fired = true
					s.env.sched.KillJob(c08JobID)
				})
			})
		case "overlap":
			var ok bool
			o, fired, ok = s.runOverlap(st.Type)
			if !ok {
				return
			}
		case "crash": // only in the writer sub-child
			_ = vh.Parse(fmt.Sprintf("%s=crash@%d", f.Point, f.Hit))
			vh.BeforeCrash = func(name string, hit int64) {
				s.ctx.Out.Emit(map[string]any{"t": "ev", "k": "crash", "point": name, "hit": hit})
			}
			j, err := s.jobFor(st.Type)
			if err != nil {
				return
			}
			vh.ResetHits()
			s.env.loop.reset(0)
			j.Run() // dies inside when the point is reached
			vh.Clear("")
			return // fault not reached: the parent continues after reopening
		}
		s.ctx.Out.Ack(s.id, i, nil)
		s.afterFaultyRun(i, st.Type, o, fired, before)
	}
}

func (s *c08Run) afterFaultyRun(i int, typ string, o c08Outcome, fired bool, before *c08Snapshot) {
	if !fired {
		s.ctx.Out.Stat("fault_not_reached", 1)
		s.afterPlainRun(i, typ, o, before)
		return
	}
	s.faultFired = true
	s.ctx.Out.Stat("faults_fired", 1)
	s.ctx.Out.Stat("faults_fired:"+s.c.Fault.Kind, 1)
	if o.Panic != "" {
		s.viol("panic-in-run", "job run panicked: "+o.Panic, nil, nil)
		return
	}
	if o.Found && o.Err == "" {
		// the run reported success although the fault fired (e.g. a kill after the last batch)
		s.ctx.Out.Stat("faulty_run_reported_success", 1)
		s.afterPlainRun(i, typ, o, before)
		return
	}
	s.ctx.Out.Stat("faulty_run_failed", 1)
	s.markDirty() // sink and token are in an in-between state: the next run is not "a re-run with nothing new"
	s.recover(i)
}

// recover: token safety now, then runs of the recovery type until one
// succeeds, then equality, then an idle run.
func (s *c08Run) recover(i int) {
	s.checkTokenSafe("after " + s.faultClass())
	if s.abort {
		return
	}
	typ := s.c.Fault.Recover
	if !s.waitLease() {
		return
	}
	before := s.snapshot()
	s.ctx.Out.Begin(s.id, i, "recovery run "+typ)
	o := s.runJob(typ, nil)
	s.ctx.Out.Ack(s.id, i, nil)
	s.ctx.Out.Stat("recovery_runs", 1)
	s.afterPlainRun(i, typ, o, before)
	if s.abort {
		return
	}
	// idle run
	before = s.snapshot()
	s.ctx.Out.Begin(s.id, i, "idle run "+typ)
	o = s.runJob(typ, nil)
	s.ctx.Out.Ack(s.id, i, nil)
	s.afterPlainRun(i, typ, o, before)
}

// crashPrefix runs steps 0..Fault.Step in a sub-child that dies at the crash
// point, then reopens the store here.
func (s *c08Run) crashPrefix() bool {
	f := s.c.Fault
	caseFile := filepath.Join(s.dir+"-w", "case.json")
	_ = os.MkdirAll(filepath.Dir(caseFile), 0o755)
	defer os.RemoveAll(s.dir + "-w")
	b, _ := json.Marshal(map[string]any{"ops": s.c})
	if err := os.WriteFile(caseFile, b, 0o644); err != nil {
		s.ctx.Out.Inconclusive(s.id, "C08", "write case file: "+err.Error())
		return false
	}
	subOut := filepath.Join(s.dir+"-w", "out.jsonl")
	cmd := exec.Command(os.Args[0], "-scenario", "c08jobs", "-seed", strconv.FormatInt(s.ctx.Seed, 10), "-cases", "1", "-tier", s.ctx.Tier,
		"-scratch", s.dir+"-w", "-out", subOut, "-replay", caseFile, "-args", "mode=writer,store="+s.dir)
	errFile := filepath.Join(s.dir+"-w", "stderr.txt")
	ef, _ := os.Create(errFile)
	cmd.Stdout, cmd.Stderr = ef, ef
	s.ctx.Out.Begin(s.id, f.Step, fmt.Sprintf("sub-child: steps 0..%d, %s", f.Step, s.faultClass()))
	err := cmd.Start()
	subTimedOut := false
	if err == nil {
		waited := make(chan error, 1)
		go func() { waited <- cmd.Wait() }()
		select {
		case err = <-waited:
		case <-time.After(2*c08RunWatchdog + time.Minute):
			subTimedOut = true
			_ = cmd.Process.Signal(syscall.SIGQUIT) // goroutine dump into its stderr file
			select {
			case err = <-waited:
			case <-time.After(5 * time.Second):
				_ = cmd.Process.Kill()
				err = <-waited
			}
		}
	}
	if ef != nil {
		ef.Close()
	}
	s.ctx.Out.Ack(s.id, f.Step, nil)
	s.ctx.Out.Stat("subchildren", 1)
	if subTimedOut {
		tail, _ := os.ReadFile(errFile)
		if i := bytes.Index(tail, []byte("SIGQUIT")); i >= 0 {
			tail = tail[i:]
		}
		if len(tail) > 12000 {
			tail = tail[:12000]
		}
		s.ctx.Out.Emit(map[string]any{"t": "inconclusive", "case": s.id, "prop": "C08", "why": "watchdog: sub-child did not end", "goroutines": string(tail)})
		s.abort = true
		return false
	}
	killed := false
	if ee, ok := err.(*exec.ExitError); ok {
		if ws, ok := ee.Sys().(syscall.WaitStatus); ok && ws.Signaled() && ws.Signal() == syscall.SIGKILL {
			killed = true
		}
	}
	sub, _ := os.ReadFile(subOut)
	crashEv := bytes.Contains(sub, []byte(`"k":"crash"`))
	switch {
	case killed && crashEv:
		s.faultFired = true
		s.ctx.Out.Stat("faults_fired", 1)
		s.ctx.Out.Stat("faults_fired:crash", 1)
		s.ctx.Out.Stat("crash@"+f.Point, 1)
	case err == nil:
		s.ctx.Out.Stat("fault_not_reached", 1)
	default:
		tail, _ := os.ReadFile(errFile)
		if len(tail) > 3000 {
			tail = tail[len(tail)-3000:]
		}
		s.viol("process-died-in-run", fmt.Sprintf("the hub process running the job died on its own (%v), not at the armed crash point", err), nil, string(tail))
		return false
	}
	// relay the writer's violations / inconclusives (prefix runs are judged there)
	for _, line := range bytes.Split(sub, []byte("\n")) {
		var m map[string]any
		if json.Unmarshal(line, &m) != nil {
			continue
		}
		switch m["t"] {
		case "viol":
			m["case"] = s.id
			s.ctx.Out.Emit(m)
			s.abort = true
		case "inconclusive":
			m["case"] = s.id
			s.ctx.Out.Emit(m)
			s.abort = true
		}
	}
	if s.abort {
		return false
	}
	if !s.reopen() {
		return false
	}
	s.op = f.Step
	s.markDirty()
	if s.faultFired {
		s.ctx.Out.Stat("faulty_run_failed", 1)
		s.recover(f.Step)
	} else {
		// the run completed in the writer: nothing was written since, equality must hold
		s.checkEqual("not-equal-after-successful-run/"+s.c.Sched.Steps[f.Step].Type, "after the run that completed in the sub-child")
		s.dirty[s.c.Sched.Steps[f.Step].Type] = false
		s.okRun[s.c.Sched.Steps[f.Step].Type] = true
	}
	return !s.abort
}

// ---------- generation

func c08Gen(r *rand.Rand) C08Sched {
	sc := C08Sched{}
	nm := 1
	if r.Intn(5) < 2 {
		nm = 2 + r.Intn(2)
	}
	for i := 0; i < nm; i++ {
		sc.Members = append(sc.Members, C08Member{Name: fmt.Sprintf("s%d", i), LatestOnly: r.Intn(3) == 0})
	}
	sc.Sink = []string{"dataset", "http"}[r.Intn(2)]
	switch k := r.Intn(20); {
	case k < 8:
		sc.Triggers = []string{"incr"}
	case k < 12:
		sc.Triggers = []string{"full"}
	default:
		sc.Triggers = []string{"incr", "full"}
	}
	sc.Batch = []int{1, 1, 2, 2, 2, 3, 3, 4, 5, 7}[r.Intn(10)]
	sc.Reuse = r.Intn(2) == 0
	sc.NIDs = 3*nm + r.Intn(4)
	v := gen.NewVocab(sc.NIDs, 3, 2)
	cur := map[string]model.Ent{}
	pool := func(m int) []string { // disjoint id pools per member
		var p []string
		for i, id := range v.IDs {
			if i%nm == m {
				p = append(p, id)
			}
		}
		return p
	}
	mkWrite := func(n int) C08Step {
		m := r.Intn(nm)
		p := pool(m)
		var ents []model.Ent
		for j := 0; j < n; j++ {
			id := p[r.Intn(len(p))]
			var e model.Ent
			if prev, ok := cur[id]; ok && r.Intn(4) != 0 {
				e = gen.Mutate(r, v, prev)
			} else {
				e = gen.Entity(r, v, id)
			}
			cur[id] = e
			ents = append(ents, e)
		}
		return C08Step{Kind: "write", DS: sc.Members[m].Name, Ents: ents, Prefixed: r.Intn(5) == 0}
	}
	runType := func() string { return sc.Triggers[r.Intn(len(sc.Triggers))] }
	rounds := 2 + r.Intn(3)
	for k := 0; k < rounds; k++ {
		nw := 1 + r.Intn(3)
		for w := 0; w < nw; w++ {
			sc.Steps = append(sc.Steps, mkWrite(2+r.Intn(5)))
		}
		sc.Steps = append(sc.Steps, C08Step{Kind: "run", Type: runType()})
		if r.Intn(3) == 0 { // idle re-run
			sc.Steps = append(sc.Steps, C08Step{Kind: "run", Type: runType()})
		}
	}
	return sc
}

// c08GenDirected: both triggers, change-feed source (not latest-only), entity e0 written twice so that the
// first batch of a full sync replays its superseded version; incremental run first, then the full sync, then an
// incremental run again.
func c08GenDirected(r *rand.Rand, n int) C08Sched {
	sc := C08Sched{Sink: "dataset", Triggers: []string{"incr", "full"}, Batch: 1 + n%2, Reuse: r.Intn(2) == 0, NIDs: 4}
	nm := 1 + (n/2)%2
	for i := 0; i < nm; i++ {
		sc.Members = append(sc.Members, C08Member{Name: fmt.Sprintf("s%d", i)})
	}
	if n%4 == 3 {
		sc.Sink = "http" // entities instead of changes: no replay of old versions, the shape must stay silent
	}
	v := gen.NewVocab(sc.NIDs, 3, 2)
	ent := func(i int, val string) model.Ent {
		return model.NormEnt(model.Ent{ID: v.IDs[i], Props: map[string]any{v.Props[0]: val, v.Props[1]: float64(r.Intn(9))}, Refs: map[string]any{}})
	}
	w := func(ds string, ents ...model.Ent) C08Step { return C08Step{Kind: "write", DS: ds, Ents: ents} }
	sc.Steps = append(sc.Steps, w("s0", ent(0, "v1"), ent(nm, "v1")), w("s0", ent(0, "v2")))
	if nm == 2 {
		sc.Steps = append(sc.Steps, w("s1", ent(1, "v1"), ent(3, "v1")), w("s1", ent(1, "v2")))
	}
	sc.Steps = append(sc.Steps, C08Step{Kind: "run", Type: "incr"})
	if r.Intn(2) == 0 {
		sc.Steps = append(sc.Steps, w("s0", ent(2*nm%4, "v3")))
	}
	sc.Steps = append(sc.Steps, C08Step{Kind: "run", Type: "full"}, C08Step{Kind: "run", Type: "incr"})
	return sc
}

type c08Cand struct {
	f  C08Fault
	nt bool
}

// c08Faults enumerates the faults that the probe says are reachable in run step i.
func c08Faults(sc C08Sched, i int, m *c08RunMeasure) []c08Cand {
	var out []c08Cand
	pS, pT := c08PIncrS, c08PIncrT
	if m.Type == "full" {
		pS, pT = c08PFullS, c08PFullE
	}
	B := int(m.Hits[pS])
	add := func(kind, point string, hit int, nt bool) {
		for _, rec := range sc.Triggers {
			out = append(out, c08Cand{f: C08Fault{Kind: kind, Step: i, Point: point, Hit: hit, Recover: rec, Batches: B, Requests: m.Requests}, nt: nt})
		}
	}
	for k := 1; k <= B; k++ {
		add("kill", pS, k, k < B)
		add("crash", pS, k, k < B)
	}
	for k := 1; k <= int(m.Hits[pT]); k++ {
		add("kill", pT, k, k < B)
		add("crash", pT, k, k < B)
	}
	if sc.Sink == "http" {
		for k := 1; k <= m.Requests; k++ {
			add("sink400", "", k, k >= 2 && k <= B)
		}
	}
	// the run is killed while the sink write of batch k is in flight and the job is started again at once (RunJob)
	for k := 1; k <= B; k++ {
		add("overlap", pS, k, k < B)
	}
	return out
}

func c08Nontrivial(f C08Fault) bool {
	switch f.Kind {
	case "kill", "crash", "overlap":
		return f.Hit >= 1 && f.Hit < f.Batches
	case "sink400":
		return f.Hit >= 2 && f.Hit <= f.Batches
	}
	return false
}

// ---------- entry point

func c08Jobs(ctx *Ctx) error {
	if ctx.Arg("mode", "") == "writer" {
		return c08Writer(ctx)
	}
	if ctx.Arg("mode", "") == "bigpage" && ctx.Replay == "" {
		return c08BigPage(ctx)
	}
	if ctx.Replay != "" {
		b, err := os.ReadFile(ctx.Replay)
		if err != nil {
			return err
		}
		var w struct {
			Ops C08Case `json:"ops"`
		}
		if err := json.Unmarshal(b, &w); err != nil {
			return err
		}
		c08RunCase(ctx, w.Ops, nil)
		return nil
	}
	r := rand.New(rand.NewSource(ctx.Seed))
	perSched := 3
	if v, err := strconv.Atoi(ctx.Arg("faults", "")); err == nil {
		perSched = v
	}
	// the first schedules of every child are directed at one shape that random choice rarely produces in the quick
	// tier: incremental run first, then a full sync that replays a superseded version in its first batch and is
	// aborted right there, then an incremental run
	directed := 2
	if v, err := strconv.Atoi(ctx.Arg("directed", "")); err == nil {
		directed = v
	}
	for n := 0; n < ctx.Cases; n++ {
		var sc C08Sched
		if n < directed {
			sc = c08GenDirected(r, n)
		} else {
			sc = c08Gen(r)
		}
		fr := rand.New(rand.NewSource(ctx.Seed*7919 + int64(n))) // fault choice: own stream, the schedule generator must not depend on what the hub did
		probe := &c08Probe{Runs: map[int]*c08RunMeasure{}}
		ok := c08RunCase(ctx, C08Case{Sched: sc, Fault: C08Fault{Kind: "none", Step: -1}}, probe)
		ctx.Out.Stat("schedules", 1)
		if !ok {
			continue // the fault-free execution already violates: faults on top would only repeat it
		}
		var cands []c08Cand
		var runIdx []int
		for i := range probe.Runs {
			runIdx = append(runIdx, i)
		}
		sort.Ints(runIdx)
		if n < directed {
			for _, i := range runIdx {
				m := probe.Runs[i]
				if m.Type != "full" || m.Hits[c08PFullS] < 2 {
					continue
				}
				B := int(m.Hits[c08PFullS])
				mk := func(kind, point string, hit int) c08Cand {
					f := C08Fault{Kind: kind, Step: i, Point: point, Hit: hit, Recover: "incr", Batches: B, Requests: m.Requests}
					return c08Cand{f: f, nt: c08Nontrivial(f)}
				}
				cands = append(cands, mk("crash", c08PFullS, 1), mk("kill", c08PFullS, 1), mk("crash", c08PFullS, 1+fr.Intn(B)), mk("kill", c08PFullE, 1),
					mk("overlap", c08PFullS, 1), mk("overlap", c08PFullS, 1+fr.Intn(B)))
				if sc.Sink == "http" {
					cands = append(cands, mk("sink400", "", 2))
				}
				break
			}
			for _, i := range runIdx {
				m := probe.Runs[i]
				if m.Type == "incr" && m.Hits[c08PIncrS] >= 2 {
					B := int(m.Hits[c08PIncrS])
					for _, k := range []int{1, 1 + fr.Intn(B)} {
						f := C08Fault{Kind: "overlap", Step: i, Point: c08PIncrS, Hit: k, Recover: "incr", Batches: B, Requests: m.Requests}
						cands = append(cands, c08Cand{f: f, nt: c08Nontrivial(f)})
					}
					break
				}
			}
			ctx.Out.Stat("directed_schedules", 1)
		} else if ctx.Tier == "thorough" {
			// every batch index x fault kind x recovery type of one designated run (the one with most batches)
			best, bestB := -1, -1
			for _, i := range runIdx {
				m := probe.Runs[i]
				b := int(m.Hits[c08PIncrS] + m.Hits[c08PFullS])
				if b > bestB || (b == bestB && fr.Intn(2) == 0) {
					best, bestB = i, b
				}
			}
			if best >= 0 {
				cands = c08Faults(sc, best, probe.Runs[best])
			}
			ctx.Out.Stat("thorough_fault_enumerations", 1)
		} else {
			var all []c08Cand
			for _, i := range runIdx {
				all = append(all, c08Faults(sc, i, probe.Runs[i])...)
			}
			// one of each kind, preferring positions with data before and after
			for _, kind := range []string{"overlap", "sink400", "kill", "crash"} {
				var nt, any []c08Cand
				for _, c := range all {
					if c.f.Kind != kind {
						continue
					}
					any = append(any, c)
					if c.nt {
						nt = append(nt, c)
					}
				}
				pick := nt
				if len(pick) == 0 || fr.Intn(6) == 0 {
					pick = any
				}
				if len(pick) > 0 && len(cands) < perSched {
					cands = append(cands, pick[fr.Intn(len(pick))])
				}
			}
		}
		for _, c := range cands {
			c08RunCase(ctx, C08Case{Sched: sc, Fault: c.f}, nil)
		}
	}
	return nil
}

// c08BigPage: ONE oversized-page case. The source receives Big entities in writes that each fit into a store
// transaction; the job copies them with the default batch size, so the sink gets ONE page that is larger than what
// the store accepts in one transaction. Either the run fails (then the token must not have passed anything
// undelivered) or it reports success (then sink == source, as after every successful run).
func c08BigPage(ctx *Ctx) error {
	n, size, per := 264, 100*1024, 44 // 26 MB in 6 writes of 4.4 MB; the store takes ~19 MB per transaction
	if v, err := strconv.Atoi(ctx.Arg("bigN", "")); err == nil {
		n = v
	}
	sc := C08Sched{Members: []C08Member{{Name: "s0"}}, Sink: "dataset", Triggers: []string{"incr"}, Batch: 0 /* hub default */, Reuse: ctx.Seed%2 == 0}
	for from := 0; from < n; from += per {
		k := per
		if from+k > n {
			k = n - from
		}
		sc.Steps = append(sc.Steps, C08Step{Kind: "write", DS: "s0", Big: k, BigFrom: from, BigSize: size})
	}
	sc.Steps = append(sc.Steps, C08Step{Kind: "run", Type: "incr", MayFail: true}, C08Step{Kind: "run", Type: "incr", MayFail: true})
	c08RunCase(ctx, C08Case{Sched: sc, Fault: C08Fault{Kind: "none", Step: -1}}, nil)
	ctx.Out.Stat("oversized_page_cases", 1)
	return nil
}

// c08RunCase executes one (schedule, fault); returns true when no violation / inconclusive ended it.
func c08RunCase(ctx *Ctx, c C08Case, probe *c08Probe) bool {
	id := outHash(c)
	tags := []string{"fault:" + c.Fault.Kind, "sink:" + c.Sched.Sink, "triggers:" + strings.Join(c.Sched.Triggers, "+")}
	if len(c.Sched.Members) > 1 {
		tags = append(tags, "union")
	}
	for _, m := range c.Sched.Members {
		if m.LatestOnly {
			tags = append(tags, "latestOnly")
			break
		}
	}
	if c.Fault.Kind != "none" {
		tags = append(tags, "faulty-run:"+c.Sched.Steps[c.Fault.Step].Type, "recover:"+c.Fault.Recover)
		if c.Fault.Point != "" {
			tags = append(tags, "point:"+c.Fault.Point)
		}
	}
	for _, st := range c.Sched.Steps {
		if st.Big > 0 {
			tags = append(tags, "oversized-page")
			break
		}
	}
	ctx.Out.Case(id, ctx.Seed, c, false, tags)
	dir := ctx.NewDir("c08")
	defer os.RemoveAll(dir)
	s := &c08Run{ctx: ctx, id: id, c: c, dir: dir, seen: map[string]bool{}, probe: probe, dirty: map[string]bool{}, okRun: map[string]bool{}}
	func() {
		defer func() {
			if p := recover(); p != nil {
				s.viol("panic-in-monitor-or-hub", fmt.Sprintf("panic outside a job run: %v", p), nil, nil)
			}
		}()
		s.execute()
	}()
	// measured non-triviality: the fault fired at a batch boundary with data before and after it
	if (s.faultFired && c08Nontrivial(c.Fault)) || s.forceNT {
		ctx.Out.Case(id, ctx.Seed, c, true, tags)
		ctx.Out.Stat("nontrivial_faults", 1)
	}
	ctx.Out.Stat("cases_"+c.Fault.Kind, 1)
	if s.stuck {
		ctx.Out.FlushStats()
		ctx.Out.Emit(map[string]any{"t": "error", "msg": "a job goroutine is stuck; child stops"})
		ctx.Out.Close()
		os.Exit(0)
	}
	return !s.abort
}

// c08Writer: sub-child mode. Executes the case up to and including the
// faulty run with the crash armed, in the store directory given by the parent.
func c08Writer(ctx *Ctx) error {
	b, err := os.ReadFile(ctx.Replay)
	if err != nil {
		return err
	}
	var w struct {
		Ops C08Case `json:"ops"`
	}
	if err := json.Unmarshal(b, &w); err != nil {
		return err
	}
	c := w.Ops
	c.Sched.Steps = c.Sched.Steps[:c.Fault.Step+1]
	s := &c08Run{ctx: ctx, id: outHash(w.Ops), c: c, dir: ctx.Arg("store", ""), seen: map[string]bool{}, writer: true, dirty: map[string]bool{}, okRun: map[string]bool{}}
	if s.dir == "" {
		return fmt.Errorf("writer mode needs store=")
	}
	s.execute()
	return nil
}
