package scen

// c15_doc: ordered JSON documents for UDA payloads, the grammar-aware mutator
// and the reference classification of C15 ("what is a valid payload"),
// written from the property statement and DESIGN §6, not from streamparser.go.

import (
	"bytes"
	"encoding/json"
	"fmt"
	"math/rand"
	"sort"
	"strings"

	"github.com/mimiro-io/datahub/internal/verif/gen"
	"github.com/mimiro-io/datahub/internal/verif/model"
)

// ---------- ordered JSON tree

type c15J struct {
	K    byte // 'o' object, 'a' array, 'r' raw JSON text of a scalar
	Keys []string
	Vals []*c15J
	Raw  string
}

func c15Raw(v any) *c15J {
	b, err := json.Marshal(v)
	if err != nil {
		panic(err)
	}
	return &c15J{K: 'r', Raw: string(b)}
}

func c15Lit(s string) *c15J { return &c15J{K: 'r', Raw: s} }

func c15Obj() *c15J { return &c15J{K: 'o'} }

func c15Arr(items ...*c15J) *c15J { return &c15J{K: 'a', Vals: items} }

func (j *c15J) set(k string, v *c15J) *c15J {
	for i, kk := range j.Keys {
		if kk == k {
			j.Vals[i] = v
			return j
		}
	}
	j.Keys = append(j.Keys, k)
	j.Vals = append(j.Vals, v)
	return j
}

func (j *c15J) add(k string, v *c15J) *c15J { // allows duplicate keys
	j.Keys = append(j.Keys, k)
	j.Vals = append(j.Vals, v)
	return j
}

func (j *c15J) get(k string) *c15J {
	for i, kk := range j.Keys {
		if kk == k {
			return j.Vals[i]
		}
	}
	return nil
}

func (j *c15J) del(k string) {
	for i, kk := range j.Keys {
		if kk == k {
			j.Keys = append(j.Keys[:i:i], j.Keys[i+1:]...)
			j.Vals = append(j.Vals[:i:i], j.Vals[i+1:]...)
			return
		}
	}
}

func (j *c15J) clone() *c15J {
	c := &c15J{K: j.K, Raw: j.Raw}
	c.Keys = append([]string{}, j.Keys...)
	for _, v := range j.Vals {
		c.Vals = append(c.Vals, v.clone())
	}
	return c
}

func (j *c15J) write(b *bytes.Buffer) {
	switch j.K {
	case 'r':
		b.WriteString(j.Raw)
	case 'a':
		b.WriteByte('[')
		for i, v := range j.Vals {
			if i > 0 {
				b.WriteByte(',')
			}
			v.write(b)
		}
		b.WriteByte(']')
	case 'o':
		b.WriteByte('{')
		for i, v := range j.Vals {
			if i > 0 {
				b.WriteByte(',')
			}
			kb, _ := json.Marshal(j.Keys[i])
			b.Write(kb)
			b.WriteByte(':')
			v.write(b)
		}
		b.WriteByte('}')
	}
}

func (j *c15J) bytes() []byte {
	var b bytes.Buffer
	j.write(&b)
	return b.Bytes()
}

// ---------- building valid documents from model entities

const c15NsS = "https://ex.org/s/" // an https namespace next to gen's http ones

type c15Conv func(string) string

func c15MakeConv(prefixed bool) (ns *c15J, conv c15Conv) {
	ns = c15Obj()
	if !prefixed {
		return ns, func(u string) string { return u }
	}
	ns.set("_", c15Raw(gen.NsA)).set("pp", c15Raw(gen.NsP)).set("rr", c15Raw(gen.NsR)).set("ss", c15Raw(c15NsS)).set("aa", c15Raw(gen.NsA))
	return ns, func(u string) string {
		switch {
		case strings.HasPrefix(u, gen.NsA):
			if l := u[len(gen.NsA):]; strings.Contains(l, ":") {
				// a bare name with a colon would read as prefix:name; such a name needs an explicit prefix
				return "aa:" + l
			}
			return u[len(gen.NsA):]
		case strings.HasPrefix(u, gen.NsP):
			return "pp:" + u[len(gen.NsP):]
		case strings.HasPrefix(u, gen.NsR):
			return "rr:" + u[len(gen.NsR):]
		case strings.HasPrefix(u, c15NsS):
			return "ss:" + u[len(c15NsS):]
		}
		return u
	}
}

func c15SortedKeys(m map[string]any) []string {
	ks := make([]string, 0, len(m))
	for k := range m {
		ks = append(ks, k)
	}
	sort.Strings(ks)
	return ks
}

// c15EntJ renders an entity; the order of the keys id/recorded/deleted/props/refs
// is drawn from r (the grammar does not fix an order). r == nil: canonical order.
// om != nil: the key-omission dimension: "props" / "refs" are optional keys, an entity
// (top-level or nested) without properties / references may leave the key out altogether
// (a bare tombstone {"id":..,"deleted":true}, a nested entity with props only, ...).
func c15EntJ(e model.Ent, conv c15Conv, r *rand.Rand, om *rand.Rand) *c15J {
	props := c15Obj()
	for _, k := range c15SortedKeys(e.Props) {
		props.add(conv(k), c15ValJ(e.Props[k], conv, r, om))
	}
	refs := c15Obj()
	for _, k := range c15SortedKeys(e.Refs) {
		switch t := e.Refs[k].(type) {
		case string:
			refs.add(conv(k), c15Raw(conv(t)))
		case []any:
			a := c15Arr()
			for _, x := range t {
				a.Vals = append(a.Vals, c15Raw(conv(x.(string))))
			}
			refs.add(conv(k), a)
		}
	}
	parts := []string{"id"}
	if !(om != nil && len(e.Props) == 0 && om.Intn(3) != 0) {
		parts = append(parts, "props")
	}
	if !(om != nil && len(e.Refs) == 0 && om.Intn(3) != 0) {
		parts = append(parts, "refs")
	}
	if e.Deleted || (r != nil && r.Intn(6) == 0) {
		parts = append(parts, "deleted")
	}
	if r != nil && r.Intn(5) == 0 {
		parts = append(parts, "recorded")
	}
	if r != nil && r.Intn(3) == 0 {
		r.Shuffle(len(parts), func(i, j int) { parts[i], parts[j] = parts[j], parts[i] })
	}
	o := c15Obj()
	for _, p := range parts {
		switch p {
		case "id":
			o.add("id", c15Raw(conv(e.ID)))
		case "props":
			o.add("props", props)
		case "refs":
			o.add("refs", refs)
		case "deleted":
			o.add("deleted", c15Raw(e.Deleted))
		case "recorded":
			o.add("recorded", c15Lit("1700000000000000000"))
		}
	}
	return o
}

func c15ValJ(v any, conv c15Conv, r *rand.Rand, om *rand.Rand) *c15J {
	switch t := v.(type) {
	case map[string]any:
		if id, ok := t["id"].(string); ok {
			ne := model.Ent{ID: id, Props: map[string]any{}, Refs: map[string]any{}}
			if p, ok := t["props"].(map[string]any); ok {
				ne.Props = p
			}
			if p, ok := t["refs"].(map[string]any); ok {
				ne.Refs = p
			}
			return c15EntJ(ne, conv, nil, om)
		}
		return c15Raw(t)
	case []any:
		a := c15Arr()
		for _, x := range t {
			a.Vals = append(a.Vals, c15ValJ(x, conv, r, om))
		}
		return a
	}
	return c15Raw(v)
}

// C15Doc is the replayable description of a valid document.
type C15Doc struct {
	Kind     string                 `json:"kind"` // stream | txn
	Ents     []model.Ent            `json:"ents,omitempty"`
	Txn      map[string][]model.Ent `json:"txn,omitempty"`
	Prefixed bool                   `json:"prefixed"`
	OSeed    int64                  `json:"oseed"` // key-order seed
	// Omit: empty "props" / "refs" objects are left out (two times out of three, per
	// entity and key, drawn from OSeed) instead of being written as {}
	Omit bool `json:"omit,omitempty"`
}

// c15Build returns the ordered tree of the valid document.
// stream: [ctx, e1, ...]; txn: {"@context":{...}, "ds": [...], ...}
func c15Build(d C15Doc) *c15J {
	ns, conv := c15MakeConv(d.Prefixed)
	r := rand.New(rand.NewSource(d.OSeed))
	var om *rand.Rand
	if d.Omit {
		om = rand.New(rand.NewSource(d.OSeed ^ 0x5eed))
	}
	if d.Kind == "txn" {
		o := c15Obj()
		o.add("@context", c15Obj().set("namespaces", ns))
		names := make([]string, 0, len(d.Txn))
		for n := range d.Txn {
			names = append(names, n)
		}
		sort.Strings(names)
		for _, n := range names {
			a := c15Arr()
			for _, e := range d.Txn[n] {
				a.Vals = append(a.Vals, c15EntJ(e, conv, r, om))
			}
			o.add(n, a)
		}
		return o
	}
	ctx := c15Obj().set("id", c15Raw("@context")).set("namespaces", ns)
	a := c15Arr(ctx)
	for _, e := range d.Ents {
		a.Vals = append(a.Vals, c15EntJ(e, conv, r, om))
	}
	return a
}

// ---------- identifier shapes
//
// An identifier (entity id, reference value, property / reference key) is a URI, written
// either absolutely or as prefix:local (or as a bare local name under the default prefix);
// prefix:local denotes <expansion of prefix> + local, where local is EVERYTHING after the
// first colon. The local part is not restricted to [a-z0-9]: the shapes below put the
// characters ':', '/', '#', '%', non-ASCII letters and sub-delimiters into it.

type c15ShapeT struct {
	Name      string
	Pre, Post string
	NoHashNs  bool // not for a namespace that ends in '#'
}

var c15ShapeTemplates = []c15ShapeT{
	{"colon", "grp:", "", false},         // o:order:1001 — several names share the text before the second colon
	{"colon-tail", "", ":1001:x", false}, // two colons after the name
	{"slash", "a/b/", "", false},         // path-like local part
	{"hash", "doc#", "", true},           // fragment inside a slash namespace
	{"percent", "100%25", "%20x", false}, // percent signs are data, nobody decodes them
	{"unicode", "æ", "日本", false},        // non-ASCII
	{"punct", "~", ".v2;k=1@x", false},   // unreserved / sub-delims
}

var c15KnownNs = []string{gen.NsA, gen.NsP, gen.NsR, c15NsS}

type c15Shaper struct {
	r *rand.Rand
	m map[string]string
}

func (sh *c15Shaper) uri(u string) string {
	if sh == nil {
		return u
	}
	if v, ok := sh.m[u]; ok {
		return v
	}
	out := u
	for _, ns := range c15KnownNs {
		if !strings.HasPrefix(u, ns) {
			continue
		}
		if sh.r.Intn(2) == 0 {
			break // this name keeps its plain shape
		}
		t := c15ShapeTemplates[sh.r.Intn(len(c15ShapeTemplates))]
		if t.NoHashNs && strings.HasSuffix(ns, "#") {
			t = c15ShapeTemplates[0]
		}
		out = ns + t.Pre + u[len(ns):] + t.Post
		break
	}
	sh.m[u] = out
	return out
}

func (sh *c15Shaper) refs(m map[string]any) map[string]any {
	out := map[string]any{}
	for k, v := range m {
		switch t := v.(type) {
		case string:
			out[sh.uri(k)] = sh.uri(t)
		case []any:
			a := make([]any, len(t))
			for i, x := range t {
				if s, ok := x.(string); ok {
					a[i] = sh.uri(s)
				} else {
					a[i] = x
				}
			}
			out[sh.uri(k)] = a
		default:
			out[sh.uri(k)] = v
		}
	}
	return out
}

func (sh *c15Shaper) val(v any) any {
	switch t := v.(type) {
	case map[string]any:
		if id, ok := t["id"].(string); ok {
			ne := map[string]any{"id": sh.uri(id), "props": map[string]any{}, "refs": map[string]any{}}
			if p, ok := t["props"].(map[string]any); ok {
				ne["props"] = sh.props(p)
			}
			if p, ok := t["refs"].(map[string]any); ok {
				ne["refs"] = sh.refs(p)
			}
			return ne
		}
		return t
	case []any:
		a := make([]any, len(t))
		for i, x := range t {
			a[i] = sh.val(x)
		}
		return a
	}
	return v
}

func (sh *c15Shaper) props(m map[string]any) map[string]any {
	out := map[string]any{}
	for k, v := range m {
		out[sh.uri(k)] = sh.val(v)
	}
	return out
}

func (sh *c15Shaper) ent(e model.Ent) model.Ent {
	if sh == nil {
		return e
	}
	return model.Ent{ID: sh.uri(e.ID), Props: sh.props(e.Props), Refs: sh.refs(e.Refs), Deleted: e.Deleted}
}

// c15GenEnts draws n entities (distinct ids unless repeats are asked for).
// sh != nil: identifiers are re-shaped (consistently within the case).
func c15GenEnts(r *rand.Rand, v *gen.Vocab, n int, sh *c15Shaper) []model.Ent {
	var ents []model.Ent
	for i := 0; i < n; i++ {
		id := v.IDs[r.Intn(len(v.IDs))]
		if r.Intn(8) == 0 {
			id = c15NsS + fmt.Sprintf("t%d", r.Intn(4))
		}
		e := gen.Entity(r, v, id)
		if r.Intn(10) == 0 { // a reference into the https namespace
			e.Refs[v.Preds[0]] = c15NsS + "t0"
		}
		switch r.Intn(12) {
		case 0: // a nested entity that has references but no properties
			e.Props[v.Props[r.Intn(len(v.Props))]] = map[string]any{"id": v.IDs[r.Intn(len(v.IDs))] + "-sub",
				"props": map[string]any{}, "refs": map[string]any{v.Preds[r.Intn(len(v.Preds))]: v.IDs[r.Intn(len(v.IDs))]}}
		case 1: // a nested entity that is nothing but an id (also inside an array)
			ne := map[string]any{"id": v.IDs[r.Intn(len(v.IDs))] + "-sub", "props": map[string]any{}, "refs": map[string]any{}}
			if r.Intn(2) == 0 {
				e.Props[v.Props[r.Intn(len(v.Props))]] = ne
			} else {
				e.Props[v.Props[r.Intn(len(v.Props))]] = []any{"x", ne}
			}
		}
		ents = append(ents, model.NormEnt(sh.ent(e)))
	}
	return ents
}

// c15IDShapes names the identifier shapes present in the entities (for tags / counters).
func c15IDShapes(ents []model.Ent) map[string]bool {
	out := map[string]bool{}
	see := func(u string) {
		for _, ns := range c15KnownNs {
			if !strings.HasPrefix(u, ns) {
				continue
			}
			l := u[len(ns):]
			for _, c := range []struct{ ch, name string }{{":", "colon"}, {"/", "slash"}, {"#", "hash"}, {"%", "percent"}, {"æ", "unicode"}, {"~", "punct"}} {
				if strings.Contains(l, c.ch) {
					out[c.name] = true
				}
			}
			return
		}
	}
	var walkV func(v any)
	var walkRefs func(m map[string]any)
	walkRefs = func(m map[string]any) {
		for k, v := range m {
			see(k)
			switch t := v.(type) {
			case string:
				see(t)
			case []any:
				for _, x := range t {
					if s, ok := x.(string); ok {
						see(s)
					}
				}
			}
		}
	}
	walkV = func(v any) {
		switch t := v.(type) {
		case map[string]any:
			if id, ok := t["id"].(string); ok {
				see(id)
				if p, ok := t["props"].(map[string]any); ok {
					for k, x := range p {
						see(k)
						walkV(x)
					}
				}
				if p, ok := t["refs"].(map[string]any); ok {
					walkRefs(p)
				}
			}
		case []any:
			for _, x := range t {
				walkV(x)
			}
		}
	}
	for _, e := range ents {
		see(e.ID)
		for k, v := range e.Props {
			see(k)
			walkV(v)
		}
		walkRefs(e.Refs)
	}
	return out
}

// c15HasOmittable: some entity (top-level or nested) has no properties or no references,
// i.e. the key-omission dimension has something to omit.
func c15HasOmittable(ents []model.Ent) bool {
	found := false
	var walkV func(v any)
	walkV = func(v any) {
		switch t := v.(type) {
		case map[string]any:
			if _, ok := t["id"].(string); ok {
				p, _ := t["props"].(map[string]any)
				rf, _ := t["refs"].(map[string]any)
				if len(p) == 0 || len(rf) == 0 {
					found = true
				}
				for _, x := range p {
					walkV(x)
				}
			}
		case []any:
			for _, x := range t {
				walkV(x)
			}
		}
	}
	for _, e := range ents {
		if len(e.Props) == 0 || len(e.Refs) == 0 {
			found = true
		}
		for _, v := range e.Props {
			walkV(v)
		}
	}
	return found
}

func c15HasShape(ents []model.Ent) (nested, arrays bool) {
	var walk func(v any)
	walk = func(v any) {
		switch t := v.(type) {
		case map[string]any:
			nested = true
		case []any:
			arrays = true
			for _, x := range t {
				walk(x)
			}
		}
	}
	for _, e := range ents {
		for _, v := range e.Props {
			walk(v)
		}
		for _, v := range e.Refs {
			if _, ok := v.([]any); ok {
				arrays = true
			}
		}
	}
	return
}

// ---------- mutations

const (
	c15Invalid = "invalid" // definitely not a valid payload: an error is demanded
	c15Unspec  = "unspec"  // outside the valid set but not clearly malformed (null, big ints, unknown keys ...): only "no panic" is demanded
)

// C15Mut is one mutated input.
type C15Mut struct {
	Kind    string `json:"kind"`    // class suffix, e.g. deleted-type
	Detail  string `json:"detail"`  // the replacement that was made
	Verdict string `json:"verdict"` // invalid | unspec
	// Elem: number of well-formed entity elements that precede the malformed one in
	// document order (stream); -1: unknown / not applicable
	Elem int `json:"elem"`
	// Slack: with byte noise it is ambiguous whether the element containing the first changed
	// byte is "the malformed one" or a (still complete) element preceding it; one entity more
	// than Elem may then appear, and its content is not judged.
	Slack int    `json:"slack,omitempty"`
	Bytes []byte `json:"-"`
}

var c15WrongID = []string{`5`, `true`, `["x"]`, `{"a":"b"}`, `1.5`}
var c15WrongBool = []string{`"false"`, `"true"`, `0`, `1`, `[true]`, `{"a":true}`}
var c15WrongNum = []string{`"yesterday"`, `"12"`, `true`, `[1]`, `{"a":1}`}
var c15WrongObj = []string{`5`, `"x"`, `true`, `[1,2]`, `[]`}
var c15WrongRef = []string{`5`, `true`, `{"x":"y"}`, `[["rr:r0"]]`, `[5]`, `{"x":5}`, `1.5`}
var c15WrongNs = []string{`"oops"`, `5`, `["a"]`, `true`}
var c15WrongExp = []string{`5`, `true`, `{"a":"b"}`, `["x"]`}
var c15WrongElem = []string{`5`, `"x"`, `true`, `[]`, `[1]`}

func pick(r *rand.Rand, l []string) string { return l[r.Intn(len(l))] }

// c15EntityTargets lists the entity objects of the document (top-level and
// nested ones) with the index of the top-level element they live in.
type c15Target struct {
	obj    *c15J
	elem   int // entities before the top-level element (stream) / overall (txn)
	nested bool
}

func c15CollectNested(v *c15J, elem int, out *[]c15Target) {
	switch v.K {
	case 'o':
		if v.get("id") != nil && (v.get("props") != nil || v.get("refs") != nil) {
			*out = append(*out, c15Target{v, elem, true})
			if p := v.get("props"); p != nil && p.K == 'o' {
				for _, x := range p.Vals {
					c15CollectNested(x, elem, out)
				}
			}
		}
	case 'a':
		for _, x := range v.Vals {
			c15CollectNested(x, elem, out)
		}
	}
}

func c15Targets(doc *c15J, kind string) []c15Target {
	var ts []c15Target
	addTop := func(o *c15J, elem int) {
		ts = append(ts, c15Target{o, elem, false})
		if p := o.get("props"); p != nil && p.K == 'o' {
			for _, x := range p.Vals {
				c15CollectNested(x, elem, &ts)
			}
		}
	}
	if kind == "txn" {
		n := 0
		for i, k := range doc.Keys {
			if k == "@context" {
				continue
			}
			for _, o := range doc.Vals[i].Vals {
				addTop(o, n)
				n++
			}
		}
		return ts
	}
	for i, o := range doc.Vals {
		if i == 0 {
			continue
		}
		addTop(o, i-1)
	}
	return ts
}

// c15Mutate applies ONE grammar mutation drawn from r to a copy of the document.
func c15Mutate(r *rand.Rand, base *c15J, kind string) C15Mut {
	for tries := 0; tries < 20; tries++ {
		doc := base.clone()
		m, ok := c15MutateOnce(r, doc, kind, base)
		if ok {
			return m
		}
	}
	b := base.bytes()
	return C15Mut{Kind: "truncated", Detail: "cut at 1", Verdict: c15Invalid, Elem: 0, Bytes: b[:1]}
}

func c15MutateOnce(r *rand.Rand, doc *c15J, kind string, base *c15J) (C15Mut, bool) {
	ts := c15Targets(doc, kind)
	done := func(k, detail, verdict string, elem int) (C15Mut, bool) {
		return C15Mut{Kind: k, Detail: detail, Verdict: verdict, Elem: elem, Bytes: doc.bytes()}, true
	}
	pfx := ""
	if kind == "txn" {
		pfx = "txn-"
	}
	var nsObj *c15J
	if kind == "txn" {
		if c := doc.get("@context"); c != nil {
			nsObj = c.get("namespaces")
		}
	} else if len(doc.Vals) > 0 {
		nsObj = doc.Vals[0].get("namespaces")
	}
	// entity-level mutations need a target
	entityLevel := func(t c15Target) (C15Mut, bool) {
		o := t.obj
		n := ""
		if t.nested {
			n = "nested-"
		}
		switch r.Intn(22) {
		case 0, 1:
			w := pick(r, c15WrongID)
			o.set("id", c15Lit(w))
			return done(n+"id-type", `"id":`+w, c15Invalid, t.elem)
		case 2:
			o.set("id", c15Lit("null"))
			return done(n+"id-null", `"id":null`, c15Unspec, t.elem)
		case 3:
			o.del("id")
			return done(n+"id-missing", "id removed", c15Unspec, t.elem)
		case 4, 5:
			w := pick(r, c15WrongBool)
			o.set("deleted", c15Lit(w))
			return done(n+"deleted-type", `"deleted":`+w, c15Invalid, t.elem)
		case 6:
			o.set("deleted", c15Lit("null"))
			return done(n+"deleted-null", `"deleted":null`, c15Unspec, t.elem)
		case 7, 8:
			w := pick(r, c15WrongNum)
			o.set("recorded", c15Lit(w))
			return done(n+"recorded-type", `"recorded":`+w, c15Invalid, t.elem)
		case 9:
			w := pick(r, []string{"null", "-5", "1.5", "1e30"})
			o.set("recorded", c15Lit(w))
			if w == "null" {
				return done(n+"recorded-null", `"recorded":null`, c15Unspec, t.elem)
			}
			return done(n+"recorded-odd-number", `"recorded":`+w, c15Unspec, t.elem)
		case 10:
			w := pick(r, c15WrongObj)
			o.set("props", c15Lit(w))
			return done(n+"props-type", `"props":`+w, c15Invalid, t.elem)
		case 11:
			w := pick(r, append([]string{`["rr:r0"]`}, c15WrongObj[:3]...))
			o.set("refs", c15Lit(w))
			return done(n+"refs-type", `"refs":`+w, c15Invalid, t.elem)
		case 12, 13:
			refs := o.get("refs")
			if refs == nil || refs.K != 'o' {
				return C15Mut{}, false
			}
			w := pick(r, c15WrongRef)
			if len(refs.Vals) == 0 {
				refs.add(c15SomeKey(doc, kind, "rr:r0", gen.NsR+"r0"), c15Lit(w))
			} else {
				refs.Vals[r.Intn(len(refs.Vals))] = c15Lit(w)
			}
			return done(n+"ref-value-type", "ref value "+w, c15Invalid, t.elem)
		case 14:
			refs := o.get("refs")
			if refs == nil || refs.K != 'o' {
				return C15Mut{}, false
			}
			w := pick(r, []string{"null", "[null]"})
			refs.add(c15SomeKey(doc, kind, "rr:r1", gen.NsR+"r1"), c15Lit(w))
			return done(n+"ref-value-null", "ref value "+w, c15Unspec, t.elem)
		case 15:
			props := o.get("props")
			if props == nil || props.K != 'o' {
				return C15Mut{}, false
			}
			w := pick(r, []string{"null", "[null]", "[1,null,2]", "9223372036854775808", "123456789012345678901234567890", "1e400", `{"plain":"object"}`, `{"a":{"b":[1,{"c":null}]}}`})
			props.add(c15SomeKey(doc, kind, "pp:k9", gen.NsP+"k9"), c15Lit(w))
			return done(n+"prop-value-odd", "prop value "+w, c15Unspec, t.elem)
		case 16:
			w := pick(r, []string{`"zz:undeclared"`, `""`, `":"`, `"a:b:c"`, `"http://"`, `"http://nopath"`})
			switch r.Intn(3) {
			case 0:
				o.set("id", c15Lit(w))
				return done(n+"id-unresolvable", `"id":`+w, c15Unspec, t.elem)
			case 1:
				if p := o.get("props"); p != nil && p.K == 'o' {
					var s string
					_ = json.Unmarshal([]byte(w), &s)
					p.add(s, c15Lit(`"v"`))
					return done(n+"prop-key-unresolvable", "prop key "+w, c15Unspec, t.elem)
				}
			default:
				if p := o.get("refs"); p != nil && p.K == 'o' {
					p.add(c15SomeKey(doc, kind, "rr:r2", gen.NsR+"r2"), c15Lit(w))
					return done(n+"ref-unresolvable", "ref value "+w, c15Unspec, t.elem)
				}
			}
			return C15Mut{}, false
		case 17:
			w := pick(r, []string{`1`, `"s"`, `{"a":1}`, `[1,2]`, `{"id":"x","props":{}}`, `null`})
			o.add("extra", c15Lit(w))
			if r.Intn(2) == 0 && len(o.Keys) > 1 { // move it to the front
				last := len(o.Keys) - 1
				o.Keys = append([]string{o.Keys[last]}, o.Keys[:last]...)
				o.Vals = append([]*c15J{o.Vals[last]}, o.Vals[:last]...)
			}
			return done(n+"unknown-key", `"extra":`+w, c15Unspec, t.elem)
		case 18:
			k := pick(r, []string{"id", "props", "refs", "deleted"})
			if v := o.get(k); v != nil {
				o.add(k, v.clone())
				return done(n+"duplicate-key", "key "+k+" twice", c15Unspec, t.elem)
			}
			return C15Mut{}, false
		case 19:
			o.add("token", c15Lit(pick(r, []string{`"abc"`, `5`})))
			return done(n+"token-on-entity", "token key on a plain entity", c15Unspec, t.elem)
		case 20:
			props := o.get("props")
			if props == nil || props.K != 'o' {
				return C15Mut{}, false
			}
			depth := 50 + r.Intn(2000)
			props.add(c15SomeKey(doc, kind, "pp:k8", gen.NsP+"k8"), c15Lit(strings.Repeat("[", depth)+"1"+strings.Repeat("]", depth)))
			return done(n+"deep-array", fmt.Sprintf("array nested %d deep", depth), c15Unspec, t.elem)
		default:
			props := o.get("props")
			if props == nil || props.K != 'o' || len(props.Vals) == 0 {
				return C15Mut{}, false
			}
			// a nested entity with a wrongly typed field
			w := pick(r, []string{`{"id":5,"props":{}}`, `{"id":"x:y","deleted":"no","props":{}}`, `{"id":"x:y","refs":5}`, `[{"id":true,"props":{}}]`})
			props.Vals[r.Intn(len(props.Vals))] = c15Lit(w)
			return done("nested-entity-malformed", "prop value "+w, c15Invalid, t.elem)
		}
	}
	nEnt := 0
	for _, t := range ts {
		if !t.nested {
			nEnt++
		}
	}
	c := r.Intn(100)
	switch {
	case c < 55 && len(ts) > 0:
		return entityLevel(ts[r.Intn(len(ts))])
	case c < 60: // element-level
		w := pick(r, c15WrongElem)
		if kind == "txn" {
			for i, k := range doc.Keys {
				if k != "@context" {
					before := 0
					for j := 1; j < i; j++ {
						before += len(doc.Vals[j].Vals)
					}
					pos := r.Intn(len(doc.Vals[i].Vals) + 1)
					doc.Vals[i].Vals = append(doc.Vals[i].Vals[:pos:pos], append([]*c15J{c15Lit(w)}, doc.Vals[i].Vals[pos:]...)...)
					return done("txn-element-type", "element "+w, c15Invalid, before+pos)
				}
			}
			return C15Mut{}, false
		}
		pos := 1 + r.Intn(len(doc.Vals))
		doc.Vals = append(doc.Vals[:pos:pos], append([]*c15J{c15Lit(w)}, doc.Vals[pos:]...)...)
		return done("element-type", "element "+w, c15Invalid, pos-1)
	case c < 64: // namespaces
		if nsObj == nil {
			return C15Mut{}, false
		}
		holder := doc.get("@context")
		if kind != "txn" {
			holder = doc.Vals[0]
		}
		switch r.Intn(3) {
		case 0:
			w := pick(r, c15WrongNs)
			holder.set("namespaces", c15Lit(w))
			return done(pfx+"namespaces-type", `"namespaces":`+w, c15Invalid, 0)
		case 1:
			holder.del("namespaces")
			return done(pfx+"namespaces-missing", "namespaces removed", c15Unspec, 0)
		default:
			holder.set("namespaces", c15Lit("null"))
			return done(pfx+"namespaces-null", `"namespaces":null`, c15Unspec, 0)
		}
	case c < 68: // expansion
		if nsObj == nil || nsObj.K != 'o' {
			return C15Mut{}, false
		}
		w := pick(r, c15WrongExp)
		verdict := c15Invalid
		if r.Intn(4) == 0 {
			w, verdict = "null", c15Unspec
		}
		if len(nsObj.Vals) == 0 || r.Intn(2) == 0 {
			nsObj.add("zz", c15Lit(w))
		} else {
			nsObj.Vals[r.Intn(len(nsObj.Vals))] = c15Lit(w)
		}
		k := pfx + "expansion-type"
		if verdict == c15Unspec {
			k = pfx + "expansion-null"
		}
		return done(k, "expansion "+w, verdict, 0)
	case c < 72: // context
		if kind == "txn" {
			switch r.Intn(3) {
			case 0:
				doc.del("@context")
				return done("txn-context-missing", "@context removed", c15Unspec, 0)
			case 1:
				w := pick(r, []string{`5`, `"x"`, `[1]`, `true`})
				doc.set("@context", c15Lit(w))
				return done("txn-context-type", `"@context":`+w, c15Invalid, 0)
			default:
				if len(doc.Keys) < 2 {
					return C15Mut{}, false
				}
				i := 1 + r.Intn(len(doc.Keys)-1)
				w := pick(r, []string{`5`, `"x"`, `true`, `{"id":"a:b","props":{}}`})
				before := 0
				for j := 1; j < i; j++ {
					before += len(doc.Vals[j].Vals)
				}
				doc.Vals[i] = c15Lit(w)
				return done("txn-dataset-value-type", "dataset value "+w, c15Invalid, before)
			}
		}
		switch r.Intn(3) {
		case 0:
			doc.Vals = doc.Vals[1:]
			return done("context-missing", "context element removed", c15Invalid, 0)
		case 1:
			w := pick(r, []string{`5`, `"x"`, `[1]`, `true`})
			doc.Vals[0] = c15Lit(w)
			return done("context-type", "context element "+w, c15Invalid, 0)
		default:
			w := pick(r, []string{`"@ctx"`, `5`, `null`})
			doc.Vals[0].set("id", c15Lit(w))
			return done("context-id-wrong", `context "id":`+w, c15Unspec, 0)
		}
	case c < 75: // top-level type
		var b []byte
		inner := doc.bytes()
		var detail string
		switch r.Intn(4) {
		case 0:
			if kind == "txn" {
				b, detail = append(append([]byte("["), inner...), ']'), "transaction wrapped in an array"
			} else {
				b, detail = append(append([]byte(`{"entities":`), inner...), '}'), "array wrapped in an object"
			}
		case 1:
			b, detail = []byte(`"just a string"`), "a JSON string"
		case 2:
			b, detail = []byte(`42`), "a JSON number"
		default:
			b, detail = []byte(`null`), "JSON null"
		}
		return C15Mut{Kind: pfx + "toplevel-type", Detail: detail, Verdict: c15Invalid, Elem: 0, Bytes: b}, true
	case c < 83: // truncation
		b := doc.bytes()
		if len(b) < 3 {
			return C15Mut{}, false
		}
		cut := 1 + r.Intn(len(b)-1)
		if r.Intn(6) == 0 {
			cut = len(b) - 1
		}
		return C15Mut{Kind: pfx + "truncated", Detail: fmt.Sprintf("cut at byte %d of %d", cut, len(b)), Verdict: c15Invalid, Elem: c15ElemsBefore(base, kind, cut), Bytes: b[:cut]}, true
	case c < 85:
		return C15Mut{Kind: pfx + "empty-body", Detail: "empty body", Verdict: c15Invalid, Elem: 0, Bytes: []byte{}}, true
	case c < 89: // trailing garbage after a complete document
		b := doc.bytes()
		w := pick(r, []string{`xyz`, `]`, `}`, `,{"id":"a:b"}`, ` [{"id":"@context","namespaces":{}}]`, `{"id":"@context","namespaces":{}}`, "\x00", `"`})
		return C15Mut{Kind: pfx + "trailing-garbage", Detail: "document followed by " + w, Verdict: c15Invalid, Elem: nEnt, Bytes: append(b, []byte(w)...)}, true
	default: // byte noise
		b := doc.bytes()
		if len(b) < 4 {
			return C15Mut{}, false
		}
		pos := r.Intn(len(b))
		var nb []byte
		var detail string
		switch r.Intn(5) {
		case 0:
			nb = append(append(append([]byte{}, b[:pos]...), byte(r.Intn(256))), b[pos+1:]...)
			detail = fmt.Sprintf("byte %d replaced", pos)
		case 1:
			nb = append(append([]byte{}, b[:pos]...), b[pos+1:]...)
			detail = fmt.Sprintf("byte %d deleted", pos)
		case 2:
			const insSet = `{}[]",:0nt\ `
			ins := []byte{insSet[r.Intn(len(insSet))]}
			nb = append(append(append([]byte{}, b[:pos]...), ins...), b[pos:]...)
			detail = fmt.Sprintf("byte %q inserted at %d", ins, pos)
		case 3:
			end := pos + 1 + r.Intn(12)
			if end > len(b) {
				end = len(b)
			}
			nb = append(append(append([]byte{}, b[:end]...), b[pos:end]...), b[end:]...)
			detail = fmt.Sprintf("bytes %d..%d duplicated", pos, end)
		default:
			end := pos + 1 + r.Intn(12)
			if end > len(b) {
				end = len(b)
			}
			nb = append(append([]byte{}, b[:pos]...), b[end:]...)
			detail = fmt.Sprintf("bytes %d..%d removed", pos, end)
		}
		if json.Valid(nb) {
			// still JSON: it may or may not be a valid payload; only "no panic" is demanded
			k := pfx + "noise-still-json"
			if d := c15Diagnose(nb, kind); d != "" {
				k = d // name the class after the field the noise happened to break
				detail += " -> " + d
			}
			return C15Mut{Kind: k, Detail: detail, Verdict: c15Unspec, Elem: -1, Bytes: nb}, true
		}
		return C15Mut{Kind: pfx + "noise-not-json", Detail: detail, Verdict: c15Invalid, Elem: c15ElemsBefore(base, kind, firstDiff(b, nb)), Slack: 1, Bytes: nb}, true
	}
}

// c15SomeKey gives a property / reference key that resolves in the document's context.
func c15SomeKey(doc *c15J, kind, curie, uri string) string {
	var ns *c15J
	if kind == "txn" {
		if c := doc.get("@context"); c != nil {
			ns = c.get("namespaces")
		}
	} else if len(doc.Vals) > 0 && doc.Vals[0].K == 'o' {
		ns = doc.Vals[0].get("namespaces")
	}
	if ns != nil && ns.K == 'o' && ns.get(strings.SplitN(curie, ":", 2)[0]) != nil {
		return curie
	}
	return uri
}

// c15ElemsBefore: how many top-level entity elements of the (unmutated)
// document end strictly before byte offset off.
func c15ElemsBefore(base *c15J, kind string, off int) int {
	n := 0
	var b bytes.Buffer
	if kind == "txn" {
		b.WriteByte('{')
		for i, v := range base.Vals {
			if i > 0 {
				b.WriteByte(',')
			}
			kb, _ := json.Marshal(base.Keys[i])
			b.Write(kb)
			b.WriteByte(':')
			if base.Keys[i] == "@context" || v.K != 'a' {
				v.write(&b)
				continue
			}
			b.WriteByte('[')
			for j, e := range v.Vals {
				if j > 0 {
					b.WriteByte(',')
				}
				e.write(&b)
				if b.Len() <= off {
					n++
				}
			}
			b.WriteByte(']')
		}
		return n
	}
	b.WriteByte('[')
	for i, v := range base.Vals {
		if i > 0 {
			b.WriteByte(',')
		}
		v.write(&b)
		if i > 0 && b.Len() <= off {
			n++
		}
	}
	return n
}

// firstDiff: offset of the first byte in which the two inputs differ.
func firstDiff(a, b []byte) int {
	n := len(a)
	if len(b) < n {
		n = len(b)
	}
	for i := 0; i < n; i++ {
		if a[i] != b[i] {
			return i
		}
	}
	return n
}

// ---------- reference diagnosis of a JSON document that is not a valid payload

// c15Diagnose names the first wrongly typed / missing field of a JSON document
// in the vocabulary of the mutation kinds ("" = nothing found). Used to give
// noise-derived inputs the class of the field they happened to break.
func c15Diagnose(b []byte, kind string) string {
	var v any
	dec := json.NewDecoder(bytes.NewReader(b))
	dec.UseNumber()
	if err := dec.Decode(&v); err != nil {
		return ""
	}
	ctxDiag := func(c any, pfx string) string {
		m, ok := c.(map[string]any)
		if !ok {
			return pfx + "context-type"
		}
		ns, has := m["namespaces"]
		switch t := ns.(type) {
		case nil:
			if !has {
				return pfx + "namespaces-missing"
			}
			return pfx + "namespaces-null"
		case map[string]any:
			for _, e := range t {
				switch e.(type) {
				case string:
				case nil:
					return pfx + "expansion-null"
				default:
					return pfx + "expansion-type"
				}
			}
		default:
			return pfx + "namespaces-type"
		}
		return ""
	}
	var entDiag func(e any, pfx string) string
	entDiag = func(e any, pfx string) string {
		m, ok := e.(map[string]any)
		if !ok {
			return "element-type"
		}
		idMissing := false
		if id, has := m["id"]; !has {
			idMissing = true // reported last: a wrongly typed field is the more specific diagnosis
		} else if id == nil {
			return pfx + "id-null"
		} else if _, ok := id.(string); !ok {
			return pfx + "id-type"
		}
		if d, has := m["deleted"]; has {
			if d == nil {
				return pfx + "deleted-null"
			}
			if _, ok := d.(bool); !ok {
				return pfx + "deleted-type"
			}
		}
		if d, has := m["recorded"]; has {
			if d == nil {
				return pfx + "recorded-null"
			}
			if _, ok := d.(json.Number); !ok {
				return pfx + "recorded-type"
			}
		}
		if p, has := m["props"]; has {
			pm, ok := p.(map[string]any)
			if !ok {
				return pfx + "props-type"
			}
			var walk func(x any) string
			walk = func(x any) string {
				switch t := x.(type) {
				case map[string]any:
					if _, ok := t["id"]; ok {
						return entDiag(t, "nested-")
					}
				case []any:
					for _, y := range t {
						if d := walk(y); d != "" {
							return d
						}
					}
				}
				return ""
			}
			for _, x := range pm {
				if d := walk(x); d != "" {
					return d
				}
			}
		}
		if p, has := m["refs"]; has {
			rm, ok := p.(map[string]any)
			if !ok {
				return pfx + "refs-type"
			}
			for _, x := range rm {
				switch t := x.(type) {
				case string:
				case []any:
					for _, y := range t {
						if _, ok := y.(string); !ok {
							return pfx + "ref-value-type"
						}
					}
				default:
					return pfx + "ref-value-type"
				}
			}
		}
		if idMissing {
			return pfx + "id-missing"
		}
		return ""
	}
	if kind == "txn" {
		m, ok := v.(map[string]any)
		if !ok {
			return "txn-toplevel-type"
		}
		c, has := m["@context"]
		if !has {
			return "txn-context-missing"
		}
		if d := ctxDiag(c, "txn-"); d != "" {
			return d
		}
		for k, x := range m {
			if k == "@context" {
				continue
			}
			a, ok := x.([]any)
			if !ok {
				return "txn-dataset-value-type"
			}
			for _, e := range a {
				if d := entDiag(e, ""); d != "" {
					if d == "element-type" {
						d = "txn-element-type"
					}
					return d
				}
			}
		}
		return ""
	}
	a, ok := v.([]any)
	if !ok {
		return "toplevel-type"
	}
	if len(a) == 0 {
		return "context-missing"
	}
	if m, ok := a[0].(map[string]any); ok && m["id"] != "@context" {
		return "context-id-wrong"
	}
	if d := ctxDiag(a[0], ""); d != "" {
		return d
	}
	for _, e := range a[1:] {
		if d := entDiag(e, ""); d != "" {
			return d
		}
	}
	return ""
}
