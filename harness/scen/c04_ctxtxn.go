package scen

// ctxtxn: transactions executed through a contextual store (the path a JavaScript transform's
// ExecuteTransaction takes). The identifiers a transaction introduces must be committed with it:
// afterwards every entity of the transaction is readable, and after a kill right after the call
// returned the cross-index invariant holds (C04; also C01's "no accepted write is dropped").

import (
	"bytes"
	"fmt"
	"math/rand"
	"os"

	"github.com/mimiro-io/datahub/internal/server"
	"github.com/mimiro-io/datahub/internal/verif/gen"
	"github.com/mimiro-io/datahub/internal/verif/hub"
	"github.com/mimiro-io/datahub/internal/verif/model"
	"github.com/mimiro-io/datahub/internal/verif/obs"
)

func init() { Register("ctxtxn", ctxTxn) }

func ctxTxn(ctx *Ctx) error {
	prop := ctx.Arg("prop", "C04")
	r := rand.New(rand.NewSource(ctx.Seed))
	for i := 0; i < ctx.Cases; i++ {
		n := 1 + r.Intn(3)
		fresh := r.Intn(1 << 30)
		c := map[string]any{"kind": "contextual-store-transaction", "variant": i % 2, "new_ids": n, "salt": fresh, "reopen": i%4 < 2}
		id := outHash(c)
		ctx.Out.Case(id, ctx.Seed, c, true, []string{"contextual-store-txn"})
		dir := ctx.NewDir("ctxtxn")
		core := hub.OpenCore(dir)
		core.Dsm.CreateDataset("da", nil)
		core.Dsm.CreateDataset("db", nil)
		cs := server.NewContextualStore(core.Store)
		t := map[string][]model.Ent{}
		var uris []string
		for j := 0; j < n; j++ {
			u := fmt.Sprintf("%snew-%d-%d", gen.NsA, fresh, j)
			uris = append(uris, u)
			e := model.Ent{ID: u, Props: map[string]any{fmt.Sprintf("%sk-%d", gen.NsP, fresh): "v"}, Refs: map[string]any{fmt.Sprintf("%sr-%d", gen.NsR, fresh): uris[0]}}
			t["da"] = append(t["da"], e)
			t["db"] = append(t["db"], e)
		}
		variant := []string{"new-entities", "new-reference-on-existing-entities"}[i%2]
		var err error
		if variant == "new-reference-on-existing-entities" {
			// the entities exist already (stored the ordinary way); the contextual-store transaction
			// only adds a reference with a brand-new predicate and target, i.e. introduces identifiers
			// without introducing entities
			for _, d := range []string{"da", "db"} {
				var base []model.Ent
				for _, e := range t[d] {
					base = append(base, model.Ent{ID: e.ID, Props: e.Props, Refs: map[string]any{}})
				}
				if err = StoreBatch(core, d, base, false); err != nil {
					break
				}
			}
		}
		if err == nil {
			esp := server.NewEntityStreamParser(cs)
			var txn *server.Transaction
			txn, err = esp.ParseTransaction(bytes.NewReader(gen.TxnPayload(t)))
			if err == nil {
				err = cs.ExecuteTransaction(txn)
			}
		}
		if err != nil {
			ctx.Out.Viol(id, prop, "contextual-txn-error", err.Error(), nil, nil, nil)
			core.Close()
			os.RemoveAll(dir)
			continue
		}
		ctx.Out.Stat("ctxtxn_transactions", 1)
		// acknowledged: every entity must be readable now, through the main store
		check := func(c *hub.Core, when string) bool {
			for _, u := range uris {
				rec, err := obs.Lookup(c.Store, u, []string{"da"})
				if err == nil && rec != nil {
					pred := fmt.Sprintf("%sr-%d", gen.NsR, fresh)
					for _, p := range []string{pred, "*"} {
						rel, rerr := obs.Related(c.Store, u, p, false, []string{"da"}, 0)
						if rerr != nil || !rel.Set()[model.Pair{Pred: pred, Other: uris[0]}] {
							ctx.Out.Viol(id, prop, "contextual-txn-ids-uncommitted", fmt.Sprintf("%s (%s): the reference %s -> %s written by an acknowledged transaction through a contextual store is not returned by the relation query with predicate %s: %v %v", when, variant, u, uris[0], p, model.PairList(rel.Set()), rerr), "returned", nil, nil)
							return false
						}
					}
				}
				if err != nil || rec == nil || rec.Deleted || len(rec.Props) == 0 {
					ctx.Out.Viol(id, prop, "contextual-txn-ids-uncommitted", fmt.Sprintf("%s: entity %s written by an acknowledged transaction through a contextual store is not readable (identifiers of the transaction were not committed with it): %v %v", when, u, rec, err), "readable", rec, nil)
					return false
				}
			}
			return true
		}
		ok := check(core, "right after ExecuteTransaction returned")
		if ok && i%4 < 2 {
			// abandon the store without any further write (what a kill would leave) and reopen
			_ = core.Store.VerifDB().Close()
			c2, err := hub.TryOpenCore(dir)
			if err != nil {
				ctx.Out.Viol(id, prop, "reopen-failed", firstLine(err.Error()), nil, nil, nil)
			} else {
				if check(c2, "after reopening") {
					if msg := crossIndexInvariant(c2); msg != "" {
						ctx.Out.Viol(id, prop, "cross-index-"+firstColon(msg), "after a contextual-store transaction and reopen: "+msg, nil, nil, nil)
					}
				}
				c2.Close()
			}
		} else {
			core.Close()
		}
		os.RemoveAll(dir)
	}
	return nil
}

func firstColon(s string) string {
	for i := 0; i < len(s); i++ {
		if s[i] == ':' {
			return s[:i]
		}
	}
	return s
}
