package scen

// c16reuse — the SAME token string presented more than once.
//
// The statement judges every request: "a protected route answering anything but 401 for an
// ... expired ... token" and "served although no ACL entry grants (path, needed action)".
// Nothing in it lets a decision taken for an earlier request stand in for a later one, so
//   (1) a correctly signed token that was accepted while valid must be refused once it has
//       expired (every token source: node key with admin role, node key for a client
//       subject, external issuer from the well-known key set with admin role / for a
//       client subject), on every route it was used on;
//   (2) the same access token re-presented after the client's ACL was narrowed, got a deny
//       entry, was deleted, or after the client was unregistered must be judged against
//       the ACL in force at that request.
// JWT expiry is wall-clock by nature: the harness mints tokens with 2 s (4 s, 8 s when the
// machine is too slow for a first use) of life, uses them, sleeps until exp + 1.5 s has
// passed and uses them again. The verdict is a function of the recorded statuses of the
// second use; the recorded instants only establish "issued after exp + margin".

import (
	"encoding/base64"
	"encoding/json"
	"fmt"
	"math/big"
	"net/http"
	"net/http/httptest"
	"os"
	"sort"
	"time"

	"github.com/golang-jwt/jwt/v4"

	"github.com/mimiro-io/datahub/internal/conf"
	"github.com/mimiro-io/datahub/internal/security"
)

func init() {
	Register("c16reuse", c16Reuse)
}

const (
	c16IdpIssuer   = "https://idp.verif.example/"
	c16IdpAudience = "https://hub.verif.example/api"
	c16IdpKid      = "vk1"
)

// c16Jwks serves the public part of the external issuer's key as a JWK set.
func c16Jwks(keys *c16Keys) *httptest.Server {
	pub := keys.foreign.PublicKey
	set := map[string]any{"keys": []any{map[string]any{
		"kty": "RSA", "kid": c16IdpKid, "use": "sig", "alg": "RS256",
		"n": base64.RawURLEncoding.EncodeToString(pub.N.Bytes()),
		"e": base64.RawURLEncoding.EncodeToString(big.NewInt(int64(pub.E)).Bytes()),
	}}}
	b, _ := json.Marshal(set)
	return httptest.NewServer(http.HandlerFunc(func(w http.ResponseWriter, r *http.Request) {
		w.Header().Set("Content-Type", "application/json")
		_, _ = w.Write(b)
	}))
}

// c16Source: where a token comes from.
type c16Source struct {
	Name  string
	Admin bool // carries the admin role (otherwise: subject = the registered client, its ACL decides)
	Idp   bool // signed by the external issuer (well-known key set) instead of the node key
}

var c16Sources = []c16Source{
	{"node-admin", true, false}, {"node-client", false, false},
	{"wellknown-admin", true, true}, {"wellknown-client", false, true},
}

func c16MintSource(keys *c16Keys, src c16Source, exp time.Time, jti string) (string, error) {
	claims := security.CustomClaims{}
	claims.RegisteredClaims = jwt.RegisteredClaims{ExpiresAt: jwt.NewNumericDate(exp), ID: jti}
	if src.Admin {
		claims.Roles = []string{"admin"}
		claims.Subject = c16AdminUser
	} else {
		claims.Subject = c16Client
	}
	tok := jwt.NewWithClaims(jwt.SigningMethodRS256, claims)
	var key any = keys.node
	if src.Idp {
		claims.Issuer, claims.Audience = c16IdpIssuer, jwt.ClaimStrings{c16IdpAudience}
		tok = jwt.NewWithClaims(jwt.SigningMethodRS256, claims)
		tok.Header["kid"] = c16IdpKid
		key = keys.foreign
	} else {
		claims.Issuer, claims.Audience = "node:"+c16NodeID, jwt.ClaimStrings{"node:" + c16NodeID}
		tok = jwt.NewWithClaims(jwt.SigningMethodRS256, claims)
	}
	return tok.SignedString(key)
}

func c16NewHubWith(ctx *Ctx, keys *c16Keys, tweak func(*conf.Config)) (*c16Hub, error) {
	dir := ctx.NewDir("c16hub")
	app, err := c16BootWith(ctx, dir, true, tweak)
	if err != nil {
		os.RemoveAll(dir)
		return nil, err
	}
	h := &c16Hub{ctx: ctx, app: app, keys: keys, dir: dir}
	if err := h.ensureDatasets(true); err != nil {
		h.Close()
		return nil, err
	}
	if err := h.registerClient(c16Client); err != nil {
		h.Close()
		return nil, err
	}
	ctx.Out.Stat("hub_boots", 1)
	return h, nil
}

func c16Reuse(ctx *Ctx) error {
	keys, err := c16GetKeys(ctx)
	if err != nil {
		return err
	}
	srv := c16Jwks(keys)
	defer srv.Close()
	h, err := c16NewHubWith(ctx, keys, func(c *conf.Config) {
		c.Auth.WellKnown = srv.URL + "/.well-known/jwks.json"
		c.Auth.Issuer = []string{c16IdpIssuer}
		c.Auth.Audience = []string{c16IdpAudience}
	})
	if err != nil {
		return err
	}
	defer func() { h.Close() }()
	// sanity: every source yields a token the hub accepts (otherwise the sweep would be vacuous)
	if err := h.setACL(c16Client, []C16AC{{Resource: "/datasets*", Action: "read"}, {Resource: "/jobs*", Action: "read"}}); err != nil {
		return err
	}
	for _, src := range c16Sources {
		tok, err := c16MintSource(keys, src, time.Now().Add(10*time.Minute), "sanity-"+src.Name)
		if err != nil {
			return err
		}
		if r := h.app.Do("GET", "/datasets", nil, bearer(tok)); r.Status != 200 {
			ctx.Out.Inconclusive("", "C16", fmt.Sprintf("harness: defect-free %s token not accepted (status %d %s)", src.Name, r.Status, r.Body))
			return nil
		}
	}
	c16ReuseExpiry(ctx, h, keys)
	c16ReuseACLChange(ctx, h, keys)
	ctx.Out.Stat("exhaustive_box_complete", 1)
	return nil
}

type c16ReuseReq struct {
	Method, Path string
	AdminOnly    bool
}

// the routes a short-lived token is used on (POST creates a dataset: an observable effect)
var c16ReuseReqs = []c16ReuseReq{
	{"GET", "/datasets", false}, {"GET", "/datasets/a/entities", false}, {"GET", "/datasets/a/changes", false},
	{"GET", "/jobs", false}, {"GET", "/", false}, {"POST", "/datasets/zz-%s-%d", true}, {"GET", "/security/clients", true},
}

func c16ReuseExpiry(ctx *Ctx, h *c16Hub, keys *c16Keys) {
	id0 := ""
	for _, src := range c16Sources {
		cs := map[string]any{"kind": "reuse-expiry", "source": src.Name}
		id := outHash(cs)
		if id0 == "" {
			id0 = id
		}
		ctx.Out.Case(id, ctx.Seed, cs, true, []string{"reuse", "expiry", "source:" + src.Name})
	}
	type use struct {
		src    c16Source
		tok    string
		q      c16ReuseReq
		path   [2]string
		status [2]int
	}
	var uses []*use
	var exp time.Time
	firstOK := map[string]bool{}
	for attempt, life := range []time.Duration{2 * time.Second, 4 * time.Second, 8 * time.Second} {
		uses = nil
		firstOK = map[string]bool{}
		exp = time.Now().Add(life).Truncate(time.Second)
		for _, src := range c16Sources {
			tok, err := c16MintSource(keys, src, exp, fmt.Sprintf("short-%s-%d-%d", src.Name, ctx.Seed, attempt))
			if err != nil {
				ctx.Out.Inconclusive("", "C16", "mint: "+err.Error())
				return
			}
			for _, q := range c16ReuseReqs {
				if q.AdminOnly && !src.Admin {
					continue
				}
				u := &use{src: src, tok: tok, q: q}
				for k := 0; k < 2; k++ {
					u.path[k] = q.Path
					if q.Method == "POST" {
						u.path[k] = fmt.Sprintf(q.Path, src.Name, attempt*2+k)
					}
				}
				uses = append(uses, u)
			}
		}
		// first use, while valid
		for i, u := range uses {
			ctx.Out.Begin(id0, i, "first use "+u.src.Name+" "+u.q.Method+" "+u.path[0])
			r := h.app.Do(u.q.Method, u.path[0], nil, bearer(u.tok))
			ctx.Out.Ack(id0, i, nil)
			u.status[0] = r.Status
			ctx.Out.Stat("reuse_first_uses", 1)
			if c16Served(r.Status) && time.Now().Before(exp) {
				firstOK[u.src.Name] = true
				ctx.Out.Stat("reuse_first_uses_served", 1)
			}
		}
		if len(firstOK) == len(c16Sources) {
			break
		}
		ctx.Out.Stat("reuse_expiry_retries_longer_life", 1) // the machine was too slow for this lifetime
	}
	// wait until the tokens are expired beyond doubt
	for time.Now().Before(exp.Add(1500 * time.Millisecond)) {
		time.Sleep(100 * time.Millisecond)
	}
	after := time.Now()
	bySrc := map[string][]string{}
	for i, u := range uses {
		ctx.Out.Begin(id0, i, "second use "+u.src.Name+" "+u.q.Method+" "+u.path[1])
		r := h.app.Do(u.q.Method, u.path[1], nil, bearer(u.tok))
		ctx.Out.Ack(id0, i, nil)
		u.status[1] = r.Status
		ctx.Out.Stat("reuse_second_uses_after_expiry", 1)
		if c16Served(r.Status) {
			effect := ""
			if u.q.Method == "POST" && h.app.Dsm.IsDataset(u.path[1][len("/datasets/"):]) {
				effect = " (the dataset was created)"
			}
			bySrc[u.src.Name] = append(bySrc[u.src.Name], fmt.Sprintf("%s %s: %d while valid, %d after expiry%s", u.q.Method, u.path[1], u.status[0], r.Status, effect))
		} else {
			ctx.Out.Stat("reuse_second_uses_rejected", 1)
		}
	}
	for _, src := range c16Sources {
		id := outHash(map[string]any{"kind": "reuse-expiry", "source": src.Name})
		if !firstOK[src.Name] {
			ctx.Out.Stat("reuse_source_never_served_while_valid", 1)
		}
		if l := bySrc[src.Name]; len(l) > 0 {
			ctx.Out.Viol(id, "C16", "expired-token-served-after-earlier-use:"+src.Name,
				fmt.Sprintf("a %s token (exp %s) that had been presented while valid was served again %.1f s after its expiry on %d requests, e.g. %s",
					src.Name, exp.UTC().Format(time.RFC3339), after.Sub(exp).Seconds(), len(l), l[0]),
				"401", l, map[string]any{"source": src.Name})
		}
		// control: a token of the same source that is seen for the first time after its expiry
		tok, err := c16MintSource(keys, src, exp, "fresh-"+src.Name)
		if err == nil {
			if r := h.app.Do("GET", "/datasets", nil, bearer(tok)); c16Served(r.Status) {
				ctx.Out.Viol(id, "C16", "token-expired-served:"+src.Name, fmt.Sprintf("an expired %s token seen for the first time was served GET /datasets -> %d", src.Name, r.Status), "401", r.Status, nil)
			}
		}
	}
}

// c16ReuseACLChange: one access token string, the client's ACL changes underneath it.
func c16ReuseACLChange(ctx *Ctx, h *c16Hub, keys *c16Keys) {
	type step struct {
		Name string  `json:"step"`
		ACL  []C16AC `json:"acl"` // the ACL in force after the step (nil = none)
		op   func() error
	}
	grant := []C16AC{{Resource: "/datasets/a*", Action: "read"}, {Resource: "/jobs*", Action: "read"}}
	wide := []C16AC{{Resource: "/datasets/*", Action: "write"}, {Resource: "/datasets/a*", Action: "read", Deny: true}}
	at := func() map[string]string {
		t, _ := h.adminToken()
		return bearer(t)
	}
	steps := []step{
		{"acl-granted", grant, func() error { return h.setACL(c16Client, grant) }},
		{"acl-emptied", nil, func() error { return h.setACL(c16Client, nil) }},
		{"acl-granted-again", grant, func() error { return h.setACL(c16Client, grant) }},
		{"deny-entry-added", wide, func() error { return h.setACL(c16Client, wide) }},
		{"acl-granted-3", grant, func() error { return h.setACL(c16Client, grant) }},
		{"acl-deleted", nil, func() error {
			if r := h.app.Do("DELETE", "/security/clients/"+c16Client+"/acl", nil, at()); r.Status != 200 {
				return fmt.Errorf("delete acl: %d %s", r.Status, r.Body)
			}
			return nil
		}},
		{"acl-granted-4", grant, func() error { return h.setACL(c16Client, grant) }},
		{"client-unregistered", nil, func() error {
			b, _ := json.Marshal(security.ClientInfo{ClientID: c16Client, Deleted: true})
			if r := h.app.Do("POST", "/security/clients", b, at()); r.Status != 200 {
				return fmt.Errorf("unregister client: %d %s", r.Status, r.Body)
			}
			return nil
		}},
	}
	reqs := []c16Req{
		{Method: "GET", Route: "/datasets/:dataset/entities", Path: "/datasets/a/entities"},
		{Method: "GET", Route: "/datasets/:dataset/changes", Path: "/datasets/ab/changes"},
		{Method: "GET", Route: "/datasets/:dataset/entities", Path: "/datasets/b/entities"},
		{Method: "GET", Route: "/jobs", Path: "/jobs"},
		{Method: "POST", Route: "/datasets/:dataset/entities", Path: "/datasets/b/entities"},
	}
	// three strings for the same subject: the real access token of the assertion exchange,
	// a node-signed and an externally issued token for the subject
	toks := map[string]string{}
	if t, err := h.clientToken(c16Client); err == nil {
		toks["node-issued-access-token"] = t
	} else {
		ctx.Out.Inconclusive("", "C16", "client token: "+err.Error())
		return
	}
	for _, src := range c16Sources {
		if !src.Admin {
			t, err := c16MintSource(keys, src, time.Now().Add(10*time.Minute), "aclchange-"+src.Name)
			if err == nil {
				toks[src.Name] = t
			}
		}
	}
	names := make([]string, 0, len(toks))
	for n := range toks {
		names = append(names, n)
	}
	sort.Strings(names)
	cs := map[string]any{"kind": "reuse-acl-change", "steps": steps, "tokens": names}
	id := outHash(cs)
	ctx.Out.Case(id, ctx.Seed, cs, true, []string{"reuse", "acl-change"})
	seen := map[string]bool{}
	for si, st := range steps {
		ctx.Out.Begin(id, si, st.Name)
		err := st.op()
		ctx.Out.Ack(id, si, err)
		if err != nil {
			ctx.Out.Inconclusive(id, "C16", st.Name+": "+err.Error())
			return
		}
		for _, n := range names {
			for _, q := range reqs {
				r := h.do(q, bearer(toks[n]))
				ctx.Out.Stat("reuse_acl_change_requests", 1)
				served, may := c16Served(r.Status), c16MayServe(st.ACL, q.Method, q.Path)
				switch {
				case served && may:
					ctx.Out.Stat("served_and_granted", 1)
				case !served && !may:
					ctx.Out.Stat("rejected_not_granted", 1)
				case !served && may:
					ctx.Out.Stat("rejected_although_granted", 1)
				default:
					class := "stale-decision-after-" + st.Name
					ctx.Out.Stat("viol:"+class, 1)
					if !seen[class] {
						seen[class] = true
						ctx.Out.Viol(id, "C16", class, fmt.Sprintf("after step %d (%s) the ACL in force is %v, yet the same %s presented before the step was served %s -> %d", si, st.Name, st.ACL, n, q.key(), r.Status),
							"401/403", r.Status, map[string]any{"token": n, "request": q.key()})
					}
				}
			}
		}
	}
	// an unregistered client must not be handed a new access token
	if _, err := h.clientToken(c16Client); err == nil {
		ctx.Out.Viol(id, "C16", "access-token-issued-to-unregistered-client", "the token endpoint exchanged an assertion of a client that had been unregistered for an access token", "refused", "issued", nil)
	} else {
		ctx.Out.Stat("reuse_unregistered_client_refused_at_token_endpoint", 1)
	}
}
