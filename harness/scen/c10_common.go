package scen

// Shared parts of the C10 and C17 job monitors: in-process assembly of
// store + dataset manager + runner + scheduler (the way app.go / the repo's own
// tests do), a recording zap core, the job-result reader, and a sub-process
// supervisor that keeps a sweep going when a configuration kills the process.

import (
	"bufio"
	"encoding/base64"
	"encoding/json"
	"fmt"
	"os"
	"os/exec"
	"path/filepath"
	"runtime/debug"
	"strconv"
	"strings"
	"sync"
	"sync/atomic"
	"time"

	"github.com/DataDog/datadog-go/v5/statsd"
	"go.uber.org/zap"
	"go.uber.org/zap/zapcore"

	"github.com/mimiro-io/datahub/internal/jobs"
	"github.com/mimiro-io/datahub/internal/security"
	"github.com/mimiro-io/datahub/internal/server"
	"github.com/mimiro-io/datahub/internal/verif/hub"
)

// ---------- logical clock shared by all recorders of a process

var c10Clock int64

func c10Tick() int64 { return atomic.AddInt64(&c10Clock, 1) }

// ---------- recording zap core

type c10LogRec struct {
	Seq    int64
	Ns     int64 // monotonic ns since process start (evidence / lower-bound checks only)
	Level  string
	Logger string
	Msg    string
	Fields map[string]any
}

type c10Recorder struct {
	mu    sync.Mutex
	recs  []c10LogRec
	start time.Time
	// Keep decides which entries are retained (nil = all)
	Keep func(logger, msg string) bool
	// OnRec, if set, is called synchronously for every retained entry (before it is stored)
	OnRec func(rec *c10LogRec)
}

func (r *c10Recorder) add(rec c10LogRec) {
	if r.OnRec != nil {
		r.OnRec(&rec)
	}
	r.mu.Lock()
	r.recs = append(r.recs, rec)
	r.mu.Unlock()
}

// Take returns the recorded entries and clears the buffer.
func (r *c10Recorder) Take() []c10LogRec {
	r.mu.Lock()
	defer r.mu.Unlock()
	out := r.recs
	r.recs = nil
	return out
}

// Snapshot returns a copy of the recorded entries.
func (r *c10Recorder) Snapshot() []c10LogRec {
	r.mu.Lock()
	defer r.mu.Unlock()
	return append([]c10LogRec(nil), r.recs...)
}

type c10Core struct {
	rec    *c10Recorder
	fields []zapcore.Field
}

func (c *c10Core) Enabled(l zapcore.Level) bool { return l >= zapcore.InfoLevel }
func (c *c10Core) With(fs []zapcore.Field) zapcore.Core {
	n := &c10Core{rec: c.rec, fields: make([]zapcore.Field, 0, len(c.fields)+len(fs))}
	n.fields = append(n.fields, c.fields...)
	n.fields = append(n.fields, fs...)
	return n
}

func (c *c10Core) Check(e zapcore.Entry, ce *zapcore.CheckedEntry) *zapcore.CheckedEntry {
	if c.Enabled(e.Level) {
		return ce.AddCore(e, c)
	}
	return ce
}

func (c *c10Core) Write(e zapcore.Entry, fs []zapcore.Field) error {
	if c.rec.Keep != nil && !c.rec.Keep(e.LoggerName, e.Message) {
		return nil
	}
	enc := zapcore.NewMapObjectEncoder()
	for _, f := range c.fields {
		f.AddTo(enc)
	}
	for _, f := range fs {
		f.AddTo(enc)
	}
	c.rec.add(c10LogRec{Seq: c10Tick(), Ns: int64(time.Since(c.rec.start)), Level: e.Level.String(), Logger: e.LoggerName, Msg: e.Message, Fields: enc.Fields})
	return nil
}
func (c *c10Core) Sync() error { return nil }

// ---------- hub with jobs

type c10Hub struct {
	Core   *hub.Core
	Runner *jobs.Runner
	Sched  *jobs.Scheduler
	Log    *c10Recorder
}

var c10StdoutOnce sync.Once

// c10OpenHub assembles store, dataset manager, runner and scheduler in dir.
// Only one per process (bamzi/jobrunner is a process-wide singleton).
func c10OpenHub(dir string, keep func(logger, msg string) bool) *c10Hub {
	rec := &c10Recorder{start: time.Now(), Keep: keep}
	logger := zap.New(&c10Core{rec: rec}).Sugar()
	env := hub.Env(dir)
	env.Logger = logger
	core := hub.OpenCoreEnv(env)
	pm := security.NewProviderManager(env, core.Store, logger)
	tps := security.NewTokenProviders(logger, pm, nil)
	runner := jobs.NewRunner(env, core.Store, tps, core.Bus, &statsd.NoOpClient{})
	sched := jobs.NewScheduler(env, core.Store, core.Dsm, runner)
	return &c10Hub{Core: core, Runner: runner, Sched: sched, Log: rec}
}

func (h *c10Hub) Close() {
	h.Runner.Stop()
	_ = h.Core.Close()
}

// c10JobResult mirrors the stored outcome of a job run (server.JobResultIndex).
type c10JobResult struct {
	ID        string    `json:"id"`
	Title     string    `json:"title"`
	Start     time.Time `json:"start"`
	End       time.Time `json:"end"`
	LastError string    `json:"lastError"`
	Processed int       `json:"processed"`
}

func (h *c10Hub) JobResult(id string) (*c10JobResult, error) {
	r := &c10JobResult{}
	if err := h.Core.Store.GetObject(server.JobResultIndex, id, r); err != nil {
		return nil, err
	}
	if r.ID == "" {
		return nil, nil
	}
	return r, nil
}

// c10AddPaused parses the JSON configuration, registers it paused (AddJob
// verifies it, initialises the error handlers and stores it, but does not
// schedule it) and returns the job objects of its triggers.
func (h *c10Hub) c10AddPaused(cfgJSON string) (*jobs.JobConfiguration, []*jobs.VerifC10Job, error) {
	cfg, err := h.Sched.Parse([]byte(cfgJSON))
	if err != nil {
		return nil, nil, fmt.Errorf("parse: %w", err)
	}
	if err := h.Sched.AddJob(cfg); err != nil {
		return cfg, nil, fmt.Errorf("AddJob: %w", err)
	}
	js, err := h.Sched.VerifC10Jobs(cfg)
	if err != nil {
		return cfg, nil, fmt.Errorf("toTriggeredJobs: %w", err)
	}
	return cfg, js, nil
}

// c10RunGuarded executes f and converts a panic that reaches the caller into a
// result. In production nothing sits above jobrunner's re-panic, so such a
// panic ends the hub process.
func c10RunGuarded(f func()) (panicked bool, msg string, stack string) {
	defer func() {
		if r := recover(); r != nil {
			panicked = true
			msg = fmt.Sprint(r)
			stack = string(debug.Stack())
			if len(msg) > 600 {
				msg = msg[:600]
			}
		}
	}()
	f()
	return
}

func c10B64(s string) string { return base64.StdEncoding.EncodeToString([]byte(s)) }

// ---------- which slice of a stage's work list belongs to this child

// c10ChildIndex derives the child's index inside its stage from the seed the
// driver hands out (VERIF_SEED*100003 + index) and the stage's child count
// passed as -args nchildren=N.
func c10ChildIndex(ctx *Ctx) (idx, n int) {
	n, _ = strconv.Atoi(ctx.Arg("nchildren", "1"))
	if n < 1 {
		n = 1
	}
	m := ctx.Seed % 100003
	if m < 0 {
		m += 100003
	}
	return int(m) % n, n
}

// ---------- sub-process supervisor

// c10IsSub tells whether this process is a worker spawned by c10Supervise.
func c10IsSub(ctx *Ctx) bool { return ctx.Arg("sub", "") != "" }

// c10SubFrom is the first work-list position a worker has to run.
func c10SubFrom(ctx *Ctx) int {
	v, _ := strconv.Atoi(ctx.Arg("from", "0"))
	return v
}

// c10DeathSig names a process death by the first fatal line of its stderr.
func c10DeathSig(stderr string) string {
	for _, l := range strings.Split(stderr, "\n") {
		switch {
		case strings.HasPrefix(l, "fatal error: stack overflow"):
			return "stack-overflow"
		case strings.HasPrefix(l, "fatal error: concurrent map"):
			return "concurrent-map"
		case strings.HasPrefix(l, "fatal error:"):
			return "fatal-error"
		case strings.HasPrefix(l, "panic:"):
			if strings.Contains(l, "makeslice") {
				return "panic-makeslice"
			}
			if strings.Contains(l, "nil pointer") {
				return "panic-nil-deref"
			}
			if strings.Contains(l, "out of range") {
				return "panic-out-of-range"
			}
			return "panic"
		case strings.HasPrefix(l, "runtime: goroutine stack exceeds"):
			return "stack-overflow"
		}
	}
	return "unknown"
}

func c10FatalTail(path string, n int) string {
	b, err := os.ReadFile(path)
	if err != nil {
		return ""
	}
	ls := strings.Split(string(b), "\n")
	for i, l := range ls {
		if strings.HasPrefix(l, "fatal error:") || strings.HasPrefix(l, "panic:") || strings.HasPrefix(l, "runtime: goroutine stack exceeds") {
			end := i + n
			if end > len(ls) {
				end = len(ls)
			}
			return strings.Join(ls[i:end], "\n")
		}
	}
	if len(ls) > n {
		ls = ls[len(ls)-n:]
	}
	return strings.Join(ls, "\n")
}

// c10Supervise runs the positions 0..total-1 of this child's work list in
// worker sub-processes (the same binary and scenario with -args …,sub=1,from=K).
// The worker writes Begin(case,pos,what) before and Ack after every position.
// When a worker dies, the position in flight is reported as a violation of
// prop (class process-died:<signature>[/<class suffix given by classOf>]) and a
// new worker continues behind it, so one fatal configuration costs one
// position, not the rest of the sweep. Returns true when every position got a
// verdict.
func c10Supervise(ctx *Ctx, scenario, prop string, total int, classOf func(what map[string]any, sig string) string) bool {
	from := 0
	stuck := 0
	spawn := 0
	maxSpawns := total + 8
	for from < total {
		spawn++
		if spawn > maxSpawns {
			ctx.Out.Inconclusive("", prop, fmt.Sprintf("supervisor: spawn budget exhausted at position %d of %d", from, total))
			return false
		}
		subOut := filepath.Join(ctx.Scratch, fmt.Sprintf("sub-%d-%d.jsonl", os.Getpid(), spawn))
		subErr := filepath.Join(ctx.Scratch, fmt.Sprintf("sub-%d-%d.err", os.Getpid(), spawn))
		subDir := filepath.Join(ctx.Scratch, fmt.Sprintf("sub-%d-%d.d", os.Getpid(), spawn))
		_ = os.MkdirAll(subDir, 0o755)
		var ab []string
		for k, v := range ctx.Args {
			if k == "sub" || k == "from" {
				continue
			}
			ab = append(ab, k+"="+strings.ReplaceAll(v, ",", "+"))
		}
		ab = append(ab, "sub=1", "from="+strconv.Itoa(from))
		args := []string{"-scenario", scenario, "-seed", strconv.FormatInt(ctx.Seed, 10), "-cases", strconv.Itoa(ctx.Cases),
			"-tier", ctx.Tier, "-scratch", subDir, "-out", subOut, "-args", strings.Join(ab, ",")}
		if ctx.Replay != "" {
			args = append(args, "-replay", ctx.Replay)
		}
		cmd := exec.Command(os.Args[0], args...)
		ef, _ := os.Create(subErr)
		cmd.Stdout = ef
		cmd.Stderr = ef
		cmd.Env = os.Environ()
		timedOut := int32(0)
		if err := cmd.Start(); err != nil {
			ef.Close()
			ctx.Out.Inconclusive("", prop, "supervisor: cannot start worker: "+err.Error())
			return false
		}
		wd, _ := time.ParseDuration(ctx.Arg("subtimeout", "15m"))
		timer := time.AfterFunc(wd, func() {
			atomic.StoreInt32(&timedOut, 1)
			_ = cmd.Process.Kill()
		})
		werr := cmd.Wait()
		timer.Stop()
		ef.Close()
		ctx.Out.Stat("sub_processes", 1)

		done, inflight, acked := c10Forward(ctx, subOut)
		_ = os.Remove(subOut)
		_ = os.RemoveAll(subDir)
		if done {
			_ = os.Remove(subErr)
			return true
		}
		if atomic.LoadInt32(&timedOut) == 1 {
			pos := from
			cas := ""
			if inflight != nil {
				pos = c10Int(inflight["op"])
				cas, _ = inflight["case"].(string)
			}
			ctx.Out.Inconclusive(cas, prop, fmt.Sprintf("watchdog: worker killed at position %d", pos))
			_ = os.Remove(subErr)
			from = pos + 1
			continue
		}
		tail := c10FatalTail(subErr, 40)
		sig := c10DeathSig(tail)
		_ = os.Remove(subErr)
		if inflight == nil {
			// died outside any position (set-up / tear-down): retry a few times, then give up
			if acked > 0 {
				from = from + acked
				stuck = 0
			} else {
				stuck++
			}
			if stuck >= 3 {
				ctx.Out.Viol("", prop, "process-died:"+sig+"/outside-case", fmt.Sprintf("worker died (%v) outside any case, at work-list position %d", werr, from), nil, tail, nil)
				return false
			}
			continue
		}
		stuck = 0
		pos := c10Int(inflight["op"])
		cas, _ := inflight["case"].(string)
		what, _ := inflight["what"].(map[string]any)
		class := "process-died:" + sig
		if classOf != nil {
			if sfx := classOf(what, sig); sfx != "" {
				class += "/" + sfx
			}
		}
		ctx.Out.Stat("process_deaths", 1)
		ctx.Out.Stat("process_deaths:"+sig, 1)
		ctx.Out.Viol(cas, prop, class, fmt.Sprintf("the hub process died (%v, %s) while running %s", werr, sig, c10JSON(what)), "the run ends with a recorded outcome", "process death",
			map[string]any{"last_begin": inflight, "stderr_tail": tail})
		from = pos + 1
	}
	return true
}

func c10Int(v any) int {
	switch t := v.(type) {
	case float64:
		return int(t)
	case int:
		return t
	}
	return 0
}

func c10JSON(v any) string {
	b, _ := json.Marshal(v)
	return string(b)
}

// c10Forward copies a worker's output into this process's output. Returns
// whether the worker finished, the Begin line that has no Ack (if any) and the
// number of acknowledged positions.
func c10Forward(ctx *Ctx, path string) (done bool, inflight map[string]any, acked int) {
	f, err := os.Open(path)
	if err != nil {
		return false, nil, 0
	}
	defer f.Close()
	sc := bufio.NewScanner(f)
	sc.Buffer(make([]byte, 1<<20), 1<<28)
	for sc.Scan() {
		var m map[string]any
		if json.Unmarshal(sc.Bytes(), &m) != nil {
			continue
		}
		switch m["t"] {
		case "done":
			done = true
		case "stat":
			k, _ := m["k"].(string)
			v, _ := m["v"].(float64)
			if strings.HasPrefix(k, "max:") {
				ctx.Out.StatMax(k, int64(v))
			} else {
				ctx.Out.Stat(k, int64(v))
			}
		case "begin":
			inflight = m
			ctx.Out.Emit(m)
		case "ack":
			inflight = nil
			acked++
			ctx.Out.Emit(m)
		default:
			ctx.Out.Emit(m)
		}
	}
	return
}

// c10SetMaxStack bounds goroutine stacks of a worker so that an unbounded
// recursion in the hub dies quickly (default limit: 1 GB per goroutine).
func c10SetMaxStack() { debug.SetMaxStack(64 << 20) }
