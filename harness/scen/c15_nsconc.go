package scen

// c15nsconc — "what the hub serialises parses back", across concurrent first uses of new
// namespaces and a restart of the hub.
//
// One case: G clients POST at the same instant (through the real handlers of the full
// application), each into its own dataset, a valid payload whose ids, property keys and
// reference keys live in namespaces the hub has never seen; R such rounds. Then the
// application is stopped and booted again on the same directories. Demanded:
//   - the context the hub serialises for a dataset (and the global one) is the same after
//     the restart as before it (a context only ever grows, and only by new first uses);
//   - every dataset, GET entities / changes (all page sizes), is read back by the hub's own
//     parser and by a reader that uses nothing but the response's own context to exactly
//     what was posted; feeding the GET body into another dataset reproduces it;
//   - the same again after one more new namespace was introduced after the restart (a
//     prefix that was lost is handed out a second time and silently re-labels old data).

import (
	"encoding/json"
	"fmt"
	"os"
	"sort"
	"strconv"
	"sync"

	"github.com/mimiro-io/datahub/internal/verif/model"
)

func init() {
	Register("c15nsconc", c15NsConc)
}

type C15NsCase struct {
	Kind     string `json:"kind"` // nsconc
	G        int    `json:"g"`
	Rounds   int    `json:"rounds"`
	NsSeed   int64  `json:"nsseed"`
	Prefixed bool   `json:"prefixed"`
}

func c15NsConc(ctx *Ctx) error {
	if ctx.Replay != "" {
		b, err := os.ReadFile(ctx.Replay)
		if err != nil {
			return err
		}
		var w struct {
			Ops C15NsCase `json:"ops"`
		}
		if err := json.Unmarshal(b, &w); err != nil {
			return err
		}
		c15NsConcCase(ctx, w.Ops)
		return nil
	}
	g, _ := strconv.Atoi(ctx.Arg("g", "12"))
	rounds, _ := strconv.Atoi(ctx.Arg("rounds", "3"))
	for i := 0; i < ctx.Cases; i++ {
		c15NsConcCase(ctx, C15NsCase{Kind: "nsconc", G: g, Rounds: rounds, NsSeed: ctx.Seed*1000 + int64(i), Prefixed: i%2 == 0})
	}
	return nil
}

// c15NsPayload: two entities in three brand-new namespaces.
func c15NsPayload(c C15NsCase, round, g int) (ents []model.Ent, body []byte) {
	base := fmt.Sprintf("http://c15-%x-r%d-g%d.example/", c.NsSeed, round, g)
	nsID, nsP, nsR := base+"ids/", base+"schema#", base+"rel/"
	e1 := model.Ent{ID: nsID + "item", Props: map[string]any{nsP + "name": fmt.Sprintf("item %d/%d", round, g), nsP + "n": float64(round*100 + g)},
		Refs: map[string]any{nsR + "next": nsID + "other"}}
	e2 := model.Ent{ID: nsID + "other", Props: map[string]any{nsP + "name": "other"}, Refs: map[string]any{nsR + "prev": []any{nsID + "item"}}}
	ents = []model.Ent{model.NormEnt(e1), model.NormEnt(e2)}
	ns := c15Obj()
	conv := func(u string) string { return u }
	if c.Prefixed {
		ns.set("_", c15Raw(nsID)).set("s", c15Raw(nsP)).set("r", c15Raw(nsR))
		conv = func(u string) string {
			switch {
			case len(u) > len(nsID) && u[:len(nsID)] == nsID:
				return u[len(nsID):]
			case len(u) > len(nsP) && u[:len(nsP)] == nsP:
				return "s:" + u[len(nsP):]
			case len(u) > len(nsR) && u[:len(nsR)] == nsR:
				return "r:" + u[len(nsR):]
			}
			return u
		}
	}
	doc := c15Arr(c15Obj().set("id", c15Raw("@context")).set("namespaces", ns))
	for _, e := range ents {
		doc.Vals = append(doc.Vals, c15EntJ(e, conv, nil, nil))
	}
	return ents, doc.bytes()
}

func c15NsContexts(h *c15HTTPRun, names []string) map[string]map[string]string {
	out := map[string]map[string]string{}
	cp := func(m map[string]string) map[string]string {
		r := map[string]string{}
		for k, v := range m {
			r[k] = v
		}
		return r
	}
	out["<global>"] = cp(h.app.Store.GetGlobalContext(false).Namespaces)
	for _, n := range names {
		if ds := h.app.Dsm.GetDataset(n); ds != nil {
			out[n] = cp(ds.GetContext().Namespaces)
		}
	}
	return out
}

func c15NsConcCase(ctx *Ctx, c C15NsCase) {
	id := outHash(c)
	ctx.Out.Case(id, ctx.Seed, c, c.G >= 2, []string{"nsconc", "restart", fmt.Sprintf("g%d", c.G)})
	dir := ctx.NewDir("c15ns")
	defer os.RemoveAll(dir)
	app, err := c16Boot(ctx, dir, false)
	if err != nil {
		ctx.Out.Inconclusive(id, "C15", "boot: "+err.Error())
		return
	}
	h := &c15HTTPRun{app: app}
	h.ctx, h.id, h.seen = ctx, id, map[string]bool{}
	defer func() { h.app.Close() }()

	m := model.New()
	var names []string
	for g := 0; g < c.G; g++ {
		n, ok := h.newDataset()
		if !ok {
			return
		}
		names = append(names, n)
		m.Create(n)
	}
	for round := 0; round < c.Rounds; round++ {
		type res struct {
			ents   []model.Ent
			status int
			body   []byte
			pan    any
		}
		results := make([]res, c.G)
		bodies := make([][]byte, c.G)
		for g := 0; g < c.G; g++ {
			results[g].ents, bodies[g] = c15NsPayload(c, round, g)
		}
		start := make(chan struct{})
		var wg sync.WaitGroup
		ctx.Out.Begin(id, round, fmt.Sprintf("round %d: %d concurrent POSTs introducing new namespaces", round, c.G))
		for g := 0; g < c.G; g++ {
			wg.Add(1)
			go func(g int) {
				defer wg.Done()
				<-start
				r := h.app.Do("POST", "/datasets/"+names[g]+"/entities", bodies[g], nil)
				results[g].status, results[g].body, results[g].pan = r.Status, r.Body, r.Panicked
			}(g)
		}
		close(start)
		wg.Wait()
		ctx.Out.Ack(id, round, nil)
		for g := 0; g < c.G; g++ {
			ctx.Out.Stat("http_posts", 1)
			ctx.Out.Stat("nsconc_posts", 1)
			if results[g].pan != nil || results[g].status != 200 {
				h.viol("valid-rejected", fmt.Sprintf("concurrent POST of a valid document introducing new namespaces -> %d %v %s", results[g].status, results[g].pan, c15Short(results[g].body)), 200, results[g].status, bodies[g])
				continue
			}
			m.Apply(names[g], results[g].ents)
		}
	}
	ctx.Out.Stat("nsconc_new_namespaces", int64(3*c.G*c.Rounds))

	before := c15NsContexts(h, names)
	// restart of the whole application on the same directories
	ctx.Out.Begin(id, c.Rounds, "restart")
	h.app.Close()
	app2, err := c16Boot(ctx, dir, false)
	ctx.Out.Ack(id, c.Rounds, err)
	if err != nil {
		h.viol("restart-failed", "the hub does not boot again on its own directories: "+err.Error(), nil, nil, nil)
		return
	}
	h.app = app2
	ctx.Out.Stat("nsconc_restarts", 1)
	after := c15NsContexts(h, names)
	keys := make([]string, 0, len(before))
	for k := range before {
		keys = append(keys, k)
	}
	sort.Strings(keys)
	for _, k := range keys {
		var diff []string
		for p, e := range before[k] {
			if a, ok := after[k][p]; !ok {
				diff = append(diff, fmt.Sprintf("%s (%s) is gone", p, e))
			} else if a != e {
				diff = append(diff, fmt.Sprintf("%s was %s, is %s", p, e, a))
			}
		}
		for p, e := range after[k] {
			if _, ok := before[k][p]; !ok {
				diff = append(diff, fmt.Sprintf("%s (%s) is new", p, e))
			}
		}
		if len(diff) > 0 {
			sort.Strings(diff)
			h.viol("context-differs-after-restart", fmt.Sprintf("the context serialised for %s is not the one serialised before the restart: %v", k, diff), before[k], after[k], nil)
			break
		}
	}
	for _, n := range names {
		h.checkDataset(n, m.Live(n))
	}
	// one more first use of a new namespace after the restart, then everything again
	extra, ok := h.newDataset()
	if !ok {
		return
	}
	m.Create(extra)
	ents, body := c15NsPayload(c, c.Rounds, 0)
	r := h.app.Do("POST", "/datasets/"+extra+"/entities", body, nil)
	ctx.Out.Stat("http_posts", 1)
	if r.Panicked != nil || r.Status != 200 {
		h.viol("valid-rejected", fmt.Sprintf("POST of a valid document after the restart -> %d %v %s", r.Status, r.Panicked, c15Short(r.Body)), 200, r.Status, body)
		return
	}
	m.Apply(extra, ents)
	for _, n := range append([]string{extra}, names...) {
		h.checkDataset(n, m.Live(n))
	}
}
