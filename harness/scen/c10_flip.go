package scen

// Histories with repeated ids for the C10 monitor.
//
// flipback: run 1 copies version a of every source entity; then, for every second entity, the source gets
//   version b and version a again (two separate writes each, adjacent in the source's change feed); run 2
//   (incremental: reads [b,a,b,a,…] in pages of the batch size; fullsync: reads the whole history a…,b,a,…)
//   goes through an identity transform. Because only repeats of the *current* version may be dropped, the
//   sink's change feed must equal the source's change feed position by position, the sink's latest
//   versions must equal the source's, the transform must have seen every change of the run exactly once,
//   and a third run must not add a change (incremental) / must leave the latest versions as they are (fullsync
//   replays the change history, so only the latest view is demanded there).
// draft: the transform returns, for every entity, a draft copy (extra property) followed by the entity
//   itself; the job is run twice. Expected sink feed = the returned sequence with only repeats of the
//   current version of an id dropped; the latest version of every id is the entity, not the draft.

import (
	"fmt"
	"strconv"
	"strings"

	"github.com/mimiro-io/datahub/internal/verif/gen"
	"github.com/mimiro-io/datahub/internal/verif/model"
	"github.com/mimiro-io/datahub/internal/verif/obs"
)

const c10MaxFlips = 40

func c10FlipIdx(n int) []int {
	var f []int
	for i := 0; i < n && len(f) < c10MaxFlips; i += 2 {
		f = append(f, i)
	}
	return f
}

func (st *c10State) runFlip(caseID string, pos int, r c10Run, viol func(class, msg string, exp, got any)) {
	out := st.ctx.Out
	hist := "flip-back-history"
	if r.Variant == "draft" {
		hist = "entity-twice-in-result"
	}
	cls := func(c string) string { return c + "/" + hist }
	n := r.T.N
	var src string
	var err error
	if r.Variant == "flipback" {
		src = "c10fb" + strconv.Itoa(pos)
		if _, err = st.h.Core.Dsm.CreateDataset(src, nil); err == nil {
			var batch []model.Ent
			for i := 0; i < n && err == nil; i++ {
				batch = append(batch, c10SrcEnt(i, n))
				if len(batch) == 7 || i == n-1 {
					err = StoreBatch(st.h.Core, src, batch, false)
					batch = nil
				}
			}
		}
	} else {
		src, err = st.ensureSource(n)
	}
	if err != nil {
		out.Inconclusive(caseID, "C10", "cannot build source: "+err.Error())
		return
	}
	sink := "c10snk" + strconv.Itoa(pos)
	if _, err := st.h.Core.Dsm.CreateDataset(sink, nil); err != nil {
		out.Inconclusive(caseID, "C10", "cannot create sink: "+err.Error())
		return
	}
	jobID := "c10-" + strconv.Itoa(pos)
	_, js, err := st.h.c10AddPaused(st.jobJSON(jobID, r, src, sink, true))
	if err != nil || len(js) != 1 {
		out.Inconclusive(caseID, "C10", fmt.Sprintf("cannot configure job: %v", err))
		return
	}
	defer func() { _ = st.h.Sched.DeleteJob(jobID) }()
	out.Stat("runs", 1)
	out.Stat("runs:"+r.Kind, 1)
	out.Stat("runs:variant:"+r.Variant, 1)
	out.Stat("runs:sink:ds", 1)

	// run executes the job once and returns how often the transform saw each idx
	run := func(label string) (map[int]int, bool) {
		st.h.Log.Take()
		panicked, pmsg, pstack := c10RunGuarded(js[0].RunAsCron)
		logs := st.h.Log.Take()
		if panicked {
			out.Stat("job_panics", 1)
			viol(cls("job-panic"), label+": the job goroutine panicked: "+firstLine(pmsg), "run completes", map[string]any{"panic": pmsg, "stack": c10Trunc(pstack, 3000)})
			return nil, false
		}
		res, _ := st.h.JobResult(jobID)
		if res == nil {
			viol("no-job-result", label+": the run left no recorded outcome", "a jobResult", nil)
			return nil, false
		}
		if res.LastError != "" {
			viol(cls("job-error"), label+": the run failed: "+res.LastError, "", res.LastError)
			return nil, false
		}
		cnt := map[int]int{}
		for _, l := range logs {
			parts := strings.Split(l.Msg, "|")
			if len(parts) != 4 || parts[1] != jobID {
				continue
			}
			if k, err := strconv.ParseFloat(parts[2], 64); err == nil {
				cnt[int(k)]++
				out.Stat("transform_inputs_seen", 1)
			}
		}
		return cnt, true
	}
	sinkFeed := func() ([]obs.Rec, bool) {
		f, _, err := obs.Feed(st.h.Core.Store, st.h.Core.Dsm.GetDataset(sink), 0, nil, false)
		if err != nil {
			out.Inconclusive(caseID, "C10", "cannot read sink feed: "+err.Error())
			return nil, false
		}
		out.Stat("sink_changes_read", int64(len(f)))
		return f, true
	}
	checkSeen := func(label string, cnt map[int]int, want func(i int) int) {
		var less, more []int
		for i := 0; i < n; i++ {
			switch w := want(i); {
			case cnt[i] < w:
				less = append(less, i)
			case cnt[i] > w:
				more = append(more, i)
			}
		}
		if len(less) > 0 {
			viol(cls("transform-missed"), fmt.Sprintf("%s: source changes of idx %v reached the transform less often than the run's source feed holds them", label, less), "every change once", less)
		}
		if len(more) > 0 {
			viol(cls("transform-twice"), fmt.Sprintf("%s: source changes of idx %v reached the transform more often than the run's source feed holds them", label, more), "every change once", more)
		}
	}

	cnt1, ok := run("run 1")
	if !ok {
		return
	}
	checkSeen("run 1", cnt1, func(int) int { return 1 })

	if r.Variant == "flipback" {
		flips := c10FlipIdx(n)
		isFlip := map[int]bool{}
		for _, i := range flips {
			isFlip[i] = true
			b := c10SrcEnt(i, n)
			b.Props[gen.NsP+"name"] = "flipped" + strconv.Itoa(i)
			b.Deleted = false
			// two separate writes, so that the source's own store path never sees the pair in one batch
			if err := StoreBatch(st.h.Core, src, []model.Ent{b}, false); err != nil {
				out.Inconclusive(caseID, "C10", "cannot write source: "+err.Error())
				return
			}
			if err := StoreBatch(st.h.Core, src, []model.Ent{c10SrcEnt(i, n)}, false); err != nil {
				out.Inconclusive(caseID, "C10", "cannot write source: "+err.Error())
				return
			}
		}
		out.Stat("flip_back_pairs_written", int64(len(flips)))
		srcFeed, _, err := obs.Feed(st.h.Core.Store, st.h.Core.Dsm.GetDataset(src), 0, nil, false)
		if err != nil || len(srcFeed) != n+2*len(flips) {
			out.Inconclusive(caseID, "C10", fmt.Sprintf("source history not as written: %d changes, %d expected (%v)", len(srcFeed), n+2*len(flips), err))
			return
		}
		cnt2, ok := run("run 2")
		if !ok {
			return
		}
		checkSeen("run 2", cnt2, func(i int) int {
			w := 0
			if r.Kind == "fullsync" {
				w = 1
			}
			if isFlip[i] {
				w += 2
			}
			return w
		})
		feed, ok := sinkFeed()
		if !ok {
			return
		}
		if d := c10DiffFeeds(srcFeed, feed); d != "" {
			viol(cls("sink-feed-differs-from-source"), "after the second run the sink's change feed is not the source's change feed: "+strings.ReplaceAll(d, "plain copy", "source"), len(srcFeed), len(feed))
		} else {
			out.Stat("flip_back_feed_equals_source", 1)
		}
		// latest versions
		sl, err1 := obs.Listing(st.h.Core.Store, st.h.Core.Dsm.GetDataset(src), 0)
		kl, err2 := obs.Listing(st.h.Core.Store, st.h.Core.Dsm.GetDataset(sink), 0)
		if err1 == nil && err2 == nil {
			want := map[string]model.Ent{}
			for _, e := range sl {
				want[e.ID] = model.NormEnt(e.Ent)
			}
			var bad []string
			for _, e := range kl {
				w, ok := want[e.ID]
				g := model.NormEnt(e.Ent)
				if !ok || !model.SameContent(&w, &g) {
					bad = append(bad, c10Local(e.ID))
				}
				delete(want, e.ID)
			}
			for id := range want {
				bad = append(bad, c10Local(id)+"(absent)")
			}
			if len(bad) > 0 {
				viol(cls("sink-latest-differs-from-source"), fmt.Sprintf("the latest versions of %v in the sink are not the source's latest versions", c10Head(bad, 10)), len(sl), bad)
			} else {
				out.Stat("flip_back_latest_equals_source", 1)
			}
		}
		if _, ok := run("run 3"); !ok {
			return
		}
		feed3, ok := sinkFeed()
		if !ok {
			return
		}
		out.Stat("second_runs", 1)
		if r.Kind == "fullsync" {
			// a fullsync over a change history with repeated ids replays that history (b, a again): the statement's
			// "no new changes" is read as "latest view unchanged" there (DESIGN 6), the feed only for incremental jobs
			kl3, err := obs.Listing(st.h.Core.Store, st.h.Core.Dsm.GetDataset(sink), 0)
			if err != nil || err2 != nil {
				return
			}
			same := len(kl3) == len(kl)
			for i := 0; same && i < len(kl); i++ {
				a, b := model.NormEnt(kl[i].Ent), model.NormEnt(kl3[i].Ent)
				same = kl[i].ID == kl3[i].ID && model.SameContent(&a, &b)
			}
			if !same {
				viol(cls("rerun-changes-latest")+"/"+r.Kind, "running the identity job again changed the sink's latest versions", len(kl), len(kl3))
			} else {
				out.Stat("second_run_latest_unchanged", 1)
			}
			return
		}
		if len(feed3) != len(feed) {
			viol(cls("rerun-adds-changes")+"/"+r.Kind, fmt.Sprintf("running the identity job again added %d changes to the sink", len(feed3)-len(feed)), len(feed), len(feed3))
		} else {
			out.Stat("second_run_no_new_changes", 1)
		}
		return
	}

	// draft: expected feed = returned sequence with repeats of the current version dropped
	cur := map[string]string{}
	var exp []string
	deliver := func() {
		for i := 0; i < n; i++ {
			id := "e" + strconv.Itoa(i)
			for _, k := range []string{"draft", "entity"} {
				if cur[id] != k {
					cur[id] = k
					exp = append(exp, id+"|"+k)
				}
			}
		}
	}
	check := func(label string) bool {
		feed, ok := sinkFeed()
		if !ok {
			return false
		}
		var got []string
		for _, f := range feed {
			k := "entity"
			if _, isDraft := f.Props[gen.NsP+"draft"]; isDraft {
				k = "draft"
			}
			got = append(got, c10Local(f.ID)+"|"+k)
		}
		if !c10EqStr(exp, got) {
			viol(cls("sink-feed-differs-from-returned"), fmt.Sprintf("%s: the sink's change feed is not what the transform returned (draft, entity per source entity; only repeats of the current version may be dropped): %d changes, %d expected", label, len(got), len(exp)), c10Head(exp, 60), c10Head(got, 60))
			return false
		}
		out.Stat("draft_feed_as_returned", 1)
		// latest version of every id is the entity itself
		kl, err := obs.Listing(st.h.Core.Store, st.h.Core.Dsm.GetDataset(sink), 0)
		if err == nil {
			var bad []string
			for _, e := range kl {
				if _, isDraft := e.Props[gen.NsP+"draft"]; isDraft {
					bad = append(bad, c10Local(e.ID))
				}
			}
			if len(bad) > 0 {
				viol(cls("sink-latest-is-not-last-returned"), fmt.Sprintf("%s: the latest version of %v in the sink is the draft although the transform returned the entity after it", label, c10Head(bad, 10)), "entity", bad)
				return false
			}
			out.Stat("draft_latest_is_entity", 1)
		}
		return true
	}
	deliver()
	if !check("run 1") {
		return
	}
	cnt2, ok := run("run 2")
	if !ok {
		return
	}
	if r.Kind == "fullsync" {
		checkSeen("run 2", cnt2, func(int) int { return 1 })
		deliver()
	} else {
		checkSeen("run 2", cnt2, func(int) int { return 0 })
	}
	out.Stat("second_runs", 1)
	check("run 2")
}
