package scen

// c11sweep: configuration sweep of property C11. Every job definition out of the cross
// product  source x transform x sink x trigger x job type x error handlers x fault  that
// Scheduler.AddJob accepts is run (two trigger rounds + drain) in a hub process of its
// own (a sub-child of this process), so that a configuration that kills the hub is
// attributed and classified while the sweep goes on.
//
// modes (ctx.Arg "mode"):
//   (default) parent: enumerate / cover, spawn one sub-child per configuration
//   one       sub-child: run the single configuration given by cfg=<key>

import (
	"context"
	"encoding/base64"
	"encoding/json"
	"fmt"
	"math/rand"
	"os"
	"runtime/debug"
	"sort"
	"strconv"
	"strings"
	"sync"
	"time"

	"github.com/mimiro-io/datahub/internal/server"
)

func init() { Register("c11sweep", c11Sweep) }

var c11Factors = [][]string{
	{"sample", "slow", "dataset", "datasetLatest", "union", "multi", "http"}, // source
	// transform; the last four are degenerate blocks that Scheduler.AddJob accepts: JavascriptTransform
	// without Code / with empty Code (runs as if there were no transform), with Code that defines
	// no transform_entities function, HttpTransform without Url
	// jsDropAll: a JS transform that filters every entity away (the sink is handed empty batches)
	{"none", "js1", "js3", "http", "js5", "jsNoCode", "jsEmptyCode", "jsNoFunc", "httpNoUrl", "jsDropAll"},
	{"dataset", "devnull", "console", "http"}, // sink
	{"cron", "onchange"},                             // trigger
	{"incremental", "fullsync"},                      // job type
	{"none", "log", "rerun", "log+rerun", "requeue"}, // error handlers
	// fault; the stall values need an HttpDatasetSource: its remote end stalls (never answers /
	// stops in the middle of the body) and the run is killed while it stalls
	{"none", "fail", "stallHeaders", "stallBody"},
}

type c11Cfg struct {
	Source    string `json:"source"`
	Transform string `json:"transform"`
	Sink      string `json:"sink"`
	Trigger   string `json:"trigger"`
	JobType   string `json:"jobType"`
	Handlers  string `json:"handlers"`
	Fault     string `json:"fault"`
	Dev       bool   `json:"devLogger"`
}

func c11CfgOf(ix []int) c11Cfg {
	return c11Cfg{Source: c11Factors[0][ix[0]], Transform: c11Factors[1][ix[1]], Sink: c11Factors[2][ix[2]], Trigger: c11Factors[3][ix[3]],
		JobType: c11Factors[4][ix[4]], Handlers: c11Factors[5][ix[5]], Fault: c11Factors[6][ix[6]], Dev: true}
}

func (c c11Cfg) key() string {
	ix := make([]string, 0, 8)
	vals := []string{c.Source, c.Transform, c.Sink, c.Trigger, c.JobType, c.Handlers, c.Fault}
	for f, v := range vals {
		for i, x := range c11Factors[f] {
			if x == v {
				ix = append(ix, strconv.Itoa(i))
			}
		}
	}
	d := "0"
	if c.Dev {
		d = "1"
	}
	return strings.Join(ix, ".") + "." + d
}

func c11CfgFromKey(k string) (c11Cfg, error) {
	ps := strings.Split(k, ".")
	if len(ps) != 8 {
		return c11Cfg{}, fmt.Errorf("bad cfg key %q", k)
	}
	ix := make([]int, 7)
	for i := 0; i < 7; i++ {
		v, err := strconv.Atoi(ps[i])
		if err != nil || v < 0 || v >= len(c11Factors[i]) {
			return c11Cfg{}, fmt.Errorf("bad cfg key %q", k)
		}
		ix[i] = v
	}
	c := c11CfgOf(ix)
	c.Dev = ps[7] == "1"
	return c, nil
}

// faultPlace says where the injected failure of a configuration sits (first building
// block, from the sink backwards, that can be made to fail), "" when none can.
func (c c11Cfg) degenerateTransform() bool {
	switch c.Transform {
	case "jsNoCode", "jsEmptyCode", "jsNoFunc", "httpNoUrl":
		return true
	}
	return false
}

func (c c11Cfg) faultPlace() string {
	switch c.Fault {
	case "stallHeaders", "stallBody":
		if c.Source == "http" && !c.degenerateTransform() {
			if c.Fault == "stallHeaders" {
				return "source-stalls-before-headers+kill"
			}
			return "source-stalls-mid-body+kill"
		}
		return ""
	case "fail":
	default:
		return ""
	}
	if c.degenerateTransform() {
		return "" // degenerate transform blocks are swept without an injected fault
	}
	switch {
	case c.Source == "slow":
		return "kill" // killed while the source sleeps
	case c.Sink == "http" && c.Transform == "jsDropAll":
		return "sink-rejects-every-batch" // also the empty ones the filtering transform leaves
	case c.Sink == "http":
		return "sink-rejects-entity"
	case c.Sink == "dataset" && c.Transform == "jsDropAll":
		return "sink-dataset-missing"
	case c.Transform == "http":
		return "transform-400"
	case c.Transform == "js1" || c.Transform == "js3" || c.Transform == "js5":
		return "transform-throws"
	case c.Source == "http":
		return "source-500"
	case c.Sink == "dataset":
		return "sink-dataset-missing"
	case c.Source == "dataset" || c.Source == "datasetLatest" || c.Source == "union" || c.Source == "multi":
		return "source-dataset-missing"
	}
	return ""
}

func (c c11Cfg) optionalFeatures() (n int, tags []string) {
	add := func(b bool, t string) {
		if b {
			n++
			tags = append(tags, t)
		}
	}
	add(c.Transform != "none", "transform:"+c.Transform)
	add(c.Handlers != "none", "handlers:"+c.Handlers)
	add(c.Trigger == "onchange", "onchange")
	add(c.JobType == "fullsync", "fullsync")
	add(c.Source == "datasetLatest", "latestOnly")
	add(c.faultPlace() != "", "fault:"+c.faultPlace())
	tags = append(tags, "source:"+c.Source, "sink:"+c.Sink)
	return
}

// c11AllConfigs enumerates the full product (fault=fail without a place to fail is
// identical to fault=none and dropped).
func c11AllConfigs() []c11Cfg {
	var out []c11Cfg
	ix := make([]int, len(c11Factors))
	var rec func(f int)
	rec = func(f int) {
		if f == len(c11Factors) {
			c := c11CfgOf(ix)
			if c.Fault != "none" && c.faultPlace() == "" {
				return
			}
			out = append(out, c)
			return
		}
		for i := range c11Factors[f] {
			ix[f] = i
			rec(f + 1)
		}
	}
	rec(0)
	return out
}

// c11Cover picks greedily a subset of all that covers every t-tuple of factor values
// that occurs in all (seeded tie-break).
func c11Cover(all []c11Cfg, t int, r *rand.Rand) []c11Cfg {
	nf := len(c11Factors)
	var combos [][]int
	var rec func(start int, cur []int)
	rec = func(start int, cur []int) {
		if len(cur) == t {
			combos = append(combos, append([]int(nil), cur...))
			return
		}
		for f := start; f < nf; f++ {
			rec(f+1, append(cur, f))
		}
	}
	rec(0, nil)
	vals := func(c c11Cfg) []string {
		return []string{c.Source, c.Transform, c.Sink, c.Trigger, c.JobType, c.Handlers, c.Fault}
	}
	tuples := make([][]string, len(all))
	uncovered := map[string]bool{}
	for i, c := range all {
		v := vals(c)
		for ci, co := range combos {
			k := strconv.Itoa(ci)
			for _, f := range co {
				k += "|" + v[f]
			}
			tuples[i] = append(tuples[i], k)
			uncovered[k] = true
		}
	}
	order := r.Perm(len(all))
	var out []c11Cfg
	for len(uncovered) > 0 {
		best, bestN := -1, 0
		for _, i := range order {
			n := 0
			for _, k := range tuples[i] {
				if uncovered[k] {
					n++
				}
			}
			if n > bestN {
				best, bestN = i, n
			}
		}
		if best < 0 {
			break
		}
		out = append(out, all[best])
		for _, k := range tuples[best] {
			delete(uncovered, k)
		}
	}
	return out
}

func c11Sweep(ctx *Ctx) error {
	switch ctx.Arg("mode", "") {
	case "one":
		cfg, err := c11CfgFromKey(ctx.Arg("cfg", ""))
		if err != nil {
			return err
		}
		return c11RunOne(ctx, cfg)
	}
	// ---- parent
	var list []c11Cfg
	if ctx.Replay != "" {
		b, err := os.ReadFile(ctx.Replay)
		if err != nil {
			return err
		}
		var rp struct {
			Ops c11Cfg `json:"ops"`
		}
		if err := json.Unmarshal(b, &rp); err != nil {
			return err
		}
		list = []c11Cfg{rp.Ops}
	} else {
		all := c11AllConfigs()
		base := ctx.Seed / 100003 // the driver's VERIF_SEED: the same list in every child
		idx := int(ctx.Seed % 100003)
		shards, _ := strconv.Atoi(ctx.Arg("shards", "1"))
		if shards < 1 {
			shards = 1
		}
		var chosen []c11Cfg
		if ctx.Arg("cover", "full") == "full" {
			chosen = all
			r := rand.New(rand.NewSource(base))
			r.Shuffle(len(chosen), func(i, j int) { chosen[i], chosen[j] = chosen[j], chosen[i] })
		} else {
			// t-wise cover of the regular building blocks + pairwise cover of the definitions with a
			// degenerate transform block (each degenerate block meets every value of every other factor)
			t, _ := strconv.Atoi(ctx.Arg("cover", "3"))
			var regular, degen []c11Cfg
			for _, c := range all {
				if c.degenerateTransform() {
					degen = append(degen, c)
				} else {
					regular = append(regular, c)
				}
			}
			chosen = c11Cover(regular, t, rand.New(rand.NewSource(base)))
			chosen = append(chosen, c11Cover(degen, 2, rand.New(rand.NewSource(base+1)))...)
			// error-handling cluster: a 4-way interaction (filtering transform x failing sink x per-entity
			// error handler x fault) that a 3-wise cover does not guarantee; enumerated in full, the
			// source cycles through all values
			have := map[string]bool{}
			for _, c := range chosen {
				have[c.key()] = true
			}
			n := int(base)
			for _, hd := range []string{"log", "log+rerun", "rerun"} {
				for _, sk := range []string{"http", "dataset"} {
					for _, tg := range c11Factors[3] {
						for _, jt := range c11Factors[4] {
							src := c11Factors[0][n%len(c11Factors[0])]
							n++
							if src == "slow" { // its fault is the kill
								src = "sample"
							}
							c := c11Cfg{Source: src, Transform: "jsDropAll", Sink: sk, Trigger: tg, JobType: jt, Handlers: hd, Fault: "fail", Dev: true}
							if !have[c.key()] {
								have[c.key()] = true
								chosen = append(chosen, c)
							}
						}
					}
				}
			}
		}
		for i, c := range chosen {
			if i%shards == idx%shards {
				list = append(list, c)
			}
		}
		if idx%shards == 0 {
			ctx.Out.Stat("sweep.product_size", int64(len(all)))
			ctx.Out.Stat("sweep.selected", int64(len(chosen)))
		}
		if ctx.Cases > 0 && len(list) > ctx.Cases {
			ctx.Out.Stat("sweep.truncated_by_cases", int64(len(list)-ctx.Cases))
			list = list[:ctx.Cases]
		}
	}
	par, _ := strconv.Atoi(ctx.Arg("par", "3"))
	if par < 1 {
		par = 1
	}
	sem := make(chan struct{}, par)
	var wg sync.WaitGroup
	var mu sync.Mutex // one sub-child result is forwarded at a time
	for i, cfg := range list {
		wg.Add(1)
		sem <- struct{}{}
		go func(i int, cfg c11Cfg) {
			defer wg.Done()
			defer func() { <-sem }()
			c11SweepOne(ctx, &mu, i, cfg)
		}(i, cfg)
	}
	wg.Wait()
	return nil
}

// c11SweepOne runs one configuration in a sub-child and judges how the sub-child ended.
func c11SweepOne(ctx *Ctx, mu *sync.Mutex, i int, cfg c11Cfg) {
	caseID := outHash(cfg)
	mu.Lock()
	ctx.Out.Begin(caseID, i, map[string]any{"spawn": cfg})
	mu.Unlock()
	sub := c11Spawn(ctx, "c11sweep", "mode=one,cfg="+cfg.key(), fmt.Sprintf("%d", i), 150*time.Second, []string{"JOB_FULLSYNC_RETRY_INTERVAL=300ms"})
	mu.Lock()
	defer mu.Unlock()
	cases := c11Forward(ctx, sub)
	if len(cases) == 0 {
		// died before it could announce its case
		n, tags := cfg.optionalFeatures()
		ctx.Out.Case(caseID, ctx.Seed, cfg, n >= 2, tags)
	}
	ctx.Out.Stat("sweep.configs_run", 1)
	if sub.Done {
		ctx.Out.Ack(caseID, i, nil)
		return
	}
	if sub.TimedOut {
		ctx.Out.Stat("sweep.subchild_watchdog", 1)
		ctx.Out.Emit(map[string]any{"t": "inconclusive", "case": caseID, "prop": "C11", "why": "watchdog: hub sub-process did not finish", "last_begin": sub.LastBegin, "stderr_tail": c11Tail(sub.Stderr, 40)})
		return
	}
	d := c11ParseDeath(sub.Stderr)
	class := c11DeathClass(d, &cfg)
	ctx.Out.Stat("sweep.hub_died", 1)
	ctx.Out.Stat("sweep.died:"+class, 1)
	ctx.Out.Viol(caseID, "C11", class,
		fmt.Sprintf("hub process died (%s) while running configuration %+v; last step: %v; %s", sub.ExitErr, cfg, c11What(sub.LastBegin), d.Head),
		"every run ends as success, failure or kill; the hub process survives", d,
		map[string]any{"last_begin": sub.LastBegin, "stderr_tail": c11Tail(sub.Stderr, 45), "config": cfg})
	// a development logger turns an ill-formed log call into a panic; observe the same
	// configuration once more with a production-mode logger so that the rest of its
	// behaviour is not hidden behind that ending.
	if d.Kind == "dpanic-log" && cfg.Dev {
		c2 := cfg
		c2.Dev = false
		ctx.Out.Stat("sweep.rerun_with_prod_logger", 1)
		mu.Unlock()
		c11SweepOne(ctx, mu, i+100000, c2)
		mu.Lock()
	}
}

func c11What(b map[string]any) string {
	if b == nil {
		return "-"
	}
	j, _ := json.Marshal(b["what"])
	return string(j)
}

// ---------------------------------------------------------------- one configuration (sub-child)

const (
	c11SweepPoolIncr = 10
	c11SweepPoolFull = 5
	c11Watchdog      = 25 * time.Second
)

func c11JobConfig(cfg c11Cfg, id string, h *c11Hub, loop *c11Loop) map[string]any {
	place := cfg.faultPlace()
	mode := func(p string) string {
		if place == p {
			return "fail"
		}
		return "ok"
	}
	srcName := "src"
	if place == "source-dataset-missing" {
		srcName = "nosuchsrc"
	}
	var source map[string]any
	switch cfg.Source {
	case "sample":
		source = map[string]any{"Type": "SampleSource", "NumberOfEntities": 7}
	case "slow":
		sl := "120ms"
		if place == "kill" {
			sl = "700ms"
		}
		source = map[string]any{"Type": "SlowSource", "Sleep": sl, "BatchSize": 4}
	case "dataset":
		source = map[string]any{"Type": "DatasetSource", "Name": srcName}
	case "datasetLatest":
		source = map[string]any{"Type": "DatasetSource", "Name": srcName, "LatestOnly": true}
	case "union":
		source = map[string]any{"Type": "UnionDatasetSource", "DatasetSources": []any{map[string]any{"Name": srcName}, map[string]any{"Name": "other"}}}
	case "multi":
		source = map[string]any{"Type": "MultiSource", "Name": srcName, "Dependencies": []any{map[string]any{"dataset": "dep",
			"joins": []any{map[string]any{"dataset": srcName, "predicate": h.prefix + ":ref", "inverse": false}}}}}
	case "http":
		m := mode("source-500")
		switch place {
		case "source-stalls-before-headers+kill":
			m = "stallh"
		case "source-stalls-mid-body+kill":
			m = "stallb"
		}
		source = map[string]any{"Type": "HttpDatasetSource", "Url": loop.url() + "/src/" + id + "/" + m}
	}
	var transform map[string]any
	switch cfg.Transform {
	case "js1":
		transform = map[string]any{"Type": "JavascriptTransform", "Parallelism": 1, "Code": c11JS(id, 2000, place == "transform-throws")}
	case "js3":
		transform = map[string]any{"Type": "JavascriptTransform", "Parallelism": 3, "Code": c11JS(id, 2000, place == "transform-throws")}
	case "js5":
		transform = map[string]any{"Type": "JavascriptTransform", "Parallelism": 5, "Code": c11JS(id, 2000, place == "transform-throws")}
	case "jsDropAll":
		code := fmt.Sprintf(`function transform_entities(entities) { Log("c11:enter:%[1]s:" + entities.length); Log("c11:exit:%[1]s:0"); return []; }`, id)
		transform = map[string]any{"Type": "JavascriptTransform", "Parallelism": 1, "Code": base64.StdEncoding.EncodeToString([]byte(code))}
	case "http":
		transform = map[string]any{"Type": "HttpTransform", "Url": loop.url() + "/tr/" + id + "/" + mode("transform-400")}
	case "jsNoCode":
		transform = map[string]any{"Type": "JavascriptTransform"}
	case "jsEmptyCode":
		transform = map[string]any{"Type": "JavascriptTransform", "Code": "", "Parallelism": 3}
	case "jsNoFunc":
		transform = map[string]any{"Type": "JavascriptTransform", "Parallelism": 1, "Code": base64.StdEncoding.EncodeToString([]byte("var c11_nothing = 1;"))}
	case "httpNoUrl":
		transform = map[string]any{"Type": "HttpTransform"}
	}
	var sink map[string]any
	switch cfg.Sink {
	case "dataset":
		n := "sinkds"
		if place == "sink-dataset-missing" {
			n = "nosuchsink"
		}
		sink = map[string]any{"Type": "DatasetSink", "Name": n}
	case "devnull":
		sink = map[string]any{"Type": "DevNullSink"}
	case "console":
		sink = map[string]any{"Type": "ConsoleSink", "Prefix": "c11 "}
	case "http":
		m := mode("sink-rejects-entity")
		if place == "sink-rejects-every-batch" {
			m = "failall"
		}
		sink = map[string]any{"Type": "HttpDatasetSink", "Url": loop.url() + "/sink/" + id + "/" + m}
	}
	var handlers []any
	for _, hn := range strings.Split(cfg.Handlers, "+") {
		switch hn {
		case "log":
			handlers = append(handlers, map[string]any{"errorHandler": "log"})
		case "rerun":
			handlers = append(handlers, map[string]any{"errorHandler": "reRun", "maxRetries": 2, "retryDelay": 1})
		case "requeue":
			handlers = append(handlers, map[string]any{"errorHandler": "reQueue"})
		}
	}
	trig := map[string]any{"triggerType": cfg.Trigger, "jobType": cfg.JobType}
	if cfg.Trigger == "cron" {
		trig["schedule"] = "@every 1s"
	} else {
		trig["monitoredDataset"] = c11Monitored(cfg)
	}
	if handlers != nil {
		trig["onError"] = handlers
	}
	// batch sizes that do not divide evenly among the transform workers: 4 entities for 3 workers
	// (chunks 2,2,-), 7 for 5 (chunks 2,2,2,1,-); the tail batches give the even / smaller cases
	bs := 4
	if cfg.Transform == "js5" {
		bs = 7
	}
	job := map[string]any{"id": id, "title": id, "batchSize": bs, "source": source, "sink": sink, "triggers": []any{trig}}
	if transform != nil {
		job["transform"] = transform
	}
	return job
}

func c11Monitored(cfg c11Cfg) string {
	switch cfg.Source {
	case "dataset", "datasetLatest", "union", "multi":
		if cfg.faultPlace() != "source-dataset-missing" {
			return "src"
		}
	}
	return "trig"
}

func c11RunOne(ctx *Ctx, cfg c11Cfg) (rerr error) {
	o := ctx.Out
	caseID := outHash(cfg)
	nopt, tags := cfg.optionalFeatures()
	o.Case(caseID, ctx.Seed, cfg, nopt >= 2, tags)
	// an unbounded recursion in the hub shall end this process after 64 MB of stack, not after the
	// default 1 GB (the verdict - process died with "stack overflow" - is the same, it only comes sooner)
	debug.SetMaxStack(64 << 20)
	dir := ctx.NewDir("c11hub")
	defer os.RemoveAll(dir)
	h, err := c11OpenHub(dir, c11SweepPoolIncr, c11SweepPoolFull, cfg.Dev)
	if err != nil {
		return err
	}
	loop := newC11Loop()
	id := "job-" + strings.ReplaceAll(cfg.key(), ".", "")
	loop.nEnt[id] = 7
	for _, ds := range []string{"src", "other", "dep", "sinkds", "trig"} {
		if _, err := h.dsm.CreateDataset(ds, nil); err != nil {
			return err
		}
	}
	// round-1 data is in place before the job exists
	if err := h.writeEntities("src", 0, 7, 1, ""); err != nil {
		return err
	}
	_ = h.writeEntities("other", 20, 24, 1, "")
	_ = h.writeEntities("dep", 0, 3, 1, "src")

	op := 0
	step := func(what string, extra map[string]any) int {
		op++
		m := map[string]any{"step": what, "cfg": cfg.key()}
		for k, v := range extra {
			m[k] = v
		}
		o.Begin(caseID, op, m)
		return op
	}
	viol := func(class, msg string, exp, obs any, extra map[string]any) {
		if extra == nil {
			extra = map[string]any{}
		}
		extra["config"] = cfg
		o.Viol(caseID, "C11", class, msg, exp, obs, extra)
		o.Stat("sweep.viol:"+class, 1)
	}

	jc := c11JobConfig(cfg, id, h, loop)
	raw, _ := json.Marshal(jc)
	n := step("AddJob", map[string]any{"job": jc})
	parsed, err := h.sched.Parse(raw)
	if err == nil {
		err = h.sched.AddJob(parsed)
	}
	o.Ack(caseID, n, err)
	if err != nil {
		o.Stat("sweep.rejected_by_AddJob", 1)
		o.Stat("sweep.reject:"+c11FirstWords(err.Error(), 6), 1)
		return nil
	}
	o.Stat("sweep.accepted", 1)
	if nopt >= 2 {
		o.Stat("sweep.accepted_nontrivial", 1)
	}
	o.FlushStats() // the hub may die below; what was counted so far must not be lost

	rec := h.rec
	inconclusive := false
	// runs that gave the slot back without an outcome event ended by unwinding a panic; the
	// process normally dies right after (reported by the parent). They are judged at the very
	// end, if the process is still there.
	var noOutcome []c11Run
	judge := func() {
		for _, r := range rec.takeUnjudged() {
			if r.Outcome == "" {
				noOutcome = append(noOutcome, r)
				o.Stat("sweep.run_without_outcome_event", 1)
				continue
			}
			o.Stat("sweep.runs_ended", 1)
			o.Stat("sweep.outcome:"+c11nz(r.Outcome, "none"), 1)
			if r.Full {
				o.Stat("sweep.runs_fullsync", 1)
			}
			// a stored result of this job id whose End is not older than the moment the slot was taken
			if !r.ResFound || r.ResID != id || r.ResEnd.Before(r.TBorrow.Round(0).Add(-time.Millisecond)) {
				viol("result-missing:"+c11nz(r.Outcome, "none"),
					fmt.Sprintf("run of %s (outcome %q) gave its slot back but no run result newer than its start is stored", id, r.Outcome),
					"job result with End >= start of the run", r, nil)
			} else {
				o.Stat("sweep.results_checked", 1)
				if r.ResErr != "" {
					o.Stat("sweep.results_with_error", 1)
				}
			}
		}
	}
	var killSeq int64 // logical time at which the last KillJob returned (0 = none)
	// wait until at least `want` runs have given their slot back; decide what a watchdog means
	waitEnded := func(want int, what string) bool {
		// the watchdog is split into slices; after each slice the STATE of the runs that have not
		// ended is examined (goroutine dump). A run that is parked for good is a violation at once,
		// whatever the clock says; anything else keeps waiting and ends as inconclusive.
		for _, slice := range []time.Duration{2 * time.Second, 3 * time.Second, 5 * time.Second, 15 * time.Second} {
			if rec.waitFor(slice, func() bool { return rec.ended >= want }) {
				return true
			}
			if n := c11JudgeStuck(h, viol); n > 0 {
				o.Stat("sweep.runs_blocked_forever", int64(n))
				return false
			}
			if n := c11JudgeRecursion(h, viol); n > 0 {
				o.Stat("sweep.runs_recursing_without_end", int64(n))
				return false
			}
			if killSeq > 0 {
				if n := c11JudgeNetAfterKill(h, loop, id, killSeq, viol); n > 0 {
					o.Stat("sweep.killed_runs_parked_in_http_read", int64(n))
					return false
				}
			}
		}
		// something is stuck: a run whose pipeline reported its outcome and whose result is stored
		// has nothing left to do but give the slot back.
		stuck := false
		for _, r := range rec.snapshotRuns() {
			if r.SeqReturn == 0 && r.Outcome != "" {
				res := &c11StoredResult{}
				_ = h.store.GetObject(server.JobResultIndex, id, res)
				if res.ID == id && !res.End.Before(r.TBorrow.Round(0).Add(-time.Millisecond)) {
					stuck = true
					viol("slot-not-released:"+r.Outcome,
						fmt.Sprintf("run of %s reported outcome %q and stored its result but still holds its run slot", id, r.Outcome),
						"slot returned and id removed from running jobs", r, map[string]any{"waiting_for": what})
				}
			}
		}
		if !stuck {
			inconclusive = true
			rs := rec.snapshotRuns()
			o.Emit(map[string]any{"t": "inconclusive", "case": caseID, "prop": "C11",
				"why": fmt.Sprintf("watchdog while waiting for %s: started=%d ended=%d", what, rec.started, rec.ended), "runs": rs, "config": cfg})
			o.Stat("sweep.watchdog:"+what, 1)
		}
		return false
	}
	trigger := func(round int) {
		if cfg.Trigger == "onchange" {
			ds := c11Monitored(cfg)
			_ = h.writeEntities(ds, 100+round, 101+round, round, "")
		}
	}
	place := cfg.faultPlace()

	okSoFar := true
	for round := 1; round <= 2 && okSoFar; round++ {
		if round == 2 {
			// new data for the second run
			_ = h.writeEntitiesNoEmit("src", 3, 10, 2)
			_ = h.writeEntitiesNoEmit("other", 22, 26, 2)
			loop.mu.Lock()
			loop.gen[id]++
			loop.nEnt[id] = 9
			loop.mu.Unlock()
		}
		before := 0
		rec.mu.Lock()
		before = rec.ended
		startedBefore := rec.started
		rec.mu.Unlock()
		n := step(fmt.Sprintf("round-%d", round), map[string]any{"trigger": cfg.Trigger, "fault": place})
		trigger(round)
		if place == "kill" {
			// kill the run while its source sleeps
			if rec.waitFor(c11Watchdog, func() bool {
				for _, r := range rec.open {
					if r.ID == id {
						return true
					}
				}
				return rec.started > startedBefore && rec.ended > before
			}) {
				h.sched.KillJob(id)
				o.Stat("sweep.kill_issued", 1)
			}
		}
		if strings.HasPrefix(place, "source-stalls") {
			// kill the run while the remote end of its source stalls
			if rec.waitFor(c11Watchdog, func() bool {
				if loop.stalledNow(id) == 0 {
					return false
				}
				for _, r := range rec.open {
					if r.ID == id {
						return true
					}
				}
				return false
			}) {
				h.sched.KillJob(id)
				killSeq = c11Tick()
				o.Stat("sweep.kill_issued_while_source_stalls", 1)
			} else {
				o.Stat("sweep.stall_not_reached", 1)
			}
		}
		okSoFar = waitEnded(before+1, fmt.Sprintf("round-%d", round))
		o.Ack(caseID, n, nil)
		judge()
	}
	loop.stopStalling() // held requests are let go, the stall endpoints answer from now on

	// drain: stop the trigger (cron: pause = remove the cron entries), let retries finish
	n = step("drain", nil)
	if cfg.Trigger == "cron" {
		if err := h.sched.PauseJob(id); err != nil {
			o.Stat("sweep.pause_error", 1)
		}
	}
	settle := 250 * time.Millisecond
	if strings.Contains(cfg.Handlers, "rerun") && place != "" {
		settle = 1300 * time.Millisecond // retryDelay is 1 s
	}
	if cfg.JobType == "fullsync" {
		settle += 350 * time.Millisecond // queueRetry interval (JOB_FULLSYNC_RETRY_INTERVAL)
	}
	quiet := false
	for i := 0; i < 12 && okSoFar; i++ {
		if !rec.waitFor(c11Watchdog, func() bool { return len(rec.open) == 0 }) {
			okSoFar = waitEnded(1<<30, "drain")
			break
		}
		rec.mu.Lock()
		g := rec.gen
		rec.mu.Unlock()
		time.Sleep(settle)
		rec.mu.Lock()
		quiet = rec.gen == g && len(rec.open) == 0
		rec.mu.Unlock()
		if quiet {
			break
		}
	}
	if okSoFar && !quiet {
		inconclusive = true
		o.Stat("sweep.not_quiescent_after_drain", 1)
		o.Emit(map[string]any{"t": "inconclusive", "case": caseID, "prop": "C11", "why": "watchdog: runs kept starting after the trigger was stopped", "runs": rec.snapshotRuns(), "config": cfg})
	}
	o.Ack(caseID, n, nil)
	judge()

	// final state: slot conservation (one critical section), public view, history
	n = step("final-state", nil)
	bad, ni, nf := h.conservation()
	for _, b := range bad {
		viol("slot-conservation", "run slots are not conserved: "+b, "tickets + running == pool", b, nil)
	}
	o.Stat("sweep.conservation_checks", 1)
	_, _, _ = ni, nf, inconclusive
	if okSoFar {
		if listed, checked := h.publicRunningCheck(); checked {
			o.Stat("sweep.public_running_checks", 1)
			if len(listed) != 0 {
				viol("running-after-end", fmt.Sprintf("GetRunningJobs lists %v although no run holds a slot", listed), "[]", listed, nil)
			}
		} else {
			o.Stat("sweep.public_running_check_skipped", 1)
		}
	}
	rec.mu.Lock()
	ended, started := rec.ended, rec.started
	anom := append([]string(nil), rec.anomalies...)
	cnt := map[string]int64{}
	for k, v := range rec.counts {
		cnt[k] = v
	}
	rec.mu.Unlock()
	if ended > 0 {
		found := false
		for _, r := range h.sched.GetJobHistory() {
			if r.ID == id {
				found = true
			}
		}
		if !found {
			viol("history-missing", fmt.Sprintf("GetJobHistory has no entry for %s after %d finished run(s)", id, ended), "entry", nil, nil)
		}
		o.Stat("sweep.history_checks", 1)
	}
	o.Ack(caseID, n, nil)

	// interval monitors over the recorded slot intervals (single job id: any overlap is a violation)
	ivs := c11RunIntervals(rec.snapshotRuns())
	for _, p := range c11Overlaps(ivs) {
		if p[0].Key == "" {
			continue
		}
		viol("overlap-same-id", fmt.Sprintf("two runs of %s held a run slot at the same time", p[0].Key), "disjoint run intervals per job id", p, nil)
	}
	mx, _ := c11MaxOpen(ivs)
	if mx["incremental"] > c11SweepPoolIncr || mx["fullsync"] > c11SweepPoolFull {
		viol("pool-exceeded", "more simultaneous runs than the pool", []int{c11SweepPoolIncr, c11SweepPoolFull}, mx, nil)
	}
	for _, a := range anom {
		o.Stat("sweep.recorder_anomaly", 1)
		o.Emit(map[string]any{"t": "ev", "case": caseID, "k": "anomaly", "msg": a})
	}
	o.Stat("sweep.runs_started", int64(started))
	for k, v := range cnt {
		o.Stat("sweep."+k, v)
	}
	if started == 0 {
		o.Stat("sweep.configs_without_run", 1)
	}
	reqs := loop.requests()
	for _, r := range reqs {
		o.Stat(fmt.Sprintf("sweep.loopback.%s.%d", r.Kind, r.Code), 1)
	}
	mk := h.markersCopy()
	for _, m := range mk {
		ps := strings.Split(m.Msg, ":")
		if len(ps) >= 2 {
			o.Stat("sweep.jsmarker."+ps[1], 1)
		}
	}
	_ = context.Background()
	for _, r := range noOutcome {
		viol("run-ended-without-outcome", fmt.Sprintf("a run of %s gave its slot back without reporting success, failure or kill (panic unwound and recovered?) and the hub lives on", id),
			"success | error | cancelled", r, nil)
	}
	// The store is deliberately not closed: a re-run timer of the hub may still fire and the
	// process ends right after the "done" line anyway.
	rec.mu.Lock()
	rec.closing = true
	if len(rec.open) > 0 {
		o.Stat("sweep.ended_with_open_run", 1)
	}
	rec.mu.Unlock()
	return nil
}

// writeEntitiesNoEmit stores a new version of entities without the dataset event (data
// arriving while the trigger under test is a cron schedule).
func (h *c11Hub) writeEntitiesNoEmit(ds string, from, to, v int) error {
	d := h.dsm.GetDataset(ds)
	if d == nil {
		return fmt.Errorf("no dataset %s", ds)
	}
	ents := h.mkEntities(from, to, v)
	return d.StoreEntities(ents)
}

var _ = sort.Strings
