package scen

// c09fullsync: sequence monitor for C09 ("a full sync deletes exactly what the
// completed sync did not contain").
//
// Workload: seeded histories over one dataset of
//   hstart(id|none) / hbatch(id|foreign|none) / hend(id|foreign|none)   real HTTP handler through the echo router
//   jobrun                                                    a real fullsync job (scheduler-built job object, FullSyncPipeline:
//                                                             DatasetSource -> filtering JavascriptTransform -> DatasetSink, batchSize 1-3)
//   txn                                                       POST /transactions (real handler, Store.ExecuteTransaction) into the dataset
//   jstart(j) / jbatch(j) / jend(j)                           what jobs.datasetSink does (Dataset API)
//   sleep (past the lease), par{…}                            ops issued concurrently
// with a lease timeout of 100-200 ms and hook-stretched windows between the
// lease goroutine and the end request.
//
// Oracle: keyed ONLY on the recorded status codes and on the change feed read
// before and after every op (never on elapsed time):
//   end answered 200 / job end returned nil for the sync that is current
//       => every live entity not written since the start has exactly ONE new tombstone,
//          everything written is live with the content last written, nothing else changed
//   fullsync job (jobrun) recorded as successful
//       => the deletion rule with "written" = the ids of the SOURCE that the job's transform lets through (derived from
//          source + transform, not from what the run happened to write): they are live with the source content,
//          every other live entity of the sink has exactly one new tombstone
//   request answered 409 => feed unchanged
//   end answered 410     => no tombstone now (body may have been stored: not demanded either way)
//   job end of a superseded sync => feed unchanged
//   between two ops and after a final sleep => feed unchanged (no late tombstones)
//   own end request refused with 5xx (e.g. its context was cancelled) => nothing deleted; the sync is not completed.
//       If the HISTORY then orders sleeps of >= 3 lease timeouts with no accepted request of that sync in between
//       (a requested, not a measured duration - the only place a duration enters a verdict), the sync must be dead:
//       a header-less / foreign-id write answered 409 or a late end with its id answered 200 is a violation.
//       A retry of the end before that may complete the sync (then the completion rule applies).
//   foreign-id batch answered 200 inside a sync that later completes with 200 => violation

import (
	"bytes"
	"context"
	"encoding/json"
	"fmt"
	"math/rand"
	"net/http/httptest"
	"os"
	"runtime/debug"
	"sort"
	"strconv"
	"strings"
	"sync"
	"sync/atomic"
	"time"

	"github.com/DataDog/datadog-go/v5/statsd"
	"github.com/labstack/echo/v4"

	"github.com/mimiro-io/datahub/internal/conf"
	"github.com/mimiro-io/datahub/internal/jobs"
	"github.com/mimiro-io/datahub/internal/security"
	"github.com/mimiro-io/datahub/internal/server"
	"github.com/mimiro-io/datahub/internal/verif/gen"
	"github.com/mimiro-io/datahub/internal/verif/hub"
	"github.com/mimiro-io/datahub/internal/verif/model"
	"github.com/mimiro-io/datahub/internal/verif/obs"
	"github.com/mimiro-io/datahub/internal/verif/vh"
	"github.com/mimiro-io/datahub/internal/web"
)

func init() { Register("c09fullsync", c09FullSync) }

const (
	c9Pool        = 6
	c9HookLease   = "ds.lease.afterDone"
	c9HookRel     = "web.fullsync.beforeRelease"
	c9HookComp    = "ds.completeFullSync.begin"
	c9HdrStart    = "universal-data-api-full-sync-start"
	c9HdrID       = "universal-data-api-full-sync-id"
	c9HdrEnd      = "universal-data-api-full-sync-end"
	c9IncrJob     = 9 // job handle of a plain (incremental) dataset-sink writer that never starts a sync
	c9StatusPanic = -1
)

// C9Ent is one entity of a request body: id index, content version, deleted flag.
type C9Ent struct {
	N   int  `json:"n"`
	V   int  `json:"v"`
	Del bool `json:"del,omitempty"`
}

type C9Op struct {
	K    string  `json:"k"` // hstart hbatch hend txn jstart jbatch jend sleep par
	ID   string  `json:"id,omitempty"`
	Job  int     `json:"job,omitempty"`
	Ents []C9Ent `json:"ents,omitempty"`
	Ms   int     `json:"ms,omitempty"`
	// Cancel (hend, jend): the request context is cancelled "pre" = before the request is issued (client gone /
	// timed out) or "hook" = when the hub reaches ds.completeFullSync.begin
	Cancel string `json:"cancel,omitempty"`
	// AtHook (jend): a start request (hstart / jstart) issued from inside ds.completeFullSync.begin of this end,
	// i.e. another sync starts exactly while the job is ending its own
	AtHook *C9Op `json:"at_hook,omitempty"`
	// Rng: entity ranges of the body in compact form (large datasets); expanded in front of Ents before the op runs
	Rng []C9Range `json:"rng,omitempty"`
	Par []C9Op    `json:"par,omitempty"`
}

// C9Range: entities Lo..Hi-1 with content V; Pct>0 keeps a pseudo-random Pct percent of them (chosen by Salt).
type C9Range struct {
	Lo   int `json:"lo"`
	Hi   int `json:"hi"`
	V    int `json:"v"`
	Pct  int `json:"pct,omitempty"`
	Salt int `json:"salt,omitempty"`
}

func (g C9Range) has(n int) bool {
	if n < g.Lo || n >= g.Hi {
		return false
	}
	if g.Pct <= 0 || g.Pct >= 100 {
		return true
	}
	h := uint32(n)*2654435761 + uint32(g.Salt)*40503
	h ^= h >> 13
	h *= 2246822519
	h ^= h >> 16
	return int(h%100) < g.Pct
}

// c9Expand materialises the ranges of an op (and of its nested ops) into Ents.
func c9Expand(op C9Op) C9Op {
	if len(op.Rng) > 0 {
		var ents []C9Ent
		for _, g := range op.Rng {
			for n := g.Lo; n < g.Hi; n++ {
				if g.has(n) {
					ents = append(ents, C9Ent{N: n, V: g.V})
				}
			}
		}
		op.Ents = append(ents, op.Ents...)
		op.Rng = nil
	}
	if len(op.Par) > 0 {
		par := make([]C9Op, len(op.Par))
		for i := range op.Par {
			par[i] = c9Expand(op.Par[i])
		}
		op.Par = par
	}
	if op.AtHook != nil {
		n := c9Expand(*op.AtHook)
		op.AtHook = &n
	}
	return op
}

// C9Pipe: the fullsync job of a pipeline case. Src is the source dataset in change order (one version per id),
// Drop the ids the JavaScript transform filters out, Batch the job's batchSize (= page size of the source reads).
type C9Pipe struct {
	Src   []C9Ent `json:"src"`
	Drop  []int   `json:"drop"`
	Batch int     `json:"batch"`
}

func (p *C9Pipe) dropped(n int) bool {
	for _, d := range p.Drop {
		if d == n {
			return true
		}
	}
	return false
}

// passing: what a complete run of the job delivers to the sink.
func (p *C9Pipe) passing() []C9Ent {
	var out []C9Ent
	for _, e := range p.Src {
		if !p.dropped(e.N) {
			out = append(out, e)
		}
	}
	return out
}

func (p *C9Pipe) code() string {
	var d []string
	for _, n := range p.Drop {
		d = append(d, fmt.Sprintf("%d:1", n))
	}
	return `function transform_entities(entities) {
  var DROP = {` + strings.Join(d, ",") + `};
  var out = [];
  for (var i = 0; i < entities.length; i++) {
    var id = GetId(entities[i]);
    var n = parseInt(id.substring(id.lastIndexOf("e") + 1));
    if (!DROP[n]) { out.push(entities[i]); }
  }
  return out;
}`
}

type C9Case struct {
	LeaseMs int            `json:"lease_ms"`
	Hooks   map[string]int `json:"hooks,omitempty"` // point -> sleep ms at every hit
	Pipe    *C9Pipe        `json:"pipe,omitempty"`  // source, transform filter and batch size of the fullsync job of "jobrun" ops
	Bulk    int            `json:"bulk,omitempty"`  // extra entities stored before the history (ids 100..)
	Ops     []C9Op         `json:"ops"`
	Tags    []string       `json:"tags"`
}

// ---------------------------------------------------------------- generator

type c9Client struct {
	http  bool
	id    string
	job   int
	ended bool
}

func c9Body(r *rand.Rand, avoid map[int]bool, allowDel bool, max int) []C9Ent {
	n := 1 + r.Intn(max)
	var out []C9Ent
	perm := r.Perm(c9Pool)
	for _, p := range perm {
		if len(out) == n {
			break
		}
		if avoid != nil && avoid[p] {
			continue
		}
		e := C9Ent{N: p, V: r.Intn(3)}
		if allowDel && r.Intn(6) == 0 {
			e.Del = true
		}
		out = append(out, e)
	}
	return out
}

func genC9Case(r *rand.Rand, parPct int, hookPct int, tmplPct int, leaseMs int, httpSup bool) C9Case {
	c := C9Case{LeaseMs: leaseMs}
	tags := map[string]bool{}
	L := c.LeaseMs
	if r.Intn(100) < hookPct {
		c.Hooks = map[string]int{}
		f := func(opts ...int) int { return opts[r.Intn(len(opts))] }
		switch r.Intn(7) {
		case 0:
			c.Hooks[c9HookLease] = f(L/2, L*12/10, 2*L)
		case 1:
			c.Hooks[c9HookRel] = f(L/2, L*13/10)
		case 2:
			c.Hooks[c9HookComp] = f(L/2, L*13/10)
		case 3:
			c.Hooks[c9HookLease] = f(L*12/10, 2*L)
			c.Hooks[c9HookComp] = f(L*15/10, 25*L/10)
		case 4:
			c.Hooks[c9HookLease] = f(L/2, L*12/10)
			c.Hooks[c9HookRel] = f(L/2, L*13/10)
		case 5:
			c.Hooks[c9HookRel] = f(L*7/10, L*9/10)
			c.Hooks[c9HookComp] = f(L/2, L)
		case 6:
			c.Hooks[c9HookLease] = f(L/4, L)
			c.Hooks[c9HookRel] = f(L/4, L/2)
			c.Hooks[c9HookComp] = f(L/4, L)
		}
		tags["hooks"] = true
	}
	var clients []*c9Client
	letters := []string{"A", "B", "C", "D", "E"}
	nextLetter := 0
	nextJob := 1
	active := func() []*c9Client {
		var a []*c9Client
		for _, cl := range clients {
			if !cl.ended {
				a = append(a, cl)
			}
		}
		return a
	}
	latest := func() *c9Client {
		if len(clients) == 0 {
			return nil
		}
		return clients[len(clients)-1]
	}
	curHTTPID := func() string {
		if l := latest(); l != nil && l.http && !l.ended {
			return l.id
		}
		return ""
	}
	foreignID := func() string {
		cur := curHTTPID()
		for k := 0; k < 10; k++ {
			x := append([]string{"Z"}, letters...)[r.Intn(6)]
			if x != cur {
				return x
			}
		}
		return "Z"
	}
	// endWithStartInside: the end of job client cl during which (at ds.completeFullSync.begin) another sync starts
	var endWithStartInside func(cl *c9Client) C9Op
	foreignIDOf := func(cl *c9Client) string {
		if cl.id == "" {
			return "Z"
		}
		return ""
	}
	startHTTP := func(idless bool) C9Op {
		if len(active()) > 0 {
			tags["supersede"] = true
		}
		tags["http-sync"] = true
		if idless { // HTTP sync without a sync id header
			clients = append(clients, &c9Client{http: true, id: ""})
			tags["idless-start"] = true
			return C9Op{K: "hstart", Ents: c9Body(r, nil, false, 3)}
		}
		id := letters[nextLetter%len(letters)]
		if nextLetter > 0 && r.Intn(100) < 15 {
			id = letters[r.Intn(nextLetter)%len(letters)]
			tags["id-reuse"] = true
		} else {
			nextLetter++
		}
		clients = append(clients, &c9Client{http: true, id: id})
		return C9Op{K: "hstart", ID: id, Ents: c9Body(r, nil, false, 3)}
	}
	startJob := func() C9Op {
		if len(active()) > 0 {
			tags["supersede"] = true
		}
		j := nextJob
		nextJob++
		clients = append(clients, &c9Client{job: j})
		tags["job-sync"] = true
		return C9Op{K: "jstart", Job: j}
	}
	endWithStartInside = func(cl *c9Client) C9Op {
		tags["start-inside-job-end"] = true
		cl.ended = true
		var st C9Op
		if r.Intn(100) < 60 {
			st = startHTTP(false)
		} else {
			st = startJob()
		}
		if cl.http { // only with httpsup=1: known open defect of the HTTP end path, see replays/C09-minimal/r5-*
			return C9Op{K: "hend", ID: cl.id, AtHook: &st}
		}
		return C9Op{K: "jend", Job: cl.job, AtHook: &st}
	}
	start := func() C9Op {
		if r.Intn(100) < 60 {
			return startHTTP(r.Intn(100) < 12)
		}
		return startJob()
	}
	batchOf := func(cl *c9Client, avoid map[int]bool) C9Op {
		if cl.http {
			return C9Op{K: "hbatch", ID: cl.id, Ents: c9Body(r, avoid, false, 3)}
		}
		return C9Op{K: "jbatch", Job: cl.job, Ents: c9Body(r, avoid, false, 3)}
	}
	endOf := func(cl *c9Client) C9Op {
		cl.ended = true
		if cl.http {
			op := C9Op{K: "hend", ID: cl.id}
			if r.Intn(3) == 0 {
				op.Ents = c9Body(r, nil, false, 2)
			}
			return op
		}
		return C9Op{K: "jend", Job: cl.job}
	}
	parWrap := func(main C9Op, cl *c9Client) C9Op {
		tags["par"] = true
		avoid := map[int]bool{}
		for _, e := range main.Ents {
			avoid[e.N] = true
		}
		p := C9Op{K: "par", Par: []C9Op{main}}
		k := 1 + r.Intn(2)
		for i := 0; i < k; i++ {
			var b C9Op
			switch x := r.Intn(100); {
			case x < 45:
				b = batchOf(cl, avoid)
			case x < 65:
				b = C9Op{K: "hbatch", Ents: c9Body(r, avoid, false, 2)}
			case x < 82:
				b = C9Op{K: "txn", Ents: c9Body(r, avoid, false, 2)}
				tags["txn"] = true
			default:
				b = C9Op{K: "jbatch", Job: c9IncrJob, Ents: c9Body(r, avoid, false, 2)}
			}
			if len(b.Ents) == 0 {
				continue
			}
			for _, e := range b.Ents {
				avoid[e.N] = true
			}
			p.Par = append(p.Par, b)
		}
		if len(p.Par) == 1 {
			return main
		}
		return p
	}
	failedEnds := 0
	sleepOp := func() C9Op {
		tags["sleep"] = true
		if failedEnds > 0 && r.Intn(2) == 0 { // "longer than the lease" by a wide margin
			tags["long-sleep"] = true
			return C9Op{K: "sleep", Ms: L * 32 / 10}
		}
		return C9Op{K: "sleep", Ms: L * 16 / 10}
	}
	longSleep := func() C9Op { tags["sleep"], tags["long-sleep"] = true, true; return C9Op{K: "sleep", Ms: L * 32 / 10} }
	// cancelledEnd: the end request of cl with a request context that is cancelled before the request is sent
	// (client gone / timed out) or when the hub begins the completion. The client is NOT finished: it may retry.
	cancelledEnd := func(cl *c9Client) C9Op {
		tags["cancelled-end"] = true
		failedEnds++
		how := "pre"
		if r.Intn(3) == 0 {
			how = "hook"
		}
		if cl.http {
			op := C9Op{K: "hend", ID: cl.id, Cancel: how}
			if r.Intn(4) == 0 {
				op.Ents = c9Body(r, nil, false, 2)
			}
			return op
		}
		cl.ended = true // a job whose end failed starts over with a new run
		return C9Op{K: "jend", Job: cl.job, Cancel: how}
	}
	idlessEnd := func() C9Op { // an end request without a sync id header
		tags["idless-end"] = true
		op := C9Op{K: "hend"}
		if r.Intn(3) == 0 {
			op.Ents = c9Body(r, nil, false, 2)
		}
		// it IS the end of an id-less HTTP sync if that is the latest start
		if l := latest(); l != nil && l.http && l.id == "" && !l.ended {
			l.ended = true
		}
		return op
	}
	txnOp := func(allowDel bool) C9Op {
		tags["txn"] = true
		return C9Op{K: "txn", Ents: c9Body(r, nil, allowDel, 3)}
	}

	// prelude: populate
	c.Ops = append(c.Ops, C9Op{K: "hbatch", Ents: c9Body(r, nil, false, 5)})
	if r.Intn(2) == 0 {
		c.Ops = append(c.Ops, C9Op{K: "hbatch", Ents: c9Body(r, nil, true, 3)})
	}
	// directed opening: one of the orders that reading / earlier findings single out, with random bodies;
	// the random walk below continues from whatever state it leaves
	if r.Intn(100) < tmplPct {
		add := func(ops ...C9Op) { c.Ops = append(c.Ops, ops...) }
		maybe := func(pct int, f func()) {
			if r.Intn(100) < pct {
				f()
			}
		}
		t := r.Intn(14)
		switch { // orders that need several steps in a row get a larger share
		case t > 12:
			t = 9
		case t > 9:
			t = 8
		}
		tags[fmt.Sprintf("template-%d", t)] = true
		switch t {
		case 0: // HTTP sync superseded by a job sync, then an end request without id while the job sync runs / is abandoned
			add(startHTTP(false))
			h := latest()
			maybe(50, func() { add(batchOf(h, nil)) })
			add(startJob())
			j := latest()
			maybe(60, func() { add(batchOf(j, nil)) })
			add(idlessEnd())
			maybe(50, func() { add(batchOf(j, nil)) })
			maybe(60, func() { add(endOf(j)) })
		case 1: // transaction write into the dataset inside a sync
			if r.Intn(2) == 0 {
				add(startHTTP(r.Intn(8) == 0))
			} else {
				add(startJob())
			}
			cl := latest()
			maybe(60, func() { add(batchOf(cl, nil)) })
			add(txnOp(false))
			tags["txn-in-sync"] = true
			maybe(40, func() { add(batchOf(cl, nil)) })
			add(endOf(cl))
		case 2: // job sync superseded by an HTTP sync, the job ends anyway
			add(startJob())
			j := latest()
			add(batchOf(j, nil), startHTTP(false))
			h := latest()
			add(endOf(j), batchOf(h, nil), endOf(h))
		case 3: // header-less HTTP write inside a job sync, then a pause
			add(startJob())
			j := latest()
			add(C9Op{K: "hbatch", Ents: c9Body(r, nil, false, 2)}, sleepOp(), batchOf(j, nil), endOf(j))
			tags["plain-in-sync"] = true
		case 4: // HTTP sync without id: header-less writes belong to it, ids are foreign
			add(startHTTP(true))
			h := latest()
			add(batchOf(h, nil))
			maybe(60, func() { add(C9Op{K: "hbatch", ID: "Z", Ents: c9Body(r, nil, false, 2)}); tags["foreign-batch"] = true })
			maybe(40, func() { add(txnOp(false)); tags["txn-in-sync"] = true })
			add(endOf(h))
		case 5: // end request without id after the lease of an HTTP sync ran out
			add(startHTTP(false), sleepOp(), idlessEnd())
		case 6: // end request without id after a superseding job sync has ended
			add(startHTTP(false), startJob())
			j := latest()
			maybe(60, func() { add(batchOf(j, nil)) })
			add(endOf(j), idlessEnd())
		case 8: // the end request fails (cancelled), the sync is abandoned for much longer than the lease, then late requests
			add(startHTTP(r.Intn(8) == 0))
			h := latest()
			maybe(60, func() { add(batchOf(h, nil)) })
			add(cancelledEnd(h))
			maybe(25, func() { add(endOf(h)); h.ended = false }) // immediate retry
			add(longSleep())
			switch r.Intn(3) {
			case 0:
				add(C9Op{K: "hbatch", ID: foreignIDOf(h), Ents: c9Body(r, nil, false, 2)}, endOf(h))
			case 1:
				add(endOf(h))
			default:
				add(C9Op{K: "hbatch", ID: foreignIDOf(h), Ents: c9Body(r, nil, false, 2)})
				maybe(50, func() { add(longSleep(), endOf(h)) })
			}
		case 9: // another sync starts exactly while a job ends its sync; the new sync then runs to its end
			maybe(40, func() { add(startHTTP(false)) }) // the job itself may have superseded an HTTP sync
			add(startJob())
			j := latest()
			add(batchOf(j, nil))
			maybe(50, func() { add(batchOf(j, nil)) })
			add(endWithStartInside(j))
			n := latest()
			add(batchOf(n, nil))
			maybe(50, func() { add(batchOf(n, nil)) })
			add(endOf(n))
		case 7: // id-less HTTP sync superseded by a job sync; the HTTP client goes on without id
			add(startHTTP(true))
			h := latest()
			add(startJob())
			j := latest()
			add(batchOf(h, nil), batchOf(j, nil), idlessEnd())
			maybe(60, func() { add(endOf(j)) })
		}
	}
	n := len(c.Ops) + 4 + r.Intn(8)
	if n < 9 {
		n = 7 + r.Intn(10)
	}
	for len(c.Ops) < n {
		x := r.Intn(100)
		act := active()
		if len(act) == 0 {
			switch {
			case x < 50:
				c.Ops = append(c.Ops, start())
			case x < 68:
				c.Ops = append(c.Ops, C9Op{K: "hbatch", Ents: c9Body(r, nil, true, 3)})
			case x < 72:
				c.Ops = append(c.Ops, txnOp(true))
			case x < 75:
				c.Ops = append(c.Ops, idlessEnd())
			case x < 80:
				c.Ops = append(c.Ops, C9Op{K: "hbatch", ID: foreignID(), Ents: c9Body(r, nil, false, 2)})
				tags["stray-id"] = true
			case x < 85:
				c.Ops = append(c.Ops, C9Op{K: "hend", ID: foreignID()})
				tags["stray-end"] = true
			case x < 90:
				c.Ops = append(c.Ops, C9Op{K: "jbatch", Job: c9IncrJob, Ents: c9Body(r, nil, true, 2)})
			default:
				c.Ops = append(c.Ops, sleepOp())
			}
			continue
		}
		cl := act[len(act)-1]
		if r.Intn(100) < 30 {
			cl = act[r.Intn(len(act))]
		}
		switch {
		case x < 28:
			c.Ops = append(c.Ops, batchOf(cl, nil))
		case x < 46:
			if (!cl.http || httpSup) && r.Intn(100) < 15 {
				c.Ops = append(c.Ops, endWithStartInside(cl))
				break
			}
			e := endOf(cl)
			if r.Intn(100) < parPct {
				e = parWrap(e, cl)
			}
			c.Ops = append(c.Ops, e)
		case x < 50:
			c.Ops = append(c.Ops, cancelledEnd(cl))
		case x < 58:
			c.Ops = append(c.Ops, C9Op{K: "hbatch", ID: foreignID(), Ents: c9Body(r, nil, false, 2)})
			tags["foreign-batch"] = true
		case x < 63:
			c.Ops = append(c.Ops, C9Op{K: "hbatch", Ents: c9Body(r, nil, false, 2)})
			tags["plain-in-sync"] = true
		case x < 69:
			c.Ops = append(c.Ops, txnOp(false))
			tags["txn-in-sync"] = true
		case x < 73:
			c.Ops = append(c.Ops, C9Op{K: "hend", ID: foreignID()})
			tags["foreign-end"] = true
		case x < 77:
			c.Ops = append(c.Ops, idlessEnd())
		case x < 84:
			c.Ops = append(c.Ops, sleepOp())
		case x < 93:
			c.Ops = append(c.Ops, start())
		case x < 97 && parPct > 0:
			// parallel batches of one sync (what the pinned integration test does)
			tags["par"] = true
			p := C9Op{K: "par"}
			avoid := map[int]bool{}
			for i := 0; i < 3; i++ {
				b := batchOf(cl, avoid)
				if len(b.Ents) == 0 {
					break
				}
				for _, e := range b.Ents {
					avoid[e.N] = true
				}
				p.Par = append(p.Par, b)
			}
			if len(p.Par) >= 2 {
				c.Ops = append(c.Ops, p)
			}
		default:
			c.Ops = append(c.Ops, C9Op{K: "jbatch", Job: c9IncrJob, Ents: c9Body(r, nil, false, 2)})
			tags["incr-job-write"] = true
		}
	}
	if r.Intn(100) < 65 {
		act := active()
		for i := len(act) - 1; i >= 0; i-- {
			if r.Intn(100) < 80 {
				e := endOf(act[i])
				if r.Intn(100) < parPct {
					e = parWrap(e, act[i])
				}
				c.Ops = append(c.Ops, e)
			}
		}
	}
	for t := range tags {
		c.Tags = append(c.Tags, t)
	}
	sort.Strings(c.Tags)
	return c
}

// ---------------------------------------------------------------- hub per child

type c9Hub struct {
	core   *hub.Core
	e      *echo.Echo
	lease  time.Duration
	dir    string
	env    *conf.Config
	runner *jobs.Runner    // created on first use (pipeline cases); one per process
	sched  *jobs.Scheduler // the real scheduler: builds the job objects from a job configuration
}

// scheduler assembles runner and scheduler the way app wiring does (no cron entry of a check ever fires).
func (h *c9Hub) scheduler() *jobs.Scheduler {
	if h.sched == nil {
		pm := security.NewProviderManager(h.env, h.core.Store, h.env.Logger)
		tps := security.NewTokenProviders(h.env.Logger, pm, nil)
		h.runner = jobs.NewRunner(h.env, h.core.Store, tps, h.core.Bus, &statsd.NoOpClient{})
		h.sched = jobs.NewScheduler(h.env, h.core.Store, h.core.Dsm, h.runner)
	}
	return h.sched
}

func c9Open(ctx *Ctx, lease time.Duration) *c9Hub {
	dir := ctx.NewDir("c09")
	env := hub.Env(dir)
	env.FullsyncLeaseTimeout = lease
	env.Auth = &conf.AuthConfig{Middleware: "noop"}
	core := hub.OpenCoreEnv(env)
	e := echo.New()
	e.HideBanner = true
	// the real middleware chain (logging + recover, security off) and the real dataset handler
	mw := web.NewMiddleware(env, e, nil, env.Logger, &statsd.NoOpClient{})
	web.RegisterDatasetHandler(e, env.Logger, mw, core.Dsm, core.Store, core.Bus, nil)
	web.RegisterTxnHandler(e, env.Logger, mw, core.Store)
	return &c9Hub{core: core, e: e, lease: lease, dir: dir, env: env}
}

func (h *c9Hub) close() {
	if h.runner != nil {
		h.runner.Stop()
	}
	_ = h.core.Close()
	_ = os.RemoveAll(h.dir)
}

// ---------------------------------------------------------------- run

type c9Sync struct {
	owner           string // "http:A" | "job:1"
	id              string // sync id ("" for job syncs)
	startOp         int
	job             bool // job-driven (no id, never leased)
	written         map[int]bool
	viaTxn          map[int]bool // the last accepted write of the entity inside this sync came through POST /transactions
	maybeWritten    map[int]bool // body of a refused (410/5xx) end request issued inside this sync: may or may not have been stored
	foreignAccepted []int        // ops: hbatch with another id answered 200 since the start
	foreignHTTPEnds []int        // ops: HTTP end request of another / no sync answered 200 since the start
	foreignEnds     []int        // ops: end of a superseded job that returned nil since the start
	sleeps          int          // sleep-past-lease ops since the start
	hookSeqAtStart  int64        // hook event counter when the sync started
	parBatches      int          // groups of concurrent batches accepted since the start
	httpNoIDWrites  []int        // ops: header-less HTTP write answered 200 inside a job sync
}

// c9Zombie: a sync whose own end request failed; waited = requested sleep (ms) since then without an accepted request of that sync.
type c9Zombie struct {
	sync     *c9Sync
	failedOp int
	waited   int
}

type c9Res struct {
	Status int    `json:"status"` // HTTP status; job ops: 200 = nil error, 500 = error
	Err    string `json:"err,omitempty"`
}

type c9HookEv struct {
	seq   int64
	point string
	phase string // enter | exit
	op    int    // op in flight at that moment (-1 = none)
}

type c9Run struct {
	ctx    *Ctx
	h      *c9Hub
	cid    string
	cas    C9Case
	dsName string

	cur                 *c9Sync
	lastPost            []C9Ent
	nviol               int
	trace               []map[string]any
	completed           int
	foreign             bool
	supersede           bool
	expiry              bool
	obsTags             map[string]bool
	zombie              *c9Zombie              // HTTP sync whose own end request was refused with 5xx
	pipeJob             *jobs.JobConfiguration // the registered fullsync job of a pipeline case
	pipeRun             bool                   // the completion being judged is that of a whole job run
	atComp              func()                 // set while an end request with AtHook is in flight: issues the nested start
	cancelAtComp        func()                 // set while an end request with Cancel=="hook" is in flight
	sawParEnd           bool                   // a group of concurrent requests containing an end ran earlier in this history
	jobSyncGotHTTPWrite bool                   // a header-less HTTP write was answered 200 inside some job sync of this history

	sinkMu     sync.Mutex
	sinks      map[int]*jobs.VerifC09Sink
	hookMu     sync.Mutex
	hookEvs    []c9HookEv
	hookSeq    int64
	opInFlight int64 // op index or -1
}

func c09FullSync(ctx *Ctx) error {
	parPct, _ := strconv.Atoi(ctx.Arg("par", "20"))
	hookPct, _ := strconv.Atoi(ctx.Arg("hooks", "60"))
	bulk, _ := strconv.Atoi(ctx.Arg("bulk", "0")) // number of large-dataset cases at the start of each child
	if bulk >= 100 {                              // older plans passed an entity count here
		bulk = 4
	}
	tmplPct, _ := strconv.Atoi(ctx.Arg("templates", "30"))
	pipe, _ := strconv.Atoi(ctx.Arg("pipe", "0")) // number of pipeline cases (real fullsync job) per child
	if ctx.Replay != "" {
		b, err := os.ReadFile(ctx.Replay)
		if err != nil {
			return err
		}
		var w struct {
			Ops C9Case `json:"ops"`
		}
		if err := json.Unmarshal(b, &w); err != nil {
			return err
		}
		h := c9Open(ctx, time.Duration(w.Ops.LeaseMs)*time.Millisecond)
		defer h.close()
		reps, _ := strconv.Atoi(ctx.Arg("reps", "5"))
		for i := 0; i < reps; i++ {
			runC9Case(ctx, h, w.Ops, i)
		}
		return nil
	}
	r := rand.New(rand.NewSource(ctx.Seed))
	// the lease timeout is a store-wide setting: one value (100..200 ms) and one store per child;
	// consecutive child seeds cycle through all six values
	leaseMs := 100 + 20*int(((ctx.Seed%6)+6)%6)
	if v, err := strconv.Atoi(ctx.Arg("lease", "")); err == nil && v > 0 {
		leaseMs = v
	}
	hubs := map[int]*c9Hub{}
	defer func() {
		for _, h := range hubs {
			h.close()
		}
	}()
	for i := 0; i < ctx.Cases; i++ {
		c := genC9Case(r, parPct, hookPct, tmplPct, leaseMs, ctx.Arg("httpsup", "") == "1")
		if i < bulk { // the first `bulk` cases of a child are large-dataset cases
			c = c9BulkCase(r, c.LeaseMs)
		} else if i < bulk+pipe { // the next `pipe` cases run a real fullsync job with a filtering transform
			c = c9PipeCase(r, c.LeaseMs)
		}
		h := hubs[c.LeaseMs]
		if h == nil {
			h = c9Open(ctx, time.Duration(c.LeaseMs)*time.Millisecond)
			hubs[c.LeaseMs] = h
		}
		runC9Case(ctx, h, c, i)
	}
	return nil
}

// c9PipeCase: a fullsync job with a filtering transform and a small batch size into a sink that already holds
// most of the source plus stale entities. In 70 % of the cases the filter removes one complete page of the source
// that is not the last one.
func c9PipeCase(r *rand.Rand, lease int) C9Case {
	c := C9Case{LeaseMs: lease, Tags: []string{"pipeline", "job-sync"}}
	const universe = 12
	n := 5 + r.Intn(5)
	perm := r.Perm(universe)
	p := &C9Pipe{Batch: 1 + r.Intn(3)}
	for _, id := range perm[:n] {
		p.Src = append(p.Src, C9Ent{N: id, V: r.Intn(3)})
	}
	drop := map[int]bool{}
	pages := (n + p.Batch - 1) / p.Batch
	if r.Intn(100) < 70 && pages >= 2 {
		pg := r.Intn(pages - 1)
		for k := pg * p.Batch; k < (pg+1)*p.Batch && k < n; k++ {
			drop[p.Src[k].N] = true
		}
		for _, e := range p.Src {
			if r.Intn(100) < 12 {
				drop[e.N] = true
			}
		}
		c.Tags = append(c.Tags, "filter-drops-whole-page")
	} else {
		for _, e := range p.Src {
			if r.Intn(100) < 30 {
				drop[e.N] = true
			}
		}
	}
	for _, e := range p.Src {
		if drop[e.N] {
			p.Drop = append(p.Drop, e.N)
		}
	}
	c.Pipe = p
	// the sink before the run: most of the source (some with the same content), plus stale entities
	var pre []C9Ent
	for _, e := range p.Src {
		if r.Intn(100) < 75 {
			v := e.V
			if r.Intn(2) == 0 {
				v = r.Intn(3)
			}
			pre = append(pre, C9Ent{N: e.N, V: v})
		}
	}
	for _, id := range perm[n:] {
		if len(pre) == 0 || r.Intn(100) < 40 {
			pre = append(pre, C9Ent{N: id, V: r.Intn(3)})
		}
	}
	r.Shuffle(len(pre), func(i, j int) { pre[i], pre[j] = pre[j], pre[i] })
	c.Ops = append(c.Ops, C9Op{K: "hbatch", Ents: pre})
	if r.Intn(4) == 0 {
		c.Ops = append(c.Ops, C9Op{K: "hbatch", Ents: c9Body(r, nil, true, 3)})
	}
	sup := r.Intn(4) == 0
	if sup { // the job supersedes an HTTP sync
		c.Ops = append(c.Ops, C9Op{K: "hstart", ID: "A", Ents: c9Body(r, nil, false, 2)})
		c.Tags = append(c.Tags, "http-sync", "supersede")
	}
	c.Ops = append(c.Ops, C9Op{K: "jobrun", Job: 1})
	switch {
	case sup:
		c.Ops = append(c.Ops, C9Op{K: "hend", ID: "A"})
	case r.Intn(3) == 0:
		c.Ops = append(c.Ops, C9Op{K: "hbatch", Ents: c9Body(r, nil, false, 2)})
	case r.Intn(3) == 0: // the job runs again with nothing changed: nothing may be deleted twice
		c.Ops = append(c.Ops, C9Op{K: "jobrun", Job: 1})
	}
	return c
}

// c9BulkCase: a sync over a dataset of 1100..2300 entities (ids 100..), i.e. more than one scan / deletion page of
// 1000. The sync re-sends a prefix, a suffix, everything but one 1000-page, a random 90 %, or a prefix without its
// head; the entities it does not re-send must be tombstoned exactly once wherever they lie in the dataset.
func c9BulkCase(r *rand.Rand, lease int) C9Case {
	n := 1100 + 100*r.Intn(13)
	c := C9Case{LeaseMs: lease, Bulk: n, Tags: []string{"bulk"}}
	lo, hi := 100, 100+n
	v := r.Intn(2) // 0 = re-sent unchanged (no new version, but seen), 1 = changed
	var rng []C9Range
	pat := r.Intn(6)
	switch pat {
	case 0: // prefix: the stale entities lie behind at least one page that has nothing to delete
		rng = []C9Range{{Lo: lo, Hi: hi - 20 - r.Intn(80), V: v}}
	case 1: // suffix
		rng = []C9Range{{Lo: lo + 20 + r.Intn(300), Hi: hi, V: v}}
	case 2: // everything but (most of) one page of 1000
		p := r.Intn((n + 999) / 1000)
		a, b := lo+p*1000+30, lo+p*1000+970
		if b > hi {
			b = hi
		}
		rng = []C9Range{{Lo: lo, Hi: a, V: v}, {Lo: b, Hi: hi, V: v}}
	case 3: // random 90 %
		rng = []C9Range{{Lo: lo, Hi: hi, V: v, Pct: 90, Salt: r.Intn(1000)}}
	case 4: // prefix without its head: deletions in the first and behind a clean page
		if n < 2100 {
			n = 2100 + 100*r.Intn(3)
			c.Bulk, hi = n, 100+n
		}
		rng = []C9Range{{Lo: lo + 10 + r.Intn(50), Hi: hi - 20 - r.Intn(60), V: v}}
	default: // everything: nothing to delete among the many, only pool entities
		rng = []C9Range{{Lo: lo, Hi: hi, V: v}}
	}
	c.Tags = append(c.Tags, fmt.Sprintf("bulk-pattern-%d", pat))
	c.Ops = append(c.Ops, C9Op{K: "hbatch", Ents: c9Body(r, nil, false, 4)})
	// split the re-sent ranges over the start and one or two batches
	first, rest := rng[:1], rng[1:]
	if len(rng) == 1 && r.Intn(2) == 0 {
		g := rng[0]
		mid := g.Lo + (g.Hi-g.Lo)/2
		g1, g2 := g, g
		g1.Hi, g2.Lo = mid, mid
		first, rest = []C9Range{g1}, []C9Range{g2}
	}
	if r.Intn(2) == 0 { // HTTP sync: requests of at most 250 entities, so that one request stays well inside the lease
		c.Tags = append(c.Tags, "http-sync")
		var pieces []C9Range
		for _, g := range rng {
			for a := g.Lo; a < g.Hi; a += 250 {
				p := g
				p.Lo, p.Hi = a, a+250
				if p.Hi > g.Hi {
					p.Hi = g.Hi
				}
				pieces = append(pieces, p)
			}
		}
		for k, p := range pieces {
			if k == 0 {
				c.Ops = append(c.Ops, C9Op{K: "hstart", ID: "A", Rng: []C9Range{p}, Ents: c9Body(r, nil, false, 2)})
				if r.Intn(2) == 0 {
					c.Ops = append(c.Ops, C9Op{K: "hbatch", ID: "B", Ents: []C9Ent{{N: hi - 1, V: 2}}})
					c.Tags = append(c.Tags, "foreign-batch")
				}
				continue
			}
			c.Ops = append(c.Ops, C9Op{K: "hbatch", ID: "A", Rng: []C9Range{p}})
		}
		c.Ops = append(c.Ops, C9Op{K: "hend", ID: "A"})
	} else { // job sync
		c.Tags = append(c.Tags, "job-sync")
		c.Ops = append(c.Ops, C9Op{K: "jstart", Job: 1}, C9Op{K: "jbatch", Job: 1, Rng: first, Ents: c9Body(r, nil, false, 2)})
		if len(rest) > 0 {
			c.Ops = append(c.Ops, C9Op{K: "jbatch", Job: 1, Rng: rest})
		}
		c.Ops = append(c.Ops, C9Op{K: "jend", Job: 1})
	}
	return c
}

func (r *c9Run) entName(n int) string { return fmt.Sprintf("%se%d", gen.NsA, n) }

func (r *c9Run) toModel(ents []C9Ent) []model.Ent {
	out := make([]model.Ent, 0, len(ents))
	for _, e := range ents {
		out = append(out, model.Ent{ID: r.entName(e.N), Props: map[string]any{gen.NsP + "v": float64(e.V)}, Refs: map[string]any{}, Deleted: e.Del})
	}
	return out
}

func c9FromRec(rec obs.Rec) (C9Ent, bool) {
	p := gen.NsA + "e"
	if !strings.HasPrefix(rec.ID, p) {
		return C9Ent{}, false
	}
	n, err := strconv.Atoi(rec.ID[len(p):])
	if err != nil {
		return C9Ent{}, false
	}
	v := -1
	if f, ok := rec.Props[gen.NsP+"v"].(float64); ok {
		v = int(f)
	}
	return C9Ent{N: n, V: v, Del: rec.Deleted}, true
}

func (r *c9Run) ds() *server.Dataset { return r.h.core.Dsm.GetDataset(r.dsName) }

func (r *c9Run) readFeed() ([]C9Ent, error) {
	recs, _, err := obs.Feed(r.h.core.Store, r.ds(), 0, nil, false)
	if err != nil {
		return nil, err
	}
	out := make([]C9Ent, 0, len(recs))
	for _, rc := range recs {
		e, ok := c9FromRec(rc)
		if !ok {
			return nil, fmt.Errorf("foreign entity %q in feed", rc.ID)
		}
		out = append(out, e)
	}
	return out, nil
}

func (r *c9Run) readListing() (map[int]C9Ent, error) {
	recs, err := obs.Listing(r.h.core.Store, r.ds(), 0)
	if err != nil {
		return nil, err
	}
	out := map[int]C9Ent{}
	for _, rc := range recs {
		e, ok := c9FromRec(rc)
		if !ok {
			return nil, fmt.Errorf("foreign entity %q in listing", rc.ID)
		}
		if _, dup := out[e.N]; dup {
			return nil, fmt.Errorf("entity %d listed twice", e.N)
		}
		out[e.N] = e
	}
	return out, nil
}

func c9Latest(feed []C9Ent) map[int]C9Ent {
	m := map[int]C9Ent{}
	for _, e := range feed {
		m[e.N] = e
	}
	return m
}

func (r *c9Run) post(op C9Op) c9Res {
	req := httptest.NewRequest("POST", "/datasets/"+r.dsName+"/entities", bytes.NewReader(gen.Payload(r.toModel(op.Ents), false)))
	req.Header.Set("Content-Type", "application/json")
	if op.K == "hstart" {
		req.Header.Set(c9HdrStart, "true")
	}
	if op.K == "hend" {
		req.Header.Set(c9HdrEnd, "true")
	}
	if op.ID != "" {
		req.Header.Set(c9HdrID, op.ID)
	}
	if op.Cancel != "" {
		cctx, cancel := context.WithCancel(req.Context())
		defer cancel()
		req = req.WithContext(cctx)
		if op.Cancel == "pre" {
			cancel()
		} else {
			r.hookMu.Lock()
			r.cancelAtComp = cancel
			r.hookMu.Unlock()
			defer func() {
				r.hookMu.Lock()
				r.cancelAtComp = nil
				r.hookMu.Unlock()
			}()
		}
	}
	rec := httptest.NewRecorder()
	r.h.e.ServeHTTP(rec, req)
	res := c9Res{Status: rec.Code}
	if rec.Code != 200 {
		res.Err = strings.TrimSpace(rec.Body.String())
		if len(res.Err) > 200 {
			res.Err = res.Err[:200]
		}
	}
	return res
}

func (r *c9Run) exec(op C9Op) (res c9Res) {
	defer func() {
		if p := recover(); p != nil {
			res = c9Res{Status: c9StatusPanic, Err: fmt.Sprintf("panic: %v\n%s", p, debug.Stack())}
		}
	}()
	jobRes := func(err error) c9Res {
		if err != nil {
			return c9Res{Status: 500, Err: err.Error()}
		}
		return c9Res{Status: 200}
	}
	switch op.K {
	case "hstart", "hbatch", "hend":
		return r.post(op)
	case "txn": // POST /transactions -> Store.ExecuteTransaction
		req := httptest.NewRequest("POST", "/transactions", bytes.NewReader(gen.TxnPayload(map[string][]model.Ent{r.dsName: r.toModel(op.Ents)})))
		req.Header.Set("Content-Type", "application/json")
		rec := httptest.NewRecorder()
		r.h.e.ServeHTTP(rec, req)
		res := c9Res{Status: rec.Code}
		if rec.Code != 200 {
			res.Err = strings.TrimSpace(rec.Body.String())
		}
		return res
	case "jstart": // jobs.datasetSink.startFullSync, as FullSyncPipeline.sync calls it
		return jobRes(r.sink(op.Job).StartFullSync())
	case "jbatch": // jobs.datasetSink.processEntities
		ents, err := r.parse(op.Ents)
		if err != nil {
			return jobRes(err)
		}
		return jobRes(r.sink(op.Job).ProcessEntities(ents))
	case "jend": // jobs.datasetSink.endFullSync
		jctx := context.Background()
		if op.Cancel != "" {
			cctx, cancel := context.WithCancel(jctx)
			defer cancel()
			jctx = cctx
			if op.Cancel == "pre" {
				cancel()
			} else {
				r.hookMu.Lock()
				r.cancelAtComp = cancel
				r.hookMu.Unlock()
				defer func() {
					r.hookMu.Lock()
					r.cancelAtComp = nil
					r.hookMu.Unlock()
				}()
			}
		}
		return jobRes(r.sink(op.Job).EndFullSync(jctx))
	case "jobrun":
		return r.runPipe()
	case "sleep":
		time.Sleep(time.Duration(op.Ms) * time.Millisecond)
		return c9Res{Status: 200}
	}
	return c9Res{Status: 0, Err: "unknown op " + op.K}
}

// sink returns the dataset sink of job handle j (one sink object per job, as in the scheduler).
func (r *c9Run) sink(j int) *jobs.VerifC09Sink {
	r.sinkMu.Lock()
	defer r.sinkMu.Unlock()
	if r.sinks == nil {
		r.sinks = map[int]*jobs.VerifC09Sink{}
	}
	if r.sinks[j] == nil {
		r.sinks[j] = jobs.VerifC09NewDatasetSink(r.dsName, r.h.core.Store, r.h.core.Dsm, r.h.core.Bus)
	}
	return r.sinks[j]
}

// parse sends a body through the real entity parser (what a job's source hands to the sink).
func (r *c9Run) parse(ents []C9Ent) ([]*server.Entity, error) {
	esp := server.NewEntityStreamParser(r.h.core.Store)
	var batch []*server.Entity
	err := esp.ParseStream(bytes.NewReader(gen.Payload(r.toModel(ents), false)), func(e *server.Entity) error {
		batch = append(batch, e)
		return nil
	})
	return batch, err
}

// setupPipe creates the source dataset of the case's fullsync job, fills it in change order and registers the job
// (paused: it only ever runs when a jobrun op runs it).
func (r *c9Run) setupPipe() error {
	p := r.cas.Pipe
	src := r.dsName + "-src"
	if _, err := r.h.core.Dsm.CreateDataset(src, nil); err != nil {
		return err
	}
	if err := StoreBatch(r.h.core, src, r.toModel(p.Src), false); err != nil {
		return err
	}
	id := "job-" + r.dsName
	cfg := map[string]any{
		"id": id, "title": id, "paused": true, "batchSize": p.Batch,
		"source":    map[string]any{"Type": "DatasetSource", "Name": src},
		"transform": map[string]any{"Type": "JavascriptTransform", "Code": c10B64(p.code())},
		"sink":      map[string]any{"Type": "DatasetSink", "Name": r.dsName},
		"triggers":  []any{map[string]any{"triggerType": "cron", "jobType": "fullsync", "schedule": "0 0 1 1 *"}},
	}
	raw, _ := json.Marshal(cfg)
	sched := r.h.scheduler()
	jc, err := sched.Parse(raw)
	if err != nil {
		return err
	}
	if err := sched.AddJob(jc); err != nil {
		return err
	}
	r.pipeJob = jc
	return nil
}

// runPipe runs the fullsync job once, synchronously, the way its cron entry does (job.Run), and answers with the
// outcome the hub recorded for the run: 200 = no error recorded.
func (r *c9Run) runPipe() c9Res {
	sched := r.h.scheduler()
	js, err := sched.VerifC08Jobs(r.pipeJob)
	if err != nil {
		return c9Res{Status: 500, Err: "job objects: " + err.Error()}
	}
	for _, j := range js {
		if !j.IsFullSync() {
			continue
		}
		j.Run()
		found, lastErr, processed := sched.VerifC08LastRun(r.pipeJob.ID)
		r.ctx.Out.Stat("pipeline_source_entities_processed", int64(processed))
		r.ctx.Out.Stat("pipeline_source_entities", int64(len(r.cas.Pipe.Src)))
		switch {
		case !found:
			return c9Res{Status: 0, Err: "no outcome recorded for the run"}
		case lastErr != "":
			return c9Res{Status: 500, Err: lastErr}
		}
		return c9Res{Status: 200}
	}
	return c9Res{Status: 0, Err: "no fullsync trigger"}
}

// judgeJobRun: a whole fullsync job (start, its batches, end) ran inside one op. Recorded as successful it is
// judged as the completion of the job's sync, where "written since the start" is what the SOURCE holds and the
// transform lets through.
func (r *c9Run) judgeJobRun(i int, op C9Op, res c9Res, pre, post []C9Ent, leaseExits int, seq0 int64) {
	out := r.ctx.Out
	if res.Status != 200 {
		// a failed run may have written part of its batches; it must not have deleted anything
		for k := len(pre); k < len(post); k++ {
			d := post[k]
			if d.Del {
				r.viol(i, "failed-job-run-deleted", fmt.Sprintf("op %d: the fullsync job failed (%s) but e%d got a tombstone", i, res.Err, d.N), "no tombstone", d)
				break
			}
		}
		out.Inconclusive(r.cid, "C09", "fullsync job did not succeed: "+res.Err)
		r.cur, r.zombie = nil, nil
		return
	}
	if r.cur != nil {
		r.supersede = true
		r.obsTags["supersede"] = true
		out.Stat("supersessions:"+strings.SplitN(r.cur.owner, ":", 2)[0]+"-by-jobrun", 1)
	}
	r.zombie = nil
	r.cur = &c9Sync{owner: "job:" + strconv.Itoa(op.Job), job: true, startOp: i, written: map[int]bool{}, maybeWritten: map[int]bool{}, viaTxn: map[int]bool{}, hookSeqAtStart: seq0}
	r.pipeRun = true
	defer func() { r.pipeRun = false }()
	pass := r.cas.Pipe.passing()
	out.Stat("pipeline_runs_judged", 1)
	out.Stat("pipeline_entities_passing_the_filter", int64(len(pass)))
	r.judge(i, false, false, []C9Op{{K: "jend", Job: op.Job, Ents: pass}}, []c9Res{{Status: 200}}, pre, post, leaseExits, seq0)
}

func (r *c9Run) hook(point string, ms int) func(string, int64) {
	return func(_ string, _ int64) {
		r.hookMu.Lock()
		r.hookSeq++
		r.hookEvs = append(r.hookEvs, c9HookEv{seq: r.hookSeq, point: point, phase: "enter", op: int(atomic.LoadInt64(&r.opInFlight))})
		r.hookMu.Unlock()
		if ms > 0 {
			time.Sleep(time.Duration(ms) * time.Millisecond)
		}
		if point == c9HookComp {
			r.hookMu.Lock()
			f := r.atComp
			r.atComp = nil
			r.hookMu.Unlock()
			if f != nil {
				f()
			}
		}
		r.hookMu.Lock()
		if point == c9HookComp && r.cancelAtComp != nil {
			r.cancelAtComp()
		}
		r.hookSeq++
		r.hookEvs = append(r.hookEvs, c9HookEv{seq: r.hookSeq, point: point, phase: "exit", op: int(atomic.LoadInt64(&r.opInFlight))})
		r.hookMu.Unlock()
	}
}

func (r *c9Run) hookCount(from int64, point, phase string) (n int) {
	r.hookMu.Lock()
	defer r.hookMu.Unlock()
	for _, e := range r.hookEvs {
		if e.seq > from && e.point == point && e.phase == phase {
			n++
		}
	}
	return
}

func (r *c9Run) viol(op int, class, msg string, expected, observed any) {
	r.nviol++
	r.ctx.Out.Stat("viol:"+class, 1)
	if r.nviol > 6 {
		return
	}
	r.ctx.Out.Viol(r.cid, "C09", class, msg, expected, observed, map[string]any{"op": op, "trace": r.trace, "lease_ms": r.cas.LeaseMs, "hooks": r.cas.Hooks})
}

func runC9Case(ctx *Ctx, h *c9Hub, c C9Case, idx int) {
	cid := outHash(c)
	ctx.Out.Case(cid, ctx.Seed, c, false, c.Tags)
	r := &c9Run{ctx: ctx, h: h, cid: cid, cas: c, dsName: fmt.Sprintf("c9-%d-%s", idx, cid), obsTags: map[string]bool{}, opInFlight: -1}
	if _, err := h.core.Dsm.CreateDataset(r.dsName, nil); err != nil {
		ctx.Out.Inconclusive(cid, "C09", "create dataset: "+err.Error())
		return
	}
	vh.Clear("")
	for _, p := range []string{c9HookLease, c9HookRel, c9HookComp} {
		vh.OnPoint(p, 0, r.hook(p, c.Hooks[p]))
	}
	defer vh.Clear("")
	defer func() {
		if p := recover(); p != nil {
			r.viol(-1, "panic", fmt.Sprintf("panic in the monitor or a read API: %v", p), nil, string(debug.Stack()))
		}
	}()
	if c.Bulk > 0 {
		var ents []C9Ent
		for i := 0; i < c.Bulk; i++ {
			ents = append(ents, C9Ent{N: 100 + i, V: 0})
			if len(ents) == 1200 || i == c.Bulk-1 { // big batches through the dataset sink of an (incremental) job
				if res := r.exec(C9Op{K: "jbatch", Job: c9IncrJob, Ents: ents}); res.Status != 200 {
					ctx.Out.Inconclusive(cid, "C09", "bulk prelude failed: "+res.Err)
					return
				}
				ents = nil
			}
		}
		ctx.Out.Stat("bulk_cases", 1)
		ctx.Out.Stat("bulk_entities", int64(c.Bulk))
	}
	if c.Pipe != nil {
		if err := r.setupPipe(); err != nil {
			ctx.Out.Inconclusive(cid, "C09", "pipeline setup: "+err.Error())
			return
		}
		ctx.Out.Stat("pipeline_cases", 1)
	}
	var err error
	if r.lastPost, err = r.readFeed(); err != nil {
		ctx.Out.Inconclusive(cid, "C09", "feed: "+err.Error())
		return
	}
	for i, op := range c.Ops {
		if !r.step(i, op) {
			break
		}
	}
	// settle: every lease goroutine of this case has fired or was cancelled after this
	settle := c.LeaseMs*15/10 + c.Hooks[c9HookLease] + 30
	time.Sleep(time.Duration(settle) * time.Millisecond)
	if post, err := r.readFeed(); err == nil {
		r.between(len(c.Ops), post, "after the final sleep past the lease")
	}
	r.orderStats()
	ctx.Out.Stat("cases", 1)
	if ctx.Arg("race", "") == "1" {
		ctx.Out.Stat("cases_under_race_detector", 1)
	}
	ctx.Out.Stat("ops", int64(len(c.Ops)))
	ctx.Out.Stat("syncs_completed", int64(r.completed))
	nontrivial := r.completed > 0 && (r.foreign || r.supersede || r.expiry)
	if p := c.Pipe; p != nil && r.completed > 0 && len(p.Drop) > 0 && len(p.Src) > p.Batch {
		nontrivial = true // a job run over several source pages whose transform filters something out
	}
	var tags []string
	for t := range r.obsTags {
		tags = append(tags, "obs:"+t)
	}
	sort.Strings(tags)
	if nontrivial {
		ctx.Out.Stat("cases_nontrivial", 1)
		ctx.Out.Case(cid, ctx.Seed, c, true, append(append([]string{}, c.Tags...), tags...))
	}
	if r.nviol > 0 {
		ctx.Out.Stat("cases_with_violation", 1)
	}
}

// between checks that nothing changed the feed while no request was in flight.
func (r *c9Run) between(op int, pre []C9Ent, when string) {
	if len(pre) == len(r.lastPost) {
		same := true
		for i := range pre {
			if pre[i] != r.lastPost[i] {
				same = false
			}
		}
		if same {
			return
		}
	}
	class := "background-change"
	var extra []C9Ent
	if len(pre) >= len(r.lastPost) {
		extra = pre[len(r.lastPost):]
		for _, e := range extra {
			if e.Del {
				class = "late-tombstone"
			}
		}
	}
	r.viol(op, class, "the change feed changed while no request was in flight ("+when+")", "feed unchanged", map[string]any{"appended": extra, "len_before": len(r.lastPost), "len_now": len(pre)})
	r.lastPost = pre
}

func (r *c9Run) step(i int, op C9Op) bool {
	out := r.ctx.Out
	pre, err := r.readFeed()
	if err != nil {
		out.Inconclusive(r.cid, "C09", "feed: "+err.Error())
		return false
	}
	r.between(i, pre, "before op "+strconv.Itoa(i))
	startedBefore := r.ds().FullSyncStarted()
	r.hookMu.Lock()
	seq0 := r.hookSeq
	r.hookMu.Unlock()

	xop := c9Expand(op)
	ops := []C9Op{xop}
	if op.K == "par" {
		ops = xop.Par
	}
	nested := op.K != "par" && xop.AtHook != nil
	if nested {
		ops = []C9Op{xop, *xop.AtHook}
	}
	results := make([]c9Res, len(ops))
	out.Begin(r.cid, i, op)
	atomic.StoreInt64(&r.opInFlight, int64(i))
	if nested {
		// the start request is issued by the hook callback of the end request, on the end request's goroutine
		ran := false
		r.hookMu.Lock()
		r.atComp = func() { ran = true; results[1] = r.exec(ops[1]) }
		r.hookMu.Unlock()
		results[0] = r.exec(ops[0])
		r.hookMu.Lock()
		r.atComp = nil
		r.hookMu.Unlock()
		if ran {
			out.Stat("start_inside_end:"+ops[0].K+":"+ops[1].K+":at-hook", 1)
		} else {
			// the end request returned without reaching the hook point: the start simply follows it
			results[1] = r.exec(ops[1])
			out.Stat("start_inside_end:"+ops[0].K+":"+ops[1].K+":hook-not-reached", 1)
		}
	} else if len(ops) == 1 {
		results[0] = r.exec(ops[0])
	} else {
		var wg sync.WaitGroup
		gate := make(chan struct{})
		for k := range ops {
			wg.Add(1)
			go func(k int) {
				defer wg.Done()
				<-gate
				results[k] = r.exec(ops[k])
			}(k)
		}
		close(gate)
		wg.Wait()
	}
	atomic.StoreInt64(&r.opInFlight, -1)
	out.Ack(r.cid, i, nil)

	post, err := r.readFeed()
	if err != nil {
		out.Inconclusive(r.cid, "C09", "feed: "+err.Error())
		return false
	}
	leaseExits := r.hookCount(seq0, c9HookLease, "exit")
	tr := map[string]any{"op": i, "k": op.K, "res": results, "feed_len": len(post), "lease_goroutines_finished_during_op": leaseExits}
	if op.K != "par" {
		tr["id"], tr["job"], tr["ents"] = op.ID, op.Job, op.Ents
		if len(op.Rng) > 0 {
			tr["rng"] = op.Rng
		}
		if op.Cancel != "" {
			tr["cancel"] = op.Cancel
		}
		if op.AtHook != nil {
			tr["at_hook"] = op.AtHook
		}
	} else {
		tr["par"] = op.Par
	}
	if len(post) >= len(pre) {
		app := post[len(pre):]
		if len(app) > 40 { // large datasets: keep the witness readable
			tr["appended_count"] = len(app)
			tr["appended_tombstones"] = c9CountDel(app)
			app = app[:40]
		}
		tr["appended"] = app
	}
	r.trace = append(r.trace, tr)
	if op.K == "sleep" {
		if startedBefore && !r.ds().FullSyncStarted() {
			out.Stat("lease_expiry_observed_across_sleep", 1)
			r.expiry = true
			r.obsTags["expiry"] = true
		}
		if r.cur != nil {
			r.cur.sleeps++
		}
		if r.zombie != nil {
			r.zombie.waited += op.Ms
			if r.zombie.waited >= 3*r.cas.LeaseMs {
				out.Stat("failed_end_then_history_waited_3_leases", 1)
			}
		}
		r.lastPost = post
		return true
	}
	for k := range ops {
		out.Stat(fmt.Sprintf("resp:%s:%d", ops[k].K, results[k].Status), 1)
		if ops[k].K == "hend" && results[k].Status == 410 && startedBefore && len(ops) == 1 {
			// the started flag was up before the request and its id check passed (else 409): the lease went away inside the request
			out.Stat("order:lease-expired-inside-end-request-before-release", 1)
		}
	}
	if op.K == "jobrun" {
		r.judgeJobRun(i, op, results[0], pre, post, leaseExits, seq0)
		r.lastPost = post
		return true
	}
	r.judge(i, op.K == "par" || nested, nested, ops, results, pre, post, leaseExits, seq0)
	r.lastPost = post
	return true
}

// judge compares the effect of one (group of concurrent) request(s) with what
// the recorded status codes allow.
func (r *c9Run) judge(i int, par bool, nested bool, ops []C9Op, res []c9Res, pre, post []C9Ent, leaseExits int, seq0 int64) {
	out := r.ctx.Out
	for k := range ops {
		if res[k].Status == c9StatusPanic {
			r.viol(i, "panic", "request panicked: "+res[k].Err, nil, ops[k])
			return
		}
	}
	if len(post) < len(pre) {
		out.Inconclusive(r.cid, "C09", "feed shrank")
		return
	}
	for k := range pre {
		if pre[k] != post[k] {
			out.Inconclusive(r.cid, "C09", "feed is not append-only")
			return
		}
	}
	delta := post[len(pre):]
	preLatest, postLatest := c9Latest(pre), c9Latest(post)

	bodies := map[int]C9Ent{}      // must be live with this content afterwards
	maybeBodies := map[int]C9Ent{} // may have been stored (end answered 410)
	mustTomb := map[int]bool{}
	mayTomb := map[int]bool{}
	context := "write-200"
	qual := ""
	completing := false
	var endOp *C9Op
	var endRes c9Res
	for k := range ops {
		if ops[k].K == "hend" || ops[k].K == "jend" {
			endOp, endRes = &ops[k], res[k]
		}
	}
	addBody := func(m map[int]C9Ent, ents []C9Ent) {
		for _, e := range ents {
			m[e.N] = e
		}
	}
	// ---- writes (start / batch)
	concurrent := map[int]bool{}
	writtenBefore := map[int]bool{}
	if r.cur != nil {
		for n := range r.cur.written {
			writtenBefore[n] = true
		}
	}
	applyStart := func(op C9Op) {
		r.zombie = nil // whatever was left of an earlier sync is superseded now
		if r.cur != nil {
			r.supersede = true
			r.obsTags["supersede"] = true
			out.Stat("supersessions:"+strings.SplitN(r.cur.owner, ":", 2)[0]+"-by-"+op.K, 1)
		}
		r.cur = &c9Sync{startOp: i, written: map[int]bool{}, maybeWritten: map[int]bool{}, viaTxn: map[int]bool{}, hookSeqAtStart: seq0}
		if op.K == "hstart" {
			r.cur.owner, r.cur.id = "http:"+op.ID, op.ID
			for _, e := range op.Ents {
				r.cur.written[e.N] = true
			}
		} else {
			r.cur.owner = "job:" + strconv.Itoa(op.Job)
			r.cur.job = true
		}
	}
	for k := range ops {
		op, st := ops[k], res[k].Status
		switch op.K {
		case "hstart", "jstart":
			if st != 200 {
				out.Inconclusive(r.cid, "C09", fmt.Sprintf("%s answered %d: %s", op.K, st, res[k].Err))
				r.obsTags["start-refused"] = true
				continue
			}
			if nested {
				// a start issued while the end request ops[0] was inside the hub. Either order is acceptable:
				// the end completes ITS sync first (200: judged below against the sync that was current before,
				// the start's body may be ordered before or after that completion), or the start supersedes it
				// (error / no effect). In both the new sync is the current one afterwards - it is installed in
				// the model when this judgement is done.
				if op.K == "hstart" {
					addBody(bodies, op.Ents)
					for _, e := range op.Ents {
						concurrent[e.N] = true
					}
				}
				if r.cur != nil {
					r.supersede = true
				}
				r.obsTags["start-inside-end"] = true
				startOp := op
				defer applyStart(startOp)
				continue
			}
			applyStart(op)
			if op.K == "hstart" {
				addBody(bodies, op.Ents)
			}
		case "hbatch", "jbatch", "txn":
			// a transaction carries no sync id and is never checked against one: it is a plain write into the dataset
			isForeign := op.K == "hbatch" && r.cur != nil && op.ID != r.cur.id
			if isForeign {
				r.foreign = true
				r.obsTags["foreign-id-during-sync"] = true
			}
			switch st {
			case 200:
				addBody(bodies, op.Ents)
				for _, e := range op.Ents {
					concurrent[e.N] = true
				}
				if z := r.zombie; z != nil {
					for _, e := range op.Ents { // if that sync is still open in the hub, this write belongs to it
						z.sync.written[e.N] = true
					}
					if op.K == "hbatch" {
						if op.ID == z.sync.id {
							z.waited = 0 // an accepted request of that sync may legitimately have renewed its lease
						} else {
							r.zombie = nil // the hub accepted a write that does not carry its id: by its own word the sync is gone
						}
					}
				}
				if r.cur != nil {
					for _, e := range op.Ents {
						r.cur.written[e.N] = true
						r.cur.viaTxn[e.N] = op.K == "txn"
					}
					if isForeign && !(par && endOp != nil) {
						r.cur.foreignAccepted = append(r.cur.foreignAccepted, i)
					}
					if op.K == "txn" {
						r.obsTags["txn-write-in-sync"] = true
						out.Stat("txn_writes_inside_a_sync", 1)
					}
					if op.K == "hbatch" && op.ID == "" && r.cur.job {
						r.cur.httpNoIDWrites = append(r.cur.httpNoIDWrites, i)
						r.jobSyncGotHTTPWrite = true
						r.obsTags["http-write-in-job-sync"] = true
					}
				}
			case 409:
				if r.cur == nil {
					out.Stat("rejected_409_without_sync_in_model", 1)
				}
				if z := r.zombie; z != nil && r.cur == nil && op.K == "hbatch" && op.ID != z.sync.id && z.waited >= 3*r.cas.LeaseMs {
					r.viol(i, "failed-end-sync-alive-past-lease/write-rejected",
						fmt.Sprintf("op %d: write with sync id %q answered 409 although the only sync it can conflict with (%s) had its end request refused at op %d and the history has waited %d ms (lease %d ms) since, with no accepted request of that sync",
							i, op.ID, z.sync.owner, z.failedOp, z.waited, r.cas.LeaseMs),
						"200 (no sync alive)", res[k])
				}
				if !par {
					context = "rejected-409"
				}
			default:
				out.Inconclusive(r.cid, "C09", fmt.Sprintf("%s answered %d: %s", op.K, st, res[k].Err))
				return
			}
		}
	}
	if par && endOp == nil && r.cur != nil {
		r.cur.parBatches++
	}
	defer func() {
		if par && endOp != nil {
			r.sawParEnd = true
		}
	}()
	// ---- the end request
	if endOp != nil {
		lateZombie := false
		if z := r.zombie; z != nil && r.cur == nil && endOp.K == "hend" && z.sync.owner == "http:"+endOp.ID {
			switch {
			case endRes.Status == 200 && z.waited >= 3*r.cas.LeaseMs:
				lateZombie = true
				r.viol(i, "failed-end-sync-alive-past-lease/late-end-completed",
					fmt.Sprintf("op %d: end request of sync %s answered 200 although its earlier end request was refused at op %d and the history has waited %d ms (lease %d ms) since, with no accepted request of that sync",
						i, z.sync.owner, z.failedOp, z.waited, r.cas.LeaseMs), "410", 200)
				r.zombie = nil
			case endRes.Status == 200:
				// a retry inside the lease: the hub may complete the sync; then the completion rule applies
				out.Stat("failed_end_retried_and_completed", 1)
				r.cur = z.sync
				r.zombie = nil
			case endRes.Status == 410:
				out.Stat("late_end_after_failed_end_answered_410", 1)
				r.zombie = nil
			}
		}
		if z := r.zombie; z != nil && endOp.K == "hend" && endRes.Status != 200 && endRes.Status != 409 {
			// body of a refused end request while that sync may still be open in the hub: stored (and seen) or not
			for _, e := range endOp.Ents {
				z.sync.maybeWritten[e.N] = true
			}
		}
		own := false
		if endOp.K == "hend" {
			own = r.cur != nil && r.cur.owner == "http:"+endOp.ID
			if r.cur != nil && !own {
				r.foreign = true
				r.obsTags["foreign-end"] = true
			}
		} else {
			own = r.cur != nil && r.cur.owner == "job:"+strconv.Itoa(endOp.Job)
		}
		switch {
		case endRes.Status == 200 && own:
			completing = true
			context = strings.SplitN(r.cur.owner, ":", 2)[0] + "-complete"
			addBody(bodies, endOp.Ents)
			w := r.cur.written
			for _, e := range endOp.Ents {
				w[e.N] = true
			}
			for n, e := range preLatest {
				switch {
				case e.Del:
				case par && concurrent[n] && !writtenBefore[n]:
					// a concurrent write may be ordered before or after the completion
					mayTomb[n] = true
				case w[n]:
				case r.cur.maybeWritten[n]:
					// body of a refused end request inside this sync: stored (then it counts as written) or not
					mayTomb[n] = true
				default:
					mustTomb[n] = true
				}
			}
			// attribution: the narrowest recorded fact of the history that can explain a wrong deletion set
			switch {
			case r.pipeRun:
				// the expectation comes from the job's source and transform: an entity the filter lets through is deleted,
				// or one it does not deliver survives
				qual = "fullsync-job-with-filtering-transform"
			case nested:
				qual = "start-inside-end" // another sync was started while this end request was inside the hub
			case len(r.cur.foreignEnds) > 0:
				qual = "after-superseded-job-end" // a superseded job's end already ran inside this sync
			case len(r.cur.foreignHTTPEnds) > 0:
				qual = "after-foreign-http-end-accepted" // an HTTP end request that is not this sync's was answered 200 inside it
			case r.cur.job && (len(r.cur.httpNoIDWrites) > 0 || r.jobSyncGotHTTPWrite):
				qual = "http-write-leased-job-sync" // a header-less HTTP write was accepted inside this or an earlier job sync
			case par:
				qual = "concurrent-write"
			case r.cur.job && r.hookCount(r.cur.hookSeqAtStart, c9HookLease, "exit") > 0:
				// a job sync never has a lease of its own: a lease goroutine of another (HTTP) sync finished while it ran
				qual = "lease-goroutine-finished-inside-job-sync"
			case r.cas.Hooks[c9HookLease] > 0 && leaseExits > 0:
				qual = "lease-afterDone-stretched" // a lease goroutine left the stretched hook while this end was in flight
			case len(r.cas.Hooks) > 0 && leaseExits > 0:
				qual = "end-stretched" // the end request was stretched by a hook and a lease goroutine finished while it was in flight
			case r.cur.parBatches > 0 && leaseExits > 0:
				qual = "after-parallel-batches" // concurrent lease refreshes happened inside this sync and a lease goroutine finished during this end
			case r.cur.sleeps > 0 && leaseExits > 0:
				// the client slept past the lease inside this sync and the end was still answered 200:
				// the lease was overdue when the end request arrived
				qual = "slept-past-lease-inside-sync"
			}
			if len(r.cur.foreignAccepted) > 0 {
				class := "foreign-batch-accepted-in-completed-sync"
				if qual != "" {
					class += "+" + qual
				}
				r.viol(i, class,
					fmt.Sprintf("sync %s completed with 200 although batches with another sync id were answered 200 at ops %v", r.cur.owner, r.cur.foreignAccepted),
					"409 for a batch with a different sync id", r.cur.foreignAccepted)
			}
		case endRes.Status == 200 && endOp.K == "jend":
			// the job's sync was superseded (or is not the current one): it must delete nothing
			context = "superseded-job-end"
			if r.cur != nil {
				r.cur.foreignEnds = append(r.cur.foreignEnds, i)
			}
			r.obsTags["superseded-job-end"] = true
		case endRes.Status == 200 && r.cur == nil:
			context = "end-200-without-sync"
			if lateZombie {
				context = "failed-end-sync-alive-past-lease"
			}
			addBody(bodies, endOp.Ents)
		case endRes.Status == 200: // HTTP end request that does not belong to the current sync accepted
			context = "foreign-end-accepted"
			if r.cur.job {
				// an HTTP end request can never be the end of a job-driven sync (only the job's own end is)
				context = "http-end-accepted-in-job-sync"
			}
			addBody(bodies, endOp.Ents)
			for _, e := range endOp.Ents {
				r.cur.written[e.N] = true
			}
			r.cur.foreignHTTPEnds = append(r.cur.foreignHTTPEnds, i)
			r.viol(i, context, fmt.Sprintf("end request with sync id %q answered 200 while sync %s is the current one", endOp.ID, r.cur.owner), "409 or 410", 200)
		case endRes.Status == 409:
			if !par {
				context = "rejected-409"
			}
			if own {
				out.Stat("own_end_rejected_409", 1)
			}
		case endRes.Status == 410:
			if !par {
				context = "gone-410"
			}
			addBody(maybeBodies, endOp.Ents)
			if r.cur != nil && !own {
				for _, e := range endOp.Ents {
					r.cur.maybeWritten[e.N] = true
				}
			}
			r.expiry = true
			r.obsTags["end-410"] = true
			if own {
				out.Stat("own_end_gone_410", 1)
			} else {
				out.Stat("other_end_gone_410", 1)
			}
		case endOp.K == "jend":
			// the job's end returned an error (the job run fails): the sync is abandoned and may delete nothing
			if !par {
				context = "failed-job-end"
			}
			out.Stat("job_end_errors", 1)
			if endOp.Cancel != "" {
				out.Stat("cancelled_end_refused:jend:"+endOp.Cancel, 1)
			}
			r.obsTags["job-end-error"] = true
			if own {
				r.cur = nil
			}
		default:
			// any other refusal of an end request (5xx): the sync did not complete, so it may delete nothing;
			// like 410, whether the body was stored is not demanded
			if !par {
				context = "failed-end"
			}
			addBody(maybeBodies, endOp.Ents)
			if r.cur != nil && !own {
				for _, e := range endOp.Ents {
					r.cur.maybeWritten[e.N] = true
				}
			}
			out.Stat(fmt.Sprintf("end_refused_%d", endRes.Status), 1)
			r.obsTags["end-refused-5xx"] = true
			if endOp.Cancel != "" {
				out.Stat("cancelled_end_refused:"+endOp.K+":"+endOp.Cancel, 1)
			}
			if own {
				if endOp.K == "hend" {
					// not completed; whether it may still be retried is the hub's choice, but it cannot outlive its lease
					for _, e := range endOp.Ents {
						r.cur.maybeWritten[e.N] = true
					}
					r.zombie = &c9Zombie{sync: r.cur, failedOp: i}
				}
				r.cur = nil
			}
		}
	}

	// ---- explain every appended feed entry
	var problems []string
	symptom := ""
	rank := map[string]int{"written-deleted": 6, "unwritten-survived": 5, "tombstone-multiple": 4, "spurious-tombstone": 3, "spurious-write": 2, "written-not-live": 1}
	note := func(s, msg string) {
		problems = append(problems, msg)
		if rank[s] > rank[symptom] {
			symptom = s
		}
	}
	tombs := map[int]int{}
	writtenDeleted := map[int]bool{}
	var viaTxn map[int]bool
	if completing {
		viaTxn = r.cur.viaTxn
	}
	stored410 := 0
	var written map[int]bool
	if completing {
		written = r.cur.written
	}
	for _, d := range delta {
		if b, ok := bodies[d.N]; ok && b == d {
			continue
		}
		if b, ok := maybeBodies[d.N]; ok && b == d {
			stored410++
			continue
		}
		if d.Del && (mustTomb[d.N] || mayTomb[d.N]) {
			tombs[d.N]++
			continue
		}
		switch {
		case d.Del && completing && written[d.N]:
			writtenDeleted[d.N] = true
			note("written-deleted", fmt.Sprintf("e%d was written during the sync and got a tombstone", d.N))
		case d.Del:
			note("spurious-tombstone", fmt.Sprintf("tombstone for e%d is not allowed by the recorded responses", d.N))
		default:
			note("spurious-write", fmt.Sprintf("version %+v of e%d is not in any accepted body", d, d.N))
		}
	}
	if stored410 > 0 {
		out.Stat("end_410_body_entities_stored", int64(stored410))
	}
	for n := range mustTomb {
		switch {
		case tombs[n] == 0:
			note("unwritten-survived", fmt.Sprintf("e%d was live and not written during the sync but has no tombstone", n))
		case tombs[n] > 1:
			note("tombstone-multiple", fmt.Sprintf("e%d has %d tombstones", n, tombs[n]))
		}
		if !postLatest[n].Del {
			note("unwritten-survived", fmt.Sprintf("e%d is still live", n))
		}
	}
	for n := range mayTomb {
		if tombs[n] > 1 {
			note("tombstone-multiple", fmt.Sprintf("e%d has %d tombstones", n, tombs[n]))
		}
	}
	for n, b := range bodies {
		if postLatest[n] != b {
			if postLatest[n].Del && !b.Del {
				writtenDeleted[n] = true
				note("written-deleted", fmt.Sprintf("e%d was written with %+v by a request answered 200 but is deleted afterwards", n, b))
			} else {
				note("written-not-live", fmt.Sprintf("e%d: latest is %+v, last accepted write was %+v", n, postLatest[n], b))
			}
		}
	}
	if completing {
		r.completed++
		out.Stat("completions:"+context, 1)
		out.Stat("tombstones_expected", int64(len(mustTomb)))
		// second view: what a reader of GetEntities sees
		if lst, err := r.readListing(); err == nil {
			for n := range mustTomb {
				if e, ok := lst[n]; !ok || !e.Del {
					note("unwritten-survived", fmt.Sprintf("listing: e%d not deleted", n))
				}
			}
			for n := range written {
				e, ok := lst[n]
				if want := postLatest[n]; !ok || e != want {
					note("written-not-live", fmt.Sprintf("listing: e%d is %+v, feed says %+v", n, e, want))
				}
				if ok && e.Del && !postLatest[n].Del {
					note("written-deleted", fmt.Sprintf("listing: e%d deleted", n))
				}
			}
		}
		if leaseExits > 0 {
			out.Stat("completions_with_lease_goroutine_finishing_inside", 1)
		}
		r.cur = nil
	}
	if endOp != nil && endRes.Status == 410 {
		own := r.cur != nil && endOp.K == "hend" && r.cur.owner == "http:"+endOp.ID
		if own {
			r.cur = nil // the hub says this sync is gone; from now on it may delete nothing (checked at every later op)
		}
	}
	if len(problems) == 0 {
		return
	}
	sort.Strings(problems)
	var class string
	switch context {
	case "http-complete", "job-complete":
		class = context + "/" + symptom
		if symptom == "written-deleted" && len(writtenDeleted) > 0 {
			all := true
			for n := range writtenDeleted {
				if !viaTxn[n] {
					all = false
				}
			}
			if all && !nested { // narrower than any history-level attribution: exactly the transaction-written entities were lost
				qual = "written-by-transaction"
			}
		}
		if qual == "" && r.cas.Bulk > 0 {
			qual = "large-dataset" // more than one scan / deletion page of 1000 entities
		}
		if qual != "" {
			class += "+" + qual
		}
	case "superseded-job-end":
		class = "job-sync-superseded-still-completes"
	case "failed-end":
		class = "failed-end-deleted"
		if symptom == "spurious-write" || symptom == "written-not-live" {
			class = "failed-end/" + symptom
		}
	case "failed-job-end":
		class = "failed-job-end-had-effect"
	case "rejected-409":
		class = "rejected-request-had-effect"
	case "gone-410":
		class = "expired-sync-deleted"
		if symptom == "spurious-write" || symptom == "written-not-live" {
			class = "gone-410/" + symptom
		}
	default:
		class = context + "/" + symptom
		if par {
			class += "+concurrent"
		} else if r.sawParEnd {
			class += "+after-concurrent-end" // an end request ran concurrently with writes earlier in this history
		}
	}
	exp := map[string]any{"must_tombstone_once": c9Keys(mustTomb), "may_tombstone_once": c9Keys(mayTomb), "live_with": c9Vals(bodies)}
	r.viol(i, class, fmt.Sprintf("op %d (%s, answered %v): %s", i, c9Describe(ops), c9Statuses(res), strings.Join(problems, "; ")), exp,
		map[string]any{"appended": delta, "latest_after": c9Vals(postLatest), "problems": problems})
}

func c9CountDel(es []C9Ent) (n int) {
	for _, e := range es {
		if e.Del {
			n++
		}
	}
	return
}

func c9Keys(m map[int]bool) []int {
	var k []int
	for n := range m {
		k = append(k, n)
	}
	sort.Ints(k)
	return k
}

func c9Vals(m map[int]C9Ent) []C9Ent {
	var v []C9Ent
	for _, e := range m {
		v = append(v, e)
	}
	sort.Slice(v, func(i, j int) bool { return v[i].N < v[j].N })
	return v
}

func c9Describe(ops []C9Op) string {
	var s []string
	for _, o := range ops {
		switch o.K {
		case "jstart", "jbatch", "jend":
			s = append(s, fmt.Sprintf("%s(job %d)", o.K, o.Job))
		default:
			s = append(s, fmt.Sprintf("%s(id %q)", o.K, o.ID))
		}
	}
	return strings.Join(s, " || ")
}

func c9Statuses(res []c9Res) []int {
	var s []int
	for _, x := range res {
		s = append(s, x.Status)
	}
	return s
}

// orderStats reports which interleavings of lease goroutine and end request were produced.
func (r *c9Run) orderStats() {
	out := r.ctx.Out
	r.hookMu.Lock()
	evs := append([]c9HookEv{}, r.hookEvs...)
	r.hookMu.Unlock()
	isEnd := func(op int) bool {
		if op < 0 || op >= len(r.cas.Ops) {
			return false
		}
		o := r.cas.Ops[op]
		if o.K == "par" {
			for _, p := range o.Par {
				if p.K == "hend" || p.K == "jend" {
					return true
				}
			}
		}
		return o.K == "hend" || o.K == "jend"
	}
	inRel, inComp := 0, 0
	for _, e := range evs {
		switch e.point + ":" + e.phase {
		case c9HookRel + ":enter":
			inRel++
			out.Stat("hook_hits:"+c9HookRel, 1)
		case c9HookRel + ":exit":
			inRel--
		case c9HookComp + ":enter":
			inComp++
			out.Stat("hook_hits:"+c9HookComp, 1)
		case c9HookComp + ":exit":
			inComp--
		case c9HookLease + ":enter":
			out.Stat("hook_hits:"+c9HookLease, 1)
			if isEnd(e.op) {
				out.Stat("order:lease-goroutine-woke-while-end-request-in-flight", 1)
			}
			if inRel > 0 {
				out.Stat("order:lease-goroutine-woke-while-end-waits-before-release", 1)
			}
			if inComp > 0 {
				out.Stat("order:lease-goroutine-woke-while-completion-begins", 1)
			}
		case c9HookLease + ":exit":
			// after this point the goroutine decides whether to reset the sync state
			if isEnd(e.op) {
				out.Stat("order:lease-goroutine-decided-while-end-request-in-flight", 1)
			}
			if inRel > 0 {
				out.Stat("order:lease-goroutine-decided-while-end-waits-before-release", 1)
			}
			if inComp > 0 {
				out.Stat("order:lease-goroutine-decided-while-completion-begins", 1)
			}
			if e.op == -1 {
				out.Stat("order:lease-goroutine-decided-between-requests", 1)
			}
		}
	}
}
