package scen

// storehttp: the C01 / C02 / C03 model-differential monitor driven entirely over HTTP
// through the real echo router of the assembled application (security off):
// POST /datasets/{ds}, POST /datasets/{ds}/entities, POST /transactions,
// GET /datasets/{ds}/entities?from=&limit=, GET /datasets/{ds}/changes?since=&limit=&latestOnly=&reverse=,
// POST /query {entityId | startingEntities, predicate, inverse, datasets, limit, continuations}.
// Responses are decoded with the namespace context they carry themselves.

import (
	"encoding/json"
	"fmt"
	"math/rand"
	"net/url"
	"os"
	"reflect"
	"sort"
	"strconv"
	"strings"

	"github.com/mimiro-io/datahub/internal/verif/gen"
	"github.com/mimiro-io/datahub/internal/verif/model"
	"github.com/mimiro-io/datahub/internal/verif/obs"
)

func init() { Register("storehttp", storeHTTP) }

type shRun struct {
	ctx   *Ctx
	id    string
	app   *c16App
	m     *model.Hub
	vocab *gen.Vocab
	c     SDCase
	opIdx int
	seen  map[string]bool
	abort bool
	nReq  int64
}

func (s *shRun) viol(prop, class, msg string, exp, got any) {
	if !s.ctx.Has(prop) {
		return
	}
	key := prop + "|" + class
	if s.seen[key] {
		return
	}
	s.seen[key] = true
	s.ctx.Out.Viol(s.id, prop, class, msg, exp, got, map[string]any{"op": s.opIdx})
}

func storeHTTP(ctx *Ctx) error {
	r := rand.New(rand.NewSource(ctx.Seed))
	if ctx.Replay != "" {
		b, err := os.ReadFile(ctx.Replay)
		if err != nil {
			return err
		}
		var w struct {
			Ops SDCase `json:"ops"`
		}
		if err := json.Unmarshal(b, &w); err != nil {
			return err
		}
		runSHCase(ctx, w.Ops)
		return nil
	}
	for i := 0; i < ctx.Cases; i++ {
		c := genSDCase(r)
		// a few large batches: the handler stores in chunks of 10
		if len(c.Ops) > 0 && r.Intn(2) == 0 {
			v := gen.NewVocab(c.NIDs, 3, 3)
			var ents []model.Ent
			for j := 0; j < 11+r.Intn(15); j++ {
				ents = append(ents, gen.Entity(r, v, v.IDs[r.Intn(len(v.IDs))]))
			}
			c.Ops = append(c.Ops, SDOp{Kind: "batch", DS: c.Datasets[0], Ents: ents, Prefixed: r.Intn(2) == 0})
			c.Tags = append(c.Tags, "batch-over-10")
		}
		c.Tags = append(c.Tags, "http")
		runSHCase(ctx, c)
	}
	return nil
}

func runSHCase(ctx *Ctx, c SDCase) {
	id := outHash(map[string]any{"http": true, "c": c})
	nontrivial := hasTag(c.Tags, "overwrite") && (hasTag(c.Tags, "undelete") || hasTag(c.Tags, "inbatch-repeat") || hasTag(c.Tags, "multi-dataset-id") || hasTag(c.Tags, "equal-length") || hasTag(c.Tags, "batch-over-10"))
	ctx.Out.Case(id, ctx.Seed, c, nontrivial, c.Tags)
	dir := ctx.NewDir("sh")
	defer os.RemoveAll(dir)
	app, err := c16Boot(ctx, dir, false)
	if err != nil {
		ctx.Out.Inconclusive(id, "", "boot: "+err.Error())
		return
	}
	defer app.Close()
	s := &shRun{ctx: ctx, id: id, app: app, m: model.New(), vocab: gen.NewVocab(c.NIDs, 3, 3), c: c, seen: map[string]bool{}}
	for _, d := range c.Datasets {
		r := app.Do("POST", "/datasets/"+d, nil, nil)
		if r.Status != 200 {
			ctx.Out.Inconclusive(id, "", fmt.Sprintf("create dataset: %d %s", r.Status, r.Body))
			return
		}
		s.m.Create(d)
	}
	for i, op := range c.Ops {
		s.opIdx = i
		ctx.Out.Begin(id, i, op.Kind)
		var touchedDS []string
		switch op.Kind {
		case "batch":
			r := app.Do("POST", "/datasets/"+op.DS+"/entities", gen.Payload(op.Ents, op.Prefixed), nil)
			s.nReq++
			if r.Status != 200 || r.Panicked != nil {
				s.viol(s.mainProp(), "http-write-rejected", fmt.Sprintf("POST of a valid batch answered %d %v %s", r.Status, r.Panicked, c15Short(r.Body)), 200, r.Status)
				s.abort = true
				break
			}
			s.m.Apply(op.DS, op.Ents)
			touchedDS = []string{op.DS}
		case "txn":
			r := app.Do("POST", "/transactions", gen.TxnPayload(op.Txn), nil)
			s.nReq++
			if r.Status != 200 || r.Panicked != nil {
				s.viol(s.mainProp(), "http-write-rejected", fmt.Sprintf("POST of a valid transaction answered %d %v %s", r.Status, r.Panicked, c15Short(r.Body)), 200, r.Status)
				s.abort = true
				break
			}
			s.m.ApplyTxn(op.Txn)
			for d := range op.Txn {
				touchedDS = append(touchedDS, d)
			}
			sort.Strings(touchedDS)
		}
		ctx.Out.Ack(id, i, nil)
		if s.abort {
			break
		}
		if len(touchedDS) == 0 {
			continue
		}
		for _, d := range touchedDS {
			s.checkDataset(d, i == len(c.Ops)-1 || i%4 == 0)
		}
		if s.abort {
			break
		}
		s.checkLookups()
		if i%3 == 0 || i == len(c.Ops)-1 {
			s.checkRelations()
		}
	}
	ctx.Out.Stat("http_requests", s.nReq)
}

func (s *shRun) mainProp() string {
	ps := splitComma(s.ctx.Arg("props", "C01"))
	if len(ps) == 0 {
		return "C01"
	}
	return ps[0]
}

// ---------- decoding responses with their own context

type shDoc struct {
	ns    map[string]string
	ents  []obs.Rec
	token string
	hasCt bool
}

func shExpand(ns map[string]string, c string) string {
	if strings.HasPrefix(c, "http://") || strings.HasPrefix(c, "https://") {
		return c
	}
	i := strings.Index(c, ":")
	if i < 0 {
		return "!nocurie:" + c
	}
	e, ok := ns[c[:i]]
	if !ok {
		return "!noprefix:" + c
	}
	return e + c[i+1:]
}

func shCanonVal(ns map[string]string, v any) any {
	switch t := v.(type) {
	case map[string]any:
		_, hp := t["props"]
		_, hr := t["refs"]
		if hp || hr {
			r := map[string]any{}
			if id, ok := t["id"].(string); ok {
				r["id"] = shExpand(ns, id)
			}
			props := map[string]any{}
			if p, ok := t["props"].(map[string]any); ok {
				for k, x := range p {
					props[shExpand(ns, k)] = shCanonVal(ns, x)
				}
			}
			r["props"] = props
			refs := map[string]any{}
			if p, ok := t["refs"].(map[string]any); ok {
				for k, x := range p {
					refs[shExpand(ns, k)] = shCanonRef(ns, x)
				}
			}
			r["refs"] = refs
			if d, ok := t["deleted"].(bool); ok && d {
				r["deleted"] = true
			}
			return r
		}
		return t
	case []any:
		a := make([]any, len(t))
		for i, x := range t {
			a[i] = shCanonVal(ns, x)
		}
		return a
	}
	return v
}

func shCanonRef(ns map[string]string, v any) any {
	switch t := v.(type) {
	case string:
		return shExpand(ns, t)
	case []any:
		a := make([]any, len(t))
		for i, x := range t {
			if str, ok := x.(string); ok {
				a[i] = shExpand(ns, str)
			} else {
				a[i] = x
			}
		}
		return a
	}
	return v
}

func shEntity(ns map[string]string, m map[string]any) obs.Rec {
	r := obs.Rec{Ent: model.Ent{Props: map[string]any{}, Refs: map[string]any{}}}
	if id, ok := m["id"].(string); ok {
		r.ID = shExpand(ns, id)
	}
	if p, ok := m["props"].(map[string]any); ok {
		for k, x := range p {
			r.Props[shExpand(ns, k)] = shCanonVal(ns, x)
		}
	}
	if p, ok := m["refs"].(map[string]any); ok {
		for k, x := range p {
			r.Refs[shExpand(ns, k)] = shCanonRef(ns, x)
		}
	}
	if d, ok := m["deleted"].(bool); ok {
		r.Deleted = d
	}
	if rec, ok := m["recorded"].(float64); ok {
		r.Recorded = uint64(rec)
	}
	return r
}

func shContext(v any) map[string]string {
	ns := map[string]string{}
	if m, ok := v.(map[string]any); ok {
		if n, ok := m["namespaces"].(map[string]any); ok {
			for k, x := range n {
				if str, ok := x.(string); ok {
					ns[k] = str
				}
			}
		}
	}
	return ns
}

// shParseCollection decodes [context, entity..., continuation?].
func shParseCollection(body []byte) (shDoc, error) {
	var arr []any
	if err := json.Unmarshal(body, &arr); err != nil {
		return shDoc{}, err
	}
	if len(arr) == 0 {
		return shDoc{}, fmt.Errorf("empty array (no context)")
	}
	d := shDoc{ns: shContext(arr[0])}
	for _, x := range arr[1:] {
		m, ok := x.(map[string]any)
		if !ok {
			return d, fmt.Errorf("array element is not an object")
		}
		if m["id"] == "@continuation" {
			d.hasCt = true
			d.token, _ = m["token"].(string)
			continue
		}
		d.ents = append(d.ents, shEntity(d.ns, m))
	}
	return d, nil
}

func (s *shRun) getCollection(u string) (shDoc, bool) {
	r := s.app.Do("GET", u, nil, nil)
	s.nReq++
	if r.Status != 200 || r.Panicked != nil {
		s.viol(s.mainProp(), "http-get-failed", fmt.Sprintf("GET %s -> %d %v %s", u, r.Status, r.Panicked, c15Short(r.Body)), 200, r.Status)
		return shDoc{}, false
	}
	d, err := shParseCollection(r.Body)
	if err != nil {
		s.viol(s.mainProp(), "http-get-undecodable", fmt.Sprintf("GET %s: %v", u, err), nil, c15Short(r.Body))
		return shDoc{}, false
	}
	return d, true
}

// listing follows `from` tokens with the given limit (0 = no limit parameter).
func (s *shRun) listing(ds string, limit int) ([]obs.Rec, bool) {
	var out []obs.Rec
	tok := ""
	for page := 0; page < 10000; page++ {
		u := "/datasets/" + ds + "/entities"
		var q []string
		if limit > 0 {
			q = append(q, "limit="+strconv.Itoa(limit))
		}
		if tok != "" {
			q = append(q, "from="+url.QueryEscape(tok))
		}
		if len(q) > 0 {
			u += "?" + strings.Join(q, "&")
		}
		d, ok := s.getCollection(u)
		if !ok {
			return out, false
		}
		out = append(out, d.ents...)
		if limit <= 0 {
			// one more call from the returned token must give nothing
			if d.token != "" {
				d2, ok := s.getCollection("/datasets/" + ds + "/entities?from=" + url.QueryEscape(d.token))
				if ok && len(d2.ents) != 0 {
					s.viol("C01", "http-listing-after-end", fmt.Sprintf("dataset %s: GET entities from the end token returned %d entities", ds, len(d2.ents)), 0, len(d2.ents))
				}
			}
			return out, true
		}
		if len(d.ents) == 0 || d.token == "" || d.token == tok {
			return out, true
		}
		tok = d.token
	}
	return out, false
}

func (s *shRun) changes(ds string, limits []int, latestOnly, reverse bool) ([]obs.Rec, string, bool) {
	var out []obs.Rec
	tok := ""
	for page := 0; page < 10000; page++ {
		lim := 0
		if len(limits) > 0 {
			lim = limits[page%len(limits)]
		}
		u := "/datasets/" + ds + "/changes"
		var q []string
		if lim > 0 {
			q = append(q, "limit="+strconv.Itoa(lim))
		}
		if tok != "" {
			q = append(q, "since="+url.QueryEscape(tok))
		}
		if latestOnly {
			q = append(q, "latestOnly=true")
		}
		if reverse {
			q = append(q, "reverse=true")
		}
		if len(q) > 0 {
			u += "?" + strings.Join(q, "&")
		}
		d, ok := s.getCollection(u)
		if !ok {
			return out, tok, false
		}
		out = append(out, d.ents...)
		if reverse {
			if !d.hasCt || len(d.ents) == 0 {
				return out, tok, true
			}
		} else if len(d.ents) == 0 || d.token == tok {
			if d.token != "" {
				tok = d.token
			}
			return out, tok, true
		}
		tok = d.token
	}
	return out, tok, false
}

func (s *shRun) checkDataset(ds string, deep bool) {
	md := s.m.Live(ds)
	want := md.Latest(-1)
	limits := []int{0, 2}
	if deep {
		limits = []int{0, 1, 2, 3, 7}
	}
	if s.ctx.Has("C01") {
		for _, lim := range limits {
			got, ok := s.listing(ds, lim)
			if !ok {
				s.abort = true
				return
			}
			seen := map[string]int{}
			by := map[string]*obs.Rec{}
			for i := range got {
				seen[got[i].ID]++
				by[got[i].ID] = &got[i]
			}
			for idv, n := range seen {
				if n > 1 {
					s.viol("C01", "http-listing-duplicate", fmt.Sprintf("dataset %s limit=%d: %s listed %d times", ds, lim, idv, n), nil, recStr(got))
				}
			}
			bad := len(by) != len(want)
			for _, w := range want {
				if g := by[w.ID]; g == nil || !sameEnt(&w.Ent, &g.Ent) {
					bad = true
				}
			}
			if bad {
				s.viol("C01", "http-listing-mismatch", fmt.Sprintf("dataset %s limit=%d: GET entities differs from the last stored versions", ds, lim), feedStr(want), recStr(got))
				s.abort = true
				return
			}
		}
	}
	if s.ctx.Has("C02") {
		full := md.Feed()
		lo := md.FeedLatestOnly()
		seqs := [][]int{nil, {2}}
		if deep {
			seqs = [][]int{nil, {1}, {2}, {5, 1}, {3, 2, 1}}
		}
		var endTok string
		for _, lim := range seqs {
			for _, latest := range []bool{false, true} {
				got, tok, ok := s.changes(ds, lim, latest, false)
				if !ok {
					s.abort = true
					return
				}
				w := full
				if latest {
					w = lo
				}
				if !eqSeq(w, got) {
					s.viol("C02", "http-feed-mismatch", fmt.Sprintf("dataset %s limits=%v latestOnly=%v: GET changes differs from the version history", ds, lim, latest), feedStr(w), recStr(got))
					s.abort = true
					return
				}
				if !latest {
					endTok = tok
				}
			}
		}
		if endTok != "" {
			d, ok := s.getCollection("/datasets/" + ds + "/changes?since=" + url.QueryEscape(endTok))
			if ok && (len(d.ents) != 0 || d.token != endTok) {
				s.viol("C02", "http-end-token", fmt.Sprintf("dataset %s: since=<end token> returned %d entities / a different token", ds, len(d.ents)), endTok, d.token)
			}
		}
		if deep && len(full) > 0 {
			for _, lim := range [][]int{nil, {2}} {
				got, _, ok := s.changes(ds, lim, false, true)
				if !ok {
					return
				}
				rev := make([]*model.Version, len(full))
				for i, v := range full {
					rev[len(full)-1-i] = v
				}
				if !eqSeq(rev, got) {
					s.viol("C02", "http-reverse-feed", fmt.Sprintf("dataset %s limits=%v: reverse=true pages are not the reverse of the feed (derived expectation)", ds, lim), feedStr(rev), recStr(got))
				}
			}
		}
	}
}

func (s *shRun) query(q map[string]any) ([]any, bool) {
	b, _ := json.Marshal(q)
	r := s.app.Do("POST", "/query", b, nil)
	s.nReq++
	if r.Status != 200 || r.Panicked != nil {
		if strings.Contains(string(r.Body), "could not load predicate id") {
			return nil, true
		}
		s.viol(s.mainProp(), "http-query-failed", fmt.Sprintf("POST /query %s -> %d %v %s", b, r.Status, r.Panicked, c15Short(r.Body)), 200, r.Status)
		return nil, false
	}
	var arr []any
	if err := json.Unmarshal(r.Body, &arr); err != nil {
		s.viol(s.mainProp(), "http-query-undecodable", fmt.Sprintf("POST /query %s: %v", b, err), nil, c15Short(r.Body))
		return nil, false
	}
	return arr, true
}

func (s *shRun) scopes() [][]string {
	sc := [][]string{nil}
	ds := s.m.LiveNames()
	for _, d := range ds {
		sc = append(sc, []string{d})
	}
	return sc
}

func (s *shRun) checkLookups() {
	if !s.ctx.Has("C01") {
		return
	}
	for _, idv := range s.vocab.IDs {
		for _, sc := range s.scopes() {
			q := map[string]any{"entityId": idv}
			if sc != nil {
				q["datasets"] = sc
			}
			arr, ok := s.query(q)
			if !ok || len(arr) < 2 {
				return
			}
			ns := shContext(arr[0])
			var got *obs.Rec
			if m, ok := arr[1].(map[string]any); ok {
				if _, hasProps := m["props"]; hasProps {
					r := shEntity(ns, m)
					got = &r
				}
			}
			want := s.m.Lookup(idv, sc, -1)
			if msg := compareLookup(want, got, len(sc) == 1); msg != "" {
				cls := "http-unscoped-lookup"
				if len(sc) == 1 {
					cls = "http-scoped-lookup"
				}
				s.viol("C01", cls, fmt.Sprintf("POST /query entityId=%s datasets=%v: %s", idv, sc, msg), lookupStr(want), got)
				return
			}
		}
	}
}

// related runs a relation query over HTTP following continuations.
func (s *shRun) related(start, pred string, inv bool, sc []string, limit int) (map[model.Pair]bool, []model.Pair, bool) {
	q := map[string]any{"startingEntities": []string{start}, "predicate": pred, "inverse": inv}
	if sc != nil {
		q["datasets"] = sc
	}
	if limit > 0 {
		q["limit"] = limit
	}
	set := map[model.Pair]bool{}
	var dups []model.Pair
	for page := 0; page < 10000; page++ {
		arr, ok := s.query(q)
		if !ok {
			return nil, nil, false
		}
		if arr == nil {
			return set, dups, true
		}
		ns := shContext(arr[0])
		if len(arr) > 1 {
			if rows, ok := arr[1].([]any); ok {
				for _, row := range rows {
					cols, ok := row.([]any)
					if !ok || len(cols) < 3 {
						continue
					}
					p, _ := cols[1].(string)
					other := ""
					if m, ok := cols[2].(map[string]any); ok {
						if oid, ok := m["id"].(string); ok {
							other = shExpand(ns, oid)
						}
					}
					pair := model.Pair{Pred: shExpand(ns, p), Other: other}
					if set[pair] {
						dups = append(dups, pair)
					}
					set[pair] = true
				}
			}
		}
		if limit <= 0 || len(arr) < 3 {
			return set, dups, true
		}
		conts, _ := arr[2].([]any)
		if len(conts) == 0 {
			return set, dups, true
		}
		q = map[string]any{"continuations": conts, "limit": limit}
	}
	return set, dups, false
}

// relatedMulti runs one outgoing relation query over HTTP for several start entities at once, following all
// continuation tokens; it returns the (start, predicate, other) triples, the triples returned twice and the pages read.
func (s *shRun) relatedMulti(starts []string, pred string, sc []string, limit, maxPages int) (map[[3]string]bool, [][3]string, int, bool) {
	q := map[string]any{"startingEntities": starts, "predicate": pred, "inverse": false, "limit": limit}
	if sc != nil {
		q["datasets"] = sc
	}
	set := map[[3]string]bool{}
	var dups [][3]string
	for page := 1; page <= maxPages; page++ {
		arr, ok := s.query(q)
		if !ok {
			return nil, nil, page, false
		}
		if arr == nil {
			return set, dups, page, true
		}
		ns := shContext(arr[0])
		if len(arr) > 1 {
			if rows, ok := arr[1].([]any); ok {
				for _, row := range rows {
					cols, ok := row.([]any)
					if !ok || len(cols) < 3 {
						continue
					}
					st, _ := cols[0].(string)
					p, _ := cols[1].(string)
					other := ""
					if m, ok := cols[2].(map[string]any); ok {
						if oid, ok := m["id"].(string); ok {
							other = shExpand(ns, oid)
						}
					}
					t := [3]string{shExpand(ns, st), shExpand(ns, p), other}
					if set[t] {
						dups = append(dups, t)
					}
					set[t] = true
				}
			}
		}
		if len(arr) < 3 {
			return set, dups, page, true
		}
		conts, _ := arr[2].([]any)
		if len(conts) == 0 {
			return set, dups, page, true
		}
		q = map[string]any{"continuations": conts, "limit": limit}
	}
	return set, dups, maxPages, true
}

func (s *shRun) checkRelations() {
	if !s.ctx.Has("C03") {
		return
	}
	// several start entities in one paged query (several continuation tokens outstanding at once)
	for _, sc := range s.scopes() {
		for _, lim := range []int{1, 2} {
			want := map[[3]string]bool{}
			var starts []string
			for _, st := range s.vocab.IDs {
				// (only identifiers the hub has stored an entity for: what it answers for a start it has never seen
				// is not part of the statement)
				if !s.m.Lookup(st, nil, -1).Known {
					continue
				}
				starts = append(starts, st)
				for pr := range s.m.Related(st, "*", false, sc, -1) {
					want[[3]string{st, pr.Pred, pr.Other}] = true
				}
			}
			if len(starts) < 2 {
				continue
			}
			maxPages := len(want) + len(starts) + 5
			got, dups, pages, ok := s.relatedMulti(starts, "*", sc, lim, maxPages)
			if !ok {
				return
			}
			qd := fmt.Sprintf("POST /query startingEntities=%v pred=* inverse=false datasets=%v limit=%d", starts, sc, lim)
			switch {
			case len(dups) > 0:
				s.viol("C03", "http-outgoing-paged-multi-start-duplicate", qd+fmt.Sprintf(": a triple was returned twice (%d pages read)", pages), nil, fmt.Sprint(dups))
			case !reflect.DeepEqual(want, got):
				s.viol("C03", "http-outgoing-paged-multi-start", qd+fmt.Sprintf(": following the continuation tokens (%d pages) yields %d triples, the graph of latest versions has %d", pages, len(got), len(want)), fmt.Sprint(want), fmt.Sprint(got))
			}
			s.ctx.Out.Stat("http_multi_start_paged_queries", 1)
		}
	}
	preds := append([]string{"*"}, s.vocab.Preds...)
	for _, sc := range s.scopes() {
		for _, inv := range []bool{false, true} {
			for _, start := range s.vocab.IDs {
				for _, pred := range preds {
					want := s.m.Related(start, pred, inv, sc, -1)
					for _, lim := range []int{0, 1, 2} {
						got, dups, ok := s.related(start, pred, inv, sc, lim)
						if !ok {
							return
						}
						cls := func(mis []model.Pair, base string) string {
							if inv {
								if c := s.m.ClassifyIncoming(start, pred, sc, -1, lim > 0, mis); c != "" {
									return c
								}
							}
							return base
						}
						qd := fmt.Sprintf("POST /query start=%s pred=%s inverse=%v datasets=%v limit=%d", start, pred, inv, sc, lim)
						if len(dups) > 0 {
							s.viol("C03", cls(dups, "http-"+relClass(inv, lim > 0)+"-duplicate"), qd+": pair returned twice", nil, fmt.Sprint(dups))
						}
						if !reflect.DeepEqual(want, got) {
							s.viol("C03", cls(model.SymDiff(want, got), "http-"+relClass(inv, lim > 0)), qd+": result differs from the graph of latest versions", model.PairList(want), model.PairList(got))
						}
					}
				}
			}
		}
	}
}
