package scen

// storediff: model-differential monitor for C01, C02, C03 and C06 over
// generated write histories (batches, transactions, token-carrying readers).

import (
	"bytes"
	"encoding/json"
	"fmt"
	"math/rand"
	"os"
	"reflect"
	"runtime/debug"
	"sort"
	"strings"

	"github.com/mimiro-io/datahub/internal/server"
	"github.com/mimiro-io/datahub/internal/verif/gen"
	"github.com/mimiro-io/datahub/internal/verif/hub"
	"github.com/mimiro-io/datahub/internal/verif/model"
	"github.com/mimiro-io/datahub/internal/verif/obs"
)

func init() { Register("storediff", storeDiff) }

type SDOp struct {
	Kind     string                 `json:"kind"` // batch | txn | read | ask
	DS       string                 `json:"ds,omitempty"`
	Ents     []model.Ent            `json:"ents,omitempty"`
	Txn      map[string][]model.Ent `json:"txn,omitempty"`
	Prefixed bool                   `json:"prefixed,omitempty"`
	Reader   int                    `json:"reader,omitempty"`
	To       string                 `json:"to,omitempty"` // rename target
}

type SDCase struct {
	Datasets []string   `json:"datasets"`
	NIDs     int        `json:"nids"`
	Ops      []SDOp     `json:"ops"`
	Readers  []SDReader `json:"readers"`
	Tags     []string   `json:"tags"`
}

type SDReader struct {
	DS     string `json:"ds"`
	Limits []int  `json:"limits"`
}

func genSDCase(r *rand.Rand) SDCase {
	c := SDCase{}
	nds := 2 + r.Intn(2)
	c.Datasets = []string{"da", "db", "dc"}[:nds]
	c.NIDs = 3 + r.Intn(3)
	v := gen.NewVocab(c.NIDs, 3, 3)
	nReaders := 1 + r.Intn(2)
	for i := 0; i < nReaders; i++ {
		lim := make([]int, 1+r.Intn(3))
		for j := range lim {
			lim[j] = []int{1, 2, 5, 1, 3}[r.Intn(5)]
		}
		c.Readers = append(c.Readers, SDReader{DS: c.Datasets[r.Intn(nds)], Limits: lim})
	}
	tags := map[string]bool{}
	// current content per (ds,id) as the generator believes (only for Mutate)
	cur := map[string]model.Ent{}
	n := 6 + r.Intn(15)
	ladder := r.Intn(4) == 0
	twin := r.Intn(3) == 0
	for i := 0; i < n; i++ {
		if twin && i == n/3 {
			// equal-length update next to unchanged structured values: only one scalar (or one element of one list)
			// changes, to a value of the same serialised length
			ds := c.Datasets[r.Intn(nds)]
			id := v.IDs[r.Intn(len(v.IDs))]
			a := model.Ent{ID: id, Refs: map[string]any{v.Preds[0]: v.IDs[0]}, Props: map[string]any{
				v.Props[0]: []any{float64(1), "x"}, v.Props[1]: "s0", v.Props[2]: map[string]any{"id": v.IDs[1], "props": map[string]any{v.Props[0]: "n0"}, "refs": map[string]any{}}}}
			b := gen.Clone(a)
			switch r.Intn(3) {
			case 0:
				b.Props[v.Props[1]] = "s1"
			case 1:
				b.Props[v.Props[0]] = []any{float64(1), "y"}
			default:
				b.Props[v.Props[1]] = "s1"
				delete(b.Props, v.Props[2])
				delete(a.Props, v.Props[2])
			}
			a, b = model.NormEnt(a), model.NormEnt(b)
			c.Ops = append(c.Ops, SDOp{Kind: "batch", DS: ds, Ents: []model.Ent{a}}, SDOp{Kind: "batch", DS: ds, Ents: []model.Ent{b}},
				SDOp{Kind: "batch", DS: ds, Ents: []model.Ent{a, b}})
			cur[ds+"|"+id] = b
			tags["equal-length"] = true
			tags["equal-length-update-next-to-unchanged-list"] = true
			continue
		}
		if ladder && i == n/2 {
			ds := c.Datasets[r.Intn(nds)]
			id := v.IDs[r.Intn(len(v.IDs))]
			tomb, revs := gen.EqualLenUndelete(r, v, id)
			for _, rv := range revs {
				c.Ops = append(c.Ops, SDOp{Kind: "batch", DS: ds, Ents: []model.Ent{tomb}})
				c.Ops = append(c.Ops, SDOp{Kind: "batch", DS: ds, Ents: []model.Ent{rv}})
				cur[ds+"|"+id] = rv
			}
			tags["equal-length"] = true
			tags["undelete"] = true
			continue
		}
		k := r.Intn(100)
		mk := func(ds string) []model.Ent {
			m := 1 + r.Intn(3)
			var ents []model.Ent
			for j := 0; j < m; j++ {
				id := v.IDs[r.Intn(len(v.IDs))]
				if j > 0 && r.Intn(4) == 0 {
					id = ents[r.Intn(len(ents))].ID
					tags["inbatch-repeat"] = true
				}
				var e model.Ent
				if p, ok := cur[ds+"|"+id]; ok && r.Intn(4) != 0 {
					e = gen.Mutate(r, v, p)
					if p.Deleted && !e.Deleted {
						tags["undelete"] = true
					}
					tags["overwrite"] = true
				} else {
					if ok {
						tags["overwrite"] = true
					}
					e = gen.Entity(r, v, id)
				}
				for _, od := range c.Datasets {
					if od != ds {
						if _, ok := cur[od+"|"+id]; ok {
							tags["multi-dataset-id"] = true
						}
					}
				}
				cur[ds+"|"+id] = e
				ents = append(ents, e)
			}
			return ents
		}
		switch {
		case k < 68:
			ds := c.Datasets[r.Intn(nds)]
			c.Ops = append(c.Ops, SDOp{Kind: "batch", DS: ds, Ents: mk(ds), Prefixed: r.Intn(5) == 0})
		case k < 80:
			t := map[string][]model.Ent{}
			a := r.Intn(nds)
			b := (a + 1 + r.Intn(nds-1)) % nds
			t[c.Datasets[a]] = mk(c.Datasets[a])
			t[c.Datasets[b]] = mk(c.Datasets[b])
			c.Ops = append(c.Ops, SDOp{Kind: "txn", Txn: t})
			tags["txn"] = true
		case k < 83:
			c.Ops = append(c.Ops, genBadTxn(r, c.Datasets, len(c.Ops)))
			tags["rejected-txn"] = true
		default:
			c.Ops = append(c.Ops, SDOp{Kind: "read", Reader: r.Intn(nReaders)})
		}
	}
	for t := range tags {
		c.Tags = append(c.Tags, t)
	}
	sort.Strings(c.Tags)
	return c
}

func hasTag(tags []string, t string) bool {
	for _, x := range tags {
		if x == t {
			return true
		}
	}
	return false
}

// sdRun holds the state of one differential run.
type sdRun struct {
	dir   string
	ctx   *Ctx
	id    string
	c     SDCase
	core  *hub.Core
	m     *model.Hub
	vocab *gen.Vocab
	opIdx int
	seen  map[string]bool // violations already reported (prop|class)
	abort bool
	// recorded time per model version is kept in rec[ds][seq]
	rec map[string][]uint64
	// C06
	snaps    []sdSnap
	iids     map[string]uint64
	paged    []*sdPaged
	readers  []*sdReaderState
	nQueries int64
	collect  *[]string     // when set, violations are collected here instead of being reported
	extra    func(op SDOp) // property-specific checks after each op (C07, C19)
	mg       *mgmtState
}

type sdSnap struct {
	commit int
	T      int64
	ans    map[string]string
}

type sdPaged struct {
	start    string
	inv      bool
	commit   int
	q        string
	expected []string
	got      map[model.Pair]bool
	cont     []*server.RelatedFrom
	openedAt int
	done     bool
}

type sdReaderState struct {
	ds    string
	lim   []int
	step  int
	token uint64
	acc   []obs.Rec
}

func (s *sdRun) mainProp() string {
	ps := splitComma(s.ctx.Arg("props", "C01"))
	if len(ps) == 0 {
		return "C01"
	}
	return ps[0]
}

func (s *sdRun) viol(prop, class, msg string, exp, got any) {
	if mp := s.mainProp(); prop != mp {
		// an oracle of another property fired inside this property's workload:
		// report it under the running property, keeping the origin in the class
		class = "via-" + prop + "-" + class
		prop = mp
	}
	if s.collect != nil {
		*s.collect = append(*s.collect, fmt.Sprintf("%s/%s: %s", prop, class, msg))
		return
	}
	key := prop + "|" + class
	if s.seen[key] {
		return
	}
	s.seen[key] = true
	s.ctx.Out.Viol(s.id, prop, class, msg, exp, got, map[string]any{"op": s.opIdx})
}

func storeDiff(ctx *Ctx) error {
	if ctx.Replay != "" {
		b, err := os.ReadFile(ctx.Replay)
		if err != nil {
			return err
		}
		if bulkReplay(ctx, b) {
			return nil
		}
		var w struct {
			Ops SDCase `json:"ops"`
		}
		if err := json.Unmarshal(b, &w); err != nil {
			return err
		}
		runSDCase(ctx, w.Ops)
		return nil
	}
	r := rand.New(rand.NewSource(ctx.Seed))
	for i := 0; i < ctx.Cases; i++ {
		c := genSDCase(r)
		runSDCase(ctx, c)
	}
	if ctx.Has("C01") || ctx.Has("C02") {
		sdBulkCase(ctx, r)
	}
	return nil
}

func runSDCase(ctx *Ctx, c SDCase) {
	id := outHash(c)
	nontrivial := hasTag(c.Tags, "overwrite") && (hasTag(c.Tags, "undelete") || hasTag(c.Tags, "inbatch-repeat") || hasTag(c.Tags, "multi-dataset-id") || hasTag(c.Tags, "equal-length"))
	ctx.Out.Case(id, ctx.Seed, c, nontrivial, c.Tags)
	dir := ctx.NewDir("sd")
	defer os.RemoveAll(dir)
	core := hub.OpenCore(dir)
	s := &sdRun{ctx: ctx, id: id, c: c, core: core, dir: dir, m: model.New(), vocab: gen.NewVocab(c.NIDs, 3, 3),
		seen: map[string]bool{}, rec: map[string][]uint64{}, iids: map[string]uint64{}}
	for _, d := range c.Datasets {
		if _, err := core.Dsm.CreateDataset(d, nil); err != nil {
			ctx.Out.Inconclusive(id, "", "create dataset: "+err.Error())
			return
		}
		s.m.Create(d)
	}
	for _, rd := range c.Readers {
		s.readers = append(s.readers, &sdReaderState{ds: rd.DS, lim: rd.Limits})
	}
	defer func() { s.core.Close() }()
	defer func() {
		if p := recover(); p != nil {
			s.viol(s.mainProp(), "panic", fmt.Sprintf("panic in read/write API: %v", p), nil, string(debug.Stack()))
		}
	}()
	for i, op := range c.Ops {
		s.opIdx = i
		ctx.Out.Begin(id, i, op.Kind)
		err := s.apply(op)
		ctx.Out.Ack(id, i, err)
		if err != nil {
			s.viol(s.mainProp(), "write-error", "accepted-shape operation returned error: "+err.Error(), nil, op)
			break
		}
		s.checkAll(op)
		if s.abort {
			break
		}
		if i == len(c.Ops)/2 {
			s.reask()
		}
	}
	if !s.abort {
		s.opIdx = len(c.Ops)
		s.finish()
	}
	ctx.Out.Stat("queries", s.nQueries)
	ctx.Out.Stat("commits", int64(s.m.Commit))
}

func outHash(v any) string {
	b, _ := json.Marshal(v)
	return fmt.Sprintf("%x", fnv64(b))
}

func fnv64(b []byte) uint64 {
	h := uint64(14695981039346656037)
	for _, c := range b {
		h ^= uint64(c)
		h *= 1099511628211
	}
	return h
}

// StoreBatch sends ents through the real parser and StoreEntities.
func StoreBatch(core *hub.Core, dsName string, ents []model.Ent, prefixed bool) error {
	ds := core.Dsm.GetDataset(dsName)
	if ds == nil {
		return fmt.Errorf("no dataset %s", dsName)
	}
	esp := server.NewEntityStreamParser(core.Store)
	var batch []*server.Entity
	err := esp.ParseStream(bytes.NewReader(gen.Payload(ents, prefixed)), func(e *server.Entity) error {
		batch = append(batch, e)
		return nil
	})
	if err != nil {
		return err
	}
	return ds.StoreEntities(batch)
}

func StoreTxn(core *hub.Core, t map[string][]model.Ent) error {
	esp := server.NewEntityStreamParser(core.Store)
	txn, err := esp.ParseTransaction(bytes.NewReader(gen.TxnPayload(t)))
	if err != nil {
		return err
	}
	return core.Store.ExecuteTransaction(txn)
}

func (s *sdRun) apply(op SDOp) error {
	switch op.Kind {
	case "batch":
		if err := StoreBatch(s.core, op.DS, op.Ents, op.Prefixed); err != nil {
			return err
		}
		s.m.Apply(op.DS, op.Ents)
	case "txn":
		if err := StoreTxn(s.core, op.Txn); err != nil {
			return err
		}
		s.m.ApplyTxn(op.Txn)
	case "badtxn":
		s.applyBadTxn(op)
	case "read":
		s.stepReader(s.readers[op.Reader])
	default:
		return s.applyMgmt(op)
	}
	return nil
}

func entOf(r obs.Rec) model.Ent { return r.Ent }

func sameEnt(a, b *model.Ent) bool {
	return a.ID == b.ID && model.SameContent(a, b)
}

func touched(op SDOp) []string {
	switch op.Kind {
	case "batch", "replicate":
		return []string{op.DS}
	case "txn", "badtxn":
		var r []string
		for k := range op.Txn {
			r = append(r, k)
		}
		sort.Strings(r)
		return r
	}
	return nil
}

// alignFeed reads the full feed in one call, classifies / adopts in-batch
// identical repeats, and compares with the model (C02). Returns false when
// the hub and the model have diverged.
func (s *sdRun) alignFeed(dsName string) bool {
	ds := s.core.Dsm.GetDataset(dsName)
	md := s.m.Live(dsName)
	feed, _, err := obs.Feed(s.core.Store, ds, 0, nil, false)
	s.nQueries++
	if err != nil {
		s.viol("C02", "feed-error", err.Error(), nil, nil)
		return false
	}
	// walk: adopt extra observed entries that are identical repeats written in
	// the same batch as their predecessor of the same entity.
	i := 0 // model index
	var adoptedAt []int
	lastObs := map[string]*obs.Rec{}
	for j := range feed {
		o := &feed[j]
		if i < len(md.Versions) && sameEnt(&md.Versions[i].Ent, &o.Ent) {
			i++
			lastObs[o.ID] = o
			continue
		}
		p := lastObs[o.ID]
		if p != nil && model.SameContent(&p.Ent, &o.Ent) && p.Recorded == o.Recorded {
			adoptedAt = append(adoptedAt, j)
			lastObs[o.ID] = o
			continue
		}
		// genuine mismatch
		if s.ctx.Has("C02") {
			s.viol("C02", "feed-mismatch", fmt.Sprintf("dataset %s: feed entry %d differs from the model", dsName, j), feedStr(md.Versions), recStr(feed))
		}
		return false
	}
	if i != len(md.Versions) {
		if s.ctx.Has("C02") {
			s.viol("C02", "feed-missing", fmt.Sprintf("dataset %s: feed has %d entries, model %d", dsName, len(feed), len(md.Versions)), feedStr(md.Versions), recStr(feed))
		}
		return false
	}
	if len(adoptedAt) > 0 {
		if s.ctx.Has("C02") {
			s.viol("C02", "inbatch-identical-repeat", fmt.Sprintf("dataset %s: %d feed entries repeat the identical previous version of the same entity inside one batch", dsName, len(adoptedAt)), feedStr(md.Versions), recStr(feed))
		}
		// adopt: rebuild the model's version list from the observation
		nv := make([]*model.Version, 0, len(feed))
		mi := 0
		ad := map[int]bool{}
		for _, j := range adoptedAt {
			ad[j] = true
		}
		var prevCommit int
		for j := range feed {
			if ad[j] {
				nv = append(nv, &model.Version{Ent: feed[j].Ent, Commit: prevCommit, Seq: len(nv)})
				continue
			}
			v := md.Versions[mi]
			mi++
			v.Seq = len(nv)
			prevCommit = v.Commit
			nv = append(nv, v)
		}
		md.Versions = nv
		s.ctx.Out.Stat("adopted_inbatch_repeats", int64(len(adoptedAt)))
	}
	rec := make([]uint64, len(feed))
	for j := range feed {
		rec[j] = feed[j].Recorded
		if feed[j].InternalID != 0 {
			s.iids[feed[j].ID] = feed[j].InternalID
		}
	}
	s.rec[dsName] = rec
	return true
}

func feedStr(vs []*model.Version) []string {
	r := make([]string, len(vs))
	for i, v := range vs {
		r[i] = model.CanonString(&v.Ent)
	}
	return r
}

func recStr(rs []obs.Rec) []string {
	r := make([]string, len(rs))
	for i := range rs {
		r[i] = model.CanonString(&rs[i].Ent)
	}
	return r
}

func (s *sdRun) scopes() [][]string {
	sc := [][]string{nil}
	ds := s.dsNames()
	for _, d := range ds {
		sc = append(sc, []string{d})
	}
	if len(ds) >= 2 {
		sc = append(sc, []string{ds[0], ds[1]})
	}
	return sc
}

// dsNames returns the names of the datasets that are alive in the model.
func (s *sdRun) dsNames() []string { return s.m.LiveNames() }

func (s *sdRun) checkAll(op SDOp) {
	ts := touched(op)
	if isMgmt(op) {
		ts = s.dsNames()
	}
	for _, d := range ts {
		if !s.alignFeed(d) {
			// hub and model diverged: let the C01 oracle judge this op, then stop the case
			s.abort = true
		}
	}
	if s.abort {
		if s.ctx.Has("C01") {
			for _, d := range ts {
				s.checkC01Dataset(d)
			}
		}
		if len(s.seen) == 0 {
			s.ctx.Out.Stat("diverged_unjudged", 1)
		}
		return
	}
	if len(ts) > 0 {
		if s.ctx.Has("C01") {
			for _, d := range ts {
				s.checkC01Dataset(d)
			}
			s.checkC01Lookups()
		}
		if s.ctx.Has("C02") {
			for _, d := range ts {
				s.checkC02Dataset(d)
			}
		}
		if s.ctx.Has("C03") {
			s.checkC03(s.opIdx%3 == 0)
		}
		if s.ctx.Has("C06") {
			s.snapshot()
			s.stepPaged()
		}
	}
	if s.extra != nil {
		s.extra(op)
	}
}

func (s *sdRun) finish() {
	for _, d := range s.dsNames() {
		if !s.alignFeed(d) {
			s.abort = true
		}
	}
	if s.abort {
		if s.ctx.Has("C01") {
			for _, d := range s.dsNames() {
				s.checkC01Dataset(d)
			}
		}
		return
	}
	if s.ctx.Has("C01") {
		for _, d := range s.dsNames() {
			s.checkC01Dataset(d)
		}
		s.checkC01Lookups()
	}
	if s.ctx.Has("C02") {
		for _, d := range s.dsNames() {
			s.checkC02Dataset(d)
		}
		for _, rd := range s.readers {
			s.drainReader(rd)
		}
	}
	if s.ctx.Has("C03") {
		s.checkC03(true)
	}
	if s.ctx.Has("C06") {
		for i := 0; i < 50 && s.stepPaged(); i++ {
		}
		s.reask()
	}
}

// ---------- C01

func (s *sdRun) checkC01Dataset(dsName string) {
	ds := s.core.Dsm.GetDataset(dsName)
	md := s.m.Live(dsName)
	want := md.Latest(-1)
	for _, page := range []int{0, 1, 2, 3, 7} {
		got, err := obs.Listing(s.core.Store, ds, page)
		s.nQueries++
		if err != nil {
			s.viol("C01", "listing-error", err.Error(), nil, nil)
			return
		}
		seen := map[string]int{}
		for i := range got {
			seen[got[i].ID]++
		}
		for id, n := range seen {
			if n > 1 {
				s.viol("C01", "listing-duplicate", fmt.Sprintf("dataset %s page=%d: %s listed %d times", dsName, page, id, n), nil, recStr(got))
				return
			}
		}
		if len(got) != len(want) {
			s.viol("C01", "listing-mismatch", fmt.Sprintf("dataset %s page=%d: %d entities listed, model has %d", dsName, page, len(got), len(want)), feedStr(want), recStr(got))
			s.abort = true
			return
		}
		byID := map[string]*obs.Rec{}
		for i := range got {
			byID[got[i].ID] = &got[i]
		}
		for _, w := range want {
			g := byID[w.ID]
			if g == nil || !sameEnt(&w.Ent, &g.Ent) {
				s.viol("C01", "listing-mismatch", fmt.Sprintf("dataset %s page=%d: latest version of %s differs from the last stored one", dsName, page, w.ID), feedStr(want), recStr(got))
				s.abort = true
				return
			}
		}
	}
}

func bagOf(parts []*model.Version, refs bool) map[string][]string {
	var ms []map[string]any
	for _, p := range parts {
		if refs {
			ms = append(ms, p.Refs)
		} else {
			ms = append(ms, p.Props)
		}
	}
	return model.MergedBag(ms)
}

func (s *sdRun) checkC01Lookups() {
	for _, id := range s.vocab.IDs {
		for _, sc := range s.scopes() {
			want := s.m.Lookup(id, sc, -1)
			got, err := obs.Lookup(s.core.Store, id, sc)
			s.nQueries++
			if err != nil {
				s.viol("C01", "lookup-error", err.Error(), nil, nil)
				return
			}
			if msg := compareLookup(want, got, len(sc) == 1); msg != "" {
				cls := "unscoped-lookup"
				if len(sc) == 1 {
					cls = "scoped-lookup"
				}
				s.viol("C01", cls, fmt.Sprintf("lookup %s scope=%v: %s", id, sc, msg), lookupStr(want), got)
				return
			}
		}
	}
}

func lookupStr(l model.LookupResult) any {
	return map[string]any{"partials": feedStr(l.Partials), "hasDeleted": l.HasDeleted, "known": l.Known}
}

// compareLookup returns "" when the observed lookup equals the model's answer.
func compareLookup(want model.LookupResult, got *obs.Rec, exact bool) string {
	if len(want.Partials) == 0 {
		if got == nil {
			return ""
		}
		if len(got.Props) != 0 || len(got.Refs) != 0 {
			return "content returned although no live version is in scope"
		}
		if got.Deleted != want.HasDeleted {
			return fmt.Sprintf("deleted flag %v, expected %v", got.Deleted, want.HasDeleted)
		}
		return ""
	}
	if got == nil {
		return "nothing returned although a live version is in scope"
	}
	if got.Deleted {
		return "reported deleted although a live version is in scope"
	}
	if exact && len(want.Partials) == 1 {
		if !sameEnt(&want.Partials[0].Ent, &got.Ent) {
			return "content differs from the last stored version"
		}
		return ""
	}
	wp, wr := bagOf(want.Partials, false), bagOf(want.Partials, true)
	gp := model.MergedBag([]map[string]any{got.Props})
	gr := model.MergedBag([]map[string]any{got.Refs})
	if !reflect.DeepEqual(wp, gp) {
		return "merged properties differ"
	}
	if !reflect.DeepEqual(wr, gr) {
		return "merged references differ"
	}
	return ""
}

// ---------- C02

func (s *sdRun) checkC02Dataset(dsName string) {
	ds := s.core.Dsm.GetDataset(dsName)
	md := s.m.Live(dsName)
	st := s.core.Store
	full := md.Feed()
	// latest-only
	lo, _, err := obs.Feed(st, ds, 0, nil, true)
	s.nQueries++
	if err != nil {
		s.viol("C02", "feed-error", err.Error(), nil, nil)
		return
	}
	wantLo := md.FeedLatestOnly()
	if !eqSeq(wantLo, lo) {
		s.viol("C02", "latestonly-mismatch", fmt.Sprintf("dataset %s: latest-only feed differs from the newest version of each entity", dsName), feedStr(wantLo), recStr(lo))
	}
	// limit sequences, derived from the op index so that they vary
	seqs := [][]int{{1}, {2}, {5, 1}, {1, 0}, {3, 2, 1}}
	for k, lim := range seqs {
		if (k+s.opIdx)%2 == 1 && s.opIdx < len(s.c.Ops) {
			continue
		}
		for _, latest := range []bool{false, true} {
			got, tok, err := obs.Feed(st, ds, 0, lim, latest)
			s.nQueries++
			if err != nil {
				s.viol("C02", "feed-error", err.Error(), nil, nil)
				return
			}
			want := full
			if latest {
				want = wantLo
			}
			if !eqSeq(want, got) {
				s.viol("C02", "paged-feed-mismatch", fmt.Sprintf("dataset %s limits=%v latestOnly=%v: following tokens yields a different sequence than the single call", dsName, lim, latest), feedStr(want), recStr(got))
				return
			}
			// token at the end returns nothing, also beyond the end
			for _, beyond := range []uint64{0, 1, 7} {
				ch, err := ds.GetChanges(tok+beyond, 0, latest)
				s.nQueries++
				if err != nil {
					s.viol("C02", "feed-error", err.Error(), nil, nil)
					return
				}
				if len(ch.Entities) != 0 || ch.NextToken != tok+beyond {
					s.viol("C02", "end-token", fmt.Sprintf("dataset %s: since=%d (end+%d) returned %d entities, next token %d", dsName, tok+beyond, beyond, len(ch.Entities), ch.NextToken), nil, nil)
					return
				}
			}
		}
	}
	// persistent readers must hold a prefix
	for _, rd := range s.readers {
		if rd.ds == dsName {
			s.checkReaderPrefix(rd)
		}
	}
}

func eqSeq(want []*model.Version, got []obs.Rec) bool {
	if len(want) != len(got) {
		return false
	}
	for i := range want {
		if !sameEnt(&want[i].Ent, &got[i].Ent) {
			return false
		}
	}
	return true
}

func (s *sdRun) stepReader(rd *sdReaderState) {
	ds := s.core.Dsm.GetDataset(rd.ds)
	lim := rd.lim[rd.step%len(rd.lim)]
	rd.step++
	ch, err := ds.GetChanges(rd.token, lim, false)
	s.nQueries++
	if err != nil {
		s.viol("C02", "feed-error", err.Error(), nil, nil)
		return
	}
	for _, e := range ch.Entities {
		rd.acc = append(rd.acc, obs.Canon(s.core.Store, e))
	}
	if ch.NextToken < rd.token {
		s.viol("C02", "token-backwards", fmt.Sprintf("reader token %d -> %d", rd.token, ch.NextToken), nil, nil)
	}
	rd.token = ch.NextToken
	s.ctx.Out.Stat("reader_steps", 1)
	if s.ctx.Has("C02") {
		s.checkReaderPrefix(rd)
	}
}

func (s *sdRun) checkReaderPrefix(rd *sdReaderState) {
	md := s.m.Live(rd.ds)
	full := md.Feed()
	if len(rd.acc) > len(full) || !eqSeq(full[:len(rd.acc)], rd.acc) {
		s.viol("C02", "reader-not-prefix", fmt.Sprintf("dataset %s: a token-following reader's output is not a prefix of the feed", rd.ds), feedStr(full), recStr(rd.acc))
	}
}

func (s *sdRun) drainReader(rd *sdReaderState) {
	for i := 0; i < 1000; i++ {
		before := len(rd.acc)
		tok := rd.token
		s.stepReader(rd)
		if len(rd.acc) == before && rd.token == tok {
			break
		}
	}
	md := s.m.Live(rd.ds)
	if !eqSeq(md.Feed(), rd.acc) {
		s.viol("C02", "reader-incomplete", fmt.Sprintf("dataset %s: a reader that resumed across later writes did not end with the complete feed", rd.ds), feedStr(md.Feed()), recStr(rd.acc))
	}
}

// ---------- C03

func isNoPred(err error) bool {
	return err != nil && strings.Contains(err.Error(), "could not load predicate id")
}

func (s *sdRun) relQuery(start, pred string, inv bool, sc []string, limit int) (obs.RelResult, bool) {
	r, err := obs.Related(s.core.Store, start, pred, inv, sc, limit)
	s.nQueries++
	if err != nil {
		if isNoPred(err) {
			return obs.RelResult{}, true
		}
		s.viol("C03", "query-error", fmt.Sprintf("query start=%s pred=%s inverse=%v scope=%v limit=%d: %v", start, pred, inv, sc, limit, err), nil, nil)
		return r, false
	}
	return r, true
}

func relClass(inv bool, paged bool) string {
	switch {
	case inv && paged:
		return "incoming-paged"
	case inv:
		return "incoming"
	case paged:
		return "outgoing-paged"
	}
	return "outgoing"
}

func (s *sdRun) checkC03(withPaging bool) {
	preds := append([]string{"*"}, s.vocab.Preds...)
	for _, sc := range s.scopes() {
		// single-call answers per (dir, start, pred) for the transpose check
		single := map[string]map[model.Pair]bool{}
		badIncoming := map[string]bool{} // incoming answers already judged against the model
		for _, inv := range []bool{false, true} {
			for _, start := range s.vocab.IDs {
				for _, pred := range preds {
					want := s.m.Related(start, pred, inv, sc, -1)
					r, ok := s.relQuery(start, pred, inv, sc, 0)
					if !ok {
						return
					}
					got := r.Set()
					single[fmt.Sprintf("%v|%s|%s", inv, start, pred)] = got
					q := fmt.Sprintf("start=%s pred=%s inverse=%v scope=%v", start, pred, inv, sc)
					cls := func(paged bool, mis []model.Pair, suffix string) string {
						if inv {
							if c := s.m.ClassifyIncoming(start, pred, sc, -1, paged, mis); c != "" {
								return c
							}
						}
						return relClass(inv, paged) + suffix
					}
					if d := r.DupPairs(); len(d) > 0 {
						s.viol("C03", cls(false, d, "-duplicate"), q+": pair returned twice", nil, r.Dups())
					}
					if !reflect.DeepEqual(want, got) {
						s.viol("C03", cls(false, model.SymDiff(want, got), ""), q+": result set differs from the graph of latest versions", model.PairList(want), model.PairList(got))
						if inv {
							badIncoming[fmt.Sprintf("%s|%s", start, pred)] = true
						}
					}
					if withPaging {
						for _, lim := range []int{1, 2, 3} {
							pr, ok := s.relQuery(start, pred, inv, sc, lim)
							if !ok {
								return
							}
							if d := pr.DupPairs(); len(d) > 0 {
								s.viol("C03", cls(true, d, "-duplicate"), fmt.Sprintf("%s limit=%d: pair returned twice across pages", q, lim), model.PairList(want), pr.Dups())
							}
							if !reflect.DeepEqual(pr.Set(), want) {
								s.viol("C03", cls(true, model.SymDiff(want, pr.Set()), ""), fmt.Sprintf("%s limit=%d: union of pages differs from the graph of latest versions", q, lim), model.PairList(want), model.PairList(pr.Set()))
							}
						}
					}
				}
			}
		}
		// transpose, hub against hub (concrete predicates)
		for _, a := range s.vocab.IDs {
			for _, p := range s.vocab.Preds {
				for o := range single[fmt.Sprintf("false|%s|%s", a, p)] {
					if in, ok := single[fmt.Sprintf("true|%s|%s", o.Other, p)]; ok && !badIncoming[o.Other+"|"+p] && !in[model.Pair{Pred: p, Other: a}] {
						s.viol("C03", "transpose", fmt.Sprintf("scope=%v: %s -%s-> %s is returned outgoing but not incoming", sc, a, p, o.Other), nil, nil)
					}
				}
				for o := range single[fmt.Sprintf("true|%s|%s", a, p)] {
					if badIncoming[a+"|"+p] {
						break
					}
					if out, ok := single[fmt.Sprintf("false|%s|%s", o.Other, p)]; ok && !out[model.Pair{Pred: p, Other: a}] {
						s.viol("C03", "transpose", fmt.Sprintf("scope=%v: %s -%s-> %s is returned incoming but not outgoing", sc, o.Other, p, a), nil, nil)
					}
				}
			}
		}
	}
}

// ---------- C06

func (s *sdRun) lastT() int64 {
	var t uint64
	for _, rs := range s.rec {
		for _, x := range rs {
			if x > t {
				t = x
			}
		}
	}
	return int64(t)
}

type sdQ struct {
	kind  string // lookup | rel
	id    string
	pred  string
	inv   bool
	scope []string
}

func (q sdQ) key() string {
	return fmt.Sprintf("%s|%s|%s|%v|%v", q.kind, q.id, q.pred, q.inv, q.scope)
}

func (s *sdRun) questions() []sdQ {
	var qs []sdQ
	for _, sc := range s.scopes() {
		for _, id := range s.vocab.IDs {
			qs = append(qs, sdQ{kind: "lookup", id: id, scope: sc})
			for _, inv := range []bool{false, true} {
				qs = append(qs, sdQ{kind: "rel", id: id, pred: "*", inv: inv, scope: sc})
				qs = append(qs, sdQ{kind: "rel", id: id, pred: s.vocab.Preds[s.opIdx%len(s.vocab.Preds)], inv: inv, scope: sc})
			}
		}
	}
	return qs
}

func lookupAnswer(r *obs.Rec) string {
	if r == nil || (len(r.Props) == 0 && len(r.Refs) == 0 && !r.Deleted) {
		return "nothing"
	}
	if r.Deleted {
		return "deleted"
	}
	b, _ := json.Marshal(map[string]any{"p": model.MergedBag([]map[string]any{r.Props}), "r": model.MergedBag([]map[string]any{r.Refs})})
	return string(b)
}

func relAnswer(r obs.RelResult) (pairs string, bodies string) {
	pl := model.PairList(r.Set())
	var bl []string
	for p, b := range r.Bodies {
		bl = append(bl, p.String()+"="+lookupAnswer(&b))
	}
	sort.Strings(bl)
	return strings.Join(pl, ";"), strings.Join(bl, ";")
}

// answerNow asks the current-state query.
func (s *sdRun) answerNow(q sdQ) (string, string, bool) {
	if q.kind == "lookup" {
		r, err := obs.Lookup(s.core.Store, q.id, q.scope)
		s.nQueries++
		if err != nil {
			return "", "", false
		}
		return lookupAnswer(r), "", true
	}
	r, err := obs.Related(s.core.Store, q.id, q.pred, q.inv, q.scope, 0)
	s.nQueries++
	if err != nil {
		if isNoPred(err) {
			return "", "", true
		}
		return "", "", false
	}
	a, b := relAnswer(r)
	return a, b, true
}

// answerAt asks the as-of query.
func (s *sdRun) answerAt(q sdQ, at int64) (string, string, bool) {
	st := s.core.Store
	if q.kind == "lookup" {
		iid, ok := s.iids[q.id]
		if !ok {
			return "nothing", "", true
		}
		e, err := st.GetEntityAtPointInTimeWithInternalID(iid, at, st.DatasetsToInternalIDs(q.scope), true)
		s.nQueries++
		if err != nil {
			return "", "", false
		}
		if e == nil {
			return "nothing", "", true
		}
		r := obs.Canon(st, e)
		return lookupAnswer(&r), "", true
	}
	r, err := obs.RelatedAt(st, q.id, q.pred, q.inv, q.scope, 0, at)
	s.nQueries++
	if err != nil {
		if isNoPred(err) {
			return "", "", true
		}
		return "", "", false
	}
	a, b := relAnswer(r)
	return a, b, true
}

func (s *sdRun) snapshot() {
	t := s.lastT()
	if len(s.snaps) > 0 && s.snaps[len(s.snaps)-1].T >= t {
		return // the op committed nothing: no new instant
	}
	sn := sdSnap{commit: s.m.Commit, T: t, ans: map[string]string{}}
	for _, q := range s.questions() {
		a, b, ok := s.answerNow(q)
		if !ok {
			continue
		}
		sn.ans[q.key()] = a
		if q.kind == "rel" {
			sn.ans["bodies|"+q.key()] = b
		}
	}
	s.snaps = append(s.snaps, sn)
	// open a paged query now and then
	if len(s.paged) < 3 && s.opIdx%4 == 1 {
		start := s.vocab.IDs[s.opIdx%len(s.vocab.IDs)]
		inv := s.opIdx%8 == 1
		r, err := obs.Related(s.core.Store, start, "*", inv, nil, 0)
		if err == nil && len(r.Set()) >= 2 {
			q, err := s.core.Store.GetManyRelatedEntitiesBatch([]string{start}, "*", inv, nil, 1, true)
			if err == nil {
				p := &sdPaged{start: start, inv: inv, commit: s.m.Commit, q: fmt.Sprintf("start=%s pred=* inverse=%v limit=1", start, inv), expected: model.PairList(r.Set()), got: map[model.Pair]bool{}, cont: q.Cont, openedAt: s.opIdx}
				for _, rel := range q.Relations {
					p.got[model.Pair{Pred: obsExpand(s.core.Store, rel.PredicateURI), Other: obsExpand(s.core.Store, rel.RelatedEntity.ID)}] = true
				}
				s.paged = append(s.paged, p)
			}
		}
	}
}

func obsExpand(st *server.Store, c string) string {
	if strings.HasPrefix(c, "http") {
		return c
	}
	u, err := st.ExpandCurie(c)
	if err != nil {
		return c
	}
	return u
}

// stepPaged continues every open paged query by one page; returns true if any is still open.
func (s *sdRun) stepPaged() bool {
	open := false
	for _, p := range s.paged {
		if p.done || p.openedAt == s.opIdx {
			if !p.done {
				open = true
			}
			continue
		}
		if len(p.cont) == 0 {
			p.done = true
			got := model.PairList(p.got)
			s.ctx.Out.Stat("c06_paged_completed", 1)
			if !reflect.DeepEqual(got, p.expected) {
				cls := "paged-asof"
				if p.inv {
					cls = "paged-asof-incoming"
					if c := s.m.ClassifyIncoming(p.start, "*", nil, p.commit, true, model.SymDiff(parsePairs(strings.Join(p.expected, ";")), p.got)); c != "" {
						cls = "asof-incoming-via-C03"
					}
				}
				s.viol("C06", cls, fmt.Sprintf("%s opened at op %d and continued during later writes: pages do not add up to the result as of the first page", p.q, p.openedAt), p.expected, got)
			}
			continue
		}
		q, err := s.core.Store.GetManyRelatedEntitiesAtTime(p.cont, 1, true)
		s.nQueries++
		if err != nil {
			p.done = true
			continue
		}
		for _, rel := range q.Relations {
			p.got[model.Pair{Pred: obsExpand(s.core.Store, rel.PredicateURI), Other: obsExpand(s.core.Store, rel.RelatedEntity.ID)}] = true
		}
		p.cont = q.Cont
		open = true
	}
	return open
}

// reask evaluates every stored question as of instants inside [T_k, T_k+1).
func (s *sdRun) reask() {
	if !s.ctx.Has("C06") {
		return
	}
	now := s.lastT()
	for k, sn := range s.snaps {
		next := int64(0)
		last := k+1 >= len(s.snaps)
		if !last {
			next = s.snaps[k+1].T
		}
		var instants []int64
		instants = append(instants, sn.T)
		if last {
			if sn.T < now {
				instants = append(instants, sn.T+1)
			}
			instants = append(instants, sn.T+1000)
		} else {
			if sn.T+1 < next {
				instants = append(instants, sn.T+1, sn.T+(next-sn.T)/2, next-1)
			}
		}
		changedLater := false
		for _, q := range s.questionsFor(sn) {
			want := sn.ans[q.key()]
			if !last && s.snaps[len(s.snaps)-1].ans[q.key()] != want {
				changedLater = true
			}
			for _, at := range instants {
				got, bodies, ok := s.answerAt(q, at)
				if !ok {
					continue
				}
				s.ctx.Out.Stat("c06_reasked", 1)
				if got != want {
					cls := "asof-lookup"
					if q.kind == "rel" {
						cls = "asof-relation-outgoing"
						if q.inv {
							cls = "asof-relation-incoming"
							// cascade: the incoming index scan defects of C03 seen through an as-of query
							if c := s.m.ClassifyIncoming(q.id, q.pred, q.scope, sn.commit, false, model.SymDiff(parsePairs(want), parsePairs(got))); c != "" {
								cls = "asof-incoming-via-C03"
							}
						}
					}
					s.viol("C06", cls, fmt.Sprintf("%s as of %d (commit %d, T=%d): answer differs from what the current-state query returned then", q.key(), at, sn.commit, sn.T), want, got)
				} else if q.kind == "rel" {
					if wb := sn.ans["bodies|"+q.key()]; wb != bodies {
						s.viol("C06", "asof-related-bodies", fmt.Sprintf("%s as of %d (commit %d): related entity bodies differ from what was returned then", q.key(), at, sn.commit), wb, bodies)
					}
				}
			}
		}
		if changedLater {
			s.ctx.Out.Stat("c06_snapshots_with_later_change", 1)
		}
	}
}

func (s *sdRun) questionsFor(sn sdSnap) []sdQ {
	var qs []sdQ
	for _, sc := range s.scopes() {
		for _, id := range s.vocab.IDs {
			cands := []sdQ{{kind: "lookup", id: id, scope: sc}}
			for _, inv := range []bool{false, true} {
				cands = append(cands, sdQ{kind: "rel", id: id, pred: "*", inv: inv, scope: sc})
				for _, p := range s.vocab.Preds {
					cands = append(cands, sdQ{kind: "rel", id: id, pred: p, inv: inv, scope: sc})
				}
			}
			for _, q := range cands {
				if _, ok := sn.ans[q.key()]; ok {
					qs = append(qs, q)
				}
			}
		}
	}
	return qs
}

func parsePairs(a string) map[model.Pair]bool {
	m := map[model.Pair]bool{}
	for _, x := range strings.Split(a, ";") {
		if x == "" {
			continue
		}
		i := strings.Index(x, " ")
		if i < 0 {
			continue
		}
		m[model.Pair{Pred: x[:i], Other: x[i+1:]}] = true
	}
	return m
}

// genBadTxn: a transaction over all given datasets with brand-new ids; the entity of dataset op.DS is made invalid
// (nil reference value, as a JavaScript transform can produce it) before it is executed. The transaction must be
// refused as a whole: nothing stored, no identifier half-registered, no counter moved.
func genBadTxn(r *rand.Rand, datasets []string, n int) SDOp {
	t := map[string][]model.Ent{}
	for i, d := range datasets {
		t[d] = []model.Ent{{ID: fmt.Sprintf("%srejected-%d-%d", gen.NsA, n, i), Props: map[string]any{gen.NsP + "k0": float64(i)}, Refs: map[string]any{gen.NsR + "r0": gen.NsA + "e0"}}}
	}
	return SDOp{Kind: "badtxn", DS: datasets[r.Intn(len(datasets))], Txn: t}
}

func (s *sdRun) applyBadTxn(op SDOp) {
	t := map[string][]model.Ent{}
	for d, ents := range op.Txn {
		if s.m.Live(d) != nil {
			t[d] = ents
		}
	}
	if len(t) < 2 || t[op.DS] == nil {
		return
	}
	esp := server.NewEntityStreamParser(s.core.Store)
	txn, err := esp.ParseTransaction(bytes.NewReader(gen.TxnPayload(t)))
	if err != nil {
		return
	}
	for _, e := range txn.DatasetEntities[op.DS] {
		for k := range e.References {
			e.References[k] = nil
		}
	}
	if err := s.core.Store.ExecuteTransaction(txn); err == nil {
		s.viol("C04", "invalid-transaction-accepted", fmt.Sprintf("a transaction over %d datasets whose entity for %s carries a nil reference value was accepted", len(t), op.DS), nil, nil)
		s.abort = true
		return
	}
	s.ctx.Out.Stat("rejected_transactions", 1)
}
