package scen

// c17rerun: the reRun error handler of C17.
//
// A job with "onError":[{"errorHandler":"reRun","retryDelay":d,"maxRetries":r}(,{"errorHandler":"log",…})]
// is executed once the way cron executes it; every further execution can only
// come from the handler. Executions are counted at the hub's own start markers
// (recorded log lines) and at the scripted sink. Rules:
//   - re-executions <= maxRetries                                   (safety, counted)
//   - no re-execution follows a run whose recorded outcome has no error,
//     nor a run that was killed (outcome "got job interrupt")       (safety)
//   - a re-execution starts no earlier than retryDelay after the failed run
//     ended (one-sided comparison of two recorded monotonic stamps;
//     scheduling jitter can only make it later)
//   - expected re-executions that do not show up within the watchdog -> inconclusive.

import (
	"encoding/json"
	"fmt"
	"os"
	"strconv"
	"strings"
	"time"
)

func init() { Register("c17rerun", c17Rerun) }

type c17RCase struct {
	K          int   `json:"k"`
	B          int   `json:"b"`
	Log        bool  `json:"log"`        // log handler configured next to reRun
	LogFirst   bool  `json:"logFirst"`   // order of the two handlers in onError
	MaxItems   int   `json:"maxItems"`   // of the log handler
	MaxRetries int   `json:"maxRetries"` // of the reRun handler
	DelayMs    int   `json:"delayMs"`    // 1000 = configured as retryDelay:1 (real); other values patch the parsed configuration's RetryDelay like the repo's own tests do
	FailRuns   int   `json:"failRuns"`   // the sink rejects every request during the first FailRuns runs (99 = for good)
	Fail       []int `json:"fail"`       // additionally: entities the sink always rejects
	Kill       bool  `json:"kill"`       // KillJob while run 1 waits for the sink's answer to its KillAt-th request (0 = first)
	KillAt     int   `json:"killAt,omitempty"`
	Transform  bool  `json:"transform"`
	// Triggers > 1: the same job object is triggered Triggers times back to back (a cron schedule shorter than
	// the retry delay, a burst of on-change events): several failing executions end inside one retryDelay window
	Triggers int `json:"triggers,omitempty"`
	// Kind: job type of the trigger ("" = incremental)
	Kind string `json:"kind,omitempty"`
}

func c17RerunList(tier string) []c17RCase {
	var out []c17RCase
	// real one-second delay, a handful
	real := []c17RCase{
		{K: 4, B: 2, MaxRetries: 1, DelayMs: 1000, FailRuns: 99},
		{K: 4, B: 2, MaxRetries: 2, DelayMs: 1000, FailRuns: 1},
		{K: 5, B: 5, Log: true, LogFirst: true, MaxItems: 1, MaxRetries: 2, DelayMs: 1000, FailRuns: 0, Fail: []int{2}},
		{K: 3, B: 1, MaxRetries: 3, DelayMs: 1000, FailRuns: 99},
		{K: 3, B: 3, MaxRetries: 2, DelayMs: 1000, FailRuns: 0},
		{K: 6, B: 2, MaxRetries: 2, DelayMs: 1000, FailRuns: 99, Kill: true},
		{K: 6, B: 2, MaxRetries: 2, DelayMs: 1000, FailRuns: 0, Kill: true, Kind: "fullsync"},
		// killed after the log handler has already dealt with a rejected entity of this run
		{K: 6, B: 1, Log: true, LogFirst: true, MaxRetries: 2, DelayMs: 1000, Fail: []int{0}, Kill: true, KillAt: 2},
		// three triggers of a permanently failing job inside one retry delay
		{K: 3, B: 3, MaxRetries: 1, DelayMs: 1000, FailRuns: 99, Triggers: 3},
		// sink down during the first execution only; transform + capped log + reRun
		{K: 10, B: 3, Log: true, LogFirst: true, MaxItems: 2, MaxRetries: 3, DelayMs: 1000, FailRuns: 1, Transform: true},
	}
	out = append(out, real...)
	delays := []int{40}
	ks := []int{4}
	if tier == "thorough" {
		delays = []int{40, 150, 1000}
		ks = []int{1, 4, 9}
	}
	for _, d := range delays {
		for _, k := range ks {
			for r := 1; r <= 3; r++ {
				for _, t := range []int{0, 1, 2, 3, 99} {
					if d == 1000 && k != 4 {
						continue
					}
					b := 2
					out = append(out, c17RCase{K: k, B: b, MaxRetries: r, DelayMs: d, FailRuns: t})
					out = append(out, c17RCase{K: k, B: b, Log: true, LogFirst: r%2 == 0, MaxItems: (r + t) % 3, MaxRetries: r, DelayMs: d, FailRuns: t})
				}
				// sink down during the first t executions, healthy afterwards; transform + log (capped, so the failed
				// execution leaves its batch for the re-run) + reRun: the clean re-run must be recorded without error and be the last
				for _, t := range []int{1, 2} {
					if t > r {
						continue
					}
					for _, tr := range []bool{true, false} {
						out = append(out, c17RCase{K: k + 2, B: 3, Log: true, LogFirst: r%2 == 1, MaxItems: 2, MaxRetries: r, DelayMs: d, FailRuns: t, Transform: tr})
						out = append(out, c17RCase{K: k + 2, B: 1, Log: true, LogFirst: r%2 == 0, MaxItems: 1, MaxRetries: r, DelayMs: d, FailRuns: t, Transform: tr})
					}
				}
				// several failing executions inside one retry delay (delay well above the few ms the triggers take)
				if d == 40 {
					for _, tg := range []int{2, 3} {
						out = append(out, c17RCase{K: 3, B: 3, MaxRetries: r, DelayMs: 400, FailRuns: 99, Triggers: tg})
						out = append(out, c17RCase{K: 3, B: 2, Log: true, LogFirst: tg%2 == 0, MaxItems: 1, MaxRetries: r, DelayMs: 400, FailRuns: 99, Triggers: tg})
					}
				}
				// log handler isolates a permanently rejected entity; reRun next to it
				out = append(out, c17RCase{K: k, B: k, Log: true, LogFirst: true, MaxItems: 0, MaxRetries: r, DelayMs: d, Fail: []int{0}})
				out = append(out, c17RCase{K: k, B: 1, Log: true, MaxItems: 1, MaxRetries: r, DelayMs: d, Fail: []int{k - 1}})
				// kill
				out = append(out, c17RCase{K: k + 2, B: 1, MaxRetries: r, DelayMs: d, FailRuns: 99, Kill: true})
				out = append(out, c17RCase{K: k + 2, B: 2, Log: true, MaxRetries: r, DelayMs: d, FailRuns: 0, Kill: true})
				// a killed FULL SYNC (the pipeline types end a cancelled run in their own code)
				out = append(out, c17RCase{K: k + 2, B: 2, MaxRetries: r, DelayMs: d, FailRuns: 0, Kill: true, Kind: "fullsync"})
				out = append(out, c17RCase{K: k + 3, B: 1, Log: true, LogFirst: r%2 == 0, MaxRetries: r, DelayMs: d, Fail: []int{0}, Kill: true, KillAt: 2, Kind: "fullsync"})
				// kill after rejections were already handled in the killed run: [e0] rejected+reported, kill at e1's request
				out = append(out, c17RCase{K: k + 3, B: 1, Log: true, LogFirst: r%2 == 1, MaxItems: 0, MaxRetries: r, DelayMs: d, Fail: []int{0}, Kill: true, KillAt: 2})
				// [e0,e1] rejected, [e0] accepted, [e1] rejected+reported, kill at [e2,e3]
				out = append(out, c17RCase{K: k + 5, B: 2, Log: true, LogFirst: r%2 == 0, MaxItems: 9, MaxRetries: r, DelayMs: d, Fail: []int{1}, Kill: true, KillAt: 4})
			}
		}
	}
	return out
}

func c17RerunWork(ctx *Ctx) []c17RCase {
	if ctx.Replay != "" {
		b, err := os.ReadFile(ctx.Replay)
		if err != nil {
			return nil
		}
		var rp struct {
			Ops c17RCase `json:"ops"`
		}
		if json.Unmarshal(b, &rp) != nil {
			return nil
		}
		return []c17RCase{rp.Ops}
	}
	idx, n := c10ChildIndex(ctx)
	transform := ctx.Arg("transform", "") != ""
	var mine []c17RCase
	for i, c := range c17RerunList(ctx.Tier) {
		if i%n == idx {
			c.Transform = c.Transform || transform
			mine = append(mine, c)
		}
	}
	return mine
}

func c17Rerun(ctx *Ctx) error {
	list := c17RerunWork(ctx)
	if !c10IsSub(ctx) {
		c10Supervise(ctx, "c17rerun", "C17", len(list), func(what map[string]any, sig string) string {
			s := []string{}
			if b, _ := what["transform"].(bool); b {
				s = append(s, "transform")
			}
			if b, _ := what["log"].(bool); b {
				s = append(s, "log-handler")
			}
			s = append(s, "rerun-handler")
			return strings.Join(s, "+")
		})
		return nil
	}
	st := c17Open(ctx)
	defer st.Close()
	for pos := c10SubFrom(ctx); pos < len(list); pos++ {
		c := list[pos]
		id := outHash(c)
		tags := []string{"rerun", fmt.Sprintf("delay:%dms", c.DelayMs), fmt.Sprintf("maxRetries:%d", c.MaxRetries)}
		if c.Log {
			tags = append(tags, "log+rerun")
		}
		if c.Triggers > 1 {
			tags = append(tags, "several-triggers-within-retry-delay")
		}
		if c.Kind == "fullsync" {
			tags = append(tags, "fullsync")
		}
		if c.Kill {
			tags = append(tags, "kill")
			if c.KillAt > 1 && len(c.Fail) > 0 {
				tags = append(tags, "kill-after-rejection")
			}
		}
		switch {
		case c.FailRuns == 0 && len(c.Fail) == 0:
			tags = append(tags, "success-at-once")
		case c.FailRuns >= 99 || len(c.Fail) > 0:
			tags = append(tags, "permanent")
		default:
			tags = append(tags, "recovers")
		}
		// non-trivial: at least one failed run and at least one question about what follows it
		ctx.Out.Case(id, ctx.Seed, c, c.FailRuns > 0 || len(c.Fail) > 0 || c.Kill, tags)
		ctx.Out.Begin(id, pos, c)
		st.runRerun(id, pos, c)
		ctx.Out.Ack(id, pos, nil)
		ctx.Out.FlushStats()
	}
	return nil
}

func (st *c17State) runRerun(caseID string, pos int, c c17RCase) {
	out := st.ctx.Out
	var evs []c17Ev
	viol := func(class, msg string, exp, got any) {
		out.Stat("viol:"+class, 1)
		out.Viol(caseID, "C17", class, fmt.Sprintf("k=%d b=%d log=%v maxItems=%d maxRetries=%d delay=%dms failRuns=%d fail=%v kill=%v@%d transform=%v triggers=%d %s: %s",
			c.K, c.B, c.Log, c.MaxItems, c.MaxRetries, c.DelayMs, c.FailRuns, c.Fail, c.Kill, c.KillAt, c.Transform, c.Triggers, c.Kind, msg), exp, got, map[string]any{"events": c17HeadEv(evs, 160)})
	}
	src, err := st.ensureSource(c.K)
	if err != nil {
		out.Inconclusive(caseID, "C17", "cannot build source: "+err.Error())
		return
	}
	jobID := "c17r-" + strconv.Itoa(pos)
	sc := &c17Script{Fail: map[int]int{}, FailRuns: c.FailRuns}
	for _, i := range c.Fail {
		sc.Fail[i] = -1
	}
	if c.Kill {
		sc.block = true
		sc.blockAt = c.KillAt
		sc.reached = make(chan struct{})
		sc.release = make(chan struct{})
	}
	st.sink.install(jobID, sc)
	defer st.sink.remove(jobID)

	rr := map[string]any{"errorHandler": "reRun", "retryDelay": 1, "maxRetries": c.MaxRetries}
	onErr := []map[string]any{rr}
	if c.Log {
		lg := map[string]any{"errorHandler": "log", "maxItems": c.MaxItems}
		if c.LogFirst {
			onErr = []map[string]any{lg, rr}
		} else {
			onErr = []map[string]any{rr, lg}
		}
	}
	kind := c.Kind
	if kind == "" {
		kind = "incremental"
	}
	cfg, js, err := st.h.c10AddPaused(st.jobJSON(jobID, src, kind, c.B, c.Transform, "@every 24h", true, onErr))
	if err != nil || len(js) != 1 {
		out.Inconclusive(caseID, "C17", fmt.Sprintf("cannot configure job: %v", err))
		return
	}
	delay := time.Duration(c.DelayMs) * time.Millisecond
	for _, eh := range cfg.Triggers[0].ErrorHandlers {
		if strings.EqualFold(eh.Type, "rerun") {
			if c.DelayMs != 1000 {
				eh.RetryDelay = int64(delay) // the parsed configuration object is the one the job's handlers point to
			} else if eh.RetryDelay != int64(time.Second) {
				out.Stat("configured_delay_not_1s", 1)
				delay = time.Duration(eh.RetryDelay)
			}
		}
	}
	st.h.Log.Take()
	done := make(chan struct{})
	var panicked bool
	var pmsg string
	go func() {
		panicked, pmsg, _ = c10RunGuarded(js[0].RunAsCron)
		close(done)
	}()
	if c.Kill {
		select {
		case <-sc.reached:
			st.h.Sched.KillJob(jobID)
			out.Stat("kills_issued", 1)
			close(sc.release)
		case <-done:
			close(sc.release)
		case <-time.After(20 * time.Second):
			close(sc.release)
			out.Inconclusive(caseID, "C17", "watchdog: run 1 never reached the sink")
		}
	}
	select {
	case <-done:
	case <-time.After(60 * time.Second):
		out.Inconclusive(caseID, "C17", "watchdog: run 1 did not return within 60s")
		return
	}
	out.Stat("rerun_cases_run", 1)
	triggers := 1
	for t := 1; t < c.Triggers && !panicked; t++ {
		// the trigger fires again (same job object) right after the failed execution, long before the retry delay is over
		panicked, pmsg, _ = c10RunGuarded(js[0].RunAsCron)
		triggers++
		out.Stat("extra_triggers_issued", 1)
	}
	if panicked {
		evs = c17Merge(jobID, nil, st.h.Log.Snapshot())
		viol("job-panic", "the job goroutine panicked: "+firstLine(pmsg), nil, pmsg)
		_ = st.h.Sched.DeleteJob(jobID)
		return
	}
	// how many executions the statement lets us expect
	failing := c.FailRuns
	if len(c.Fail) > 0 {
		failing = 99
	}
	expect := 1
	if !c.Kill {
		expect = triggers + minInt(failing, c.MaxRetries)
		if triggers > 1 {
			// pending re-runs of several failed executions may coincide (the later one finds the job running and is
			// skipped): only "at least one re-execution" can be expected, the deciding rule is the upper bound
			expect = triggers + minInt(failing, 1)
		}
	}
	starts := func() int {
		n := 0
		for _, l := range st.h.Log.Snapshot() {
			if jid, _ := l.Fields["job.jobId"].(string); jid == jobID && strings.HasPrefix(l.Msg, "Starting ") {
				n++
			}
		}
		return n
	}
	// wait for the expected executions (watchdog -> inconclusive), then one more delay for unexpected ones
	deadline := time.Now().Add(time.Duration(expect)*delay*3 + 15*time.Second)
	for time.Now().Before(deadline) {
		if starts() >= expect && st.h.Sched.GetRunningJob(jobID) == nil {
			break
		}
		time.Sleep(10 * time.Millisecond)
	}
	// quiescence: no new start marker during one and a half delays, and nothing running
	for round := 0; round < c.MaxRetries+3; round++ {
		n0 := starts()
		time.Sleep(delay + delay/2 + 400*time.Millisecond)
		for i := 0; i < 1000 && st.h.Sched.GetRunningJob(jobID) != nil; i++ {
			time.Sleep(10 * time.Millisecond)
		}
		if starts() == n0 {
			break
		}
	}
	time.Sleep(50 * time.Millisecond)
	_ = st.h.Sched.DeleteJob(jobID)
	logs := st.h.Log.Take()
	st.sink.mu.Lock()
	sinkEv := append([]c17Ev(nil), sc.events...)
	st.sink.mu.Unlock()
	evs = c17Merge(jobID, sinkEv, logs)
	runs := c17Runs(evs)
	if len(runs) == 0 || len(runs[0]) == 0 || runs[0][0].Kind != "start" {
		out.Inconclusive(caseID, "C17", "no start marker of run 1 was logged")
		return
	}
	nexec := len(runs)
	out.Stat("executions_observed", int64(nexec))
	out.Stat("re_executions_observed", int64(nexec-1))
	out.Stat(fmt.Sprintf("rerun_cases:delay_%dms", c.DelayMs), 1)

	type runSum struct {
		end     string
		endNs   int64
		startNs int64
		rej     int
		nrep    int
		killed  bool // the hub logged that the run was terminated (whatever it logged after that)
		clean   bool // the sink was offered something, rejected nothing, nothing was reported, not killed
	}
	var sums []runSum
	for ri, run := range runs {
		o := c17Observe(run, c.MaxItems)
		s := runSum{end: o.End, startNs: run[0].Ns, rej: o.Rejected, nrep: o.NRep}
		for _, e := range run {
			if e.Kind == "end" {
				s.endNs = e.Ns
				if e.Msg == "terminated" || e.Msg == "interrupted" {
					s.killed = true // logged as terminated, or ended with the interrupt error of a cancelled context
				}
			}
		}
		s.clean = o.Requests > 0 && o.Rejected == 0 && o.NRep == 0 && !s.killed
		if s.clean {
			out.Stat("clean_executions", 1)
			if ri > 0 {
				out.Stat("clean_executions_after_failed_one", 1)
			}
			if s.end == "failed" || s.end == "failed-late" {
				viol(c17CleanClass(ri, c.Transform), fmt.Sprintf("run %d: the sink accepted all %d requests and nothing was reported, but the execution was recorded as failed (%s)", ri+1, o.Requests, s.end), "no error", s.end)
			} else {
				out.Stat("clean_executions_recorded_without_error", 1)
			}
		}
		sums = append(sums, s)
		if c.Log {
			c17Judge(o, c.K, c.MaxItems, ri == 0 && !c.Kill, func(class, msg string, exp, got any) {
				viol(class, fmt.Sprintf("run %d: %s", ri+1, msg), exp, got)
			})
		}
		out.Stat("runs_observed", 1)
		out.Stat("ev:sink_requests", int64(o.Requests))
		out.Stat("ev:sink_rejects", int64(o.Rejected))
		out.Stat("ev:handler_reports", int64(o.NRep))
	}
	// executions made by the reRun handler: the hub's own "re-running job" lines, and executions beyond the triggers
	// issued here (a trigger that found the job running is skipped by the hub, which only lowers this count)
	rerunLogs := 0
	handlerMade := make([]bool, nexec)
	for ri, run := range runs {
		afterEnd := false
		for _, e := range run {
			if e.Kind == "end" {
				afterEnd = true
			}
			if e.Kind == "rerun-log" {
				rerunLogs++
				if afterEnd && ri+1 < nexec {
					handlerMade[ri+1] = true
				}
			}
		}
	}
	out.Stat("handler_rerun_log_lines", int64(rerunLogs))
	reruns := nexec - triggers
	if rerunLogs > reruns {
		reruns = rerunLogs
	}
	if reruns > c.MaxRetries {
		cl := "too-many-reruns"
		if triggers > 1 {
			cl += "/several-failing-executions-within-retry-delay"
		}
		viol(cl, fmt.Sprintf("%d executions for %d triggers, %d 're-running job' lines: %d re-executions by the reRun handler with maxRetries=%d", nexec, triggers, rerunLogs, reruns, c.MaxRetries), c.MaxRetries, reruns)
	} else if triggers > 1 {
		out.Stat("multi_trigger_reruns_within_budget", 1)
	}
	kindSfx := ""
	if c.Kind == "fullsync" {
		kindSfx = "/fullsync"
	}
	for ri := 1; ri < nexec; ri++ {
		if triggers > 1 && !handlerMade[ri] {
			continue // started by a trigger of the scenario, not by the handler
		}
		prev := sums[ri-1]
		if prev.killed && prev.end != "terminated" {
			viol("rerun-after-kill"+kindSfx, fmt.Sprintf("run %d was re-executed although run %d was killed (it ended on the kill: logged as terminated or failed with the interrupt error; recorded as %q)", ri+1, ri, prev.end), "no re-execution", nexec)
		}
		if prev.clean && prev.end != "finished" {
			viol("rerun-after-success/clean-execution-recorded-failed", fmt.Sprintf("run %d was re-executed although in run %d the sink accepted everything and nothing was reported (recorded as %q)", ri+1, ri, prev.end), "no re-execution", nexec)
		}
		switch prev.end {
		case "finished":
			viol("rerun-after-success", fmt.Sprintf("run %d was re-executed although run %d ended without an error", ri+1, ri), "no re-execution", nexec)
		case "terminated":
			viol("rerun-after-kill"+kindSfx, fmt.Sprintf("run %d was re-executed although run %d was killed", ri+1, ri), "no re-execution", nexec)
		case "failed-late":
			if prev.rej == 0 {
				out.Stat("rerun_after_run_without_any_rejection", 1)
			}
		}
		if prev.endNs > 0 && triggers == 1 {
			// (with several triggers the pending re-run belongs to an earlier failed execution than the previous one)
			gap := sums[ri].startNs - prev.endNs
			out.StatMax("max:rerun_gap_ms", gap/1e6)
			if gap < int64(delay) {
				viol("rerun-before-delay", fmt.Sprintf("run %d started %dms after run %d ended; the configured delay is %v", ri+1, gap/1e6, ri, delay), delay.String(), time.Duration(gap).String())
			} else {
				out.Stat("rerun_gaps_checked", 1)
			}
		}
	}
	if c.Kill && !sums[0].killed {
		out.Stat("kill_did_not_terminate_run", 1)
	}
	if c.Kill && sums[0].killed {
		out.Stat("runs_terminated_by_kill", 1)
		if sums[0].nrep > 0 {
			out.Stat("runs_terminated_by_kill_after_reported_rejection", 1)
		}
	}
	if nexec < expect {
		out.Inconclusive(caseID, "C17", fmt.Sprintf("watchdog: %d executions observed, %d expected (maxRetries=%d, failing runs=%d)", nexec, expect, c.MaxRetries, failing))
		out.Stat("expected_rerun_not_observed", 1)
	} else if nexec == expect {
		out.Stat("execution_count_as_expected", 1)
	} else if nexec-1 <= c.MaxRetries {
		// more executions than the sink's script explains but within maxRetries: classified above if it followed a success / kill
		out.Stat("more_executions_than_scripted", 1)
	}
	// final recorded outcome
	res, _ := st.h.JobResult(jobID)
	if res == nil {
		viol("no-job-result", "no recorded outcome after the last run", "a jobResult", nil)
		return
	}
	last := sums[len(sums)-1]
	if !c.Kill && ((c.Log && last.nrep > 0) || (!c.Log && last.rej > 0)) && res.LastError == "" {
		viol(c17OutcomeClass(c17Case{}, runs[len(runs)-1]), "the last run had rejected (log handler: reported) entities but the recorded outcome carries no error", "lastError set", res)
	}
	if last.clean && last.end != "failed" && last.end != "failed-late" && res.LastError != "" {
		viol(c17CleanClass(len(sums)-1, c.Transform), fmt.Sprintf("the last run (%d) was clean but the stored outcome carries the error %q", len(sums), res.LastError), "no error", res.LastError)
	}
}

func minInt(a, b int) int {
	if a < b {
		return a
	}
	return b
}
