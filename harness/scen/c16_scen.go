package scen

// C16 — "No request is served beyond what the caller's token and ACL grant".
// Scenarios (all through the REAL echo router with all middlewares, node security on):
//   c16tokens   every registered route x every token defect
//   c16acl      every registered route x every ACL list of the lattice (sharded, exhaustive)
//   c16restart  clients / ACLs identical after re-initialising the security core from disk
//   c16opa      the OPA branch of the authorizer against a loopback stub

import (
	"bytes"
	"crypto/ecdsa"
	"crypto/ed25519"
	"crypto/elliptic"
	"crypto/rand"
	"crypto/rsa"
	"encoding/json"
	"fmt"
	mrand "math/rand"
	"net/http"
	"net/http/httptest"
	"net/url"
	"os"
	"path/filepath"
	"regexp"
	"sort"
	"strconv"
	"strings"
	"sync"
	"time"

	"github.com/golang-jwt/jwt/v4"
	"github.com/labstack/echo/v4"
	"github.com/spf13/viper"

	"github.com/mimiro-io/datahub/internal/security"
	"github.com/mimiro-io/datahub/internal/server"
	"github.com/mimiro-io/datahub/internal/verif/gen"
	"github.com/mimiro-io/datahub/internal/verif/model"
)

func init() {
	Register("c16tokens", c16Tokens)
	Register("c16acl", c16ACL)
	Register("c16restart", c16Restart)
	Register("c16opa", c16OPA)
}

const c16Client = "c1"

type c16Keys struct {
	node      *rsa.PrivateKey
	nodePub   []byte // PEM
	foreign   *rsa.PrivateKey
	client    *rsa.PrivateKey
	clientPub string                       // PEM
	ec        map[string]*ecdsa.PrivateKey // by JWT alg name
	ed        ed25519.PrivateKey
}

var c16KeysOnce *c16Keys

func c16GetKeys(ctx *Ctx) (*c16Keys, error) {
	if c16KeysOnce != nil {
		return c16KeysOnce, nil
	}
	kd, err := c16KeyDir(ctx)
	if err != nil {
		return nil, err
	}
	b, err := os.ReadFile(filepath.Join(kd, "node_key"))
	if err != nil {
		return nil, err
	}
	node, err := security.ParseRsaPrivateKeyFromPem(b)
	if err != nil {
		return nil, err
	}
	pub, err := os.ReadFile(filepath.Join(kd, "node_key.pub"))
	if err != nil {
		return nil, err
	}
	foreign, err := rsa.GenerateKey(rand.Reader, 2048)
	if err != nil {
		return nil, err
	}
	client, err := rsa.GenerateKey(rand.Reader, 2048)
	if err != nil {
		return nil, err
	}
	cp, err := security.ExportRsaPublicKeyAsPem(&client.PublicKey)
	if err != nil {
		return nil, err
	}
	ec := map[string]*ecdsa.PrivateKey{}
	for alg, curve := range map[string]elliptic.Curve{"ES256": elliptic.P256(), "ES384": elliptic.P384(), "ES512": elliptic.P521()} {
		k, err := ecdsa.GenerateKey(curve, rand.Reader)
		if err != nil {
			return nil, err
		}
		ec[alg] = k
	}
	_, ed, err := ed25519.GenerateKey(rand.Reader)
	if err != nil {
		return nil, err
	}
	c16KeysOnce = &c16Keys{node: node, nodePub: pub, foreign: foreign, client: client, clientPub: cp, ec: ec, ed: ed}
	return c16KeysOnce, nil
}

// ---------- a secured hub with datasets, one registered client and helpers

type c16Hub struct {
	ctx  *Ctx
	app  *c16App
	keys *c16Keys
	dir  string
}

var c16Datasets = []string{"a", "ab", "b"}

func c16NewHub(ctx *Ctx, keys *c16Keys) (*c16Hub, error) {
	dir := ctx.NewDir("c16hub")
	app, err := c16Boot(ctx, dir, true)
	if err != nil {
		os.RemoveAll(dir)
		return nil, err
	}
	h := &c16Hub{ctx: ctx, app: app, keys: keys, dir: dir}
	if err := h.ensureDatasets(true); err != nil {
		h.Close()
		return nil, err
	}
	if err := h.registerClient(c16Client); err != nil {
		h.Close()
		return nil, err
	}
	ctx.Out.Stat("hub_boots", 1)
	return h, nil
}

func (h *c16Hub) Close() {
	h.app.Close()
	os.RemoveAll(h.dir)
}

func (h *c16Hub) ensureDatasets(fill bool) error {
	names := c16Datasets
	if h.ctx.Arg("pctds", "0") == "1" {
		// probe (not part of the plans): a dataset whose NAME is the percent-encoding of the
		// name of another one; handlers that take the raw path parameter as the name read it
		// when the request path spells "a" as %61, while the authorizer decides on /datasets/a
		names = append(append([]string{}, names...), "%61")
	}
	for _, n := range names {
		if h.app.Dsm.IsDataset(n + "_renamed") {
			_ = h.app.Dsm.DeleteDataset(n + "_renamed")
		}
		if !h.app.Dsm.IsDataset(n) {
			ds, err := h.app.Dsm.CreateDataset(n, nil)
			if err != nil {
				return err
			}
			if fill {
				v := gen.NewVocab(2, 2, 1)
				ents := []model.Ent{{ID: v.IDs[0], Props: map[string]any{v.Props[0]: n}, Refs: map[string]any{}},
					{ID: v.IDs[1], Props: map[string]any{v.Props[1]: "x"}, Refs: map[string]any{v.Preds[0]: v.IDs[0]}}}
				esp := server.NewEntityStreamParser(h.app.Store)
				var batch []*server.Entity
				if err := esp.ParseStream(bytes.NewReader(gen.Payload(ents, false)), func(e *server.Entity) error {
					batch = append(batch, e)
					return nil
				}); err != nil {
					return err
				}
				if err := ds.StoreEntities(batch); err != nil {
					return err
				}
			}
		}
	}
	return nil
}

func (h *c16Hub) adminToken() (string, error) {
	form := url.Values{"grant_type": {"client_credentials"}, "client_id": {c16AdminUser}, "client_secret": {c16AdminPass}}
	r := h.app.Do("POST", "/security/token", []byte(form.Encode()), map[string]string{"Content-Type": "application/x-www-form-urlencoded"})
	if r.Status != 200 {
		return "", fmt.Errorf("admin token request: status %d %s", r.Status, r.Body)
	}
	var tr struct {
		AccessToken string `json:"access_token"`
	}
	if err := json.Unmarshal(r.Body, &tr); err != nil {
		return "", err
	}
	return tr.AccessToken, nil
}

func bearer(tok string) map[string]string {
	if tok == "" {
		return nil
	}
	return map[string]string{"Authorization": "Bearer " + tok}
}

func (h *c16Hub) registerClient(id string) error {
	at, err := h.adminToken()
	if err != nil {
		return err
	}
	b, _ := json.Marshal(security.ClientInfo{ClientID: id, PublicKey: []byte(h.keys.clientPub)})
	r := h.app.Do("POST", "/security/clients", b, bearer(at))
	if r.Status != 200 {
		return fmt.Errorf("register client: status %d %s", r.Status, r.Body)
	}
	return nil
}

func (h *c16Hub) setACL(id string, acl []C16AC) error {
	at, err := h.adminToken()
	if err != nil {
		return err
	}
	if acl == nil {
		acl = []C16AC{}
	}
	b, _ := json.Marshal(acl)
	r := h.app.Do("POST", "/security/clients/"+id+"/acl", b, bearer(at))
	if r.Status != 200 {
		return fmt.Errorf("set acl: status %d %s", r.Status, r.Body)
	}
	return nil
}

// clientToken obtains an access token the way a real client does: a client
// assertion signed with the client's private key is exchanged at /security/token.
func (h *c16Hub) clientToken(id string) (string, error) {
	claims := jwt.RegisteredClaims{Subject: id, Audience: jwt.ClaimStrings{"node:" + c16NodeID},
		ExpiresAt: jwt.NewNumericDate(time.Now().Add(time.Minute)), ID: "v" + strconv.FormatInt(time.Now().UnixNano(), 36)}
	as, err := jwt.NewWithClaims(jwt.SigningMethodRS256, claims).SignedString(h.keys.client)
	if err != nil {
		return "", err
	}
	form := url.Values{"grant_type": {"client_credentials"}, "client_assertion_type": {"urn:ietf:params:oauth:grant-type:jwt-bearer"}, "client_assertion": {as}}
	r := h.app.Do("POST", "/security/token", []byte(form.Encode()), map[string]string{"Content-Type": "application/x-www-form-urlencoded"})
	if r.Status != 200 {
		return "", fmt.Errorf("client token request: status %d %s", r.Status, r.Body)
	}
	var tr struct {
		AccessToken string `json:"access_token"`
	}
	if err := json.Unmarshal(r.Body, &tr); err != nil {
		return "", err
	}
	return tr.AccessToken, nil
}

// requests of every registered route, in every path spelling the router routes
func (h *c16Hub) requests(neighbours bool) []c16Req {
	var rs []c16Req
	seen := map[string]bool{}
	registered := map[string]bool{}
	for _, r := range h.app.E.Routes() {
		registered[r.Method+" "+r.Path] = true
	}
	for _, r := range h.app.E.Routes() {
		for _, q := range c16Concretize(r.Method, r.Path, neighbours) {
			if !seen[q.key()] {
				seen[q.key()] = true
				rs = append(rs, q)
			}
		}
	}
	if h.ctx.Arg("spell", "1") != "0" {
		plain := rs
		for _, q := range plain {
			sp := c16Spellings(q.Route, q.Path)
			names := make([]string, 0, len(sp))
			for n := range sp {
				names = append(names, n)
			}
			sort.Strings(names)
			for _, n := range names {
				sq := q
				sq.Spell, sq.Path = n, sp[n]
				if seen[sq.key()] {
					continue
				}
				seen[sq.key()] = true
				h.ctx.Out.Stat("spelled_paths_generated", 1)
				sq.Dec = c16Decode(sq.Path)
				if sq.Dec == "" {
					h.ctx.Out.Stat("spelled_paths_not_a_request_target", 1)
					continue
				}
				route := h.routeOf(sq.Method, sq.Path)
				if !registered[sq.Method+" "+route] {
					// the router answers with its own 404 / 405: nothing is served, nothing to judge
					h.ctx.Out.Stat("spelled_paths_not_routed", 1)
					h.ctx.Out.Stat("spelling_not_routed:"+n, 1)
					continue
				}
				h.ctx.Out.Stat("spelling_routed:"+n, 1)
				if route != q.Route {
					h.ctx.Out.Stat("spelled_paths_routed_to_another_route", 1)
				}
				sq.Route = route
				sq.Open = c16IsOpen(route)
				if sq.Method == "PATCH" && route != "/datasets/:dataset" {
					sq.Body = ""
				}
				rs = append(rs, sq)
			}
		}
	}
	return c16OrderRequests(rs)
}

// routeOf asks the real router which route pattern it picks for a request target
// ("" / an unregistered pattern = the router's own not-found / method-not-allowed answer).
func (h *c16Hub) routeOf(method, target string) (route string) {
	defer func() {
		if p := recover(); p != nil {
			route = ""
		}
	}()
	req := httptest.NewRequest(method, target, nil)
	c := h.app.E.NewContext(req, httptest.NewRecorder())
	h.app.E.Router().Find(method, echo.GetPath(req), c)
	return c.Path()
}

func (h *c16Hub) do(q c16Req, hdr map[string]string) c16Resp {
	hd := map[string]string{}
	for k, v := range hdr {
		hd[k] = v
	}
	if q.CT != "" {
		hd["Content-Type"] = q.CT
	}
	var body []byte
	if q.Body != "" {
		body = []byte(q.Body)
	}
	return h.app.Do(q.Method, q.Path, body, hd)
}

func c16Served(status int) bool { return status != 401 && status != 403 }

// ---------- token variants

type c16Variant struct {
	Name   string
	Listed bool // one of the defects the statement lists
}

var c16BaseVariants = []c16Variant{
	{"absent", true}, {"garbage", true}, {"expired", true}, {"wrong-key", true}, {"wrong-issuer", true},
	{"wrong-audience", true}, {"alg-hs256", true}, {"alg-none", true},
	// not in the statement's list, but "a token with an accepted issuer and audience" is demanded
	{"no-audience", false}, {"no-issuer", false},
}

// c16TheAlg is the one signing algorithm the hub issues its tokens with; every other one
// is "the wrong algorithm" of the statement.
const c16TheAlg = "RS256"

// c16Variants: the listed defects plus the algorithm dimension: one variant per signing
// algorithm the JWT library knows (jwt.GetAlgorithms()), each token otherwise without a
// defect (admin role, right issuer / audience / expiry) and CORRECTLY signed with the
// strongest key at hand for that algorithm: the node's own RSA key for the RSA families
// (RS*, PS*), the node's public key PEM as the secret for HMAC (HS*), fresh keys for
// ECDSA / EdDSA (there is no node key of that type).
func c16Variants() []c16Variant {
	vs := append([]c16Variant{}, c16BaseVariants...)
	have := map[string]bool{}
	for _, v := range vs {
		have[v.Name] = true
	}
	algs := jwt.GetAlgorithms()
	sort.Strings(algs)
	for _, a := range algs {
		n := "alg-" + strings.ToLower(a)
		if a == c16TheAlg || have[n] {
			continue
		}
		have[n] = true
		vs = append(vs, c16Variant{n, true})
	}
	return vs
}

// c16AlgKey: signing method and key for an "alg-<name>" variant.
func c16AlgKey(keys *c16Keys, variant string) (jwt.SigningMethod, any, error) {
	for _, a := range jwt.GetAlgorithms() {
		if "alg-"+strings.ToLower(a) != variant {
			continue
		}
		m := jwt.GetSigningMethod(a)
		switch m.(type) {
		case *jwt.SigningMethodRSA, *jwt.SigningMethodRSAPSS:
			return m, keys.node, nil
		case *jwt.SigningMethodHMAC:
			return m, keys.nodePub, nil // the classic confusion: public key bytes as HMAC secret
		case *jwt.SigningMethodECDSA:
			if k := keys.ec[a]; k != nil {
				return m, k, nil
			}
		case *jwt.SigningMethodEd25519:
			return m, keys.ed, nil
		}
		if a == "none" {
			return m, jwt.UnsafeAllowNoneSignatureType, nil
		}
		return nil, nil, fmt.Errorf("no key for algorithm %s", a)
	}
	return nil, nil, fmt.Errorf("unknown variant %s", variant)
}

// c16Mint crafts a token carrying the ADMIN role (the strongest claim) with one defect.
func c16Mint(keys *c16Keys, variant string) (hdr map[string]string, err error) {
	claims := security.CustomClaims{}
	claims.Roles = []string{"admin"}
	claims.RegisteredClaims = jwt.RegisteredClaims{
		ExpiresAt: jwt.NewNumericDate(time.Now().Add(10 * time.Minute)),
		Issuer:    "node:" + c16NodeID,
		Audience:  jwt.ClaimStrings{"node:" + c16NodeID},
		Subject:   c16AdminUser,
	}
	var method jwt.SigningMethod = jwt.SigningMethodRS256
	var key any = keys.node
	switch variant {
	case "valid":
	case "absent":
		return nil, nil
	case "garbage":
		return map[string]string{"Authorization": "Bearer abc.def.ghi"}, nil
	case "expired":
		claims.ExpiresAt = jwt.NewNumericDate(time.Now().Add(-time.Hour))
	case "wrong-key":
		key = keys.foreign
	case "wrong-issuer":
		claims.Issuer = "node:someone-else"
	case "wrong-audience":
		claims.Audience = jwt.ClaimStrings{"node:someone-else"}
	case "no-audience":
		claims.Audience = nil
	case "no-issuer":
		claims.Issuer = ""
	default:
		if !strings.HasPrefix(variant, "alg-") {
			return nil, fmt.Errorf("unknown variant %s", variant)
		}
		if method, key, err = c16AlgKey(keys, variant); err != nil {
			return nil, err
		}
	}
	s, err := jwt.NewWithClaims(method, claims).SignedString(key)
	if err != nil {
		return nil, err
	}
	return bearer(s), nil
}

func c16Tokens(ctx *Ctx) error {
	keys, err := c16GetKeys(ctx)
	if err != nil {
		return err
	}
	h, err := c16NewHub(ctx, keys)
	if err != nil {
		return err
	}
	defer func() { h.Close() }()
	reqs := h.requests(false)
	ctx.Out.Stat("routes", int64(len(h.app.E.Routes())))
	// sanity: the same token without a defect is accepted (otherwise the sweep would be vacuous)
	okHdr, err := c16Mint(keys, "valid")
	if err != nil {
		return err
	}
	if r := h.app.Do("GET", "/datasets", nil, okHdr); r.Status != 200 {
		ctx.Out.Inconclusive("", "C16", fmt.Sprintf("harness: defect-free admin token not accepted (status %d %s)", r.Status, r.Body))
		return nil
	}
	complete := true
	for _, v := range c16Variants() {
		id := outHash(map[string]any{"token": v.Name})
		ctx.Out.Case(id, ctx.Seed, map[string]any{"kind": "token", "variant": v.Name, "requests": len(reqs)}, true, []string{"token:" + v.Name})
		hdr, err := c16Mint(keys, v.Name)
		if err != nil {
			ctx.Out.Inconclusive(id, "C16", "mint: "+err.Error())
			complete = false
			continue
		}
		ctx.Out.Stat("token_variants", 1)
		if strings.HasPrefix(v.Name, "alg-") {
			ctx.Out.Stat("token_variants_algorithm", 1)
		}
		var servedAt []string
		var firstStatus int
		spelledServed := map[string][]c16Req{}
		var spelledStatus = map[string]int{}
		for i, q := range reqs {
			ctx.Out.Begin(id, i, q.key())
			r := h.do(q, hdr)
			ctx.Out.Ack(id, i, nil)
			ctx.Out.Stat("token_requests", 1)
			if q.Spell != "" {
				ctx.Out.Stat("token_requests_spelled_path", 1)
			}
			if q.Open {
				ctx.Out.Stat("token_requests_open_route", 1)
				continue
			}
			if r.Panicked != nil {
				ctx.Out.Viol(id, "C16", "panic-escaped-router", fmt.Sprintf("%s with token defect %s: panic escaped ServeHTTP: %v", q.key(), v.Name, r.Panicked), "401", "panic", nil)
				continue
			}
			if c16Served(r.Status) {
				if q.Spell != "" {
					spelledServed[q.Spell] = append(spelledServed[q.Spell], q)
					if _, ok := spelledStatus[q.Spell]; !ok {
						spelledStatus[q.Spell] = r.Status
					}
					continue
				}
				if len(servedAt) == 0 {
					firstStatus = r.Status
				}
				servedAt = append(servedAt, q.key())
			} else {
				ctx.Out.Stat("token_rejected", 1)
			}
		}
		spells := make([]string, 0, len(spelledServed))
		for n := range spelledServed {
			spells = append(spells, n)
		}
		sort.Strings(spells)
		for _, n := range spells {
			var only []string
			for _, q := range spelledServed[n] {
				only = append(only, q.key())
			}
			if len(servedAt) > 0 {
				// plainly spelled requests are served with this token as well: one cause (the token check)
				servedAt = append(servedAt, only...)
				continue
			}
			ctx.Out.Stat("token_served", int64(len(only)))
			ctx.Out.Viol(id, "C16", "token-"+v.Name+"-served-on-spelled-path:"+c16SpellFamily(n),
				fmt.Sprintf("request with token defect '%s' (admin role claimed) was served on %d requests whose path is spelled '%s' although every plainly spelled request is rejected, e.g. %s -> %d", v.Name, len(only), n, only[0], spelledStatus[n]),
				"401/403 on every protected route", only, map[string]any{"variant": v.Name, "spelling": n})
		}
		if len(servedAt) > 0 {
			ctx.Out.Stat("token_served", int64(len(servedAt)))
			ctx.Out.Viol(id, "C16", "token-"+v.Name+"-served",
				fmt.Sprintf("request with token defect '%s' (admin role claimed) was served on %d routes, e.g. %s -> %d", v.Name, len(servedAt), servedAt[0], firstStatus),
				"401/403 on every protected route", servedAt, map[string]any{"variant": v.Name})
		}
		if len(servedAt) > 0 || len(spelledServed) > 0 {
			// served mutations (DELETE /datasets wipes the store) changed the hub: take a fresh one
			h.Close()
			if h, err = c16NewHub(ctx, keys); err != nil {
				return err
			}
		}
	}
	if complete {
		ctx.Out.Stat("exhaustive_box_complete", 1)
	} else {
		ctx.Out.Stat("exhaustive_box_incomplete", 1)
	}
	return nil
}

// ---------- ACL lattice sweep

type c16ACLCase struct {
	Kind string  `json:"kind"`
	ACL  []C16AC `json:"acl"`
}

func c16Shard(ctx *Ctx) (shard, shards int) {
	shards, _ = strconv.Atoi(ctx.Arg("shards", "1"))
	base, _ := strconv.Atoi(ctx.Arg("base", "0"))
	if shards < 1 {
		shards = 1
	}
	shard = (int(ctx.Seed%100003) - base) % shards
	if shard < 0 {
		shard += shards
	}
	return
}

func c16ACL(ctx *Ctx) error {
	keys, err := c16GetKeys(ctx)
	if err != nil {
		return err
	}
	var lists [][]C16AC
	if ctx.Replay != "" {
		b, err := os.ReadFile(ctx.Replay)
		if err != nil {
			return err
		}
		var w struct {
			Ops c16ACLCase `json:"ops"`
		}
		if err := json.Unmarshal(b, &w); err != nil {
			return err
		}
		switch w.Ops.Kind { // witnesses of the other C16 scenarios are replayed by their own scenario
		case "token":
			return c16Tokens(ctx)
		case "restart":
			return c16Restart(ctx)
		case "opa":
			return c16OPA(ctx)
		case "storm":
			return c16Storm(ctx)
		case "reuse-expiry", "reuse-acl-change":
			return c16Reuse(ctx)
		}
		lists = [][]C16AC{w.Ops.ACL}
	} else {
		max, _ := strconv.Atoi(ctx.Arg("max", "1"))
		all := c16Lists(max)
		nbox := len(all)
		all = append(all, c16StarLists(max)...) // not part of the exhaustive box
		shard, shards := c16Shard(ctx)
		for i, l := range all {
			if i%shards == shard {
				lists = append(lists, l)
			}
		}
		ctx.Out.Stat("acl_lists_in_box", 0)
		if shard == 0 {
			ctx.Out.Stat("acl_lists_in_box", int64(nbox))
			ctx.Out.Stat("acl_lists_star_shaped", int64(len(all)-nbox))
		}
		// sampled lists of size 3 (not part of the exhaustive box)
		n3, _ := strconv.Atoi(ctx.Arg("sample3", "0"))
		r := mrand.New(mrand.NewSource(ctx.Seed))
		lat := c16Lattice()
		for i := 0; i < n3; i++ {
			p := r.Perm(len(lat))
			lists = append(lists, []C16AC{lat[p[0]], lat[p[1]], lat[p[2]]})
		}
	}
	h, err := c16NewHub(ctx, keys)
	if err != nil {
		return err
	}
	defer func() { h.Close() }()
	reqs := h.requests(true)
	ctx.Out.Stat("routes", int64(len(h.app.E.Routes())))
	ctx.Out.Stat("max:requests_per_acl_list", int64(len(reqs)))
	if err := c16ProbeUngoverned(h, reqs); err != nil {
		return err
	}
	complete := true
	for _, l := range lists {
		reboot, err := c16RunACL(ctx, h, l, reqs)
		if err != nil {
			complete = false
			ctx.Out.Inconclusive(outHash(c16ACLCase{"acl", l}), "C16", err.Error())
			reboot = true
		}
		if reboot {
			h.Close()
			h, err = c16NewHub(ctx, keys)
			if err != nil {
				return err
			}
		}
	}
	// restart clause on the live hub: the registered client and its last ACL survive a re-boot of the whole application
	if err := c16RebootCheck(ctx, h); err != nil {
		ctx.Out.Inconclusive("", "C16", "reboot check: "+err.Error())
	}
	if complete {
		ctx.Out.Stat("exhaustive_box_complete", 1)
	} else {
		ctx.Out.Stat("exhaustive_box_incomplete", 1)
	}
	return nil
}

// c16Ungoverned: requests that are served even to a client with an EMPTY ACL
// (probed once per child); whatever ACL is installed, serving them has this one cause.
var c16Ungoverned = map[string]bool{}

func c16ProbeUngoverned(h *c16Hub, reqs []c16Req) error {
	if err := h.setACL(c16Client, nil); err != nil {
		return err
	}
	tok, err := h.clientToken(c16Client)
	if err != nil {
		return err
	}
	for _, q := range reqs {
		if q.Open || q.Method != "GET" { // reads only: the probe must not change the hub
			continue
		}
		if r := h.do(q, bearer(tok)); c16Served(r.Status) {
			c16Ungoverned[q.key()] = true
		}
	}
	return nil
}

func c16Class(acl []C16AC, q c16Req) string {
	if c16Ungoverned[q.key()] {
		return "no-acl-check:" + q.Method + " " + q.Route
	}
	n := c16Needed(q.Method)
	granted := c16Granted(acl, q.dec(), n)
	denied := c16Denied(acl, q.dec(), n)
	if !granted && c16StarPrefixCovers(acl, q.dec()) {
		return "non-trailing-star-treated-as-wildcard"
	}
	switch {
	case granted && denied:
		return "deny-overridden-by-allow"
	case !granted && n == "write" && c16Granted(acl, q.dec(), "read"):
		return "read-suffices-for-" + q.Method
	case !granted && denied:
		return "deny-entry-grants" // nothing allows it, an explicit deny matches, and it is served all the same
	}
	allowMatches, denyMatches := false, false
	for _, a := range acl {
		if !a.Deny && c16Match(a.Resource, q.dec()) {
			allowMatches = true
		}
		if a.Deny && c16Match(a.Resource, q.dec()) {
			denyMatches = true
		}
	}
	if !allowMatches && denyMatches {
		return "deny-entry-grants" // only deny entries mention the path, and it is served
	}
	if !allowMatches { // no allow entry even mentions the path: the route is not subject to the ACL at all
		return "no-acl-check:" + q.Method + " " + q.Route
	}
	return "served-without-grant"
}

// c16RunACL installs the list for the client and asks every route. Returns
// whether the hub must be replaced (the store was wiped by a served DELETE /datasets).
func c16RunACL(ctx *Ctx, h *c16Hub, acl []C16AC, reqs []c16Req) (reboot bool, err error) {
	cs := c16ACLCase{Kind: "acl", ACL: acl}
	id := outHash(cs)
	interact := false
	for _, q := range reqs {
		if c16Interacts(acl, q.dec()) {
			interact = true
			break
		}
	}
	tags := []string{fmt.Sprintf("size%d", len(acl))}
	for _, a := range acl {
		if a.Deny {
			tags = append(tags, "has-deny")
			break
		}
	}
	for _, a := range acl {
		if i := strings.Index(a.Resource, "*"); i >= 0 && i < len(a.Resource)-1 {
			tags = append(tags, "star-not-trailing")
			break
		}
	}
	ctx.Out.Case(id, ctx.Seed, cs, interact, tags)
	if err := h.ensureDatasets(true); err != nil {
		return true, err
	}
	if err := h.setACL(c16Client, acl); err != nil {
		return true, err
	}
	tok, err := h.clientToken(c16Client)
	if err != nil {
		return true, err
	}
	hdr := bearer(tok)
	seen := map[string]bool{}
	viol := func(class, msg string, exp, got any, extra map[string]any) {
		ctx.Out.Stat("viol:"+class, 1)
		if seen[class] {
			return
		}
		seen[class] = true
		ctx.Out.Viol(id, "C16", class, msg, exp, got, extra)
	}
	servedPlain := map[string]bool{} // method + path of plainly spelled requests that were served against the reference
	type late struct {
		q      c16Req
		status int
	}
	var spelledViol []late
	for i, q := range reqs {
		if q.Open {
			continue
		}
		ctx.Out.Begin(id, i, q.key())
		r := h.do(q, hdr)
		ctx.Out.Ack(id, i, nil)
		ctx.Out.Stat("acl_requests", 1)
		if q.Spell != "" {
			ctx.Out.Stat("acl_requests_spelled_path", 1)
		}
		if r.Panicked != nil {
			viol("panic-escaped-router", fmt.Sprintf("%s: panic escaped ServeHTTP: %v", q.key(), r.Panicked), nil, nil, nil)
			continue
		}
		served := c16Served(r.Status)
		// the reference decides on the decoded path: that is the path the ACL entries speak about
		may := c16MayServe(acl, q.Method, q.dec())
		switch {
		case served && may:
			ctx.Out.Stat("served_and_granted", 1)
		case !served && may:
			ctx.Out.Stat("rejected_although_granted", 1) // over-rejection is not a violation
		case !served && !may:
			ctx.Out.Stat("rejected_not_granted", 1)
			if c16Interacts(acl, q.dec()) {
				ctx.Out.Stat("rejected_not_granted_interacting", 1)
				if q.Spell != "" {
					ctx.Out.Stat("rejected_not_granted_interacting_spelled_path", 1)
				}
			}
		case served && !may && q.Spell != "":
			spelledViol = append(spelledViol, late{q, r.Status}) // judged after the plain spellings
		case served && !may:
			servedPlain[q.Method+" "+q.Path] = true
			servedPlain[q.Method+" "+q.Route+" "+c16Class(acl, q)] = true
			effect := ""
			if q.Method == "PATCH" && r.Status == 200 {
				nm := strings.TrimPrefix(q.Path, "/datasets/")
				if h.app.Dsm.IsDataset(nm+"_renamed") && !h.app.Dsm.IsDataset(nm) {
					effect = "; effect: dataset " + nm + " was renamed to " + nm + "_renamed"
				}
			}
			viol(c16Class(acl, q), fmt.Sprintf("client with ACL %v was served %s (needs %s) -> status %d%s", acl, q.key(), c16Needed(q.Method), r.Status, effect),
				"401/403", r.Status, map[string]any{"request": q.key(), "route": q.Method + " " + q.Route})
		}
		if served && q.Method == "DELETE" && q.Route == "/datasets" {
			reboot = true
		}
		if served && q.Method == "GET" && q.dec() == "/datasets" && r.Status == 200 {
			c16CheckListing(acl, r.Body, viol)
		}
		if served && q.Method == "GET" && r.Status == 200 {
			c16CheckContent(acl, q, r.Body, viol)
		}
	}
	for _, l := range spelledViol {
		q := l.q
		if servedPlain[q.Method+" "+q.dec()] || servedPlain[q.Method+" "+q.Route+" "+c16Class(acl, q)] {
			// the plain spelling of the same path (or a plainly spelled request of the same route, for the
			// same reason) is served as well: one cause, reported with the plain request
			ctx.Out.Stat("spelled_path_served_like_plain", 1)
			continue
		}
		viol("path-spelling:"+c16SpellFamily(q.Spell)+":"+c16Class(acl, q),
			fmt.Sprintf("client with ACL %v was served %s, whose path decodes to %s (needs %s; the reference refuses that path, and the plainly spelled request is refused by the hub as well) -> status %d", acl, q.key(), q.dec(), c16Needed(q.Method), l.status),
			"401/403", l.status, map[string]any{"request": q.key(), "decoded": q.dec(), "spelling": q.Spell, "route": q.Method + " " + q.Route})
	}
	if !reboot {
		// dataset-list filtering: grant the list route itself and look at the names it reveals
		la := append([]C16AC{{Resource: "/datasets", Action: "read"}}, acl...)
		if err := h.setACL(c16Client, la); err != nil {
			return true, err
		}
		r := h.app.Do("GET", "/datasets", nil, hdr)
		ctx.Out.Stat("listing_requests", 1)
		if r.Status == 200 {
			c16CheckListing(la, r.Body, viol)
		}
	}
	return reboot, nil
}

func c16CheckListing(acl []C16AC, body []byte, viol func(class, msg string, exp, got any, extra map[string]any)) {
	var names []struct{ Name string }
	if err := json.Unmarshal(body, &names); err != nil {
		return
	}
	for _, n := range names {
		p := "/datasets/" + n.Name
		if c16MayServe(acl, "GET", p) {
			continue
		}
		class := "dataset-list-leak"
		if c16Granted(acl, p, "read") && c16Denied(acl, p, "read") {
			class = "dataset-list-deny-overridden"
		}
		viol(class, fmt.Sprintf("GET /datasets reveals %q to a client with ACL %v", n.Name, acl), "name not listed", n.Name, nil)
	}
}

// c16ContentMarker finds the marker value ensureDatasets puts into every dataset (property
// k0 of its first entity = the dataset's name) in a served entities / changes body.
var c16ContentMarker = regexp.MustCompile(`:k0":"([^"]*)"`)

// c16CheckContent: whatever the spelling of the request was, the content of dataset D is
// the resource /datasets/D/<entities|changes>; it must not be served unless the ACL
// grants reading that path and does not deny it.
func c16CheckContent(acl []C16AC, q c16Req, body []byte, viol func(class, msg string, exp, got any, extra map[string]any)) {
	tail := ""
	switch q.Route {
	case "/datasets/:dataset/entities":
		tail = "/entities"
	case "/datasets/:dataset/changes":
		tail = "/changes"
	default:
		return
	}
	for _, m := range c16ContentMarker.FindAllSubmatch(body, -1) {
		res := "/datasets/" + string(m[1]) + tail
		if res == q.dec() || c16MayServe(acl, "GET", res) {
			continue // the named dataset itself is judged by the status rule
		}
		class := "content-of-ungranted-dataset-served"
		if q.Spell != "" {
			class = "path-spelling:" + c16SpellFamily(q.Spell) + ":" + class
		}
		viol(class, fmt.Sprintf("client with ACL %v asked %s (path decodes to %s) and was served the content of dataset %q, i.e. the resource %s which the ACL does not let it read", acl, q.key(), q.dec(), m[1], res),
			"401/403", 200, map[string]any{"request": q.key(), "served_resource": res})
	}
}

// c16SecSnapshot is the observable security state.
func c16SecSnapshot(core *security.ServiceCore) (clients, acls string) {
	cm := map[string]any{}
	for k, v := range core.GetClients() {
		cm[k] = map[string]any{"id": v.ClientID, "key": string(v.PublicKey), "deleted": v.Deleted}
	}
	am := map[string]any{}
	for k, v := range core.GetAllAccessControls() {
		var l []string
		for _, a := range v {
			if a != nil {
				l = append(l, C16AC{a.Resource, a.Action, a.Deny}.String())
			}
		}
		if len(l) > 0 { // an empty list grants nothing, like an absent one
			am[k] = l
		}
	}
	cb, _ := json.Marshal(cm)
	ab, _ := json.Marshal(am)
	return string(cb), string(ab)
}

func c16RebootCheck(ctx *Ctx, h *c16Hub) error {
	acl := []C16AC{{Resource: "/datasets/a*", Action: "read"}, {Resource: "/jobs*", Action: "write"}}
	cs := map[string]any{"kind": "reboot", "acl": acl}
	id := outHash(cs)
	ctx.Out.Case(id, ctx.Seed, cs, true, []string{"reboot"})
	if err := h.setACL(c16Client, acl); err != nil {
		return err
	}
	c0, a0 := c16SecSnapshot(h.app.Core)
	h.app.Close()
	app, err := c16Boot(ctx, h.dir, true)
	if err != nil {
		return err
	}
	h.app = app
	c1, a1 := c16SecSnapshot(h.app.Core)
	ctx.Out.Stat("reboot_checks", 1)
	if c0 != c1 {
		ctx.Out.Viol(id, "C16", "clients-restart-mismatch", "client registrations differ after re-booting the application", c0, c1, nil)
	}
	if a0 != a1 {
		ctx.Out.Viol(id, "C16", "acl-restart-mismatch", "ACLs differ after re-booting the application", a0, a1, nil)
	}
	tok, err := h.clientToken(c16Client)
	if err != nil {
		ctx.Out.Viol(id, "C16", "client-unknown-after-restart", "registered client cannot obtain a token after re-boot: "+err.Error(), nil, nil, nil)
		return nil
	}
	if r := h.app.Do("GET", "/datasets/a/entities", nil, bearer(tok)); !c16Served(r.Status) {
		ctx.Out.Stat("reboot_grant_lost", 1) // over-rejection: evidence only
	}
	if r := h.app.Do("GET", "/datasets/b/entities", nil, bearer(tok)); c16Served(r.Status) {
		ctx.Out.Viol(id, "C16", "served-without-grant", "after re-boot the client is served a path its ACL does not grant", 403, r.Status, nil)
	}
	return nil
}

// ---------- restart clause on the security core

type c16SecOp struct {
	Op     string  `json:"op"` // reg | unreg | setacl | delacl
	Client string  `json:"client"`
	ACL    []C16AC `json:"acl,omitempty"`
}

func c16SecAlphabet() []c16SecOp {
	A := []C16AC{{Resource: "/datasets/a*", Action: "read"}}
	B := []C16AC{{Resource: "/*", Action: "write"}, {Resource: "/datasets/a", Action: "read", Deny: true}}
	return []c16SecOp{
		{Op: "reg", Client: "k1"}, {Op: "reg", Client: "k2"},
		{Op: "setacl", Client: "k1", ACL: A}, {Op: "setacl", Client: "k2", ACL: B}, {Op: "setacl", Client: "k3", ACL: A}, // k3 is never registered
		{Op: "delacl", Client: "k1"}, {Op: "unreg", Client: "k1"},
	}
}

func c16Restart(ctx *Ctx) error {
	keys, err := c16GetKeys(ctx)
	if err != nil {
		return err
	}
	var seqs [][]c16SecOp
	if ctx.Replay != "" {
		b, err := os.ReadFile(ctx.Replay)
		if err != nil {
			return err
		}
		var w struct {
			Ops struct {
				Ops []c16SecOp `json:"secops"`
			} `json:"ops"`
		}
		if err := json.Unmarshal(b, &w); err != nil {
			return err
		}
		seqs = [][]c16SecOp{w.Ops.Ops}
	} else {
		maxLen, _ := strconv.Atoi(ctx.Arg("len", "3"))
		alpha := c16SecAlphabet()
		var rec func(cur []c16SecOp)
		rec = func(cur []c16SecOp) {
			if len(cur) > 0 {
				seqs = append(seqs, append([]c16SecOp{}, cur...))
			}
			if len(cur) == maxLen {
				return
			}
			for _, o := range alpha {
				rec(append(cur, o))
			}
		}
		rec(nil)
		shard, shards := c16Shard(ctx)
		var mine [][]c16SecOp
		for i, s := range seqs {
			if i%shards == shard {
				mine = append(mine, s)
			}
		}
		seqs = mine
	}
	kd, _ := c16KeyDir(ctx)
	for _, s := range seqs {
		c16RunSecSeq(ctx, keys, kd, s)
	}
	ctx.Out.Stat("exhaustive_box_complete", 1)
	return nil
}

func c16RunSecSeq(ctx *Ctx, keys *c16Keys, kd string, ops []c16SecOp) {
	cs := map[string]any{"kind": "restart", "secops": ops}
	id := outHash(cs)
	paths := map[string]bool{}
	for _, o := range ops {
		paths[o.Op] = true
	}
	ctx.Out.Case(id, ctx.Seed, cs, len(paths) >= 2, nil)
	dir := ctx.NewDir("c16sec")
	defer os.RemoveAll(dir)
	cfg := c16Config(dir, true)
	_ = os.MkdirAll(cfg.SecurityStorageLocation, 0o755)
	for _, f := range []string{"node_key", "node_key.pub"} {
		_ = c16CopyFile(filepath.Join(kd, f), filepath.Join(cfg.SecurityStorageLocation, f))
	}
	core := security.NewServiceCore(cfg)
	registered := false
	aclFileLastWrittenByDelete := false
	for _, o := range ops {
		switch o.Op {
		case "reg":
			core.RegisterClient(&security.ClientInfo{ClientID: o.Client, PublicKey: []byte(keys.clientPub)})
			registered = true
		case "unreg":
			core.RegisterClient(&security.ClientInfo{ClientID: o.Client, Deleted: true})
			registered = true // clients.json is written
			aclFileLastWrittenByDelete = true
		case "setacl":
			var l []*security.AccessControl
			for _, a := range o.ACL {
				l = append(l, &security.AccessControl{Resource: a.Resource, Action: a.Action, Deny: a.Deny})
			}
			core.SetClientAccessControls(o.Client, l)
			aclFileLastWrittenByDelete = false
		case "delacl":
			core.DeleteClientAccessControls(o.Client)
			aclFileLastWrittenByDelete = true
		}
		ctx.Out.Stat("secops:"+o.Op, 1)
	}
	c0, a0 := c16SecSnapshot(core)
	core2 := security.NewServiceCore(cfg) // re-initialise from disk
	c1, a1 := c16SecSnapshot(core2)
	ctx.Out.Stat("restart_checks", 1)
	if a0 != "{}" {
		ctx.Out.Stat("restart_checks_with_acls", 1)
	}
	if c0 != c1 {
		ctx.Out.Viol(id, "C16", "clients-restart-mismatch", "client registrations differ after re-initialising the security core from disk", c0, c1, nil)
	}
	if a0 != a1 {
		class := "acl-restart-mismatch"
		switch {
		case !registered:
			class = "acl-lost-no-client-registered"
		case aclFileLastWrittenByDelete:
			class = "acl-file-clobbered-by-acl-delete"
		}
		ctx.Out.Viol(id, "C16", class, "ACLs differ after re-initialising the security core from disk", a0, a1, nil)
	}
}

// ---------- OPA branch

type c16OpaStub struct {
	mu       sync.Mutex
	allow    bool
	datasets []string
	calls    int
}

func (s *c16OpaStub) ServeHTTP(w http.ResponseWriter, r *http.Request) {
	s.mu.Lock()
	defer s.mu.Unlock()
	s.calls++
	switch {
	case strings.HasSuffix(r.URL.Path, "/authz/allow"):
		fmt.Fprintf(w, `{"result":%v}`, s.allow)
	case strings.HasSuffix(r.URL.Path, "/authz/datasets"):
		b, _ := json.Marshal(map[string]any{"result": s.datasets})
		w.Write(b)
	default:
		w.WriteHeader(404)
	}
}

func (s *c16OpaStub) set(allow bool, ds []string) {
	s.mu.Lock()
	s.allow, s.datasets = allow, ds
	s.mu.Unlock()
}

func c16OPA(ctx *Ctx) error {
	keys, err := c16GetKeys(ctx)
	if err != nil {
		return err
	}
	stub := &c16OpaStub{}
	srv := httptest.NewServer(stub)
	defer srv.Close()
	viper.Set("OPA_ENDPOINT", srv.URL)
	defer viper.Set("OPA_ENDPOINT", "")
	h, err := c16NewHub(ctx, keys)
	if err != nil {
		return err
	}
	defer func() { h.Close() }()
	reqs := h.requests(false)
	if err := c16ProbeUngoverned(h, reqs); err != nil {
		return err
	}

	type cfg struct {
		Allow    bool     `json:"opa_allow"`
		Datasets []string `json:"opa_datasets"`
		ACL      []C16AC  `json:"acl"`
	}
	cfgs := []cfg{
		{false, nil, nil},
		{false, nil, []C16AC{{Resource: "/datasets/a*", Action: "read"}}},
		{false, nil, []C16AC{{Resource: "/*", Action: "write"}, {Resource: "/datasets/a", Action: "read", Deny: true}}},
		{true, []string{"a"}, nil},
		{true, []string{"a"}, []C16AC{{Resource: "/datasets", Action: "read"}, {Resource: "/datasets/b", Action: "read"}}},
		{true, []string{"*"}, nil},
		{true, []string{}, []C16AC{{Resource: "/datasets", Action: "read"}}},
	}
	for _, c := range cfgs {
		cs := map[string]any{"kind": "opa", "cfg": c}
		id := outHash(cs)
		ctx.Out.Case(id, ctx.Seed, cs, true, []string{"opa"})
		stub.set(c.Allow, c.Datasets)
		if err := h.ensureDatasets(true); err != nil {
			return err
		}
		if err := h.setACL(c16Client, c.ACL); err != nil {
			ctx.Out.Inconclusive(id, "C16", err.Error())
			continue
		}
		tok, err := h.clientToken(c16Client)
		if err != nil {
			ctx.Out.Inconclusive(id, "C16", err.Error())
			continue
		}
		if !c.Allow {
			// OPA refuses: the ACL alone decides, exactly as without OPA
			reboot := false
			for i, q := range reqs {
				if q.Open {
					continue
				}
				ctx.Out.Begin(id, i, q.key())
				r := h.do(q, bearer(tok))
				ctx.Out.Ack(id, i, nil)
				ctx.Out.Stat("opa_requests", 1)
				if c16Served(r.Status) && !c16MayServe(c.ACL, q.Method, q.dec()) {
					class := c16Class(c.ACL, q)
					if q.Spell != "" {
						class = "path-spelling:" + c16SpellFamily(q.Spell) + ":" + class
					}
					ctx.Out.Viol(id, "C16", class, fmt.Sprintf("OPA refused and ACL %v does not grant %s (path decodes to %s), but it was served -> %d", c.ACL, q.key(), q.dec(), r.Status), "403", r.Status, nil)
				}
				if c16Served(r.Status) && q.Method == "DELETE" && q.Route == "/datasets" {
					reboot = true
				}
			}
			if reboot {
				h.Close()
				if h, err = c16NewHub(ctx, keys); err != nil {
					return err
				}
			}
			continue
		}
		// OPA allows: documented as a union with the ACL; the dataset list must stay inside
		// (OPA's dataset list) ∪ (ACL-granted names)
		r := h.app.Do("GET", "/datasets", nil, bearer(tok))
		ctx.Out.Stat("opa_requests", 1)
		if r.Status != 200 {
			ctx.Out.Stat("opa_list_not_served", 1)
			continue
		}
		var names []struct{ Name string }
		_ = json.Unmarshal(r.Body, &names)
		var got []string
		for _, n := range names {
			got = append(got, n.Name)
			ok := c16MayServe(c.ACL, "GET", "/datasets/"+n.Name)
			for _, w := range c.Datasets {
				if w == "*" || w == n.Name {
					ok = true
				}
			}
			if !ok {
				ctx.Out.Viol(id, "C16", "opa-dataset-list-leak", fmt.Sprintf("GET /datasets reveals %q; OPA lists %v, ACL %v", n.Name, c.Datasets, c.ACL), nil, n.Name, nil)
			}
		}
		sort.Strings(got)
		ctx.Out.Stat("opa_listed_names", int64(len(got)))
		// token defects are still rejected when OPA would allow
		for _, v := range []string{"absent", "expired", "wrong-key"} {
			hdr, _ := c16Mint(keys, v)
			if r := h.app.Do("GET", "/datasets", nil, hdr); c16Served(r.Status) {
				ctx.Out.Viol(id, "C16", "token-"+v+"-served", "OPA allow: token defect "+v+" was served", 401, r.Status, nil)
			}
		}
	}
	stub.mu.Lock()
	ctx.Out.Stat("opa_stub_calls", int64(stub.calls))
	stub.mu.Unlock()
	return nil
}
