package scen

// c16_app: boots the full datahub application in-process (the way app.go does)
// and sends requests through the real echo router with all middlewares.
// Shared by the C15 HTTP-boundary monitor and the C16 monitors.

import (
	"bytes"
	"context"
	"crypto/rand"
	"crypto/rsa"
	"fmt"
	"io"
	"net/http"
	"net/http/httptest"
	"os"
	"path/filepath"
	"time"

	"github.com/labstack/echo/v4"
	"go.uber.org/zap"

	datahub "github.com/mimiro-io/datahub"
	"github.com/mimiro-io/datahub/internal/conf"
	"github.com/mimiro-io/datahub/internal/security"
	"github.com/mimiro-io/datahub/internal/server"
)

const (
	c16NodeID    = "vnode"
	c16AdminUser = "vadmin"
	c16AdminPass = "vsecret"
)

type c16App struct {
	Dir    string
	Dhi    *datahub.DatahubInstance
	E      *echo.Echo
	Store  *server.Store
	Dsm    *server.DsManager
	Core   *security.ServiceCore
	Secure bool
}

// c16KeyDir makes (once per process) a directory holding a node key pair in
// the file format the security core loads, so that booting a hub does not pay
// for a 4096-bit key generation every time.
var c16KeyDirPath string

func c16KeyDir(ctx *Ctx) (string, error) {
	if c16KeyDirPath != "" {
		return c16KeyDirPath, nil
	}
	d := ctx.NewDir("c16keys")
	key, err := rsa.GenerateKey(rand.Reader, 2048)
	if err != nil {
		return "", err
	}
	priv, err := security.ExportRsaPrivateKeyAsPem(key)
	if err != nil {
		return "", err
	}
	pub, err := security.ExportRsaPublicKeyAsPem(&key.PublicKey)
	if err != nil {
		return "", err
	}
	if err := os.WriteFile(filepath.Join(d, "node_key"), []byte(priv), 0o600); err != nil {
		return "", err
	}
	if err := os.WriteFile(filepath.Join(d, "node_key.pub"), []byte(pub), 0o600); err != nil {
		return "", err
	}
	c16KeyDirPath = d
	return d, nil
}

func c16CopyFile(from, to string) error {
	b, err := os.ReadFile(from)
	if err != nil {
		return err
	}
	return os.WriteFile(to, b, 0o600)
}

func c16Config(dir string, secure bool) *conf.Config {
	mw := "noop"
	if secure {
		mw = "local"
	}
	return &conf.Config{
		Logger:        zap.NewNop().Sugar(),
		Env:           "test",
		Port:          "0",
		StoreLocation: filepath.Join(dir, "store"),
		Auth: &conf.AuthConfig{
			WellKnown:  "",
			Audience:   nil,
			Issuer:     nil,
			Middleware: mw,
		},
		DlJwtConfig:             &conf.DatalayerJwtConfig{},
		GcOnStartup:             false,
		FullsyncLeaseTimeout:    time.Hour,
		AdminUserName:           c16AdminUser,
		AdminPassword:           c16AdminPass,
		NodeID:                  c16NodeID,
		SecurityStorageLocation: filepath.Join(dir, "security"),
		RunnerConfig:            &conf.RunnerConfig{PoolIncremental: 10, PoolFull: 10, Concurrent: 1},
		SlowLogThreshold:        time.Second,
	}
}

// c16Boot builds a DatahubInstance on dir (re-using what is on disk there).
func c16Boot(ctx *Ctx, dir string, secure bool) (app *c16App, err error) {
	return c16BootWith(ctx, dir, secure, nil)
}

// c16BootWith: like c16Boot, with a last word on the configuration (e.g. an external
// token issuer: Auth.WellKnown / Audience / Issuer).
func c16BootWith(ctx *Ctx, dir string, secure bool, tweak func(*conf.Config)) (app *c16App, err error) {
	defer func() {
		if p := recover(); p != nil {
			err = fmt.Errorf("panic while booting the hub: %v", p)
		}
	}()
	cfg := c16Config(dir, secure)
	if tweak != nil {
		tweak(cfg)
	}
	if err := os.MkdirAll(cfg.StoreLocation, 0o755); err != nil {
		return nil, err
	}
	if err := os.MkdirAll(cfg.SecurityStorageLocation, 0o755); err != nil {
		return nil, err
	}
	if _, e := os.Stat(filepath.Join(cfg.SecurityStorageLocation, "node_key")); e != nil {
		kd, err := c16KeyDir(ctx)
		if err != nil {
			return nil, err
		}
		for _, f := range []string{"node_key", "node_key.pub"} {
			if err := c16CopyFile(filepath.Join(kd, f), filepath.Join(cfg.SecurityStorageLocation, f)); err != nil {
				return nil, err
			}
		}
	}
	dhi, err := datahub.NewDatahubInstance(cfg)
	if err != nil {
		return nil, err
	}
	return &c16App{Dir: dir, Dhi: dhi, E: dhi.VerifC16Echo(), Store: dhi.VerifC16Store(), Dsm: dhi.VerifC16DsManager(),
		Core: dhi.VerifC16SecurityCore(), Secure: secure}, nil
}

func (a *c16App) Close() {
	defer func() { _ = recover() }()
	c, cancel := context.WithTimeout(context.Background(), 2*time.Second)
	defer cancel()
	_ = a.Dhi.Stop(c)
}

type c16Resp struct {
	Status   int
	Body     []byte
	Panicked any // a panic that escaped ServeHTTP (the recover middleware did not catch it)
}

// Do sends one request through the real router. A panic escaping ServeHTTP is
// what would kill the connection goroutine in production; it is recorded.
func (a *c16App) Do(method, target string, body []byte, hdr map[string]string) (r c16Resp) {
	var rd io.Reader
	if body != nil {
		rd = bytes.NewReader(body)
	}
	req := httptest.NewRequest(method, target, rd)
	for k, v := range hdr {
		req.Header.Set(k, v)
	}
	if body != nil && req.Header.Get("Content-Type") == "" {
		req.Header.Set("Content-Type", "application/json")
	}
	rec := httptest.NewRecorder()
	func() {
		defer func() {
			if p := recover(); p != nil {
				r.Panicked = p
			}
		}()
		a.E.ServeHTTP(rec, req)
	}()
	r.Status = rec.Code
	r.Body = rec.Body.Bytes()
	return r
}

var _ = http.MethodGet
