package scen

// compact: C12 — deduplicating compaction is invisible to readers.
// Histories with values flipping back and forth, references kept across
// property changes, delete/un-delete runs and legacy duplicate versions
// injected by raw keys; compaction runs with flush thresholds {1,2,3,default},
// optionally with a writer placed between the compactor's snapshot and a flush.

import (
	"encoding/binary"
	"encoding/json"
	"fmt"
	"math/rand"
	"os"
	"reflect"
	"sort"
	"strings"
	"sync"
	"sync/atomic"
	"time"

	"github.com/dgraph-io/badger/v4"
	"go.uber.org/zap"

	"github.com/mimiro-io/datahub/internal/server"
	dsvc "github.com/mimiro-io/datahub/internal/service/dataset"
	"github.com/mimiro-io/datahub/internal/verif/gen"
	"github.com/mimiro-io/datahub/internal/verif/hub"
	"github.com/mimiro-io/datahub/internal/verif/model"
	"github.com/mimiro-io/datahub/internal/verif/obs"
	"github.com/mimiro-io/datahub/internal/verif/vh"
)

func init() { Register("compact", compactScen) }

func genCompactCase(r *rand.Rand) SDCase {
	c := SDCase{Datasets: []string{"da", "db"}, NIDs: 3 + r.Intn(2)}
	v := gen.NewVocab(c.NIDs, 3, 3)
	tags := map[string]bool{}
	hist := map[string][]model.Ent{} // per ds|id content history for flipping back
	n := 8 + r.Intn(16)
	for i := 0; i < n; i++ {
		ds := c.Datasets[r.Intn(2)]
		k := r.Intn(100)
		switch {
		case k < 60:
			m := 1 + r.Intn(2)
			var ents []model.Ent
			for j := 0; j < m; j++ {
				id := v.IDs[r.Intn(len(v.IDs))]
				key := ds + "|" + id
				h := hist[key]
				var e model.Ent
				switch {
				case len(h) >= 2 && r.Intn(3) == 0: // flip back to an older value (A->B->A)
					e = gen.Clone(h[len(h)-2])
					tags["flip-back"] = true
				case len(h) >= 1 && r.Intn(3) == 0: // change a property, keep the references
					e = gen.Clone(h[len(h)-1])
					e.Props[v.Props[r.Intn(len(v.Props))]] = gen.Scalar(r)
					if len(e.Refs) > 0 {
						tags["refs-kept"] = true
					}
				case len(h) >= 1 && r.Intn(4) == 0: // delete / un-delete run
					e = gen.Clone(h[len(h)-1])
					e.Deleted = !e.Deleted
					tags["delete-run"] = true
				case len(h) >= 1:
					e = gen.Mutate(r, v, h[len(h)-1])
				default:
					e = gen.Entity(r, v, id)
				}
				hist[key] = append(hist[key], e)
				ents = append(ents, e)
			}
			c.Ops = append(c.Ops, SDOp{Kind: "batch", DS: ds, Ents: ents})
		case k < 80:
			id := v.IDs[r.Intn(len(v.IDs))]
			kind := "inject"
			switch r.Intn(6) {
			case 0, 1:
				kind = "inject-sametime"
			case 2:
				// the stored document is a byte copy of its predecessor (also its "recorded" value) under a later key
				kind = "inject-bytecopy"
			}
			c.Ops = append(c.Ops, SDOp{Kind: kind, DS: ds, To: id})
			tags["legacy-duplicate"] = true
		case k < 94:
			thr := []int{1, 2, 3, 0}[r.Intn(4)]
			op := SDOp{Kind: "compact", DS: ds, Reader: thr}
			if r.Intn(4) == 0 {
				// a writer commits between the compactor's snapshot and its first flush
				id := v.IDs[r.Intn(len(v.IDs))]
				e := gen.Entity(r, v, id)
				if h := hist[ds+"|"+id]; len(h) > 0 && r.Intn(2) == 0 {
					e = gen.Mutate(r, v, h[len(h)-1])
				}
				hist[ds+"|"+id] = append(hist[ds+"|"+id], e)
				op.Ents = []model.Ent{e}
				tags["racing-writer"] = true
				if r.Intn(2) == 0 {
					// variant: the writer is inside its critical section (lock held, not yet committed) when the
					// flush begins, and writes a new version of an entity whose latest version is a duplicate
					// (so that the flush wants to re-point exactly that latest-version key)
					c.Ops = append(c.Ops, SDOp{Kind: "inject", DS: ds, To: id})
					op.To = "inlock"
					tags["racing-writer-in-lock"] = true
				}
			}
			if len(op.Ents) == 0 && r.Intn(3) == 0 {
				op.To = []string{"underreader-lo", "underreader-full"}[r.Intn(2)]
				tags["page-open-across-compaction"] = true
			}
			c.Ops = append(c.Ops, op)
			tags["compact"] = true
		case k < 97 && i%3 == 0:
			// (only some cases: the dataset cannot be compacted afterwards)
			// a tombstone that still carries a reference to an identifier nothing else ever mentions (the writer
			// asserts no internal id for it), repeated the legacy way as the latest version: a compaction that
			// cannot evaluate the entity must leave all of it alone
			id := v.IDs[r.Intn(len(v.IDs))]
			e := model.NormEnt(model.Ent{ID: id, Props: map[string]any{}, Deleted: true,
				Refs: map[string]any{v.Preds[r.Intn(len(v.Preds))]: fmt.Sprintf("%sghost%d", gen.NsA, i)}})
			hist[ds+"|"+id] = append(hist[ds+"|"+id], e)
			c.Ops = append(c.Ops, SDOp{Kind: "batch", DS: ds, Ents: []model.Ent{e}}, SDOp{Kind: "inject", DS: ds, To: id})
			tags["ghost-ref-tombstone"] = true
		default:
			c.Ops = append(c.Ops, SDOp{Kind: "restart"})
		}
	}
	// always end with a compaction of both datasets
	for _, ds := range c.Datasets {
		c.Ops = append(c.Ops, SDOp{Kind: "compact", DS: ds, Reader: []int{1, 2, 3, 0}[r.Intn(4)]})
	}
	for t := range tags {
		c.Tags = append(c.Tags, t)
	}
	sort.Strings(c.Tags)
	return c
}

func compactScen(ctx *Ctx) error {
	if ctx.Replay != "" {
		b, err := os.ReadFile(ctx.Replay)
		if err != nil {
			return err
		}
		var w struct {
			Ops SDCase `json:"ops"`
		}
		if err := json.Unmarshal(b, &w); err != nil {
			return err
		}
		runCompactCase(ctx, w.Ops)
		return nil
	}
	r := rand.New(rand.NewSource(ctx.Seed))
	for i := 0; i < ctx.Cases; i++ {
		runCompactCase(ctx, genCompactCase(r))
	}
	return nil
}

func runCompactCase(ctx *Ctx, c SDCase) {
	id := outHash(c)
	ctx.Out.Case(id, ctx.Seed, c, false, c.Tags)
	dir := ctx.NewDir("cp")
	defer os.RemoveAll(dir)
	core := hub.OpenCore(dir)
	s := &sdRun{ctx: ctx, id: id, c: c, core: core, dir: dir, m: model.New(), vocab: gen.NewVocab(c.NIDs, 3, 3),
		seen: map[string]bool{}, rec: map[string][]uint64{}, iids: map[string]uint64{}}
	s.mg = &mgmtState{deletedIDs: map[uint32]string{}, everNames: map[string]bool{}}
	s.mg.ctxStore = server.NewContextualStore(core.Store)
	defer func() { s.core.Close() }()
	defer func() {
		if p := recover(); p != nil {
			s.viol("C12", "panic", fmt.Sprintf("panic: %v", p), nil, nil)
		}
	}()
	for _, d := range c.Datasets {
		if _, err := core.Dsm.CreateDataset(d, nil); err != nil {
			ctx.Out.Inconclusive(id, "C12", "create dataset: "+err.Error())
			return
		}
		s.m.Create(d)
	}
	removedTotal := 0
	for i, op := range c.Ops {
		s.opIdx = i
		ctx.Out.Begin(id, i, op.Kind)
		var err error
		switch op.Kind {
		case "inject", "inject-sametime", "inject-bytecopy":
			err = s.injectDuplicate(op.DS, op.To, op.Kind == "inject-sametime", op.Kind == "inject-bytecopy")
		case "compact":
			var removed int
			removed, err = s.compactAndCheck(op)
			removedTotal += removed
		default:
			err = s.apply(op)
		}
		ctx.Out.Ack(id, i, err)
		if err != nil {
			s.viol("C12", "op-error", fmt.Sprintf("%s returned error: %v", op.Kind, err), nil, op)
			break
		}
		if s.abort {
			break
		}
		if op.Kind != "compact" {
			s.checkAll(op)
		}
		if s.abort {
			break
		}
	}
	if removedTotal > 0 {
		// the case is non-trivial only if compaction actually removed something
		ctx.Out.Emit(map[string]any{"t": "case", "id": id, "seed": ctx.Seed, "nontrivial": true, "tags": c.Tags})
	}
	ctx.Out.Stat("queries", s.nQueries)
	ctx.Out.Stat("c12_versions_removed", int64(removedTotal))
}

// injectDuplicate writes a legacy duplicate version of the entity's latest
// version with raw keys, the way StoreEntities lays a version out. With
// sameTime the twin shares commit time (and therefore reference keys) with its
// predecessor, as produced by the former in-batch-repeat behaviour.
func (s *sdRun) injectDuplicate(dsName, uri string, sameTime, byteCopy bool) error {
	ds := s.core.Dsm.GetDataset(dsName)
	md := s.m.Live(dsName)
	var last *model.Version
	for _, v := range md.Versions {
		if v.ID == uri {
			last = v
		}
	}
	if last == nil {
		return nil // nothing to duplicate
	}
	rid, ok := s.iids[uri]
	if !ok {
		return nil
	}
	db := s.core.Store.VerifDB()
	latestKey := make([]byte, 14)
	binary.BigEndian.PutUint16(latestKey, server.DatasetLatestEntities)
	binary.BigEndian.PutUint32(latestKey[2:], ds.InternalID)
	binary.BigEndian.PutUint64(latestKey[6:], rid)
	seqKey := make([]byte, 6)
	binary.BigEndian.PutUint16(seqKey, server.SysDatasetsSequences)
	binary.BigEndian.PutUint32(seqKey[2:], ds.InternalID)
	seq, err := db.GetSequence(seqKey, 1)
	if err != nil {
		return err
	}
	defer seq.Release()
	time.Sleep(time.Microsecond)
	now := uint64(time.Now().UnixNano())
	err = db.Update(func(txn *badger.Txn) error {
		it, err := txn.Get(latestKey)
		if err != nil {
			return err
		}
		oldKey, _ := it.ValueCopy(nil)
		jit, err := txn.Get(oldKey)
		if err != nil {
			return err
		}
		oldJSON, _ := jit.ValueCopy(nil)
		ent := &server.Entity{}
		if err := json.Unmarshal(oldJSON, ent); err != nil {
			return err
		}
		newKey := make([]byte, 24)
		copy(newKey, oldKey)
		if sameTime {
			binary.BigEndian.PutUint16(newKey[22:], binary.BigEndian.Uint16(oldKey[22:])+1)
		} else {
			binary.BigEndian.PutUint64(newKey[14:], now)
			binary.BigEndian.PutUint16(newKey[22:], 0)
			ent.Recorded = now
		}
		newJSON, _ := json.Marshal(ent)
		if byteCopy {
			newJSON = oldJSON
		}
		if err := txn.Set(newKey, newJSON); err != nil {
			return err
		}
		n, err := seq.Next()
		if err != nil {
			return err
		}
		ck := make([]byte, 22)
		binary.BigEndian.PutUint16(ck, server.DatasetEntityChangeLog)
		binary.BigEndian.PutUint32(ck[2:], ds.InternalID)
		binary.BigEndian.PutUint64(ck[6:], n)
		binary.BigEndian.PutUint64(ck[14:], rid)
		if err := txn.Set(ck, newKey); err != nil {
			return err
		}
		if err := txn.Set(latestKey, newKey); err != nil {
			return err
		}
		if !sameTime {
			// reference keys of the duplicate at its own commit time
			for p, tv := range ent.References {
				pid, ok := s.lookupID(txn, p)
				if !ok {
					continue
				}
				for _, t := range model.RefTargets(tv) {
					tid, ok := s.lookupID(txn, t)
					if !ok {
						continue
					}
					del := uint16(0)
					if ent.IsDeleted {
						del = 1
					}
					out := make([]byte, 40)
					binary.BigEndian.PutUint16(out, server.OutgoingRefIndex)
					binary.BigEndian.PutUint64(out[2:], rid)
					binary.BigEndian.PutUint64(out[10:], now)
					binary.BigEndian.PutUint64(out[18:], pid)
					binary.BigEndian.PutUint64(out[26:], tid)
					binary.BigEndian.PutUint16(out[34:], del)
					binary.BigEndian.PutUint32(out[36:], ds.InternalID)
					in := make([]byte, 40)
					binary.BigEndian.PutUint16(in, server.IncomingRefIndex)
					binary.BigEndian.PutUint64(in[2:], tid)
					binary.BigEndian.PutUint64(in[10:], rid)
					binary.BigEndian.PutUint64(in[18:], now)
					binary.BigEndian.PutUint64(in[26:], pid)
					binary.BigEndian.PutUint16(in[34:], del)
					binary.BigEndian.PutUint32(in[36:], ds.InternalID)
					if err := txn.Set(out, []byte("")); err != nil {
						return err
					}
					if err := txn.Set(in, []byte("")); err != nil {
						return err
					}
				}
			}
		}
		return nil
	})
	if err != nil {
		return err
	}
	// the model adopts the legacy duplicate as a version of its own commit
	commit := last.Commit
	if !sameTime {
		s.m.Commit++
		commit = s.m.Commit
	}
	md.Versions = append(md.Versions, &model.Version{Ent: gen.Clone(last.Ent), Commit: commit, Seq: len(md.Versions)})
	s.ctx.Out.Stat("c12_duplicates_injected", 1)
	return nil
}

func (s *sdRun) lookupID(txn *badger.Txn, curie string) (uint64, bool) {
	k := make([]byte, len(curie)+2)
	binary.BigEndian.PutUint16(k, server.URIToIDIndexID)
	copy(k[2:], curie)
	it, err := txn.Get(k)
	if err != nil {
		return 0, false
	}
	var id uint64
	_ = it.Value(func(v []byte) error { id = binary.BigEndian.Uint64(v); return nil })
	return id, true
}

// c12Snapshot: everything compaction must leave unchanged.
type c12Snap struct {
	ans      map[string]string
	feed     map[string][]obs.Rec
	feedLO   map[string][]string
	asofInst []int64
}

func (s *sdRun) c12Snapshot(instants []int64) c12Snap {
	sn := c12Snap{ans: s.scopedSnapshot(), feed: map[string][]obs.Rec{}, feedLO: map[string][]string{}, asofInst: instants}
	st := s.core.Store
	for k := range sn.ans {
		if strings.HasPrefix(k, "feed|") {
			delete(sn.ans, k) // the full feed is compared by the subsequence rule
		}
	}
	for _, d := range s.dsNames() {
		ds := s.core.Dsm.GetDataset(d)
		f, _, _ := obs.Feed(st, ds, 0, nil, false)
		sn.feed[d] = f
		lo, _, _ := obs.Feed(st, ds, 0, nil, true)
		l := recStr(lo)
		sort.Strings(l)
		sn.feedLO[d] = l
	}
	// unscoped lookups and relations now, and as of earlier instants
	for _, id := range s.vocab.IDs {
		r, _ := obs.Lookup(st, id, nil)
		sn.ans["lookup|*|"+id] = lookupAnswer(r)
		o, err := obs.Related(st, id, "*", false, nil, 0)
		if err == nil {
			a, b := relAnswer(o)
			sn.ans["out|*|"+id] = a
			sn.ans["outbodies|*|"+id] = b
		}
		for _, at := range instants {
			q := sdQ{kind: "lookup", id: id}
			a, _, ok := s.answerAt(q, at)
			if ok {
				sn.ans[fmt.Sprintf("asof-lookup|%d|%s", at, id)] = a
			}
			for _, d := range s.dsNames() {
				a, _, ok := s.answerAt(sdQ{kind: "lookup", id: id, scope: []string{d}}, at)
				if ok {
					sn.ans[fmt.Sprintf("asof-lookup|%d|%s|%s", at, id, d)] = a
				}
			}
			a, b, ok := s.answerAt(sdQ{kind: "rel", id: id, pred: "*", inv: false}, at)
			if ok {
				sn.ans[fmt.Sprintf("asof-out|%d|%s", at, id)] = a
				sn.ans[fmt.Sprintf("asof-outbodies|%d|%s", at, id)] = b
			}
			for _, p := range s.vocab.Preds {
				for _, d := range s.dsNames() {
					a, _, ok := s.answerAt(sdQ{kind: "rel", id: id, pred: p, inv: true, scope: []string{d}}, at)
					if ok {
						sn.ans[fmt.Sprintf("asof-in|%d|%s|%s|%s", at, id, p, d)] = a
					}
				}
			}
		}
	}
	return sn
}

func (s *sdRun) commitInstants() []int64 {
	set := map[uint64]bool{}
	for _, rs := range s.rec {
		for _, t := range rs {
			set[t] = true
		}
	}
	var ts []int64
	for t := range set {
		ts = append(ts, int64(t))
	}
	sort.Slice(ts, func(i, j int) bool { return ts[i] < ts[j] })
	var inst []int64
	for i, t := range ts {
		inst = append(inst, t)
		if i+1 < len(ts) && t+1 < ts[i+1] {
			inst = append(inst, t+(ts[i+1]-t)/2)
		}
	}
	if len(inst) > 12 { // keep the newest dozen; older ones were checked by earlier compactions
		inst = inst[len(inst)-12:]
	}
	return inst
}

func (s *sdRun) compactAndCheck(op SDOp) (int, error) {
	// bring the recorded times up to date (injections are not followed by checkAll's align)
	for _, d := range s.dsNames() {
		if !s.alignFeed(d) {
			s.abort = true
			s.viol("C12", "pre-compaction-divergence", "hub and model diverged before compaction", nil, nil)
			return 0, nil
		}
	}
	before := s.c12Snapshot(s.commitInstants())
	worker := dsvc.NewCompactor(s.core.Store, s.core.Dsm, zap.NewNop().Sugar())
	var racing []model.Ent
	var waitWriter func()
	inLock := len(op.Ents) > 0 && op.To == "inlock"
	if inLock {
		// compaction runs in its own goroutine; at its first flush it starts the writer and waits until the writer
		// sits inside its critical section (hook ds.store.afterIDCommit: lock held, data not yet committed); the
		// writer then gives the flush a moment to start (scheduling aid only) and commits
		racing = op.Ents
		writerIn := make(chan struct{})
		writerDone := make(chan struct{})
		var once, onceW sync.Once
		var started int32
		vh.OnPoint("compact.beforeFlush", 0, func(name string, hit int64) {
			once.Do(func() {
				atomic.StoreInt32(&started, 1)
				go func() {
					defer close(writerDone)
					if err := StoreBatch(s.core, op.DS, racing, false); err != nil {
						s.viol("C12", "racing-writer-error", err.Error(), nil, nil)
					}
				}()
				select {
				case <-writerIn:
				case <-time.After(5 * time.Second):
				}
				s.ctx.Out.Stat("c12_racing_writes_in_lock", 1)
			})
		})
		vh.OnPoint("ds.store.afterIDCommit", 0, func(name string, hit int64) {
			onceW.Do(func() {
				close(writerIn)
				time.Sleep(30 * time.Millisecond)
			})
		})
		defer vh.Clear("compact.beforeFlush")
		defer vh.Clear("ds.store.afterIDCommit")
		waitWriter = func() {
			if atomic.LoadInt32(&started) == 0 {
				// the compaction had nothing to flush: the write simply follows it
				if err := StoreBatch(s.core, op.DS, racing, false); err != nil {
					s.viol("C12", "racing-writer-error", err.Error(), nil, nil)
				}
				s.ctx.Out.Stat("c12_racing_writes_after_a_compaction_without_flush", 1)
				return
			}
			select {
			case <-writerDone:
			case <-time.After(10 * time.Second):
				s.ctx.Out.Inconclusive(s.id, "C12", "racing writer did not finish within 10 s")
				s.abort = true
			}
		}
	} else if len(op.Ents) > 0 {
		racing = op.Ents
		fired := false
		vh.OnPoint("compact.beforeFlush", 0, func(name string, hit int64) {
			if fired {
				return
			}
			fired = true
			if err := StoreBatch(s.core, op.DS, racing, false); err != nil {
				s.viol("C12", "racing-writer-error", err.Error(), nil, nil)
			}
			s.ctx.Out.Stat("c12_racing_writes_placed", 1)
		})
		defer vh.Clear("compact.beforeFlush")
		waitWriter = func() {
			if !fired {
				// the compaction gave up before its first flush: the write simply follows it
				fired = true
				if err := StoreBatch(s.core, op.DS, racing, false); err != nil {
					s.viol("C12", "racing-writer-error", err.Error(), nil, nil)
				}
				s.ctx.Out.Stat("c12_racing_writes_after_a_compaction_without_flush", 1)
			}
		}
	}
	var stats map[string]int
	var err error
	if len(op.Ents) == 0 && strings.HasPrefix(op.To, "underreader") {
		// a consumer is in the middle of a page of the change feed (one storage snapshot) while the compaction runs
		// to completion: the page is the one the snapshot before the compaction answers
		lo := op.To == "underreader-lo"
		ran := false
		// ... after the k-th entry of the page (k from the case, any position of the change log)
		target, seenEntries := 1, 0
		if n := len(before.feed[op.DS]); n > 0 {
			target = 1 + (n*7+op.Reader+len(s.c.Ops)+int(s.ctx.Seed%1000))%n
		}
		vh.OnPoint("ds.changes.afterEntry", 0, func(string, int64) {
			seenEntries++
			if !ran && seenEntries == target {
				ran = true
				stats, err = worker.VerifCompactSync(op.DS, op.Reader)
			}
		})
		page, _, perr := obs.Feed(s.core.Store, s.core.Dsm.GetDataset(op.DS), 0, nil, lo)
		vh.Clear("ds.changes.afterEntry")
		switch {
		case !ran:
			stats, err = worker.VerifCompactSync(op.DS, op.Reader)
			s.ctx.Out.Stat("c12_compactions_after_a_page_without_entries", 1)
		case perr != nil:
			s.viol("C12", "page-under-compaction-error", perr.Error(), nil, nil)
		case lo:
			got := recStr(page)
			sort.Strings(got)
			if !reflect.DeepEqual(got, before.feedLO[op.DS]) {
				s.viol("C12", "page-under-compaction", fmt.Sprintf("a latest-only page of %s that was open while the compaction (flush=%d) ran differs from the page before the compaction", op.DS, op.Reader), before.feedLO[op.DS], got)
			}
			s.ctx.Out.Stat("c12_latest_only_pages_open_across_a_compaction", 1)
		default:
			if got, want := recStr(page), recStr(before.feed[op.DS]); !reflect.DeepEqual(got, want) {
				s.viol("C12", "page-under-compaction", fmt.Sprintf("a page of the change feed of %s that was open while the compaction (flush=%d) ran differs from the page before the compaction", op.DS, op.Reader), want, got)
			}
			s.ctx.Out.Stat("c12_full_pages_open_across_a_compaction", 1)
		}
	} else {
		stats, err = worker.VerifCompactSync(op.DS, op.Reader)
	}
	if waitWriter != nil {
		waitWriter()
		if s.abort {
			return 0, nil
		}
	}
	if err != nil {
		// a compaction that gives up with an error is not a violation of C12 by itself (the statement is about
		// what readers see); whatever it flushed before giving up must still be invisible, so carry on judging
		s.ctx.Out.Stat("c12_compactions_failed", 1)
		s.ctx.Out.Emit(map[string]any{"t": "note", "case": s.id, "note": "compaction returned error: " + err.Error()})
	}
	s.ctx.Out.Stat("c12_compactions", 1)
	for k, v := range stats {
		s.ctx.Out.Stat("c12_removed_keys_"+k, int64(v))
	}
	// feed rule: feed' = feed minus versions identical to their immediate predecessor (same entity)
	ds := s.core.Dsm.GetDataset(op.DS)
	after, _, ferr := obs.Feed(s.core.Store, ds, 0, nil, false)
	if ferr != nil {
		return 0, ferr
	}
	md := s.m.Live(op.DS)
	oldFeed := before.feed[op.DS]
	// the racing write (if any) is appended to the expected feed by the model
	if racing != nil {
		s.m.Apply(op.DS, racing)
	}
	want := md.Versions
	removed, msg := subsequenceRule(want, after)
	if msg != "" {
		s.viol("C12", "feed-rule", fmt.Sprintf("dataset %s flush=%d: %s", op.DS, op.Reader, msg), feedStr(want), recStr(after))
		s.abort = true
		return 0, nil
	}
	_ = oldFeed
	// adopt: drop the removed versions from the model
	if len(removed) > 0 {
		var nv []*model.Version
		for i, v := range md.Versions {
			if !removed[i] {
				v.Seq = len(nv)
				nv = append(nv, v)
			}
		}
		md.Versions = nv
	}
	if racing != nil {
		// with a racing write the "before" snapshot is not the reference; the model is
		s.checkAll(SDOp{Kind: "batch", DS: op.DS})
		return len(removed), nil
	}
	afterSnap := s.c12Snapshot(before.asofInst)
	keys := make([]string, 0, len(before.ans))
	for k := range before.ans {
		keys = append(keys, k)
	}
	sort.Strings(keys)
	for _, k := range keys {
		if afterSnap.ans[k] != before.ans[k] {
			cls := "snapshot-" + strings.SplitN(k, "|", 2)[0]
			s.viol("C12", cls, fmt.Sprintf("compaction of %s (flush=%d) changed the answer of %s", op.DS, op.Reader, k), before.ans[k], afterSnap.ans[k])
		}
	}
	s.ctx.Out.Stat("c12_answers_compared", int64(len(keys)))
	for _, d := range s.dsNames() {
		if !reflect.DeepEqual(before.feedLO[d], afterSnap.feedLO[d]) {
			s.viol("C12", "latestonly-feed", fmt.Sprintf("compaction of %s changed the latest-only feed of %s (as a multiset)", op.DS, d), before.feedLO[d], afterSnap.feedLO[d])
		}
		if d != op.DS && !reflect.DeepEqual(recStr(before.feed[d]), recStr(afterSnap.feed[d])) {
			s.viol("C12", "other-dataset-feed", fmt.Sprintf("compaction of %s changed the feed of %s", op.DS, d), nil, nil)
		}
	}
	// and the model still agrees with everything (C01-C03 oracles)
	s.checkAll(SDOp{Kind: "batch", DS: op.DS})
	return len(removed), nil
}

// subsequenceRule checks that got is want minus a set of versions each of
// which is identical to the previous version of the same entity in want.
// Returns the removed indices of want.
func subsequenceRule(want []*model.Version, got []obs.Rec) (map[int]bool, string) {
	removed := map[int]bool{}
	prevOf := make([]int, len(want)) // index of the previous version of the same entity
	last := map[string]int{}
	for i, v := range want {
		if p, ok := last[v.ID]; ok {
			prevOf[i] = p
		} else {
			prevOf[i] = -1
		}
		last[v.ID] = i
	}
	j := 0
	for i, v := range want {
		if j < len(got) && sameEnt(&v.Ent, &got[j].Ent) {
			// prefer keeping: but if this version is a duplicate of its predecessor and the
			// remaining feed is too short, it must have been removed
			if len(want)-i > len(got)-j && prevOf[i] >= 0 && model.SameContent(&want[prevOf[i]].Ent, &v.Ent) && !matchesRest(want, got, i+1, j+1) {
				removed[i] = true
				continue
			}
			j++
			continue
		}
		if prevOf[i] >= 0 && model.SameContent(&want[prevOf[i]].Ent, &v.Ent) {
			removed[i] = true
			continue
		}
		return nil, fmt.Sprintf("feed entry %d (%s) was removed or altered although it is not identical to its predecessor", i, v.ID)
	}
	if j != len(got) {
		return nil, fmt.Sprintf("feed has %d entries that the previous feed did not have", len(got)-j)
	}
	return removed, ""
}

// matchesRest: can got[j:] be obtained from want[i:] by removing duplicates only (greedy check)?
func matchesRest(want []*model.Version, got []obs.Rec, i, j int) bool {
	last := map[string]*model.Version{}
	for k := 0; k < i; k++ {
		last[want[k].ID] = want[k]
	}
	for ; i < len(want); i++ {
		v := want[i]
		if j < len(got) && sameEnt(&v.Ent, &got[j].Ent) {
			j++
		} else if p := last[v.ID]; p != nil && model.SameContent(&p.Ent, &v.Ent) {
			// removable
		} else {
			return false
		}
		last[v.ID] = v
	}
	return j == len(got)
}
