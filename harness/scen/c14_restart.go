package scen

// c14restart: stopping and starting the hub is observably a no-op (C14).
// Histories over data, dataset-management, job-management and security-
// management operations; after EVERY op the complete snapshot is taken, the
// hub is stopped (scheduler, store) and assembled again the way app.go does,
// and the snapshot must be identical. The data part keeps running against the
// reference model after each restart (no id / change position reuse, deleted
// datasets stay deleted).

import (
	"context"
	"encoding/json"
	"fmt"
	"math/rand"
	"os"
	"path/filepath"
	"sort"
	"strings"
	"time"

	"github.com/DataDog/datadog-go/v5/statsd"
	"go.uber.org/zap"

	"github.com/mimiro-io/datahub/internal/jobs"
	"github.com/mimiro-io/datahub/internal/security"
	"github.com/mimiro-io/datahub/internal/server"
	"github.com/mimiro-io/datahub/internal/verif/gen"
	"github.com/mimiro-io/datahub/internal/verif/hub"
	"github.com/mimiro-io/datahub/internal/verif/model"
	"github.com/mimiro-io/datahub/internal/verif/obs"
)

func init() { Register("c14restart", c14Restart) }

type c14Sys struct {
	core   *hub.Core
	sched  *jobs.Scheduler
	runner *jobs.Runner
	sec    *security.ServiceCore
	pm     *security.ProviderManager
	tps    *security.TokenProviders
}

var c14ProviderNames = []string{"prov0", "prov1", "Upstream-A"}

var c14KeyDir string // node key generated once per child

func c14Open(dir string) *c14Sys {
	env := hub.Env(filepath.Join(dir, "store"))
	env.SecurityStorageLocation = filepath.Join(dir, "security")
	env.NodeID = "node1"
	_ = os.MkdirAll(env.SecurityStorageLocation, 0o755)
	if c14KeyDir != "" {
		for _, f := range []string{"node_key", "node_key.pub"} {
			if _, err := os.Stat(filepath.Join(env.SecurityStorageLocation, f)); err != nil {
				b, _ := os.ReadFile(filepath.Join(c14KeyDir, f))
				_ = os.WriteFile(filepath.Join(env.SecurityStorageLocation, f), b, 0o600)
			}
		}
	}
	_ = os.MkdirAll(env.StoreLocation, 0o755)
	st := server.NewStore(env, &statsd.NoOpClient{})
	bus, _ := server.NewBus(env)
	dsm := server.NewDsManager(env, st, bus)
	s := &c14Sys{core: &hub.Core{Env: env, Store: st, Dsm: dsm, Bus: bus}}
	s.pm = security.NewProviderManager(env, st, zap.NewNop().Sugar())
	s.sec = security.NewServiceCore(env)
	tps := security.NewTokenProviders(zap.NewNop().Sugar(), s.pm, s.sec)
	s.tps = tps
	s.runner = jobs.NewRunner(env, st, tps, bus, &statsd.NoOpClient{})
	s.sched = jobs.NewScheduler(env, st, dsm, s.runner)
	return s
}

func (s *c14Sys) stop() error {
	_ = s.sched.Stop(context.Background())
	return s.core.Store.Close()
}

type C14Op struct {
	Kind   string      `json:"kind"`
	DS     string      `json:"ds,omitempty"`
	To     string      `json:"to,omitempty"`
	Ents   []model.Ent `json:"ents,omitempty"`
	Job    string      `json:"job,omitempty"`
	Paused bool        `json:"paused,omitempty"`
	ReRun  bool        `json:"rerun,omitempty"`
	Client string      `json:"client,omitempty"`
	ACL    []string    `json:"acl,omitempty"` // "resource|action|deny"
	Since  string      `json:"since,omitempty"`
	// NoRestart: no stop/start after this operation (by default the hub is restarted after every operation)
	NoRestart bool `json:"norestart,omitempty"`
}

type C14Case struct {
	NIDs int      `json:"nids"`
	Ops  []C14Op  `json:"ops"`
	Tags []string `json:"tags"`
}

func genC14Case(r *rand.Rand) C14Case {
	c := C14Case{NIDs: 3}
	v := gen.NewVocab(c.NIDs, 3, 3)
	tags := map[string]bool{}
	live := map[string]bool{"da": true, "db": true}
	names := []string{"da", "db", "dc", "dd"}
	jobsLive := map[string]bool{}
	clients := map[string]bool{}
	provs := map[string]bool{}
	n := 5 + r.Intn(6)
	pick := func(m map[string]bool) string {
		var l []string
		for k, ok := range m {
			if ok {
				l = append(l, k)
			}
		}
		sort.Strings(l)
		if len(l) == 0 {
			return ""
		}
		return l[r.Intn(len(l))]
	}
	if r.Intn(5) == 0 {
		// directed opening: a login provider whose name has upper-case letters is added and deleted again
		c.Ops = append(c.Ops, C14Op{Kind: "addprov", Client: "Upstream-A"}, C14Op{Kind: "delprov", Client: "Upstream-A"})
		provs["Upstream-A"] = false
		tags["providers"] = true
	}
	if r.Intn(5) == 0 {
		// directed opening: a dataset's public namespaces are narrowed through its meta-entity
		c.Ops = append(c.Ops, C14Op{Kind: "create", DS: "dc", To: "pubns"}, C14Op{Kind: "setpubns", DS: "dc", To: "one"})
		live["dc"] = true
		tags["dsmgmt"], tags["public-namespaces-updated"] = true, true
	}
	if r.Intn(4) == 0 {
		// directed opening: a dataset is created, renamed and its old name created again within one process lifetime;
		// later the renamed one is deleted
		c.Ops = append(c.Ops, C14Op{Kind: "create", DS: "dc", NoRestart: true},
			C14Op{Kind: "batch", DS: "dc", Ents: []model.Ent{gen.Entity(r, v, v.IDs[0])}, NoRestart: true},
			C14Op{Kind: "rename", DS: "dc", To: "dd", NoRestart: true}, C14Op{Kind: "create", DS: "dc"},
			C14Op{Kind: "batch", DS: "dd", Ents: []model.Ent{gen.Entity(r, v, v.IDs[1])}}, C14Op{Kind: "delete", DS: "dd"})
		live["dc"], live["dd"] = true, false
		tags["dsmgmt"], tags["rename"], tags["several-ops-per-process-lifetime"] = true, true, true
	}
	if r.Intn(4) == 0 && !live["dc"] && !live["dd"] {
		// directed opening: the newest dataset is deleted, the hub restarts, the next dataset is created and written
		c.Ops = append(c.Ops, C14Op{Kind: "create", DS: "dc"}, C14Op{Kind: "batch", DS: "dc", Ents: []model.Ent{gen.Entity(r, v, v.IDs[0]), gen.Entity(r, v, v.IDs[1])}},
			C14Op{Kind: "delete", DS: "dc"}, C14Op{Kind: "create", DS: "dd"}, C14Op{Kind: "batch", DS: "dd", Ents: []model.Ent{gen.Entity(r, v, v.IDs[2])}})
		live["dc"], live["dd"] = false, true
		tags["dsmgmt"], tags["restart-after-deleting-newest-dataset"] = true, true
	}
	if r.Intn(4) == 0 {
		// directed opening: the only access-control entry of the hub is taken away again
		c.Ops = append(c.Ops, C14Op{Kind: "regclient", Client: "client0"}, C14Op{Kind: "setacl", Client: "client0", ACL: []string{"/datasets/da|read|false"}},
			C14Op{Kind: "delacl", Client: "client0"})
		clients["client0"] = true
		tags["security"], tags["last-acl-removed"] = true, true
	}
	if r.Intn(4) == 0 {
		// directed opening: a job runs (sync state stored), is deleted and defined again under the same id
		c.Ops = append(c.Ops, C14Op{Kind: "batch", DS: "da", Ents: []model.Ent{gen.Entity(r, v, v.IDs[0]), gen.Entity(r, v, v.IDs[1])}},
			C14Op{Kind: "addjob", Job: "job0"}, C14Op{Kind: "runjob", Job: "job0"}, C14Op{Kind: "deljob", Job: "job0"},
			C14Op{Kind: "addjob", Job: "job0"}, C14Op{Kind: "runjob", Job: "job0"})
		jobsLive["job0"] = true
		tags["data"], tags["jobs"], tags["jobrun"], tags["job-redefined"] = true, true, true, true
	}
	for i := 0; i < n; i++ {
		switch k := r.Intn(100); {
		case k < 4:
			// a read that mentions a URI of a namespace the hub has never seen (no write follows necessarily)
			c.Ops = append(c.Ops, C14Op{Kind: "nsquery", To: fmt.Sprintf("http://ex.org/seen-by-query-%d/thing", r.Intn(4))})
			tags["namespace-by-query"] = true
		case k < 28:
			ds := pick(live)
			if ds == "" {
				continue
			}
			var ents []model.Ent
			for j := 0; j < 1+r.Intn(2); j++ {
				ents = append(ents, gen.Entity(r, v, v.IDs[r.Intn(len(v.IDs))]))
			}
			c.Ops = append(c.Ops, C14Op{Kind: "batch", DS: ds, Ents: ents})
			tags["data"] = true
		case k < 34:
			nm := names[r.Intn(len(names))]
			if live[nm] {
				continue
			}
			live[nm] = true
			c.Ops = append(c.Ops, C14Op{Kind: "create", DS: nm, To: []string{"", "", "pubns", "proxy", "virtual"}[r.Intn(5)]})
			tags["dsmgmt"] = true
		case k < 37:
			// rename (to a free name of the pool)
			nm := pick(live)
			var free []string
			for _, f := range []string{"db", "dc", "dd", "de"} {
				if !live[f] {
					free = append(free, f)
				}
			}
			if nm == "" || nm == "da" || len(free) == 0 {
				continue
			}
			to := free[r.Intn(len(free))]
			live[nm], live[to] = false, true
			c.Ops = append(c.Ops, C14Op{Kind: "rename", DS: nm, To: to})
			tags["dsmgmt"], tags["rename"] = true, true
		case k < 40:
			nm := pick(live)
			if nm == "" || nm == "da" {
				continue
			}
			live[nm] = false
			c.Ops = append(c.Ops, C14Op{Kind: "delete", DS: nm})
			tags["dsmgmt"] = true
		case k < 52:
			id := fmt.Sprintf("job%d", r.Intn(3))
			jobsLive[id] = true
			c.Ops = append(c.Ops, C14Op{Kind: "addjob", Job: id, Paused: r.Intn(3) == 0, ReRun: r.Intn(3) == 0})
			tags["jobs"] = true
		case k < 58:
			if id := pick(jobsLive); id != "" {
				c.Ops = append(c.Ops, C14Op{Kind: []string{"pausejob", "unpausejob"}[r.Intn(2)], Job: id})
				tags["jobs"] = true
			}
		case k < 62:
			if id := pick(jobsLive); id != "" {
				jobsLive[id] = false
				c.Ops = append(c.Ops, C14Op{Kind: "deljob", Job: id})
				tags["jobs"] = true
			}
		case k < 70:
			if id := pick(jobsLive); id != "" {
				c.Ops = append(c.Ops, C14Op{Kind: "runjob", Job: id})
				tags["jobrun"] = true
			}
		case k < 74:
			if id := pick(jobsLive); id != "" {
				c.Ops = append(c.Ops, C14Op{Kind: "resetjob", Job: id, Since: []string{"", "0", "1"}[r.Intn(3)]})
				tags["jobs"] = true
			}
		case k < 80:
			id := fmt.Sprintf("client%d", r.Intn(3))
			clients[id] = true
			c.Ops = append(c.Ops, C14Op{Kind: "regclient", Client: id})
			tags["security"] = true
		case k < 84:
			if id := pick(clients); id != "" {
				clients[id] = false
				c.Ops = append(c.Ops, C14Op{Kind: "delclient", Client: id})
				tags["security"] = true
			}
		case k < 92:
			id := fmt.Sprintf("client%d", r.Intn(3)) // may be a client that was never registered
			var acl []string
			for j := 0; j < 1+r.Intn(2); j++ {
				acl = append(acl, fmt.Sprintf("%s|%s|%v", []string{"/datasets/da", "/datasets/*", "/jobs*"}[r.Intn(3)], []string{"read", "write"}[r.Intn(2)], r.Intn(4) == 0))
			}
			c.Ops = append(c.Ops, C14Op{Kind: "setacl", Client: id, ACL: acl})
			tags["security"] = true
			if !clients[id] {
				tags["acl-unregistered-client"] = true
			}
		case k < 95:
			id := fmt.Sprintf("client%d", r.Intn(3))
			c.Ops = append(c.Ops, C14Op{Kind: "delacl", Client: id})
			tags["security"] = true
		default:
			id := c14ProviderNames[r.Intn(len(c14ProviderNames))]
			if provs[id] && r.Intn(2) == 0 {
				provs[id] = false
				c.Ops = append(c.Ops, C14Op{Kind: "delprov", Client: id})
			} else {
				provs[id] = true
				c.Ops = append(c.Ops, C14Op{Kind: "addprov", Client: id})
			}
			tags["providers"] = true
		}
	}
	several := r.Intn(2) == 0 // (the other histories keep a stop/start after every single operation)
	for i := range c.Ops {
		if several && i+1 < len(c.Ops) && r.Intn(3) == 0 {
			c.Ops[i].NoRestart = true
			tags["several-ops-per-process-lifetime"] = true
		}
	}
	for t := range tags {
		c.Tags = append(c.Tags, t)
	}
	sort.Strings(c.Tags)
	return c
}

func c14Restart(ctx *Ctx) error {
	// generate the node key once
	c14KeyDir = ctx.NewDir("c14key")
	defer os.RemoveAll(c14KeyDir)
	{
		env := hub.Env(filepath.Join(c14KeyDir, "x"))
		env.SecurityStorageLocation = c14KeyDir
		security.NewServiceCore(env)
	}
	if ctx.Replay != "" {
		b, err := os.ReadFile(ctx.Replay)
		if err != nil {
			return err
		}
		var w struct {
			Ops C14Case `json:"ops"`
		}
		if err := json.Unmarshal(b, &w); err != nil {
			return err
		}
		runC14Case(ctx, w.Ops)
		return nil
	}
	r := rand.New(rand.NewSource(ctx.Seed))
	for i := 0; i < ctx.Cases; i++ {
		runC14Case(ctx, genC14Case(r))
	}
	return nil
}

func c14JobConfig(op C14Op) *jobs.JobConfiguration {
	trig := jobs.JobTrigger{TriggerType: "cron", JobType: "incremental", Schedule: "0 0 1 1 *"}
	if op.ReRun {
		trig.ErrorHandlers = jobs.ErrorHandlers{{Type: "rerun", MaxRetries: 2, RetryDelay: 7}}
	}
	return &jobs.JobConfiguration{
		ID: op.Job, Title: "title-" + op.Job, Description: "d", Tags: []string{"t"},
		Source:   map[string]interface{}{"Type": "DatasetSource", "Name": "da"},
		Sink:     map[string]interface{}{"Type": "DatasetSink", "Name": "db"},
		Triggers: []jobs.JobTrigger{trig},
		Paused:   op.Paused,
	}
}

func runC14Case(ctx *Ctx, c C14Case) {
	id := outHash(c)
	paths := 0
	for _, t := range []string{"data", "dsmgmt", "jobs", "jobrun", "security", "providers"} {
		if hasTag(c.Tags, t) {
			paths++
		}
	}
	ctx.Out.Case(id, ctx.Seed, c, paths >= 2, c.Tags)
	dir := ctx.NewDir("c14")
	defer os.RemoveAll(dir)
	sys := c14Open(dir)
	defer func() {
		if sys != nil {
			sys.stop()
		}
	}()
	s := &sdRun{ctx: ctx, id: id, core: sys.core, dir: dir, m: model.New(), vocab: gen.NewVocab(c.NIDs, 3, 3),
		seen: map[string]bool{}, rec: map[string][]uint64{}, iids: map[string]uint64{}}
	s.mg = &mgmtState{deletedIDs: map[uint32]string{}, everNames: map[string]bool{}}
	s.mg.ctxStore = server.NewContextualStore(sys.core.Store)
	defer func() {
		if p := recover(); p != nil {
			s.viol("C14", "panic", fmt.Sprintf("panic: %v", p), nil, nil)
		}
	}()
	for _, d := range []string{"da", "db"} {
		if _, err := sys.core.Dsm.CreateDataset(d, nil); err != nil {
			ctx.Out.Inconclusive(id, "C14", "create: "+err.Error())
			return
		}
		s.m.Create(d)
	}
	for i, op := range c.Ops {
		s.opIdx = i
		ctx.Out.Begin(id, i, op.Kind)
		err := c14Apply(ctx, id, s, sys, op)
		ctx.Out.Ack(id, i, err)
		if err != nil {
			// an op the hub refuses is not part of the history
			ctx.Out.Stat("c14_ops_refused", 1)
		}
		// data part against the model
		switch op.Kind {
		case "batch":
			s.checkAll(SDOp{Kind: "batch", DS: op.DS})
		case "create", "delete":
			s.checkAll(SDOp{Kind: op.Kind, DS: op.DS})
		case "rename":
			s.checkAll(SDOp{Kind: "rename", DS: op.DS, To: op.To})
		}
		if s.abort {
			return
		}
		if op.NoRestart && i+1 < len(c.Ops) {
			continue
		}
		before := c14Snapshot(s, sys)
		if err := sys.stop(); err != nil {
			s.viol("C14", "stop-error", err.Error(), nil, nil)
			sys = nil
			return
		}
		sys = c14Open(dir)
		s.core = sys.core
		s.mg.ctxStore = server.NewContextualStore(sys.core.Store)
		after := c14Snapshot(s, sys)
		ctx.Out.Stat("c14_restarts", 1)
		ctx.Out.Stat("c14_answers_compared", int64(len(before)))
		keys := make([]string, 0, len(before))
		for k := range before {
			keys = append(keys, k)
		}
		sort.Strings(keys)
		for _, k := range keys {
			if after[k] != before[k] {
				s.viol("C14", "restart-"+strings.SplitN(k, "|", 2)[0], fmt.Sprintf("after op %d (%s) a stop/start changed the answer of %s", i, op.Kind, k), before[k], after[k])
			}
		}
		for k := range after {
			if _, ok := before[k]; !ok {
				s.viol("C14", "restart-new-"+strings.SplitN(k, "|", 2)[0], fmt.Sprintf("after op %d (%s) a stop/start added %s", i, op.Kind, k), nil, after[k])
			}
		}
	}
}

func c14Apply(ctx *Ctx, id string, s *sdRun, sys *c14Sys, op C14Op) error {
	switch op.Kind {
	case "batch":
		if s.m.Live(op.DS) == nil {
			return nil
		}
		if err := StoreBatch(sys.core, op.DS, op.Ents, false); err != nil {
			return err
		}
		s.m.Apply(op.DS, op.Ents)
	case "setpubns":
		// the way a client changes a dataset's public namespaces: it writes the dataset's meta-entity to core.Dataset
		if s.m.Live(op.DS) == nil {
			return nil
		}
		cd := sys.core.Dsm.GetDataset("core.Dataset")
		nsi, err := sys.core.Store.NamespaceManager.GetDatasetNamespaceInfo()
		if err != nil {
			return err
		}
		res, err := cd.GetEntities("", 1000)
		if err != nil {
			return err
		}
		for _, e := range res.Entities {
			if e.ID == nsi.DatasetPrefix+":"+op.DS {
				e.Properties[nsi.PublicNamespacesKey] = []interface{}{gen.NsA}
				return cd.StoreEntities([]*server.Entity{e})
			}
		}
	case "nsquery":
		_, _ = sys.core.Store.GetEntity(op.To, nil, true)
		_, _ = obs.Related(sys.core.Store, op.To, "*", false, nil, 0)
	case "create":
		var cfg *server.CreateDatasetConfig
		switch op.To {
		case "pubns":
			cfg = &server.CreateDatasetConfig{PublicNamespaces: []string{gen.NsA, gen.NsP}}
		case "proxy":
			cfg = &server.CreateDatasetConfig{ProxyDatasetConfig: &server.ProxyDatasetConfig{RemoteURL: "http://localhost:1/datasets/" + op.DS, AuthProviderName: "none", TimeoutSeconds: 3}}
		case "virtual":
			cfg = &server.CreateDatasetConfig{VirtualDatasetConfig: &server.VirtualDatasetConfig{Transform: "ZnVuY3Rpb24gYnVpbGRfZW50aXRpZXMoKSB7fQ=="}}
		}
		if _, err := sys.core.Dsm.CreateDataset(op.DS, cfg); err != nil {
			return err
		}
		s.m.Create(op.DS)
	case "rename":
		if s.m.Live(op.DS) == nil || s.m.Live(op.To) != nil {
			return nil
		}
		if _, err := sys.core.Dsm.UpdateDataset(op.DS, &server.UpdateDatasetConfig{ID: op.To}); err != nil {
			return err
		}
		s.m.Rename(op.DS, op.To)
		s.rec[op.To] = s.rec[op.DS]
		delete(s.rec, op.DS)
	case "delete":
		if s.m.Live(op.DS) == nil {
			return nil
		}
		if err := sys.core.Dsm.DeleteDataset(op.DS); err != nil {
			return err
		}
		s.m.Delete(op.DS)
		delete(s.rec, op.DS)
	case "addjob":
		return sys.sched.AddJob(c14JobConfig(op))
	case "pausejob":
		return sys.sched.PauseJob(op.Job)
	case "unpausejob":
		return sys.sched.UnpauseJob(op.Job)
	case "deljob":
		return sys.sched.DeleteJob(op.Job)
	case "resetjob":
		return sys.sched.ResetJob(op.Job, op.Since)
	case "runjob":
		if s.m.Live("db") == nil || s.m.Live("da") == nil {
			return nil
		}
		hist := len(sys.sched.GetJobHistory())
		if _, err := sys.sched.RunJob(op.Job, "incremental"); err != nil {
			return err
		}
		// wait for the run to end (bounded; verdicts do not depend on the time)
		for w := 0; w < 500; w++ {
			time.Sleep(10 * time.Millisecond)
			if len(sys.sched.GetRunningJobs()) == 0 && w > 2 {
				break
			}
		}
		_ = hist
		if len(sys.sched.GetRunningJobs()) != 0 {
			ctx.Out.Inconclusive(id, "C14", "job still running after 5 s")
		}
		// the job copied da into db: tell the model (sink gets the latest-state changes of da)
		if src, dst := s.m.Live("da"), s.m.Live("db"); src != nil && dst != nil {
			// re-align from the hub: the copy semantics are C08's business; here the model adopts db's feed
			ds := sys.core.Dsm.GetDataset("db")
			feed, _, _ := obs.Feed(sys.core.Store, ds, 0, nil, false)
			dst.Versions = nil
			for _, f := range feed {
				s.m.Commit++
				dst.Versions = append(dst.Versions, &model.Version{Ent: f.Ent, Commit: s.m.Commit, Seq: len(dst.Versions)})
				dst.Ids[f.ID] = true
			}
		}
	case "regclient":
		sys.sec.RegisterClient(&security.ClientInfo{ClientID: op.Client, PublicKey: []byte("pk-" + op.Client)})
	case "delclient":
		sys.sec.RegisterClient(&security.ClientInfo{ClientID: op.Client, Deleted: true})
	case "setacl":
		var acls []*security.AccessControl
		for _, a := range op.ACL {
			p := strings.Split(a, "|")
			acls = append(acls, &security.AccessControl{Resource: p[0], Action: p[1], Deny: p[2] == "true"})
		}
		sys.sec.SetClientAccessControls(op.Client, acls)
	case "delacl":
		sys.sec.DeleteClientAccessControls(op.Client)
	case "addprov":
		// through the token providers, as the provider endpoints of the web layer do
		return sys.tps.Add(security.ProviderConfig{Name: op.Client, Type: "basic",
			User: &security.ValueReader{Type: "text", Value: "u"}, Password: &security.ValueReader{Type: "text", Value: "p"}})
	case "delprov":
		return sys.tps.DeleteProvider(op.Client)
	}
	return nil
}

func jsonStr(v any) string {
	b, _ := json.Marshal(v)
	return string(b)
}

// c14Snapshot: every read API + job definitions / states / history + clients, ACLs, providers.
func c14Snapshot(s *sdRun, sys *c14Sys) map[string]string {
	snap := map[string]string{}
	st := sys.core.Store
	var names []string
	for _, n := range sys.core.Dsm.GetDatasetNames() {
		names = append(names, n.Name)
	}
	sort.Strings(names)
	snap["datasets|"] = strings.Join(names, ",")
	for _, d := range names {
		ds := sys.core.Dsm.GetDataset(d)
		l, _ := obs.Listing(st, ds, 0)
		sort.Slice(l, func(i, j int) bool { return l[i].ID < l[j].ID })
		snap["dsconfig|"+d] = jsonStr(map[string]any{"proxy": ds.ProxyConfig, "virtual": ds.VirtualDatasetConfig, "publicNamespaces": ds.PublicNamespaces, "isProxy": ds.IsProxy(), "isVirtual": ds.IsVirtual()})
		snap["list|"+d] = jsonStr(l) // includes recorded and internal ids

		res, _ := ds.GetEntities("", 2)
		if res != nil {
			snap["listtoken|"+d] = res.ContinuationToken
		}
		f, tok, _ := obs.Feed(st, ds, 0, nil, false)
		snap["feed|"+d] = jsonStr(f) + fmt.Sprintf(" token=%d", tok)
		lo, tok2, _ := obs.Feed(st, ds, 0, []int{2}, true)
		snap["feedlo|"+d] = jsonStr(lo) + fmt.Sprintf(" token=%d", tok2)
		if d == "core.Dataset" {
			continue
		}
		for _, id := range s.vocab.IDs {
			r, _ := obs.Lookup(st, id, []string{d})
			snap["lookup|"+d+"|"+id] = jsonStr(r)
			for _, p := range append([]string{"*"}, s.vocab.Preds...) {
				o, err := obs.Related(st, id, p, false, []string{d}, 0)
				if err == nil {
					a, b := relAnswer(o)
					snap["out|"+d+"|"+id+"|"+p] = a + " // " + b
				}
				if p != "*" {
					in, err := obs.Related(st, id, p, true, []string{d}, 0)
					if err == nil {
						snap["in|"+d+"|"+id+"|"+p] = strings.Join(model.PairList(in.Set()), ";")
					}
				}
			}
		}
	}
	for _, id := range s.vocab.IDs {
		r, _ := obs.Lookup(st, id, nil)
		snap["lookup|*|"+id] = lookupAnswer(r)
		o, err := obs.Related(st, id, "*", false, nil, 0)
		if err == nil {
			snap["out|*|"+id] = strings.Join(model.PairList(o.Set()), ";")
		}
	}
	snap["namespaces|"] = jsonStr(st.GetGlobalContext(false).Namespaces)
	// the context each dataset hands out with its entities (after the queries above, which themselves introduce the
	// namespaces of the ids they ask for)
	for _, d := range names {
		if res0, err := sys.core.Dsm.GetDataset(d).GetEntities("", 1); err == nil && res0 != nil && res0.Context != nil {
			snap["context|"+d] = jsonStr(res0.Context.Namespaces)
		}
	}
	// jobs
	jl := sys.sched.ListJobs()
	sort.Slice(jl, func(i, j int) bool { return jl[i].ID < jl[j].ID })
	for _, j := range jl {
		snap["job|"+j.ID] = jsonStr(j)
		stt, err := sys.sched.GetJobState(j.ID)
		snap["jobstate|"+j.ID] = jsonStr(stt) + fmt.Sprint(err)
	}
	// the stored sync state of every job id the histories use, defined at the moment or not (a job that is deleted
	// and defined again continues from its stored token)
	for k := 0; k < 3; k++ {
		jid := fmt.Sprintf("job%d", k)
		stt, err := sys.sched.GetJobState(jid)
		snap["syncstate|"+jid] = jsonStr(stt) + fmt.Sprint(err)
	}
	hist := sys.sched.GetJobHistory()
	sort.Slice(hist, func(i, j int) bool { return jsonStr(hist[i]) < jsonStr(hist[j]) })
	snap["jobhistory|"] = jsonStr(hist)
	var sched []string
	for _, e := range sys.sched.GetScheduleEntries().Entries {
		sched = append(sched, e.JobID)
	}
	sort.Strings(sched)
	snap["jobschedule|"] = strings.Join(sched, ",")
	// security
	snap["clients|"] = jsonStr(sys.sec.GetClients())
	snap["acls|"] = jsonStr(sys.sec.GetAllAccessControls())
	pl, _ := sys.pm.ListProviders()
	sort.Slice(pl, func(i, j int) bool { return pl[i].Name < pl[j].Name })
	snap["providers|"] = jsonStr(pl)
	// the providers the running hub would use for outgoing requests (its in-memory view)
	for _, n := range c14ProviderNames {
		_, ok := sys.tps.Get(strings.ToLower(n))
		snap["provider-in-use|"+n] = fmt.Sprint(ok)
	}
	return snap
}
