// Package scen holds the scenario families (workload + online monitors).
package scen

import (
	"fmt"
	"os"
	"path/filepath"
	"sort"

	"github.com/mimiro-io/datahub/internal/verif/out"
)

type Ctx struct {
	Seed    int64
	Cases   int
	Tier    string
	Scratch string
	Out     *out.W
	Args    map[string]string
	Replay  string
	caseDir int
}

func (c *Ctx) Arg(k, def string) string {
	if v, ok := c.Args[k]; ok {
		return v
	}
	return def
}

func (c *Ctx) Has(prop string) bool {
	ps := c.Arg("props", "")
	if ps == "" {
		return true
	}
	for _, p := range splitComma(ps) {
		if p == prop {
			return true
		}
	}
	return false
}

func splitComma(s string) []string {
	var r []string
	cur := ""
	for _, ch := range s {
		if ch == ',' {
			if cur != "" {
				r = append(r, cur)
			}
			cur = ""
		} else {
			cur += string(ch)
		}
	}
	if cur != "" {
		r = append(r, cur)
	}
	return r
}

// NewDir returns a fresh directory under the scratch dir.
func (c *Ctx) NewDir(prefix string) string {
	c.caseDir++
	d := filepath.Join(c.Scratch, fmt.Sprintf("%s-%d-%d", prefix, os.Getpid(), c.caseDir))
	_ = os.RemoveAll(d)
	_ = os.MkdirAll(d, 0o755)
	return d
}

type Scenario func(*Ctx) error

var registry = map[string]Scenario{}

func Register(name string, s Scenario) { registry[name] = s }

func Get(name string) (Scenario, bool) { s, ok := registry[name]; return s, ok }

func Names() []string {
	var r []string
	for k := range registry {
		r = append(r, k)
	}
	sort.Strings(r)
	return r
}
