package scen

// c18multi: completeness monitor for C18 ("dependency tracking re-emits every
// affected main entity").
//
// A MultiSource job (main dataset + declared join paths, in JSON and / or via
// track_queries of a JS transform) writes into an HttpDatasetSink whose remote
// end is a recording loopback server, so every emitted entity is observed.
// History = rounds of writes to main / link / dependency datasets; after every
// round the job is run until a successful run leaves the persisted
// MultiDatasetContinuation unchanged (caught up). No write happens while a run
// is in progress. The reference model (harness/model) computes the REQUIRED
// set of the round with the smallest reading of the statement; only
// under-emission is a violation.

import (
	"encoding/base64"
	"encoding/json"
	"fmt"
	"math/rand"
	"os"
	"runtime"
	"sort"
	"strconv"
	"strings"

	"github.com/mimiro-io/datahub/internal/jobs"
	"github.com/mimiro-io/datahub/internal/verif/gen"
	"github.com/mimiro-io/datahub/internal/verif/model"
	"github.com/mimiro-io/datahub/internal/verif/obs"
	"github.com/mimiro-io/datahub/internal/verif/vh"
)

func init() { Register("c18multi", c18Multi) }

const (
	c18JobID   = "c18job"
	c18Main    = "main"
	c18MaxRuns = 80
)

// ---------- input

type C18Join struct {
	Dataset   string `json:"dataset"`
	Predicate string `json:"predicate"`
	Inverse   bool   `json:"inverse"`
}

type C18Dep struct {
	Dataset string    `json:"dataset"`
	Joins   []C18Join `json:"joins"`
	Via     string    `json:"via"` // json | track | both
}

type C18Write struct {
	DS   string      `json:"ds"`
	Ents []model.Ent `json:"ents"`
}

type C18Case struct {
	Datasets   []string     `json:"datasets"` // creation order
	Deps       []C18Dep     `json:"deps"`
	LatestOnly bool         `json:"latestOnly,omitempty"`
	Batch      int          `json:"batch"`
	FirstRun   string       `json:"firstRun"` // full | incr
	Rounds     [][]C18Write `json:"rounds"`   // round 0 = data present at the first run
	FailRound  int          `json:"failRound,omitempty"`
	FailReq    int          `json:"failReq,omitempty"` // sink answers 400 to this request of the first catch-up run of FailRound
	InRun      *C18InRun    `json:"inRun,omitempty"`
	Tags       []string     `json:"tags"`
}

// C18InRun: one write performed WHILE the first run after the writes of round
// Round is in progress, right after the Hit-th batch of that run was handed to
// the sink (hook points pipeline.incr.afterSink / pipeline.full.afterSink).
type C18InRun struct {
	Round int      `json:"round"`
	Full  bool     `json:"full,omitempty"` // that run is an explicit fullsync run (round >= 1)
	Hit   int      `json:"hit"`
	Write C18Write `json:"write"`
}

// ---------- model side: effective dependencies and the required set

type c18EffDep struct {
	Dataset  string
	Joins    []C18Join
	Implicit bool
}

// c18Effective = declared dependencies plus, for every intermediate join
// dataset other than the main dataset, the remaining tail of the path
// ("implicit dependencies for intermediate join datasets").
func c18Effective(deps []C18Dep) []c18EffDep {
	var out []c18EffDep
	seen := map[string]bool{}
	add := func(d c18EffDep) {
		k := d.Dataset + ">"
		for _, j := range d.Joins {
			k += j.Dataset + "|" + j.Predicate + "|" + strconv.FormatBool(j.Inverse) + ";"
		}
		if !seen[k] {
			seen[k] = true
			out = append(out, d)
		}
	}
	for _, d := range deps {
		add(c18EffDep{Dataset: d.Dataset, Joins: d.Joins})
	}
	for _, d := range deps {
		for i, j := range d.Joins {
			if j.Dataset == c18Main || i == len(d.Joins)-1 {
				continue
			}
			add(c18EffDep{Dataset: j.Dataset, Joins: d.Joins[i+1:], Implicit: true})
		}
	}
	return out
}

func c18Latest(h *model.Hub, ds, id string, asOf int) *model.Version {
	d := h.Live(ds)
	if d == nil {
		return nil
	}
	var r *model.Version
	for _, v := range d.Versions {
		if v.ID == id && (asOf < 0 || v.Commit <= asOf) {
			r = v
		}
	}
	return r
}

// c18Hop: smallest reading. A hop counts only when the reference is carried by
// the latest live version of the referencing entity in its natural dataset
// (non-inverse: `from` in fromDS; inverse: the referencing entity in j.Dataset).
func c18Hop(h *model.Hub, from, fromDS string, j C18Join, asOf int) []string {
	var out []string
	if !j.Inverse {
		v := c18Latest(h, fromDS, from, asOf)
		if v == nil || v.Deleted {
			return nil
		}
		return model.RefTargets(v.Refs[j.Predicate])
	}
	d := h.Live(j.Dataset)
	if d == nil {
		return nil
	}
	for _, v := range d.Latest(asOf) {
		if v.Deleted {
			continue
		}
		for _, t := range model.RefTargets(v.Refs[j.Predicate]) {
			if t == from {
				out = append(out, v.ID)
				break
			}
		}
	}
	return out
}

type c18Witness struct {
	Dep      c18EffDep `json:"dep"`
	Changed  string    `json:"changed"`
	Path     []string  `json:"path"` // changed entity, hop results ..., main entity
	PrevLink bool      `json:"prevLink"`
}

func (w c18Witness) shape() string {
	s := ""
	for _, j := range w.Dep.Joins {
		if j.Inverse {
			s += "i"
		} else {
			s += "o"
		}
	}
	k := "declared"
	if w.Dep.Implicit {
		k = "implicit"
	}
	p := "current-link"
	if w.PrevLink {
		p = "removed-first-hop-link"
	}
	return fmt.Sprintf("%s-dep/%dhop-%s/%s", k, len(w.Dep.Joins), s, p)
}

// c18Required computes, for the dependency entities that changed in this
// round, the main entities the statement requires, each with one witness path.
//
// prevEligible[ds][id]: the change of id was processed by the FIRST run after
// the writes. "As it stood at the previous run" is read literally (weakest
// reading): for a change processed by a later catch-up run, the previous run
// already saw today's graph, so nothing extra is required.
func c18Required(h *model.Hub, eff []c18EffDep, changed map[string]map[string]bool, prevEligible map[string]map[string]bool, prevCommit int) map[string]c18Witness {
	req := map[string]c18Witness{}
	for _, dep := range eff {
		ids := make([]string, 0, len(changed[dep.Dataset]))
		for id := range changed[dep.Dataset] {
			ids = append(ids, id)
		}
		sort.Strings(ids)
		for _, x := range ids {
			type node struct {
				id   string
				path []string
				prev bool
			}
			var frontier []node
			for _, y := range c18Hop(h, x, dep.Dataset, dep.Joins[0], -1) {
				frontier = append(frontier, node{y, []string{x, y}, false})
			}
			if !dep.Joins[0].Inverse && prevCommit > 0 && prevEligible[dep.Dataset][x] {
				cur := map[string]bool{}
				for _, n := range frontier {
					cur[n.id] = true
				}
				for _, y := range c18Hop(h, x, dep.Dataset, dep.Joins[0], prevCommit) {
					if !cur[y] {
						frontier = append(frontier, node{y, []string{x, y}, true})
					}
				}
			}
			for ji := 1; ji < len(dep.Joins); ji++ {
				var next []node
				seen := map[string]bool{}
				for _, n := range frontier {
					for _, y := range c18Hop(h, n.id, dep.Joins[ji-1].Dataset, dep.Joins[ji], -1) {
						if seen[y] {
							continue
						}
						seen[y] = true
						next = append(next, node{y, append(append([]string{}, n.path...), y), n.prev})
					}
				}
				frontier = next
			}
			for _, n := range frontier {
				mv := c18Latest(h, c18Main, n.id, -1)
				if mv == nil || mv.Deleted {
					continue
				}
				if w, ok := req[n.id]; ok && (!w.PrevLink || n.prev) {
					continue // keep the first witness, prefer one over current links
				}
				req[n.id] = c18Witness{Dep: dep, Changed: x, Path: n.path, PrevLink: n.prev}
			}
		}
	}
	return req
}

// ---------- hub side

type c18Run struct {
	ctx   *Ctx
	id    string
	c     C18Case
	env   *c08Env
	m     *model.Hub
	eff   []c18EffDep
	jcfg  *jobs.JobConfiguration
	seen  map[string]bool
	abort bool
	round int

	emptyAtFirst map[string]bool // dependency datasets with an empty feed at the first run
	badToken     map[string]bool // dependency datasets whose token was seen beyond the feed end
	nontrivial   bool
	badAdvance   map[string]string // dependency dataset -> class of "token advanced past an unprocessed change"
	reqs0        map[int]int       // sink requests of the first run of each round
	cov0         map[string]int    // feed entries covered by each dependency token after the first run of the round
	hasTransform bool

	hits0 map[int]int // pipeline afterSink hook hits of the first run of each round
	// write during a run (per round)
	inrunDone    bool
	inrunErr     error
	inrunPos     int                        // accepted sink requests of that run before the write
	inrunCommit  int                        // model commit of the write (0 = stored nothing new)
	inrunChanged map[string]map[string]bool // dataset -> ids that got a new version by it
	emittedAfter map[string]bool            // main ids delivered (accepted requests) after the write
	emittedPre   map[string]bool            // main ids delivered in this round before the write
	inrunClass   string
}

func (s *c18Run) viol(class, msg string, exp, got any, extra map[string]any) {
	if s.seen[class] {
		return
	}
	s.seen[class] = true
	if extra == nil {
		extra = map[string]any{}
	}
	extra["round"] = s.round
	s.ctx.Out.Viol(s.id, "C18", class, msg, exp, got, extra)
}

func c18TrackChain(d C18Dep) string {
	// dependency direction dep -> ... -> main; track_queries is written from main
	s := "reg"
	for i := len(d.Joins) - 1; i >= 0; i-- {
		prev := d.Dataset
		if i > 0 {
			prev = d.Joins[i-1].Dataset
		}
		f := "iHop"
		if d.Joins[i].Inverse {
			f = "hop"
		}
		s += fmt.Sprintf(".%s(%q, %q)", f, prev, d.Joins[i].Predicate)
	}
	return s + ";"
}

func c18JobConfig(c C18Case, baseURL string) map[string]any {
	var jdeps []any
	var track []string
	for _, d := range c.Deps {
		if d.Via == "json" || d.Via == "both" {
			var js []any
			for _, j := range d.Joins {
				js = append(js, map[string]any{"dataset": j.Dataset, "predicate": j.Predicate, "inverse": j.Inverse})
			}
			jdeps = append(jdeps, map[string]any{"dataset": d.Dataset, "joins": js})
		}
		if d.Via == "track" || d.Via == "both" {
			track = append(track, c18TrackChain(d))
		}
	}
	src := map[string]any{"Type": "MultiSource", "Name": c18Main, "LatestOnly": c.LatestOnly}
	if jdeps != nil {
		src["Dependencies"] = jdeps
	}
	cfg := map[string]any{"id": c18JobID, "title": c18JobID, "source": src,
		"sink":      map[string]any{"Type": "HttpDatasetSink", "Url": baseURL + "/datasets/rec/entities"},
		"triggers":  []any{map[string]any{"triggerType": "cron", "jobType": "incremental", "schedule": c08NoCron}, map[string]any{"triggerType": "cron", "jobType": "fullsync", "schedule": c08NoCron}},
		"batchSize": c.Batch}
	if len(track) > 0 {
		js := "function track_queries(reg) {\n" + strings.Join(track, "\n") + "\n}\nfunction transform_entities(entities) { return entities; }\n"
		cfg["transform"] = map[string]any{"Type": "JavascriptTransform", "Code": base64.StdEncoding.EncodeToString([]byte(js))}
	}
	return cfg
}

type c18Tokens struct {
	MainToken        string
	DependencyTokens map[string]struct{ Token string }
}

func (s *c18Run) token() (string, c18Tokens) {
	var t c18Tokens
	st, err := s.env.sched.GetJobState(c18JobID)
	if err != nil || st == nil || st.ContinuationToken == "" {
		return "", t
	}
	_ = json.Unmarshal([]byte(st.ContinuationToken), &t)
	return st.ContinuationToken, t
}

type c18Outcome struct {
	bodies  [][]obs.Rec // entities per accepted request, in order
	hits    int         // pipeline afterSink hook hits
	hung    string
	err     string
	found   bool
	panic   string
	emitted []obs.Rec // entities of accepted requests
	reqs    int
	served  int
}

func (s *c18Run) runOnce(full bool, failAt int) c18Outcome {
	o := c18Outcome{}
	js, err := s.env.sched.VerifC08Jobs(s.jc())
	if err != nil {
		o.err = "harness: " + err.Error()
		return o
	}
	var j *jobs.VerifC08Job
	for _, x := range js {
		if x.IsFullSync() == full {
			j = x
		}
	}
	vh.ResetHits()
	s.env.loop.reset(failAt)
	o.panic, o.hung = c08RunWatched(j, func() { s.env.sched.KillJob(c18JobID) })
	l := s.env.loop
	l.mu.Lock()
	for _, b := range l.bodies {
		o.emitted = append(o.emitted, b...)
	}
	o.bodies = l.bodies
	o.reqs, o.served = l.reqs, l.served400
	l.mu.Unlock()
	h := vh.Hits()
	o.hits = int(h[c08PIncrS] + h[c08PFullS])
	o.found, o.err, _ = s.env.sched.VerifC08LastRun(c18JobID)
	s.ctx.Out.Stat("runs", 1)
	s.ctx.Out.Stat("sink_requests", int64(o.reqs))
	s.ctx.Out.Stat("entities_emitted", int64(len(o.emitted)))
	return o
}

func (s *c18Run) jc() *jobs.JobConfiguration { return s.jcfg }

// checkTokens: no dependency token beyond the end of the dependency's feed.
func (s *c18Run) checkTokens(when string) {
	raw, t := s.token()
	if raw == "" {
		return
	}
	for name, tk := range t.DependencyTokens {
		if tk.Token == "" {
			continue
		}
		n, err := strconv.ParseUint(tk.Token, 10, 64)
		if err != nil {
			continue
		}
		ds := s.env.core.Dsm.GetDataset(name)
		if ds == nil {
			continue
		}
		ch, err := ds.GetChanges(0, 0, false)
		if err != nil {
			continue
		}
		s.ctx.Out.Stat("dep_token_checks", 1)
		if n > ch.NextToken {
			s.badToken[name] = true
			class := "dep-token-beyond-feed-end"
			if s.emptyAtFirst[name] {
				class = "watermark-of-empty-dependency-dataset"
			}
			s.viol(class, fmt.Sprintf("%s: token of dependency dataset %s is %d but its change feed ends at %d (%d changes): the next %d changes of %s will never be processed",
				when, name, n, ch.NextToken, len(ch.Entities), n-ch.NextToken, name), ch.NextToken, n, map[string]any{"token": raw})
		}
	}
}

// catchUp runs the job until a successful run leaves the token unchanged.
// Returns the ids emitted in accepted requests (id -> bodies).
func (s *c18Run) catchUp(first bool, prevCommit int) (map[string][]obs.Rec, bool) {
	emitted := map[string][]obs.Rec{}
	s.cov0 = map[string]int{}
	s.inrunDone, s.inrunErr, s.inrunPos, s.inrunCommit, s.inrunClass = false, nil, 0, 0, ""
	s.inrunChanged, s.emittedAfter, s.emittedPre = map[string]map[string]bool{}, map[string]bool{}, map[string]bool{}
	for n := 0; n < c18MaxRuns; n++ {
		before, _ := s.token()
		covBefore := s.covered()
		full := first && n == 0 && s.c.FirstRun == "full"
		armed := false
		if ir := s.c.InRun; ir != nil && ir.Round == s.round && n == 0 {
			armed = true
			full = full || ir.Full
			s.armInRun(ir)
		}
		failAt := 0
		if !first && n == 0 && s.c.FailRound == s.round {
			failAt = s.c.FailReq
		}
		s.ctx.Out.Begin(s.id, s.round*1000+n, fmt.Sprintf("round %d run %d full=%v failAt=%d", s.round, n, full, failAt))
		o := s.runOnce(full, failAt)
		s.ctx.Out.Ack(s.id, s.round*1000+n, nil)
		if armed {
			vh.Clear(c08PIncrS)
			vh.Clear(c08PFullS)
		}
		if n == 0 {
			s.reqs0[s.round] = o.reqs
			s.hits0[s.round] = o.hits
		}
		for _, r := range o.emitted {
			emitted[r.ID] = append(emitted[r.ID], r)
		}
		if s.inrunErr != nil {
			s.ctx.Out.Inconclusive(s.id, "C18", "write during the run failed: "+s.inrunErr.Error())
			s.abort = true
			return emitted, false
		}
		if s.inrunDone {
			for i, b := range o.bodies {
				for _, r := range b {
					if armed && i < s.inrunPos {
						s.emittedPre[r.ID] = true
					} else {
						s.emittedAfter[r.ID] = true
					}
				}
			}
		} else {
			for _, r := range o.emitted {
				s.emittedPre[r.ID] = true
			}
			if armed {
				s.ctx.Out.Stat("inrun_write_not_reached", 1)
			}
		}
		if os.Getenv("C18_DEBUG") != "" {
			var ids []string
			for _, r := range o.emitted {
				ids = append(ids, r.ID[len(r.ID)-2:])
			}
			tk, _ := s.token()
			fmt.Fprintf(os.Stderr, "round %d run %d full=%v failAt=%d: err=%q reqs=%d emitted=%v token %s -> %s\n", s.round, n, full, failAt, o.err, o.reqs, ids, before, tk)
		}
		if o.hung != "" {
			s.ctx.Out.Emit(map[string]any{"t": "inconclusive", "case": s.id, "prop": "C18", "why": "watchdog: job run did not end (" + o.hung + ")", "goroutines": c08LastDump, "ops": s.c})
			s.abort = true
			if o.hung == "stuck" {
				s.ctx.Out.Close()
				os.Exit(0)
			}
			return emitted, false
		}
		if o.panic != "" {
			s.viol("panic-in-run", "job run panicked (kills the hub process under the cron runner): "+o.panic, nil, nil, nil)
			s.abort = true
			return emitted, false
		}
		if o.served > 0 {
			s.ctx.Out.Stat("sink_failures_injected", 1)
		}
		s.checkTokens(fmt.Sprintf("after run %d of round %d", n, s.round))
		if n == 0 {
			s.cov0 = s.covered()
		}
		if armed && s.inrunDone {
			s.checkInRunToken(full)
		}
		after, _ := s.token()
		if !o.found || o.err != "" {
			if o.served > 0 {
				s.checkAdvance(covBefore, prevCommit, emitted)
				continue // the injected failure: a failed run, go on
			}
			s.viol("fault-free-run-failed", fmt.Sprintf("run without injected fault ended with error %q", o.err), "", o.err, nil)
			s.abort = true
			return emitted, false
		}
		if armed && s.inrunDone {
			continue // the graph changed while this run was going on: only a run that started afterwards can tell "caught up"
		}
		if after == before && !(first && n == 0) {
			s.ctx.Out.StatMax("max:runs_to_fixpoint", int64(n+1))
			return emitted, true
		}
	}
	s.ctx.Out.Inconclusive(s.id, "C18", "watchdog: tokens did not reach a fixpoint within the run budget")
	s.abort = true
	return emitted, false
}

// runKind names the kind of run a write happened in.
func (s *c18Run) runKind() string {
	ir := s.c.InRun
	switch {
	case ir == nil:
		return ""
	case ir.Round == 0 && s.c.FirstRun == "full":
		return "first-run-fullsync"
	case ir.Round == 0:
		return "first-run-implicit-fullsync"
	case ir.Full:
		return "explicit-fullsync"
	}
	return "incremental"
}

// armInRun registers the write on both pipeline hook points: it is performed
// by the job's own goroutine right after the Hit-th batch of this run was
// accepted by the sink, i.e. between two batches. Deterministic, no sleeping.
func (s *c18Run) armInRun(ir *C18InRun) {
	cnt := 0
	fn := func(string, int64) {
		cnt++
		if cnt != ir.Hit || s.inrunDone {
			return
		}
		s.inrunDone = true
		l := s.env.loop
		l.mu.Lock()
		s.inrunPos = len(l.bodies)
		l.mu.Unlock()
		s.ctx.Out.Begin(s.id, s.round*1000+800, fmt.Sprintf("write %s during the run, after batch %d", ir.Write.DS, ir.Hit))
		err := StoreBatch(s.env.core, ir.Write.DS, ir.Write.Ents, false)
		s.ctx.Out.Ack(s.id, s.round*1000+800, err)
		if err != nil {
			s.inrunErr = err
			return
		}
		for _, idx := range s.m.Apply(ir.Write.DS, ir.Write.Ents) {
			if s.inrunChanged[ir.Write.DS] == nil {
				s.inrunChanged[ir.Write.DS] = map[string]bool{}
			}
			s.inrunChanged[ir.Write.DS][ir.Write.Ents[idx].ID] = true
			s.inrunCommit = s.m.Commit
		}
		s.ctx.Out.Stat("inrun_writes", 1)
		s.ctx.Out.Stat("inrun_writes:"+s.runKind(), 1)
	}
	vh.OnPoint(c08PIncrS, 0, fn)
	vh.OnPoint(c08PFullS, 0, fn)
}

// inRunRequired: main entities connected NOW (the write was the last change of
// the round) to an entity the in-run write changed, or changed by it themselves.
func (s *c18Run) inRunRequired() map[string]c18Witness {
	req := c18Required(s.m, s.eff, s.inrunChanged, nil, 0)
	for id := range s.inrunChanged[c18Main] {
		if _, ok := req[id]; !ok {
			req[id] = c18Witness{Changed: id, Path: []string{id}}
		}
	}
	return req
}

// onInRunPath: does the witness path contain an entity that the in-run write changed?
func (s *c18Run) onInRunPath(w c18Witness) bool {
	if !s.inrunDone {
		return false
	}
	for _, id := range w.Path {
		for _, ids := range s.inrunChanged {
			if ids[id] {
				return true
			}
		}
	}
	return false
}

// checkInRunToken, right after the run the write happened in: a dependency
// token that has moved past the change written during the run means "processed";
// then the connected main entities must have been delivered after the write.
func (s *c18Run) checkInRunToken(full bool) {
	cov := s.covered()
	for ds, ids := range s.inrunChanged {
		d := s.m.Live(ds)
		if d == nil || ds == c18Main {
			continue
		}
		passed := map[string]map[string]bool{ds: {}}
		for _, v := range d.Versions {
			if v.Commit == s.inrunCommit && ids[v.ID] && v.Seq < cov[ds] {
				passed[ds][v.ID] = true
			}
		}
		if len(passed[ds]) == 0 {
			continue
		}
		s.ctx.Out.Stat("inrun_token_passed_checks", 1)
		req := c18Required(s.m, s.eff, passed, nil, 0)
		for _, id := range sortedKeys(req) {
			if s.emittedAfter[id] {
				continue
			}
			w := req[id]
			s.inrunClass = "dep-token-past-change-written-during-run/" + s.runKind()
			raw, _ := s.token()
			s.viol(s.inrunClass, fmt.Sprintf("round %d: %s of dependency dataset %s was written while the %s run was in progress (after batch %d); the run ended with the token of %s at feed position %d, past that change, but main entity %s (path %v via %v) was not delivered after the write",
				s.round, w.Changed, ds, s.runKind(), s.c.InRun.Hit, ds, cov[ds], id, w.Path, w.Dep.Joins), id, sortedKeys(s.emittedAfter), map[string]any{"witness": w, "token": raw})
			return
		}
	}
}

// checkInRunEnd, at the token fixpoint: everything connected to what the
// in-run write changed has been delivered after the write.
func (s *c18Run) checkInRunEnd() {
	if !s.inrunDone {
		return
	}
	req := s.inRunRequired()
	redelivery := 0
	for _, id := range sortedKeys(req) {
		s.ctx.Out.Stat("inrun_required_checked", 1)
		if s.emittedPre[id] {
			redelivery++
		}
		if s.emittedAfter[id] {
			continue
		}
		w := req[id]
		class := "missed-after-write-during-run/" + s.runKind()
		if s.inrunClass != "" {
			class = s.inrunClass
		} else if len(w.Path) > 1 {
			if c3 := s.viaC03(w); c3 != "" {
				class = "via-C03-incoming"
				s.ctx.Out.Stat("via_C03:"+c3, 1)
			}
		}
		raw, _ := s.token()
		s.viol(class, fmt.Sprintf("round %d: %s of dataset %s was written while the %s run was in progress (after batch %d); main entity %s (path %v) was never delivered after that write although the tokens stopped moving",
			s.round, w.Changed, s.c.InRun.Write.DS, s.runKind(), s.c.InRun.Hit, id, w.Path), id, sortedKeys(s.emittedAfter), map[string]any{"witness": w, "token": raw, "delivered_before_write": s.emittedPre[id]})
	}
	if redelivery > 0 {
		s.nontrivial = true
		s.ctx.Out.Stat("inrun_redelivery_demanded", int64(redelivery))
		s.ctx.Out.Stat("inrun_cases_with_redelivery:"+s.runKind(), 1)
	}
}

func sortedKeys[V any](m map[string]V) []string {
	r := make([]string, 0, len(m))
	for k := range m {
		r = append(r, k)
	}
	sort.Strings(r)
	return r
}

// sameDatasetDeps: how many effective dependencies start from dataset ds.
func (s *c18Run) sameDatasetDeps(ds string) int {
	n := 0
	for _, e := range s.eff {
		if e.Dataset == ds {
			n++
		}
	}
	return n
}

// classifyPrevMiss names the input class of a missed "removed first-hop link".
// The hub finds the old link by asking the relation index "as of the recorded
// time of the feed entry just before the current page of dependency changes".
//
//	page-splits-write-batch: with exact (per feed entry) time that question
//	  would show the old link, but the entry before the page belongs to the
//	  same write batch as the change that removed the link (one timestamp per
//	  batch), so the old state is invisible;
//	several-dependencies-on-dataset: the time-stamp question would show the
//	  link, but two or more (declared or implicit) dependencies start from
//	  this dataset and share one token;
//	other: none of the above.
func (s *c18Run) classifyPrevMiss(w c18Witness, prevCommit int) string {
	d := s.m.Live(w.Dep.Dataset)
	if d == nil {
		return "removed-link-other"
	}
	roundStart := 0
	for _, v := range d.Versions {
		if v.Commit <= prevCommit {
			roundStart++
		}
	}
	hasLink := func(v *model.Version) bool {
		if v == nil || v.Deleted {
			return false
		}
		for _, t := range model.RefTargets(v.Refs[w.Dep.Joins[0].Predicate]) {
			if t == w.Path[1] {
				return true
			}
		}
		return false
	}
	// pages of dependency changes as the reader cuts them: `batch` entries per page, a latest-only
	// reader counts (and is triggered by) the newest version of an entity only
	lastSeq := map[string]int{}
	for _, v := range d.Versions {
		lastSeq[v.ID] = v.Seq
	}
	counts := func(v *model.Version) bool { return !s.c.LatestOnly || v.Seq == lastSeq[v.ID] }
	pageStartOf := map[int]int{}
	start, n := roundStart, 0
	for seq := roundStart; seq < len(d.Versions); seq++ {
		pageStartOf[seq] = start
		if counts(d.Versions[seq]) {
			n++
		}
		if n == s.c.Batch {
			start, n = seq+1, 0
		}
	}
	hubSees, idealSees := false, false
	for _, v := range d.Versions {
		if v.ID != w.Changed || v.Commit <= prevCommit || !counts(v) {
			continue
		}
		pageStart := pageStartOf[v.Seq]
		if pageStart == 0 {
			continue
		}
		before := d.Versions[pageStart-1]
		// state of x as the hub's back-dated question sees it: everything recorded up to and including before's batch
		if hasLink(c18Latest(s.m, w.Dep.Dataset, w.Changed, before.Commit)) {
			hubSees = true
		}
		var last *model.Version
		for _, u := range d.Versions[:pageStart] {
			if u.ID == w.Changed {
				last = u
			}
		}
		if hasLink(last) {
			idealSees = true
		}
	}
	switch {
	case idealSees && !hubSees:
		return "removed-link-page-splits-write-batch"
	case s.sameDatasetDeps(w.Dep.Dataset) > 1:
		return "removed-link-several-dependencies-on-dataset"
	}
	if s.c.LatestOnly && !hubSees {
		// latest-only reader: the version that removed the link is superseded (never triggers), the newest
		// version sits in a later page of the same catch-up, and the back-dated question is asked relative
		// to the previous PAGE, where the link is already gone
		newest := -1
		for _, v := range d.Versions {
			if v.ID == w.Changed {
				newest = v.Seq
			}
		}
		for _, v := range d.Versions {
			if v.ID == w.Changed && v.Commit > prevCommit && v.Seq != newest && v.Seq < pageStartOf[newest] {
				return "removed-link-latestOnly-superseded-version-in-earlier-page"
			}
		}
	}
	// the entity still has at least `batch` first-hop links: its current-time relation query is paged, and the
	// back-dated query is issued after that paging
	if cur := c18Latest(s.m, w.Dep.Dataset, w.Changed, -1); cur != nil && !cur.Deleted && hubSees &&
		len(model.RefTargets(cur.Refs[w.Dep.Joins[0].Predicate])) >= s.c.Batch {
		return "removed-link-after-paged-current-query"
	}
	return "removed-link-other"
}

// checkAdvance is the direct monitor of "dependency tokens only advance past
// changes that were processed", evaluated after a FAILED run: every change of
// a dependency dataset that the persisted token has newly moved past must
// have had its currently connected main entities delivered in this round.
func (s *c18Run) checkAdvance(covBefore map[string]int, prevCommit int, emitted map[string][]obs.Rec) {
	cov := s.covered()
	for ds, n := range cov {
		d := s.m.Live(ds)
		if d == nil || n <= covBefore[ds] || n > len(d.Versions) {
			continue
		}
		changed := map[string]map[string]bool{ds: {}}
		lastSeq := map[string]int{}
		for _, v := range d.Versions {
			lastSeq[v.ID] = v.Seq
		}
		for _, v := range d.Versions[covBefore[ds]:n] {
			if s.c.LatestOnly && v.Seq != lastSeq[v.ID] {
				continue // a latest-only reader legitimately passes over a superseded version; the newest one is still ahead
			}
			changed[ds][v.ID] = true
		}
		s.ctx.Out.Stat("advance_checks_after_failed_run", 1)
		req := c18Required(s.m, s.eff, changed, nil, 0)
		ids := make([]string, 0, len(req))
		for id := range req {
			ids = append(ids, id)
		}
		sort.Strings(ids)
		for _, id := range ids {
			if len(emitted[id]) > 0 {
				continue
			}
			w := req[id]
			class := "dep-token-advanced-past-undelivered-change/single-dependency-on-dataset"
			if s.sameDatasetDeps(ds) > 1 {
				class = "dep-token-advanced-past-undelivered-change/several-dependencies-on-dataset"
			}
			s.badAdvance[ds] = class
			raw, _ := s.token()
			s.viol(class, fmt.Sprintf("round %d: the run failed (sink answered 400), yet the persisted token of dependency dataset %s moved from feed position %d to %d, past the change of %s; main entity %s (path %v via %v) had not been delivered",
				s.round, ds, covBefore[ds], n, w.Changed, id, w.Path, w.Dep.Joins), id, keysOf(emitted), map[string]any{"witness": w, "token": raw})
			break
		}
	}
}

// covered returns, per dependency dataset, how many entries of its change feed
// lie before the persisted dependency token (asked from the hub: feed minus the
// tail that GetChanges returns from the token).
func (s *c18Run) covered() map[string]int {
	r := map[string]int{}
	_, t := s.token()
	for name, tk := range t.DependencyTokens {
		n, err := strconv.ParseUint(tk.Token, 10, 64)
		if err != nil {
			continue
		}
		ds := s.env.core.Dsm.GetDataset(name)
		if ds == nil {
			continue
		}
		full, err1 := ds.GetChanges(0, 0, false)
		tail, err2 := ds.GetChanges(n, 0, false)
		if err1 != nil || err2 != nil || len(tail.Entities) > len(full.Entities) {
			continue
		}
		r[name] = len(full.Entities) - len(tail.Entities)
	}
	return r
}

// viaC03: is a missed entity explained by a mis-reported incoming hop of the
// store (open C03 findings)? Re-asks every inverse hop of the witness path.
func (s *c18Run) viaC03(w c18Witness) string {
	prevDS := w.Dep.Dataset
	for i, j := range w.Dep.Joins {
		from, to := w.Path[i], w.Path[i+1]
		scope := []string{prevDS, j.Dataset}
		prevDS = j.Dataset
		if !j.Inverse {
			continue
		}
		want := s.m.Related(from, j.Predicate, true, scope, -1)
		for _, limit := range []int{0, s.c.Batch} {
			got, err := obs.Related(s.env.core.Store, from, j.Predicate, true, scope, limit)
			if err != nil {
				continue
			}
			gs := got.Set()
			if gs[model.Pair{Pred: j.Predicate, Other: to}] && len(got.DupPairs()) == 0 {
				continue
			}
			mis := model.SymDiff(want, gs)
			mis = append(mis, got.DupPairs()...)
			if c := s.m.ClassifyIncoming(from, j.Predicate, scope, -1, limit > 0, mis); c != "" {
				return c
			}
		}
	}
	return ""
}

func (s *c18Run) execute() {
	c := s.c
	s.env = c08Open(s.ctx.NewDir("c18"), true)
	defer func() {
		dir := s.env.core.Env.StoreLocation
		s.env.Close()
		os.RemoveAll(dir)
		runtime.GC() // every case opens a store with large arenas; keep the child's footprint flat
	}()
	for _, d := range c.Datasets {
		if _, err := s.env.core.Dsm.CreateDataset(d, nil); err != nil {
			s.ctx.Out.Inconclusive(s.id, "C18", "create dataset: "+err.Error())
			return
		}
		s.m.Create(d)
	}
	prevCommit := 0
	for k, round := range c.Rounds {
		s.round = k
		changed := map[string]map[string]bool{}
		for wi, w := range round {
			s.ctx.Out.Begin(s.id, k*1000+900+wi, "write "+w.DS)
			err := StoreBatch(s.env.core, w.DS, w.Ents, false)
			s.ctx.Out.Ack(s.id, k*1000+900+wi, err)
			if err != nil {
				s.ctx.Out.Inconclusive(s.id, "C18", "write failed: "+err.Error())
				return
			}
			for _, idx := range s.m.Apply(w.DS, w.Ents) {
				if changed[w.DS] == nil {
					changed[w.DS] = map[string]bool{}
				}
				changed[w.DS][w.Ents[idx].ID] = true
			}
			s.ctx.Out.Stat("writes", 1)
		}
		if k == 0 {
			// the job is created when the first data is there (predicates must not be required to exist)
			jc, err := s.env.addJob(c18JobConfig(c, s.env.srv.URL))
			if err != nil {
				s.ctx.Out.Inconclusive(s.id, "C18", "add job: "+err.Error())
				return
			}
			s.jcfg = jc
			for _, e := range s.eff {
				if d := s.m.Live(e.Dataset); d != nil && len(d.Versions) == 0 {
					s.emptyAtFirst[e.Dataset] = true
				}
			}
		}
		emitted, ok := s.catchUp(k == 0, prevCommit)
		if !ok {
			return
		}
		s.ctx.Out.Stat("rounds", 1)
		s.checkInRunEnd()
		for ds, ids := range s.inrunChanged {
			for id := range ids {
				if changed[ds] == nil {
					changed[ds] = map[string]bool{}
				}
				changed[ds][id] = true
			}
		}
		// required set of this round
		req := map[string]c18Witness{}
		if k > 0 {
			// changes processed by the first run of the round (their feed index lies before the token that run persisted)
			prevEligible := map[string]map[string]bool{}
			for ds, ids := range changed {
				d := s.m.Live(ds)
				prevEligible[ds] = map[string]bool{}
				lastSeq := map[string]int{}
				for _, v := range d.Versions {
					lastSeq[v.ID] = v.Seq
				}
				for _, v := range d.Versions {
					if c.LatestOnly && v.Seq != lastSeq[v.ID] {
						continue // a latest-only reader is triggered by the newest version only
					}
					if s.inrunCommit != 0 && v.Commit == s.inrunCommit {
						continue // "previous run" is not defined for a change written during a run: current links only
					}
					if v.Commit > prevCommit && ids[v.ID] && v.Seq < s.cov0[ds] {
						prevEligible[ds][v.ID] = true
					}
				}
			}
			req = c18Required(s.m, s.eff, changed, prevEligible, prevCommit)
		}
		nDepReached := 0
		for id := range req {
			if !changed[c18Main][id] {
				nDepReached++
			}
		}
		if nDepReached > 0 {
			s.nontrivial = true
			s.ctx.Out.Stat("rounds_with_dependency_reach", 1)
		}
		s.ctx.Out.Stat("required_via_dependency", int64(len(req)))
		s.ctx.Out.Stat("required_unchanged_main", int64(nDepReached))
		// main entities that changed themselves
		for id := range changed[c18Main] {
			if _, ok := req[id]; !ok {
				req[id] = c18Witness{Changed: id, Path: []string{id}}
			}
		}
		ids := make([]string, 0, len(req))
		for id := range req {
			ids = append(ids, id)
		}
		sort.Strings(ids)
		for _, id := range ids {
			s.ctx.Out.Stat("required_checked", 1)
			if len(emitted[id]) > 0 {
				continue
			}
			w := req[id]
			if len(w.Path) == 1 {
				s.viol("changed-main-entity-not-emitted", fmt.Sprintf("main entity %s changed in round %d and was never emitted before the tokens stopped moving", id, k), id, keysOf(emitted), nil)
				continue
			}
			class := "missed-main-entity/" + w.shape()
			if s.badToken[w.Dep.Dataset] {
				class = "dep-token-beyond-feed-end"
				if s.emptyAtFirst[w.Dep.Dataset] {
					class = "watermark-of-empty-dependency-dataset"
				}
			} else if s.badAdvance[w.Dep.Dataset] != "" {
				class = s.badAdvance[w.Dep.Dataset]
			} else if s.onInRunPath(w) {
				// the connection runs over an entity written while a run was in progress: same failure as the in-run check reports
				class = "missed-after-write-during-run/" + s.runKind()
				if s.inrunClass != "" {
					class = s.inrunClass
				}
			} else if c3 := s.viaC03(w); c3 != "" {
				class = "via-C03-incoming"
				s.ctx.Out.Stat("via_C03:"+c3, 1)
			} else if w.PrevLink {
				cause := s.classifyPrevMiss(w, prevCommit)
				class = "missed-main-entity/" + cause
				if strings.HasSuffix(cause, "-other") {
					class += "/" + w.shape()
				}
			}
			raw, _ := s.token()
			s.viol(class, fmt.Sprintf("round %d: %s of dependency dataset %s changed; main entity %s is connected to it through %v (path %v) and was not emitted before the tokens stopped moving",
				k, w.Changed, w.Dep.Dataset, id, w.Dep.Joins, w.Path), id, keysOf(emitted), map[string]any{"witness": w, "token": raw})
		}
		// emitted entities always come from the main dataset
		md := s.m.Live(c18Main)
		for id, recs := range emitted {
			s.ctx.Out.Stat("emitted_checked", int64(len(recs)))
			var versions []*model.Version
			for _, v := range md.Versions {
				if v.ID == id {
					versions = append(versions, v)
				}
			}
			if len(versions) == 0 {
				s.viol("emitted-entity-not-in-main", fmt.Sprintf("emitted entity %s has no version in the main dataset", id), nil, recs[0].Ent, nil)
				continue
			}
			if s.hasTransform {
				continue // bodies pass through the JS engine: compare ids only
			}
			for _, r := range recs {
				okBody := false
				e := r.Ent
				for _, v := range versions {
					if v.Deleted == e.Deleted && model.SameContent(&v.Ent, &e) {
						okBody = true
						break
					}
				}
				if !okBody {
					var want []string
					for _, v := range versions {
						want = append(want, model.CanonString(&v.Ent))
					}
					s.viol("emitted-body-not-a-main-version", fmt.Sprintf("emitted body of %s equals no version of it in the main dataset (merged with another dataset's partial?)", id), want, model.CanonString(&e), nil)
					break
				}
			}
		}
		prevCommit = s.m.Commit
		if s.abort {
			return
		}
	}
}

func keysOf(m map[string][]obs.Rec) []string {
	r := make([]string, 0, len(m))
	for k := range m {
		r = append(r, k)
	}
	sort.Strings(r)
	return r
}

// ---------- generation

func c18ID(pool string, i int) string { return fmt.Sprintf("%s%s%d", gen.NsA, pool, i) }

// c18Gen returns a history and, per round, one spare write (same generators, not part of the history) that a
// derived case performs while the first run after that round's writes is in progress.
func c18Gen(r *rand.Rand) (C18Case, []C18Write) {
	c := C18Case{Batch: []int{1, 1, 1, 2, 2, 3, 4, 5}[r.Intn(8)], LatestOnly: r.Intn(4) == 0, FirstRun: []string{"full", "incr"}[r.Intn(2)]}
	tags := map[string]bool{}
	pools := map[string]string{c18Main: "m", "dep": "d", "dep2": "c", "l1": "a", "l2": "b"}
	used := map[string]bool{c18Main: true}
	pred := func(i int) string { return fmt.Sprintf("%sp%d", gen.NsR, i) }
	mkChain := func(depName string, hops int) C18Dep {
		d := C18Dep{Dataset: depName}
		used[depName] = true
		links := []string{"l1", "l2"}
		if r.Intn(2) == 0 {
			links = []string{"l2", "l1"}
		}
		// hierarchy shape: the two intermediate hops of a 3-hop path stay inside one dataset (office -> sub-office), so
		// an entity reached at level 1 is often reached again at level 2
		hier := hops == 3 && r.Intn(3) == 0
		if hier {
			tags["two-intermediate-hops-in-one-dataset"] = true
		}
		for h := 0; h < hops; h++ {
			ds := c18Main
			if h < hops-1 {
				ds = links[h%2]
				if hier {
					ds = links[0]
				}
				if hops == 3 && h == 0 && !hier && r.Intn(3) == 0 {
					ds = c18Main // path through the main dataset
					tags["through-main"] = true
				}
				used[ds] = true
			}
			p := pred(1 + h)
			if h > 0 && r.Intn(6) == 0 {
				p = pred(1) // same predicate on two hops
			}
			d.Joins = append(d.Joins, C18Join{Dataset: ds, Predicate: p, Inverse: r.Intn(2) == 0})
		}
		return d
	}
	hops := []int{1, 1, 2, 2, 2, 3, 3}[r.Intn(7)]
	// fan-out shape: an OUTGOING first join, a dependency entity with more first-hop links than the batch size
	// (so that the current-time relation query of that entity is paged), and one of those links removed later
	fan := r.Intn(5) == 0
	if fan {
		hops = []int{1, 1, 1, 2, 2}[r.Intn(5)]
		c.Batch = 1 + r.Intn(2)
	}
	c.Deps = append(c.Deps, mkChain("dep", hops))
	if fan {
		c.Deps[0].Joins[0].Inverse = false
		tags["fan-out-paged-first-hop"] = true
	}
	if r.Intn(10) < 3 {
		name := "dep2"
		if r.Intn(2) == 0 {
			name = "dep"
		}
		d2 := mkChain(name, 1+r.Intn(2))
		for i := range d2.Joins {
			d2.Joins[i].Predicate = pred(4 + i)
		}
		c.Deps = append(c.Deps, d2)
		tags["two-deps"] = true
	}
	// sandwich shape: two join paths start from the SAME dependency dataset and a dependency on another dataset is
	// declared between them; later rounds mostly leave `dep` alone (no unprocessed changes when its first path is
	// evaluated), while the write-during-run cases mostly write to `dep` (during the batches of the one in between)
	sandwich := !fan && len(c.Deps) == 1 && r.Intn(6) == 0
	if sandwich {
		a := mkChain("dep", 1)
		x := mkChain("dep2", 1)
		x.Joins[0].Predicate = pred(4)
		b := mkChain("dep", 1)
		b.Joins[0].Predicate = pred(6)
		c.Deps = []C18Dep{a, x, b}
		tags["two-deps"] = true
		tags["same-dataset-paths-around-another-dependency"] = true
	}
	switch k := r.Intn(20); {
	case k < 11:
		for i := range c.Deps {
			c.Deps[i].Via = "json"
		}
	case k < 17:
		for i := range c.Deps {
			c.Deps[i].Via = "track"
		}
		tags["track_queries"] = true
	default:
		for i := range c.Deps {
			c.Deps[i].Via = []string{"json", "track", "both"}[(i+2)%3]
		}
		if len(c.Deps) == 1 {
			c.Deps[0].Via = "both"
		}
		tags["track_queries"] = true
	}
	for ds := range used {
		c.Datasets = append(c.Datasets, ds)
	}
	sort.Strings(c.Datasets)
	r.Shuffle(len(c.Datasets), func(i, j int) { c.Datasets[i], c.Datasets[j] = c.Datasets[j], c.Datasets[i] })
	tags[fmt.Sprintf("hops:%d", hops)] = true
	dirs := ""
	for _, j := range c.Deps[0].Joins {
		if j.Inverse {
			dirs += "i"
		} else {
			dirs += "o"
		}
	}
	tags["dirs:"+dirs] = true

	// which refs does an entity of dataset X carry? (X is the referencing side of a hop)
	type refSpec struct{ pred, pool string }
	refsOf := map[string][]refSpec{}
	for _, d := range c.Deps {
		prev := d.Dataset
		for _, j := range d.Joins {
			if j.Inverse {
				refsOf[j.Dataset] = append(refsOf[j.Dataset], refSpec{j.Predicate, pools[prev]})
			} else {
				refsOf[prev] = append(refsOf[prev], refSpec{j.Predicate, pools[j.Dataset]})
			}
			prev = j.Dataset
		}
	}
	nIDs := 3 + r.Intn(2)
	if fan {
		nIDs = 4
	}
	cur := map[string]model.Ent{}
	mkEnt := func(ds string) model.Ent {
		pool := pools[ds]
		id := c18ID(pool, r.Intn(nIDs))
		if r.Intn(12) == 0 { // an id of another dataset's pool also stored here (shadow partial)
			other := c.Datasets[r.Intn(len(c.Datasets))]
			id = c18ID(pools[other], r.Intn(nIDs))
			tags["shadow-id"] = true
		}
		key := ds + "|" + id
		prev, had := cur[key]
		e := model.Ent{ID: id, Props: map[string]any{}, Refs: map[string]any{}}
		switch k := r.Intn(20); {
		case had && k == 0: // identical rewrite
			e = gen.Clone(prev)
		case had && k < 3: // delete
			e = gen.Clone(prev)
			e.Deleted = true
			tags["delete"] = true
		case had && k < 7: // drop all links
			e = gen.Clone(prev)
			e.Deleted = false
			e.Refs = map[string]any{}
			e.Props[gen.NsP+"k0"] = float64(r.Intn(50))
			tags["unlink"] = true
		default:
			e.Props[gen.NsP+"k0"] = float64(r.Intn(50))
			if r.Intn(3) == 0 {
				e.Props[gen.NsP+"k1"] = []string{"x", "abc", "æøå"}[r.Intn(3)]
			}
			for _, rs := range refsOf[ds] {
				if r.Intn(10) < 7 {
					if r.Intn(4) == 0 {
						var arr []any
						for _, i := range r.Perm(nIDs)[:2+r.Intn(2)] {
							arr = append(arr, c18ID(rs.pool, i))
						}
						e.Refs[rs.pred] = arr
						continue
					}
					e.Refs[rs.pred] = c18ID(rs.pool, r.Intn(nIDs))
				}
			}
			if had {
				tags["rewire-or-change"] = true
			}
		}
		e = model.NormEnt(e)
		cur[key] = e
		return e
	}
	var spares []C18Write
	mkSpare := func() {
		savedCur := map[string]model.Ent{}
		for k, v := range cur {
			savedCur[k] = v
		}
		savedTags := map[string]bool{}
		for k := range tags {
			savedTags[k] = true
		}
		var ds string
		for {
			ds = c.Datasets[r.Intn(len(c.Datasets))]
			if sandwich && r.Intn(10) < 7 {
				ds = "dep"
			}
			if ds != c18Main || r.Intn(6) == 0 {
				break
			}
		}
		var ents []model.Ent
		for i, n := 0, 1+r.Intn(2); i < n; i++ {
			ents = append(ents, mkEnt(ds))
		}
		spares = append(spares, C18Write{DS: ds, Ents: ents})
		cur = savedCur
		for k := range tags {
			if !savedTags[k] {
				delete(tags, k)
			}
		}
	}
	// datasets left empty at the first run
	empty := map[string]bool{}
	if r.Intn(4) == 0 {
		var cands []string
		for _, ds := range c.Datasets {
			if ds != c18Main {
				cands = append(cands, ds)
			}
		}
		pick := cands[r.Intn(len(cands))]
		if !(fan && pick == "dep") {
			empty[pick] = true
			tags["empty-at-first-run"] = true
		}
	}
	fanID, fanPred := c18ID(pools["dep"], 0), c.Deps[0].Joins[0].Predicate
	fanPool := pools[c.Deps[0].Joins[0].Dataset]
	// round 0: every non-empty dataset gets data
	var r0 []C18Write
	for _, ds := range c.Datasets {
		if empty[ds] {
			continue
		}
		n := 2 + r.Intn(3)
		var ents []model.Ent
		for i := 0; i < n; i++ {
			ents = append(ents, mkEnt(ds))
		}
		r0 = append(r0, C18Write{DS: ds, Ents: ents})
	}
	r.Shuffle(len(r0), func(i, j int) { r0[i], r0[j] = r0[j], r0[i] })
	if fan {
		// every main entity exists, and d0 links to batch+2 first-hop targets
		var ms []model.Ent
		for i := 0; i < nIDs; i++ {
			id := c18ID(pools[c18Main], i)
			if _, ok := cur[c18Main+"|"+id]; !ok {
				e := model.NormEnt(model.Ent{ID: id, Props: map[string]any{gen.NsP + "k0": float64(r.Intn(50))}, Refs: map[string]any{}})
				cur[c18Main+"|"+id] = e
				ms = append(ms, e)
			}
		}
		if len(ms) > 0 {
			r0 = append(r0, C18Write{DS: c18Main, Ents: ms})
		}
		var arr []any
		for _, i := range r.Perm(nIDs)[:c.Batch+2] {
			arr = append(arr, c18ID(fanPool, i))
		}
		e := model.NormEnt(model.Ent{ID: fanID, Props: map[string]any{gen.NsP + "k0": float64(r.Intn(50))}, Refs: map[string]any{fanPred: arr}})
		cur["dep|"+fanID] = e
		r0 = append(r0, C18Write{DS: "dep", Ents: []model.Ent{e}})
	}
	c.Rounds = append(c.Rounds, r0)
	mkSpare()
	nr := 2 + r.Intn(3)
	for k := 0; k < nr; k++ {
		var rd []C18Write
		if fan && (k == 0 || r.Intn(2) == 0) {
			// first write of the round: d0 loses one of its first-hop links, more than `batch` links stay
			if prev, ok := cur["dep|"+fanID]; ok && !prev.Deleted {
				if arr, ok := prev.Refs[fanPred].([]any); ok && len(arr) >= c.Batch+2 {
					e := gen.Clone(prev)
					drop := r.Intn(len(arr))
					var rest []any
					for i, t := range arr {
						if i != drop {
							rest = append(rest, t)
						}
					}
					e.Refs[fanPred] = rest
					e.Props[gen.NsP+"k0"] = float64(50 + r.Intn(50))
					e = model.NormEnt(e)
					cur["dep|"+fanID] = e
					rd = append(rd, C18Write{DS: "dep", Ents: []model.Ent{e}})
					tags["one-of-many-links-removed"] = true
				}
			}
		}
		nb := 1 + r.Intn(3)
		for b := 0; b < nb; b++ {
			var ds string
			for {
				ds = c.Datasets[r.Intn(len(c.Datasets))]
				if sandwich && r.Intn(10) < 7 {
					ds = "dep2" // keeps `dep` without unprocessed changes and gives the dependency in between something to deliver
				}
				if ds != c18Main || r.Intn(3) == 0 {
					break
				}
			}
			n := 1 + r.Intn(4)
			var ents []model.Ent
			for i := 0; i < n; i++ {
				ents = append(ents, mkEnt(ds))
			}
			rd = append(rd, C18Write{DS: ds, Ents: ents})
		}
		c.Rounds = append(c.Rounds, rd)
		mkSpare()
	}
	if c.LatestOnly {
		tags["latestOnly"] = true
	}
	for t := range tags {
		c.Tags = append(c.Tags, t)
	}
	sort.Strings(c.Tags)
	return c, spares
}

// ---------- entry point

func c18Multi(ctx *Ctx) error {
	if ctx.Replay != "" {
		b, err := os.ReadFile(ctx.Replay)
		if err != nil {
			return err
		}
		var w struct {
			Ops C18Case `json:"ops"`
		}
		if err := json.Unmarshal(b, &w); err != nil {
			return err
		}
		c18RunCase(ctx, w.Ops)
		return nil
	}
	r := rand.New(rand.NewSource(ctx.Seed))
	maxFaults := 3
	if ctx.Tier == "thorough" {
		maxFaults = 1 << 30
	}
	for n := 0; n < ctx.Cases; n++ {
		c, spares := c18Gen(r)
		reqs0, hits0, ok := c18RunCase(ctx, c)
		ctx.Out.Stat("histories", 1)
		if !ok {
			continue
		}
		c18InRunCases(ctx, c, spares, hits0, rand.New(rand.NewSource(ctx.Seed*104729+int64(n))))
		// fault enumeration on top of the history: the sink refuses the k-th request of the first
		// catch-up run of the round that made most requests (measured by the fault-free execution)
		best, bestN := 0, 1
		for k := 1; k < len(c.Rounds); k++ {
			if reqs0[k] > bestN {
				best, bestN = k, reqs0[k]
			}
		}
		if best == 0 {
			continue
		}
		// own stream: the history generator must not depend on what the hub did in earlier cases
		ks := rand.New(rand.NewSource(ctx.Seed*7919 + int64(n))).Perm(bestN)
		for i, k := range ks {
			if i >= maxFaults {
				break
			}
			fc := c
			fc.FailRound, fc.FailReq = best, k+1
			fc.Tags = append(append([]string{}, c.Tags...), "sink-failure")
			c18RunCase(ctx, fc)
		}
	}
	return nil
}

// c18InRunCases derives, from a history that ran clean, the cases with a write DURING a run: the spare write of a
// round is performed right after a PRNG-chosen batch of the first run after that round's writes - the first run of
// the job (explicit or implicit full sync), an incremental run, an explicit fullsync run later in the history.
func c18InRunCases(ctx *Ctx, c C18Case, spares []C18Write, hits0 map[int]int, fr *rand.Rand) {
	for _, t := range c.Tags {
		if t == "through-main" {
			return // a path THROUGH the main dataset: main is no dependency there, a link written into it during a run re-connects nothing the statement covers
		}
	}
	mk := func(round int, full bool, hit int) {
		fc := c
		fc.InRun = &C18InRun{Round: round, Full: full, Hit: hit, Write: spares[round]}
		kind := "incremental"
		switch {
		case round == 0:
			kind = "first-run"
		case full:
			kind = "explicit-fullsync"
		}
		fc.Tags = append(append([]string{}, c.Tags...), "write-during-run", "write-during-run:"+kind)
		c18RunCase(ctx, fc)
	}
	thorough := ctx.Tier == "thorough"
	// first run of the job
	if hits0[0] >= 1 && (thorough || fr.Intn(3) != 0) {
		mk(0, false, 1+fr.Intn(hits0[0]))
	}
	// incremental runs
	var incr []int
	for k := 1; k < len(c.Rounds); k++ {
		if hits0[k] >= 1 {
			incr = append(incr, k)
		}
	}
	fr.Shuffle(len(incr), func(i, j int) { incr[i], incr[j] = incr[j], incr[i] })
	for i, k := range incr {
		if !thorough && i >= 2 {
			break
		}
		mk(k, false, 1+fr.Intn(hits0[k]))
	}
	// an explicit fullsync run later in the history: batches = main feed / batch size (upper bound from the history)
	if len(c.Rounds) > 1 && (thorough || fr.Intn(2) == 0) {
		k := 1 + fr.Intn(len(c.Rounds)-1)
		nMain := 0
		for _, rd := range c.Rounds[:k+1] {
			for _, w := range rd {
				if w.DS == c18Main {
					nMain += len(w.Ents)
				}
			}
		}
		b := (nMain + c.Batch - 1) / c.Batch
		if b < 1 {
			b = 1
		}
		mk(k, true, 1+fr.Intn(b))
	}
}

// c18RunCase executes one case; returns the sink requests and the pipeline hook hits of the first run of every round and whether the case ended without violation.
func c18RunCase(ctx *Ctx, c C18Case) (map[int]int, map[int]int, bool) {
	id := outHash(c)
	ctx.Out.Case(id, ctx.Seed, c, false, c.Tags)
	s := &c18Run{ctx: ctx, id: id, c: c, m: model.New(), eff: c18Effective(c.Deps), seen: map[string]bool{},
		emptyAtFirst: map[string]bool{}, badToken: map[string]bool{}, badAdvance: map[string]string{}, reqs0: map[int]int{}, hits0: map[int]int{}}
	for _, d := range c.Deps {
		if d.Via != "json" {
			s.hasTransform = true
		}
	}
	func() {
		defer func() {
			if p := recover(); p != nil {
				s.viol("panic-in-monitor-or-hub", fmt.Sprintf("panic outside a job run: %v", p), nil, nil, nil)
			}
		}()
		s.execute()
	}()
	if s.nontrivial {
		ctx.Out.Case(id, ctx.Seed, c, true, c.Tags)
	}
	ctx.Out.Stat("cases", 1)
	if os.Getenv("C18_DEBUG") == "mem" {
		var ms runtime.MemStats
		runtime.ReadMemStats(&ms)
		fmt.Fprintf(os.Stderr, "mem heapInuse=%dMB heapObjects=%d sys=%dMB goroutines=%d\n", ms.HeapInuse>>20, ms.HeapObjects, ms.Sys>>20, runtime.NumGoroutine())
	}
	return s.reqs0, s.hits0, !s.abort && len(s.seen) == 0
}
