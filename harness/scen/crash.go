package scen

// crash protocol (C04; crash stages of C07 and C12).
//
//   crashwriter : sub-child. Replays a case's ops against a store directory,
//                 writing BEGIN / ACK around each op. VERIF_HOOKS carries a
//                 "<point>=crash@<hit>" action that SIGKILLs it.
//   crashdrive  : parent. Per case: dry run (hit counts per hook point), then
//                 for selected (point, hit) pairs and PRNG-timed kills a fresh
//                 writer is started and dies; the parent reopens the store and
//                 judges: all-or-nothing against the op log, raw cross-index
//                 invariant, post-restart writes (fresh positions and ids).

import (
	"bufio"
	"bytes"
	"encoding/binary"
	"encoding/json"
	"fmt"
	"github.com/mimiro-io/datahub/internal/verif/vh"
	"github.com/mimiro-io/datahub/internal/verifhook"
	"math/rand"
	"os"
	"os/exec"
	"path/filepath"
	"runtime/debug"
	"sort"
	"strings"
	"sync/atomic"
	"syscall"
	"time"

	"github.com/dgraph-io/badger/v4"
	"go.uber.org/zap"

	"github.com/mimiro-io/datahub/internal/server"
	dsvc "github.com/mimiro-io/datahub/internal/service/dataset"
	"github.com/mimiro-io/datahub/internal/verif/gen"
	"github.com/mimiro-io/datahub/internal/verif/hub"
	"github.com/mimiro-io/datahub/internal/verif/model"
	"github.com/mimiro-io/datahub/internal/verif/obs"
)

func init() {
	Register("crashwriter", crashWriter)
	Register("crashdrive", crashDrive)
}

// ---------- writer (sub-child)

func crashWriter(ctx *Ctx) error {
	b, err := os.ReadFile(ctx.Replay)
	if err != nil {
		return err
	}
	var w struct {
		Ops SDCase `json:"ops"`
	}
	if err := json.Unmarshal(b, &w); err != nil {
		return err
	}
	c := w.Ops
	dir := ctx.Arg("dir", "")
	if dir == "" {
		return fmt.Errorf("crashwriter needs dir=")
	}
	// a shutdown action that fires before the first operation (points reached while the store opens) stops nothing
	vh.OnShutdown = func(string, int64) { ctx.Out.Emit(map[string]any{"t": "shutdown-outside-op"}) }
	core := hub.OpenCore(dir)
	// every successful commit of the storage engine is a crash point of its own
	badger.VerifCommitHook = func() { verifhook.Point("badger.commit") }
	s := &sdRun{ctx: ctx, id: "w", c: c, core: core, dir: dir, m: model.New(), vocab: gen.NewVocab(c.NIDs, 3, 3),
		seen: map[string]bool{}, rec: map[string][]uint64{}, iids: map[string]uint64{}}
	s.mg = &mgmtState{deletedIDs: map[uint32]string{}, everNames: map[string]bool{}}
	sleepUS := 0
	fmt.Sscanf(ctx.Arg("opsleepus", "0"), "%d", &sleepUS)
	// shutdown fault: the hub is stopped (Store.Close, what DatahubInstance.Stop does) while an operation is in
	// flight; the operation runs on against the closed store, its answer is logged, and the process ends
	var shutdown int32
	vh.OnShutdown = func(string, int64) {
		if atomic.CompareAndSwapInt32(&shutdown, 0, 1) {
			ctx.Out.Emit(map[string]any{"t": "shutdown"})
			_ = s.core.Store.Close()
			// the stopped process does not wait for its requests: one that blocks on the closed store (a new badger
			// transaction waits on the stopped oracle forever) ends unanswered with the process
			time.AfterFunc(2*time.Second, func() { syscall.Kill(os.Getpid(), syscall.SIGKILL) })
		}
	}
	for i, op := range c.Ops {
		ctx.Out.Begin("w", i, op.Kind)
		var err error
		func() {
			defer func() {
				if p := recover(); p != nil && atomic.LoadInt32(&shutdown) == 1 {
					// a request that panics against the closed store dies with its connection: unacknowledged
					syscall.Kill(os.Getpid(), syscall.SIGKILL)
					select {}
				} else if p != nil {
					panic(p)
				}
			}()
			switch op.Kind {
			case "compact":
				worker := dsvc.NewCompactor(s.core.Store, s.core.Dsm, zap.NewNop().Sugar())
				_, err = worker.VerifCompactSync(op.DS, op.Reader)
			case "inject", "inject-sametime", "inject-bytecopy":
				// needs the internal id of the entity: read it from the listing
				if ds := s.core.Dsm.GetDataset(op.DS); ds != nil {
					l, _ := obs.Listing(s.core.Store, ds, 0)
					for _, r := range l {
						s.iids[r.ID] = r.InternalID
					}
				}
				err = s.injectDuplicate(op.DS, op.To, op.Kind == "inject-sametime", op.Kind == "inject-bytecopy")
			default:
				err = s.apply(op)
			}
		}()
		ctx.Out.Ack("w", i, err)
		if atomic.LoadInt32(&shutdown) == 1 {
			syscall.Kill(os.Getpid(), syscall.SIGKILL)
			select {}
		}
		ctx.Out.Emit(map[string]any{"t": "commits", "op": i, "n": vh.Hits()["badger.commit"]})
		if sleepUS > 0 {
			time.Sleep(time.Duration(sleepUS) * time.Microsecond)
		}
	}
	return s.core.Close()
}

// ---------- driver

type crashPlan struct {
	Point  string `json:"point"`
	Hit    int64  `json:"hit"`
	KillUS int    `json:"kill_us,omitempty"` // timed SIGKILL from the driver instead of a hook
	// Shutdown: the store is closed under the operation that reaches the point (hub stopped while a request is in
	// flight); the operation's own answer decides whether it counts as acknowledged
	Shutdown bool `json:"shutdown,omitempty"`
}

func genCrashCase(r *rand.Rand, family string) SDCase {
	switch family {
	case "mgmt":
		c := genMgmtCase(r)
		c.Ops = append([]SDOp{{Kind: "create", DS: "da"}, {Kind: "create", DS: "db"}}, c.Ops...)
		c.Datasets = nil
		// drop restarts (the writer is one process)
		var ops []SDOp
		for _, o := range c.Ops {
			// (a catalogue replica's content depends on the run: the judge's model cannot replay it)
			if o.Kind != "restart" && o.Kind != "replicate" && o.Kind != "setpubns" {
				ops = append(ops, o)
			}
		}
		if len(ops) > 14 {
			ops = ops[:14]
		}
		c.Ops = ops
		return c
	case "compact":
		c := genCompactCase(r)
		var ops []SDOp
		for _, o := range c.Ops {
			if o.Kind == "restart" {
				continue
			}
			o.Ents = nilIfCompact(o)
			ops = append(ops, o)
		}
		c.Ops = append([]SDOp{{Kind: "create", DS: "da"}, {Kind: "create", DS: "db"}}, ops...)
		c.Datasets = nil
		return c
	}
	c := genSDCase(r)
	var ops []SDOp
	for _, d := range c.Datasets {
		ops = append(ops, SDOp{Kind: "create", DS: d})
	}
	for _, o := range c.Ops {
		if o.Kind == "batch" || o.Kind == "txn" {
			ops = append(ops, o)
		}
	}
	if len(ops) > 14 {
		ops = ops[:14]
	}
	c.Ops = ops
	c.Datasets = nil
	c.Readers = nil
	return c
}

func nilIfCompact(o SDOp) []model.Ent {
	if o.Kind == "compact" {
		return nil // no racing writer in the crash stage
	}
	return o.Ents
}

func crashDrive(ctx *Ctx) error {
	family := ctx.Arg("family", "write")
	prop := ctx.Arg("prop", "C04")
	pairsPerCase := 20
	fmt.Sscanf(ctx.Arg("pairs", "20"), "%d", &pairsPerCase)
	timed := 3
	fmt.Sscanf(ctx.Arg("timed", "3"), "%d", &timed)
	fmt.Sscanf(ctx.Arg("timedmaxus", "40000"), "%d", &timedMaxUS)
	r := rand.New(rand.NewSource(ctx.Seed))
	if ctx.Replay != "" {
		b, err := os.ReadFile(ctx.Replay)
		if err != nil {
			return err
		}
		var w struct {
			Ops struct {
				Family  string    `json:"family"`
				Crash   crashPlan `json:"crash"`
				History SDCase    `json:"history"`
			} `json:"ops"`
		}
		if err := json.Unmarshal(b, &w); err != nil {
			return err
		}
		replayCrash = &w.Ops.Crash
		for i := 0; i < 5; i++ { // timed kills are not exactly reproducible: try a few times
			runCrashCase(ctx, r, w.Ops.History, w.Ops.Family, prop, 0, 0)
		}
		return nil
	}
	for i := 0; i < ctx.Cases; i++ {
		c := genCrashCase(r, family)
		runCrashCase(ctx, r, c, family, prop, pairsPerCase, timed)
	}
	return nil
}

var replayCrash *crashPlan
var timedMaxUS = 40000

func pointFamily(family, point string) bool {
	switch family {
	case "mgmt":
		return strings.HasPrefix(point, "dsm.") || strings.HasPrefix(point, "ds.store.")
	case "compact":
		return strings.HasPrefix(point, "compact.")
	}
	return strings.HasPrefix(point, "ds.store.") || strings.HasPrefix(point, "txn.") || strings.HasPrefix(point, "dsm.create.")
}

// opFamily: the operations whose inner commits a crash family enumerates.
func opFamily(family, kind string) bool {
	switch family {
	case "mgmt":
		return kind == "create" || kind == "delete" || kind == "rename" || kind == "gc"
	case "compact":
		return kind == "compact"
	}
	return kind == "batch" || kind == "txn" || kind == "create"
}

func runCrashCase(ctx *Ctx, r *rand.Rand, c SDCase, family, prop string, pairsPerCase, timed int) {
	caseID := outHash(c)
	base := ctx.NewDir("crash")
	defer os.RemoveAll(base)
	caseFile := filepath.Join(base, "case.json")
	b, _ := json.Marshal(map[string]any{"ops": c})
	_ = os.WriteFile(caseFile, b, 0o644)

	// dry run: hit counts
	dry, _, err := runWriter(ctx, caseFile, filepath.Join(base, "dry"), "", 0, 0)
	if err != nil || !dry.done {
		ctx.Out.Case(caseID, ctx.Seed, c, false, c.Tags)
		ctx.Out.Inconclusive(caseID, prop, fmt.Sprintf("dry run of the writer failed: %v", err))
		return
	}
	var all []crashPlan
	var names []string
	for k := range dry.hits {
		names = append(names, k)
	}
	sort.Strings(names)
	for _, p := range names {
		if !pointFamily(family, p) {
			continue
		}
		for h := int64(1); h <= dry.hits[p]; h++ {
			all = append(all, crashPlan{Point: p, Hit: h})
		}
	}
	r.Shuffle(len(all), func(i, j int) { all[i], all[j] = all[j], all[i] })
	// the family's own points first (dataset-manager points for mgmt, transaction points for write)
	own := "txn."
	if family == "mgmt" {
		own = "dsm."
	}
	sort.SliceStable(all, func(i, j int) bool {
		return strings.HasPrefix(all[i].Point, own) && !strings.HasPrefix(all[j].Point, own)
	})
	if pairsPerCase > 0 && len(all) > pairsPerCase {
		all = all[:pairsPerCase]
	}
	// plus: kills right after the k-th commit of the storage engine, for the commits that happen inside the family's
	// own operations (every commit but the last of an operation is a state between two of its writes)
	var commitPlans []crashPlan
	prev := int64(0)
	for i := range c.Ops {
		n, ok := dry.commits[i]
		if !ok {
			break
		}
		if opFamily(family, c.Ops[i].Kind) {
			for h := prev + 1; h <= n; h++ {
				commitPlans = append(commitPlans, crashPlan{Point: "badger.commit", Hit: h})
			}
		}
		prev = n
	}
	r.Shuffle(len(commitPlans), func(i, j int) { commitPlans[i], commitPlans[j] = commitPlans[j], commitPlans[i] })
	// the rare multi-commit operations first (rename, delete, gc, transaction)
	rank := func(p crashPlan) int {
		prev := int64(0)
		for i := range c.Ops {
			n := dry.commits[i]
			if p.Hit > prev && p.Hit <= n {
				switch c.Ops[i].Kind {
				case "rename":
					return 0
				case "delete", "gc", "txn":
					return 1
				}
				return 2
			}
			prev = n
		}
		return 3
	}
	sort.SliceStable(commitPlans, func(i, j int) bool { return rank(commitPlans[i]) < rank(commitPlans[j]) })
	if pairsPerCase > 0 && len(commitPlans) > (pairsPerCase+1)/2 {
		commitPlans = commitPlans[:(pairsPerCase+1)/2]
	}
	ctx.Out.Stat("crash_commit_points_available", int64(len(commitPlans)))
	// plus: the hub is stopped (store closed) while the operation that reaches a point is in flight
	var shutdownPlans []crashPlan
	for _, cp := range all {
		shutdownPlans = append(shutdownPlans, crashPlan{Point: cp.Point, Hit: cp.Hit, Shutdown: true})
	}
	r.Shuffle(len(shutdownPlans), func(i, j int) { shutdownPlans[i], shutdownPlans[j] = shutdownPlans[j], shutdownPlans[i] })
	if n := (pairsPerCase + 2) / 3; pairsPerCase > 0 && len(shutdownPlans) > n {
		shutdownPlans = shutdownPlans[:n]
	}
	all = append(all, commitPlans...)
	all = append(all, shutdownPlans...)
	for i := 0; i < timed; i++ {
		all = append(all, crashPlan{Point: "timed", KillUS: 200 + r.Intn(timedMaxUS)})
	}
	if replayCrash != nil {
		all = []crashPlan{*replayCrash}
	}
	ctx.Out.Stat("crash_points_available", int64(len(names)))
	for _, cp := range all {
		sub := map[string]any{"case": c, "crash": cp}
		id := outHash(sub)
		dir := filepath.Join(base, "run")
		_ = os.RemoveAll(dir)
		res, killed, err := runWriter(ctx, caseFile, dir, cp.Point, cp.Hit, cp.KillUS, cp.Shutdown)
		if cp.Shutdown && err == nil && res != nil {
			if res.shutdownOutside && !res.shutdown {
				ctx.Out.Stat("shutdown_point_reached_while_opening", 1)
				continue
			}
			if !res.shutdown {
				killed = false
			} else if e, bad := res.ackErr[res.acked-1]; res.inflight < 0 && res.acked > 0 && bad {
				// the operation under which the store was closed answered with an error: unacknowledged, and like an
				// operation cut by a kill it is either entirely there or not at all
				ctx.Out.Stat("shutdown_op_answered_error", 1)
				_ = e
				delete(res.ackErr, res.acked-1)
				res.acked--
				res.inflight = res.acked
			} else if res.inflight < 0 {
				ctx.Out.Stat("shutdown_op_answered_ok", 1)
			}
		}
		inflight := -1
		if res != nil {
			inflight = res.inflight
		}
		nontrivial := killed && inflight >= 0
		ctx.Out.Case(id, ctx.Seed, map[string]any{"family": family, "crash": cp, "acked_ops": lenAcked(res), "inflight_op": inflight, "history": c}, nontrivial, append([]string{cp.Point}, c.Tags...))
		if err != nil {
			ctx.Out.Inconclusive(id, prop, "writer: "+err.Error())
			continue
		}
		if !killed {
			if cp.KillUS > 0 {
				ctx.Out.Stat("timed_kill_after_completion", 1)
			} else {
				ctx.Out.Inconclusive(id, prop, fmt.Sprintf("hook-not-reached: %s hit %d shutdown=%v (the dry run counted that hit; this run ended without it)", cp.Point, cp.Hit, cp.Shutdown))
				continue
			}
		}
		if cp.Shutdown {
			ctx.Out.Stat("shutdown:"+cp.Point, 1)
		} else {
			ctx.Out.Stat("crash:"+cp.Point, 1)
		}
		if inflight >= 0 {
			ctx.Out.Stat("crash_inside_op", 1)
		} else {
			ctx.Out.Stat("crash_between_ops", 1)
		}
		ctx.Out.Begin(id, 0, "reopen-and-check")
		judgeCrash(ctx, id, prop, c, res, filepath.Join(dir, "store"))
		ctx.Out.Ack(id, 0, nil)
	}
}

func lenAcked(r *writerResult) int {
	if r == nil {
		return 0
	}
	return r.acked
}

type writerResult struct {
	acked           int // ops 0..acked-1 are acknowledged
	inflight        int // index of the op begun but not acked (-1 = none)
	done            bool
	hits            map[string]int64
	ackErr          map[int]string
	commits         map[int]int64 // op index -> number of storage-engine commits done when the op was acknowledged
	shutdown        bool          // the store was closed under an operation (shutdown fault)
	shutdownOutside bool          // the shutdown point was reached while the store was opening, not under an operation
}

// runWriter starts a crashwriter sub-child. Returns its op log summary and whether it was killed.
func runWriter(ctx *Ctx, caseFile, dir, point string, hit int64, killUS int, shutdown ...bool) (*writerResult, bool, error) {
	_ = os.MkdirAll(dir, 0o755)
	outf := filepath.Join(dir, "oplog.jsonl")
	args := []string{"-scenario", "crashwriter", "-seed", fmt.Sprint(ctx.Seed), "-cases", "1", "-tier", ctx.Tier,
		"-scratch", filepath.Join(dir, "scratch"), "-out", outf, "-replay", caseFile, "-args", "dir=" + filepath.Join(dir, "store")}
	cmd := exec.Command(os.Args[0], args...)
	env := []string{}
	for _, e := range os.Environ() {
		if !strings.HasPrefix(e, "VERIF_HOOKS=") {
			env = append(env, e)
		}
	}
	if point != "" && point != "timed" {
		act := "crash"
		if len(shutdown) > 0 && shutdown[0] {
			act = "shutdown"
		}
		env = append(env, fmt.Sprintf("VERIF_HOOKS=%s=%s@%d", point, act, hit))
	}
	cmd.Env = env
	var stderr bytes.Buffer
	cmd.Stderr = &stderr
	if err := cmd.Start(); err != nil {
		return nil, false, err
	}
	var timer *time.Timer
	if killUS > 0 {
		timer = time.AfterFunc(time.Duration(killUS)*time.Microsecond, func() { _ = cmd.Process.Signal(syscall.SIGKILL) })
	}
	var hung int32
	watchdog := time.AfterFunc(120*time.Second, func() {
		atomic.StoreInt32(&hung, 1)
		_ = cmd.Process.Signal(syscall.SIGQUIT)
		time.Sleep(5 * time.Second)
		_ = cmd.Process.Signal(syscall.SIGKILL)
	})
	werr := cmd.Wait()
	watchdog.Stop()
	if atomic.LoadInt32(&hung) == 1 {
		if keep := os.Getenv("VERIF_KEEP_FAILED"); keep != "" {
			_ = os.WriteFile(filepath.Join(keep, fmt.Sprintf("hung-writer-%s-%d.txt", point, hit)), stderr.Bytes(), 0o644)
		}
		return nil, false, fmt.Errorf("writer did not finish within the watchdog (point %s hit %d): %s", point, hit, tailStr(stderr.String(), 300))
	}
	if timer != nil {
		timer.Stop()
	}
	killed := false
	if werr != nil {
		if ee, ok := werr.(*exec.ExitError); ok {
			if ws, ok := ee.Sys().(syscall.WaitStatus); ok && ws.Signaled() && ws.Signal() == syscall.SIGKILL {
				killed = true
			}
		}
		if !killed {
			return nil, false, fmt.Errorf("writer failed: %v: %s", werr, tailStr(stderr.String(), 400))
		}
	}
	res := &writerResult{inflight: -1, hits: map[string]int64{}, ackErr: map[int]string{}, commits: map[int]int64{}}
	f, err := os.Open(outf)
	if err != nil {
		if killed {
			return res, true, nil // killed before the first line
		}
		return nil, killed, err
	}
	defer f.Close()
	sc := bufio.NewScanner(f)
	sc.Buffer(make([]byte, 1<<20), 1<<26)
	begun := -1
	for sc.Scan() {
		var m map[string]any
		if json.Unmarshal(sc.Bytes(), &m) != nil {
			continue
		}
		switch m["t"] {
		case "begin":
			begun = int(m["op"].(float64))
		case "ack":
			op := int(m["op"].(float64))
			res.acked = op + 1
			if e, _ := m["err"].(string); e != "" {
				res.ackErr[op] = e
			}
			begun = -1
		case "shutdown":
			res.shutdown = true
		case "shutdown-outside-op":
			res.shutdownOutside = true
		case "commits":
			res.commits[int(m["op"].(float64))] = int64(m["n"].(float64))
		case "stat":
			k, _ := m["k"].(string)
			if strings.HasPrefix(k, "hook:") {
				res.hits[k[5:]] = int64(m["v"].(float64))
			}
		case "done":
			res.done = true
		}
	}
	res.inflight = begun
	return res, killed, nil
}

func tailStr(s string, n int) string {
	if len(s) > n {
		return s[len(s)-n:]
	}
	return s
}

// applyToModel applies ops[0:n] to a fresh model (ops that returned an error in the writer are skipped).
func applyToModel(c SDCase, n int, skip map[int]string) *model.Hub {
	m := model.New()
	for i := 0; i < n && i < len(c.Ops); i++ {
		if _, bad := skip[i]; bad {
			continue
		}
		applyOpToModel(m, c.Ops[i])
	}
	return m
}

func applyOpToModel(m *model.Hub, op SDOp) {
	switch op.Kind {
	case "batch":
		m.Apply(op.DS, op.Ents)
	case "txn":
		m.ApplyTxn(op.Txn)
	case "create":
		m.Create(op.DS)
	case "delete":
		m.Delete(op.DS)
	case "rename":
		m.Rename(op.DS, op.To)
	case "inject", "inject-sametime", "inject-bytecopy":
		if d := m.Live(op.DS); d != nil {
			var last *model.Version
			for _, v := range d.Versions {
				if v.ID == op.To {
					last = v
				}
			}
			if last != nil {
				commit := last.Commit
				if op.Kind != "inject-sametime" {
					m.Commit++
					commit = m.Commit
				}
				d.Versions = append(d.Versions, &model.Version{Ent: gen.Clone(last.Ent), Commit: commit, Seq: len(d.Versions)})
			}
		}
	}
}

// judgeCrash reopens the store and decides the crash case.
func judgeCrash(ctx *Ctx, id, prop string, c SDCase, res *writerResult, storeDir string) {
	defer func() {
		if p := recover(); p != nil {
			ctx.Out.Viol(id, prop, "reopen-panic", fmt.Sprintf("panic while reopening / reading the store after the crash: %v", p), nil, string(debug.Stack()), map[string]any{"acked": res.acked, "inflight": res.inflight})
		}
	}()
	if _, err := os.Stat(storeDir); err != nil {
		ctx.Out.Stat("crash_before_store_created", 1)
		return
	}
	core, oerr := hub.TryOpenCore(storeDir)
	if oerr != nil {
		// Known dependency defect (badger v4.2.0): a kill between creating a memtable file and sizing it
		// leaves an empty NNNNN.mem; the next Open fails with "while opening memtables ... Create a new
		// file" but repairs the file while failing, so the second Open succeeds. The hub ignores the
		// open error and dies with a nil dereference. Classified narrowly; the case is then judged on
		// the second attempt like any other.
		first := oerr.Error()
		if strings.Contains(first, "Create a new file") && (strings.Contains(first, "while opening memtables") || strings.Contains(first, "db.vlog.open")) {
			core, oerr = hub.TryOpenCore(storeDir)
			if oerr == nil {
				ctx.Out.Viol(id, prop, "reopen-first-attempt-fails-empty-memtable-file", "the first start after the kill fails (badger Open: '... Create a new file' for an empty memtable or value log file left by the kill); the second start opens the store", nil, firstLine(first), map[string]any{"acked": res.acked, "inflight": res.inflight})
			}
		}
	}
	if oerr != nil {
		if keep := os.Getenv("VERIF_KEEP_FAILED"); keep != "" {
			_ = exec.Command("cp", "-a", storeDir, filepath.Join(keep, "failed-"+id)).Run()
		}
		hl := ""
		if i := strings.Index(oerr.Error(), "hub error log:"); i >= 0 {
			hl = " | " + firstLine(oerr.Error()[i:])
		}
		ctx.Out.Viol(id, prop, "reopen-failed", "the store does not open after the crash: "+firstLine(oerr.Error())+hl, nil, oerr.Error(), map[string]any{"acked": res.acked, "inflight": res.inflight})
		return
	}
	closed := false
	defer func() {
		if !closed {
			core.Close()
		}
	}()
	hasCompact := false
	for i := 0; i < len(c.Ops) && i <= res.acked; i++ {
		if c.Ops[i].Kind == "compact" {
			hasCompact = true
		}
	}
	// candidates: without / with the in-flight op
	cands := []*model.Hub{applyToModel(c, res.acked, res.ackErr)}
	if res.inflight >= 0 && res.inflight < len(c.Ops) {
		m1 := applyToModel(c, res.acked, res.ackErr)
		applyOpToModel(m1, c.Ops[res.inflight])
		cands = append(cands, m1)
	}
	var diffs [][]string
	chosen := -1
	for ci := len(cands) - 1; ci >= 0; ci-- {
		d := compareWithModel(ctx, id, c, core, cands[ci], hasCompact)
		if len(d) == 0 {
			chosen = ci
			break
		}
		diffs = append(diffs, d)
	}
	if chosen < 0 {
		cls := "not-all-or-nothing"
		if res.inflight < 0 {
			cls = "acked-op-lost"
		} else {
			cls += "-" + c.Ops[res.inflight].Kind
		}
		ctx.Out.Viol(id, prop, cls, "after the crash the store matches neither 'all acknowledged ops' nor 'acknowledged ops + the whole in-flight op'", nil, diffs, map[string]any{"acked": res.acked, "inflight": res.inflight})
		return
	}
	if chosen == 1 {
		ctx.Out.Stat("inflight_op_fully_present", 1)
	} else if res.inflight >= 0 {
		ctx.Out.Stat("inflight_op_entirely_absent", 1)
	}
	// raw cross-index invariant
	if msg := crossIndexInvariant(core); msg != "" {
		ctx.Out.Viol(id, prop, "cross-index-"+strings.SplitN(msg, ":", 2)[0], "raw key scan after the crash: "+msg, nil, nil, map[string]any{"acked": res.acked, "inflight": res.inflight})
		return
	}
	ctx.Out.Stat("cross_index_scans_ok", 1)
	// post-restart writes: fresh positions, fresh ids
	m := cands[chosen]
	postRestartWrites(ctx, id, prop, c, core, m)
	// and the store closes and opens again
	if err := core.Close(); err != nil {
		ctx.Out.Viol(id, prop, "close-error", err.Error(), nil, nil, nil)
	}
	closed = true
}

// compareWithModel returns the differences between the reopened hub and a candidate model.
func compareWithModel(ctx *Ctx, id string, c SDCase, core *hub.Core, m *model.Hub, lenient bool) []string {
	var diffs []string
	s := &sdRun{ctx: ctx, id: id, c: c, core: core, m: m, vocab: gen.NewVocab(c.NIDs, 3, 3),
		seen: map[string]bool{}, rec: map[string][]uint64{}, iids: map[string]uint64{}, collect: &diffs}
	s.mg = &mgmtState{deletedIDs: map[uint32]string{}, everNames: map[string]bool{}}
	// catalogue
	var got []string
	for _, n := range core.Dsm.GetDatasetNames() {
		if n.Name != "core.Dataset" {
			got = append(got, n.Name)
		}
	}
	sort.Strings(got)
	if strings.Join(got, ",") != strings.Join(m.LiveNames(), ",") {
		diffs = append(diffs, fmt.Sprintf("catalogue: hub %v, model %v", got, m.LiveNames()))
		return diffs
	}
	for _, d := range m.LiveNames() {
		ds := core.Dsm.GetDataset(d)
		if lenient {
			// after a (possibly interrupted) compaction the feed may lack duplicates: subsequence rule
			feed, _, err := obs.Feed(core.Store, ds, 0, nil, false)
			if err != nil {
				diffs = append(diffs, "feed error: "+err.Error())
				continue
			}
			md := m.Live(d)
			removed, msg := subsequenceRule(md.Versions, feed)
			if msg != "" {
				diffs = append(diffs, "dataset "+d+": "+msg)
				continue
			}
			var nv []*model.Version
			for i, v := range md.Versions {
				if !removed[i] {
					v.Seq = len(nv)
					nv = append(nv, v)
				}
			}
			md.Versions = nv
		}
		if !s.alignFeed(d) {
			if len(diffs) == 0 {
				diffs = append(diffs, "feed of "+d+" differs")
			}
			continue
		}
		s.checkC01Dataset(d)
		s.checkC02Dataset(d)
	}
	if len(diffs) == 0 {
		s.checkC01Lookups()
		s.checkC03(false)
		// incoming-scan findings of C03 are not crash effects
		var keep []string
		for _, d := range diffs {
			if !strings.Contains(d, "incoming-wildcard-multipred:") && !strings.Contains(d, "incoming-multidataset:") && !strings.Contains(d, "incoming-paged-multikey:") {
				keep = append(keep, d)
			}
		}
		diffs = keep
	}
	return diffs
}

// crossIndexInvariant scans the raw keys. Returns "" or "<class>: detail".
func crossIndexInvariant(core *hub.Core) string {
	db := core.Store.VerifDB()
	deleted := core.Store.VerifDeletedDatasets()
	jsonKeys := map[string][]byte{} // json key -> value
	changeTo := map[string]int{}    // json key -> number of change entries pointing to it
	latest := map[string]string{}   // ds|rid -> json key
	uri2id := map[string]uint64{}
	id2uri := map[uint64]string{}
	out := map[string]bool{}
	in := map[string]bool{}
	msg := ""
	_ = db.View(func(txn *badger.Txn) error {
		it := txn.NewIterator(badger.DefaultIteratorOptions)
		defer it.Close()
		for it.Rewind(); it.Valid(); it.Next() {
			k := it.Item().KeyCopy(nil)
			if len(k) < 2 {
				continue
			}
			idx := binary.BigEndian.Uint16(k)
			switch idx {
			case uint16(server.EntityIDToJSONIndexID):
				if len(k) != 24 {
					continue
				}
				if deleted[binary.BigEndian.Uint32(k[10:])] {
					continue
				}
				v, _ := it.Item().ValueCopy(nil)
				jsonKeys[string(k)] = v
			case uint16(server.DatasetEntityChangeLog):
				if len(k) != 22 || deleted[binary.BigEndian.Uint32(k[2:])] {
					continue
				}
				v, _ := it.Item().ValueCopy(nil)
				changeTo[string(v)]++
				if len(v) == 24 && (binary.BigEndian.Uint64(v[2:]) != binary.BigEndian.Uint64(k[14:]) || binary.BigEndian.Uint32(v[10:]) != binary.BigEndian.Uint32(k[2:])) {
					msg = fmt.Sprintf("change-entry-mismatch: change entry %x points to a version of another entity/dataset %x", k, v)
				}
			case uint16(server.DatasetLatestEntities):
				if len(k) != 14 || deleted[binary.BigEndian.Uint32(k[2:])] {
					continue
				}
				v, _ := it.Item().ValueCopy(nil)
				latest[string(k[2:])] = string(v)
			case uint16(server.URIToIDIndexID):
				v, _ := it.Item().ValueCopy(nil)
				if len(v) == 8 {
					uri2id[string(k[2:])] = binary.BigEndian.Uint64(v)
				}
			case uint16(server.IDToURIIndexID):
				if len(k) == 10 {
					v, _ := it.Item().ValueCopy(nil)
					id2uri[binary.BigEndian.Uint64(k[2:])] = string(v)
				}
			case uint16(server.OutgoingRefIndex):
				if len(k) == 40 && !deleted[binary.BigEndian.Uint32(k[36:])] {
					out[string(k)] = true
				}
			case uint16(server.IncomingRefIndex):
				if len(k) == 40 && !deleted[binary.BigEndian.Uint32(k[36:])] {
					in[string(k)] = true
				}
			}
		}
		return nil
	})
	if msg != "" {
		return msg
	}
	// change entries <-> version records, 1:1
	for jk, n := range changeTo {
		if _, ok := jsonKeys[jk]; !ok {
			return fmt.Sprintf("change-without-version: a change entry points to version key %x that does not exist", jk)
		}
		if n != 1 {
			return fmt.Sprintf("version-with-%d-changes: version key %x is referenced by %d change entries", n, jk, n)
		}
	}
	newest := map[string]string{}
	needIDs := map[uint64]bool{}
	for jk, val := range jsonKeys {
		if changeTo[jk] != 1 {
			return fmt.Sprintf("version-without-change: version key %x has no change entry", jk)
		}
		k := []byte(jk)
		rid := binary.BigEndian.Uint64(k[2:])
		needIDs[rid] = true
		dsrid := string(k[10:14]) + string(k[2:10])
		if cur, ok := newest[dsrid]; !ok || bytes.Compare(k[14:], []byte(cur)[14:]) > 0 {
			newest[dsrid] = jk
		}
		// reference keys of a live version exist, both directions
		var e server.Entity
		if json.Unmarshal(val, &e) != nil {
			return fmt.Sprintf("version-unreadable: version %x does not parse", jk)
		}
		if !e.IsDeleted {
			for p, tv := range e.References {
				pid, ok1 := uri2id[p]
				for _, t := range model.RefTargets(tv) {
					tid, ok2 := uri2id[t]
					if !ok1 || !ok2 {
						return fmt.Sprintf("id-missing: version %x uses predicate/target %s %s without an internal id", jk, p, t)
					}
					o := make([]byte, 40)
					binary.BigEndian.PutUint16(o, uint16(server.OutgoingRefIndex))
					copy(o[2:], k[2:10])
					copy(o[10:], k[14:22])
					binary.BigEndian.PutUint64(o[18:], pid)
					binary.BigEndian.PutUint64(o[26:], tid)
					copy(o[36:], k[10:14])
					if !out[string(o)] {
						// compaction may legitimately have removed duplicate reference keys of a version
						// whose predecessor carries the same reference; demand only that SOME live key of
						// this (entity, predicate, target, dataset) exists at or before this version
						if !anyRefKey(out, o) {
							return fmt.Sprintf("ref-key-missing: live version %x carries %s -> %s but no outgoing index key exists", jk, p, t)
						}
					}
				}
			}
		}
	}
	for dsrid, jk := range newest {
		l, ok := latest[dsrid]
		if !ok {
			return fmt.Sprintf("latest-pointer-missing: entity with version %x has no latest pointer", jk)
		}
		if l != jk {
			return fmt.Sprintf("latest-pointer-stale: latest pointer %x is not the newest version %x", l, jk)
		}
	}
	for dsrid, l := range latest {
		if _, ok := newest[dsrid]; !ok {
			return fmt.Sprintf("latest-pointer-dangling: latest pointer to %x but no version exists", l)
		}
	}
	// uri <-> id inverse, covering every id in data keys
	for u, id := range uri2id {
		if id2uri[id] != u {
			return fmt.Sprintf("id-index-not-inverse: %s -> %d -> %q", u, id, id2uri[id])
		}
	}
	for id, u := range id2uri {
		if uri2id[u] != id {
			return fmt.Sprintf("id-index-not-inverse: %d -> %s -> %d", id, u, uri2id[u])
		}
	}
	for id := range needIDs {
		if _, ok := id2uri[id]; !ok {
			return fmt.Sprintf("id-missing: internal id %d occurs in a version key but has no uri", id)
		}
	}
	// outgoing <-> incoming mirror
	for ok := range out {
		k := []byte(ok)
		m := make([]byte, 40)
		binary.BigEndian.PutUint16(m, uint16(server.IncomingRefIndex))
		copy(m[2:10], k[26:34])
		copy(m[10:18], k[2:10])
		copy(m[18:26], k[10:18])
		copy(m[26:34], k[18:26])
		copy(m[34:40], k[34:40])
		if !in[string(m)] {
			return fmt.Sprintf("ref-mirror-missing: outgoing key %x has no incoming mirror", k)
		}
		for _, id := range []uint64{binary.BigEndian.Uint64(k[2:]), binary.BigEndian.Uint64(k[18:]), binary.BigEndian.Uint64(k[26:])} {
			if _, ok := id2uri[id]; !ok {
				return fmt.Sprintf("id-missing: internal id %d occurs in a reference key but has no uri", id)
			}
		}
	}
	if len(in) != len(out) {
		return fmt.Sprintf("ref-mirror-missing: %d outgoing keys, %d incoming keys", len(out), len(in))
	}
	return ""
}

// anyRefKey: is there a live outgoing key for the same (entity, predicate, target, dataset) at an earlier or equal time?
func anyRefKey(out map[string]bool, want []byte) bool {
	for k := range out {
		b := []byte(k)
		if bytes.Equal(b[2:10], want[2:10]) && bytes.Equal(b[18:34], want[18:34]) && bytes.Equal(b[34:40], want[34:40]) && bytes.Compare(b[10:18], want[10:18]) <= 0 {
			return true
		}
	}
	return false
}

func postRestartWrites(ctx *Ctx, id, prop string, c SDCase, core *hub.Core, m *model.Hub) {
	// ids known before
	before := map[uint64]bool{}
	_ = core.Store.VerifDB().View(func(txn *badger.Txn) error {
		opts := badger.DefaultIteratorOptions
		pfx := make([]byte, 2)
		binary.BigEndian.PutUint16(pfx, uint16(server.IDToURIIndexID))
		opts.Prefix = pfx
		it := txn.NewIterator(opts)
		defer it.Close()
		for it.Seek(pfx); it.ValidForPrefix(pfx); it.Next() {
			k := it.Item().Key()
			if len(k) == 10 {
				before[binary.BigEndian.Uint64(k[2:])] = true
			}
		}
		return nil
	})
	v := gen.NewVocab(c.NIDs, 3, 3)
	r := rand.New(rand.NewSource(int64(len(before))))
	for _, d := range m.LiveNames() {
		ds := core.Dsm.GetDataset(d)
		old, tok, err := obs.Feed(core.Store, ds, 0, nil, false)
		if err != nil {
			ctx.Out.Viol(id, prop, "post-restart-read-error", err.Error(), nil, nil, nil)
			return
		}
		fresh := fmt.Sprintf("%sfresh-%s-%d", gen.NsA, d, len(old))
		ents := []model.Ent{gen.Entity(r, v, v.IDs[0]), {ID: fresh, Props: map[string]any{v.Props[0]: "post-restart"}, Refs: map[string]any{}}}
		if err := StoreBatch(core, d, ents, false); err != nil {
			ctx.Out.Viol(id, prop, "post-restart-write-error", "write after restart failed: "+err.Error(), nil, nil, nil)
			return
		}
		stored := m.Apply(d, ents)
		after, tok2, err := obs.Feed(core.Store, ds, 0, nil, false)
		if err != nil {
			return
		}
		// exactly the new entries were appended after everything that was there
		if len(after) != len(old)+len(stored) {
			ctx.Out.Viol(id, prop, "post-restart-position-reuse", fmt.Sprintf("dataset %s: a write of %d new versions after the restart changed the feed length from %d to %d (a change position was reused or lost)", d, len(stored), len(old), len(after)), nil, recStr(after), nil)
			return
		}
		for i := range old {
			if !sameEnt(&old[i].Ent, &after[i].Ent) {
				ctx.Out.Viol(id, prop, "post-restart-position-reuse", fmt.Sprintf("dataset %s: feed entry %d changed after a post-restart write", d, i), recStr(old), recStr(after), nil)
				return
			}
		}
		if len(stored) > 0 && tok2 <= tok {
			ctx.Out.Viol(id, prop, "post-restart-token", fmt.Sprintf("dataset %s: end token %d did not grow (%d) after new versions were stored", d, tok, tok2), nil, nil, nil)
			return
		}
		for _, a := range after[len(old):] {
			if a.ID == fresh && before[a.InternalID] {
				ctx.Out.Viol(id, prop, "post-restart-id-reuse", fmt.Sprintf("a brand-new identifier %s got internal id %d, which was already assigned before the crash", fresh, a.InternalID), nil, nil, nil)
				return
			}
		}
		ctx.Out.Stat("post_restart_writes_ok", 1)
	}
	if msg := crossIndexInvariant(core); msg != "" {
		ctx.Out.Viol(id, prop, "cross-index-"+strings.SplitN(msg, ":", 2)[0], "raw key scan after post-restart writes: "+msg, nil, nil, nil)
		return
	}
	// a dataset created after the restart is empty, has a fresh feed and its own internal id:
	// writing to it changes nothing in any other dataset
	const newName = "created-after-restart"
	nds, err := core.Dsm.CreateDataset(newName, nil)
	if err != nil || nds == nil {
		ctx.Out.Viol(id, prop, "post-restart-create-error", fmt.Sprintf("creating a dataset after the restart failed: %v", err), nil, nil, nil)
		return
	}
	for _, n := range core.Dsm.GetDatasetNames() {
		if o := core.Dsm.GetDataset(n.Name); o != nil && n.Name != newName && o.InternalID == nds.InternalID {
			ctx.Out.Viol(id, prop, "post-restart-dataset-id-reuse", fmt.Sprintf("a dataset created after the restart got internal id %d, which dataset %s already has", nds.InternalID, n.Name), nil, nil, nil)
			return
		}
	}
	l, _ := obs.Listing(core.Store, nds, 0)
	f, _, _ := obs.Feed(core.Store, nds, 0, nil, false)
	if len(l) != 0 || len(f) != 0 {
		ctx.Out.Viol(id, prop, "post-restart-new-dataset-not-empty", fmt.Sprintf("a dataset created after the restart lists %d entities and has %d changes", len(l), len(f)), 0, recStr(f), nil)
		return
	}
	m.Create(newName)
	ents := []model.Ent{gen.Entity(r, v, v.IDs[0]), gen.Entity(r, v, v.IDs[1])}
	if err := StoreBatch(core, newName, ents, false); err != nil {
		ctx.Out.Viol(id, prop, "post-restart-write-error", "write to a dataset created after the restart failed: "+err.Error(), nil, nil, nil)
		return
	}
	m.Apply(newName, ents)
	if d := compareWithModel(ctx, id, c, core, m, false); len(d) > 0 {
		ctx.Out.Viol(id, prop, "post-restart-new-dataset-leaks", "after creating and writing a new dataset following the restart the hub no longer matches the model", nil, d, nil)
		return
	}
	ctx.Out.Stat("post_restart_new_dataset_ok", 1)
}
