package scen

// c16storm — the reference decision under concurrency.
//
// The statement quantifies over every request; requests of one client that overlap in time
// are not exempt. G goroutines send requests with ONE client token through the real
// middleware chain (echo.ServeHTTP of the full application) against ACL lists that hold
// allow and deny entries covering the same paths; every single answer is judged by the
// reference decision function. Meanwhile an administrator goroutine reads the client's ACL
// back (it must stay what was installed: evaluating a request is not an admin operation)
// and sets the ACL of another client (which persists the whole ACL table). After the storm
// the ACL read through the API and the persisted acls.json must still be the installed one.
// Run at GOMAXPROCS 16 and 2 and under the race detector (plan stage "stormrace": a data
// race on the stored ACL entries is direct evidence even when no request happens to slip
// through).

import (
	"encoding/json"
	"fmt"
	"os"
	"path/filepath"
	"strconv"
	"sync"
	"sync/atomic"
)

func init() {
	Register("c16storm", c16Storm)
}

type c16StormCase struct {
	Kind       string  `json:"kind"`
	ACL        []C16AC `json:"acl"`
	Goroutines int     `json:"goroutines"`
	PerG       int     `json:"requests_per_goroutine"`
}

func c16StormLists() [][]C16AC {
	return [][]C16AC{
		{{Resource: "/datasets/*", Action: "read"}, {Resource: "/datasets/a*", Action: "read", Deny: true}},
		{{Resource: "/*", Action: "write"}, {Resource: "/datasets/a/entities", Action: "read", Deny: true}, {Resource: "/jobs*", Action: "write", Deny: true}},
		{{Resource: "/datasets/a*", Action: "read", Deny: true}, {Resource: "/datasets/a", Action: "read", Deny: true}, {Resource: "/*", Action: "read"}},
		{{Resource: "/datasets/a", Action: "read"}, {Resource: "/datasets/*", Action: "read", Deny: true}, {Resource: "/jobs*", Action: "read"}},
	}
}

// the request mix: mostly paths a deny entry covers, some granted ones, a mutation
var c16StormReqs = []c16Req{
	{Method: "GET", Route: "/datasets/:dataset/entities", Path: "/datasets/a/entities"},
	{Method: "GET", Route: "/datasets/:dataset/entities", Path: "/datasets/ab/entities"},
	{Method: "GET", Route: "/datasets/:dataset/entities", Path: "/datasets/b/entities"},
	{Method: "GET", Route: "/datasets/:dataset", Path: "/datasets/a"},
	{Method: "GET", Route: "/datasets/:dataset/entities", Path: "/datasets/a/entities"},
	{Method: "GET", Route: "/datasets/:dataset/changes", Path: "/datasets/a/changes"},
	{Method: "GET", Route: "/jobs", Path: "/jobs"},
	{Method: "GET", Route: "/datasets/:dataset/entities", Path: "/datasets/a/entities"},
	{Method: "POST", Route: "/jobs", Path: "/jobs"},
	{Method: "GET", Route: "/datasets", Path: "/datasets"},
}

func c16Storm(ctx *Ctx) error {
	keys, err := c16GetKeys(ctx)
	if err != nil {
		return err
	}
	g, _ := strconv.Atoi(ctx.Arg("g", "16"))
	n, _ := strconv.Atoi(ctx.Arg("n", "1500"))
	lists := c16StormLists()
	if ctx.Replay != "" {
		b, err := os.ReadFile(ctx.Replay)
		if err != nil {
			return err
		}
		var w struct {
			Ops c16StormCase `json:"ops"`
		}
		if err := json.Unmarshal(b, &w); err != nil {
			return err
		}
		lists = [][]C16AC{w.Ops.ACL}
		if w.Ops.Goroutines > 0 {
			g, n = w.Ops.Goroutines, w.Ops.PerG
		}
	}
	h, err := c16NewHub(ctx, keys)
	if err != nil {
		return err
	}
	defer func() { h.Close() }()
	if ctx.Replay == "" {
		// ctx.Cases rounds over the lists (a race needs luck: more rounds, more chances)
		var l [][]C16AC
		for i := 0; i < ctx.Cases; i++ {
			l = append(l, lists...)
		}
		lists = l
	}
	for round, acl := range lists {
		c16StormOne(ctx, h, acl, g, n, round)
	}
	return nil
}

func c16ACLJSONEqual(installed []C16AC, body []byte) (bool, string) {
	var got []C16AC
	if err := json.Unmarshal(body, &got); err != nil {
		return false, "unreadable: " + err.Error()
	}
	if len(got) != len(installed) {
		return false, fmt.Sprint(got)
	}
	for i := range got {
		if got[i] != installed[i] {
			return false, fmt.Sprint(got)
		}
	}
	return true, ""
}

func c16StormOne(ctx *Ctx, h *c16Hub, acl []C16AC, g, n, round int) {
	cs := c16StormCase{Kind: "storm", ACL: acl, Goroutines: g, PerG: n}
	id := outHash(map[string]any{"c": cs, "round": round})
	ctx.Out.Case(id, ctx.Seed, cs, g >= 2, []string{"storm", fmt.Sprintf("g%d", g)})
	if err := h.ensureDatasets(true); err != nil {
		ctx.Out.Inconclusive(id, "C16", err.Error())
		return
	}
	if err := h.setACL(c16Client, acl); err != nil {
		ctx.Out.Inconclusive(id, "C16", err.Error())
		return
	}
	tok, err := h.clientToken(c16Client)
	if err != nil {
		ctx.Out.Inconclusive(id, "C16", err.Error())
		return
	}
	adminTok, err := h.adminToken()
	if err != nil {
		ctx.Out.Inconclusive(id, "C16", err.Error())
		return
	}
	hdr := bearer(tok)
	// one at a time first: the reference and the hub agree sequentially (else the ACL sweep reports it)
	var mu sync.Mutex
	type wit struct {
		msg   string
		count int
		got   any
	}
	viols := map[string]*wit{}
	add := func(class, msg string, got any) {
		mu.Lock()
		defer mu.Unlock()
		if w := viols[class]; w != nil {
			w.count++
			return
		}
		viols[class] = &wit{msg: msg, count: 1, got: got}
	}
	judge := func(q c16Req, r c16Resp, phase string) {
		if r.Panicked != nil {
			add("panic-escaped-router", fmt.Sprintf("%s: panic escaped ServeHTTP: %v", q.key(), r.Panicked), nil)
			return
		}
		served, may := c16Served(r.Status), c16MayServe(acl, q.Method, q.Path)
		if served && !may {
			add(phase+":"+c16Class(acl, q), fmt.Sprintf("client with ACL %v was served %s (needs %s) -> status %d while %d goroutines sent requests with the same token (the same request alone is refused)", acl, q.key(), c16Needed(q.Method), r.Status, g), r.Status)
		}
		if served && r.Status == 200 && q.Method == "GET" && q.Path == "/datasets" {
			c16CheckListing(acl, r.Body, func(class, msg string, exp, got any, extra map[string]any) { add(phase+":"+class, msg, got) })
		}
	}
	seqRefused := 0
	for _, q := range c16StormReqs {
		r := h.do(q, hdr)
		if c16Served(r.Status) && !c16MayServe(acl, q.Method, q.Path) {
			judge(q, r, "sequential")
		} else if !c16Served(r.Status) {
			seqRefused++
		}
	}
	var served, refused, granted int64
	var wg sync.WaitGroup
	start := make(chan struct{})
	ctx.Out.Begin(id, 0, fmt.Sprintf("storm %d x %d", g, n))
	for w := 0; w < g; w++ {
		wg.Add(1)
		go func(w int) {
			defer wg.Done()
			<-start
			for i := 0; i < n; i++ {
				q := c16StormReqs[(w+i)%len(c16StormReqs)]
				r := h.do(q, hdr)
				if c16Served(r.Status) {
					atomic.AddInt64(&served, 1)
				} else {
					atomic.AddInt64(&refused, 1)
				}
				if c16MayServe(acl, q.Method, q.Path) {
					atomic.AddInt64(&granted, 1)
				}
				judge(q, r, "concurrent")
			}
		}(w)
	}
	// the administrator: reads the client's ACL back, persists the table by touching another client
	stop := make(chan struct{})
	var adminReads, adminSets int64
	var awg sync.WaitGroup
	awg.Add(1)
	go func() {
		defer awg.Done()
		<-start
		other := []C16AC{{Resource: "/jobs*", Action: "read"}}
		for i := 0; ; i++ {
			select {
			case <-stop:
				return
			default:
			}
			r := h.app.Do("GET", "/security/clients/"+c16Client+"/acl", nil, bearer(adminTok))
			adminReads++
			if r.Status == 200 {
				if ok, got := c16ACLJSONEqual(acl, r.Body); !ok {
					add("acl-read-back-differs-while-requests-are-evaluated", fmt.Sprintf("GET /security/clients/%s/acl returned %s while requests of the client were being evaluated; installed (and never changed by an administrator) is %v", c16Client, got, acl), got)
				}
			}
			if i%8 == 0 {
				b, _ := json.Marshal(other)
				h.app.Do("POST", "/security/clients/k2/acl", b, bearer(adminTok))
				adminSets++
				// what was just persisted
				c16CheckACLFile(h, acl, "during", add)
			}
		}
	}()
	close(start)
	wg.Wait()
	close(stop)
	awg.Wait()
	ctx.Out.Ack(id, 0, nil)
	ctx.Out.Stat("storm_requests", int64(g*n))
	ctx.Out.Stat("storm_requests_served", served)
	ctx.Out.Stat("storm_requests_refused", refused)
	ctx.Out.Stat("storm_requests_reference_grants", granted)
	ctx.Out.Stat("storm_admin_acl_reads", adminReads)
	ctx.Out.Stat("storm_admin_acl_sets_other_client", adminSets)
	ctx.Out.Stat("storm_sequential_refused", int64(seqRefused))
	// after the storm
	r := h.app.Do("GET", "/security/clients/"+c16Client+"/acl", nil, bearer(adminTok))
	if r.Status == 200 {
		if ok, got := c16ACLJSONEqual(acl, r.Body); !ok {
			add("acl-read-back-differs-after-requests", fmt.Sprintf("after the requests GET /security/clients/%s/acl returns %s; installed is %v", c16Client, got, acl), got)
		}
	}
	b, _ := json.Marshal([]C16AC{})
	h.app.Do("POST", "/security/clients/k2/acl", b, bearer(adminTok))
	c16CheckACLFile(h, acl, "after", add)
	for _, q := range c16StormReqs {
		judge(q, h.do(q, hdr), "after-storm")
	}
	mu.Lock()
	defer mu.Unlock()
	for class, w := range viols {
		ctx.Out.Stat("viol:"+class, int64(w.count))
		ctx.Out.Viol(id, "C16", class, fmt.Sprintf("%s (%d times in this storm of %d requests)", w.msg, w.count, g*n), "401/403 / the installed ACL", w.got, map[string]any{"count": w.count})
	}
}

// c16CheckACLFile: the persisted ACL table carries the installed entries of the client.
func c16CheckACLFile(h *c16Hub, acl []C16AC, when string, add func(class, msg string, got any)) {
	b, err := os.ReadFile(filepath.Join(h.dir, "security", "acls.json"))
	if err != nil {
		return
	}
	var all map[string][]C16AC
	if err := json.Unmarshal(b, &all); err != nil {
		return // a torn read of a file being rewritten: not judged
	}
	got, ok := all[c16Client]
	if !ok {
		return
	}
	same := len(got) == len(acl)
	for i := 0; same && i < len(got); i++ {
		same = got[i] == acl[i]
	}
	if !same {
		add("persisted-acl-differs-"+when+"-requests", fmt.Sprintf("acls.json holds %v for client %s (%s the requests); installed is %v: a restart would load it", got, c16Client, when, acl), fmt.Sprint(got))
	}
}
