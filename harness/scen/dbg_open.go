package scen

import (
	"fmt"

	"github.com/mimiro-io/datahub/internal/verif/hub"
)

// openstore: debugging aid — opens the store in args dir= (VERIF_LOG=1 shows the hub's log).
func init() {
	Register("openstore", func(ctx *Ctx) error {
		core, err := hub.TryOpenCore(ctx.Arg("dir", ""))
		if err != nil {
			fmt.Println("OPEN FAILED:", firstLine(err.Error()))
			return nil
		}
		fmt.Println("opened; datasets:", core.Dsm.GetDatasetNames())
		return core.Close()
	})
}
