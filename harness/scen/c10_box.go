package scen

// c10box: exactly-once / order monitor for C10.
//
// For every (n source entities, batch size b, parallelism p) of an exhaustively
// enumerated box (plus sampled larger values in the thorough tier) a real job
// DatasetSource -> JavascriptTransform(Parallelism p) -> DatasetSink is built by
// the scheduler from a JSON configuration and executed the way cron executes it.
// The transform reports every entity it is handed through the transform API's
// Log() (recorded by a zap core) and stamps it with UUID(); variants return,
// drop, duplicate or create entities. The monitor compares
//   - the multiset of entities the transform saw with the source feed (exactly once),
//   - the sink's change feed with f(seen entities) in source order,
//   - identity transforms with a plain copy job, and a second run with "no new change".
// Incremental and fullsync pipelines; DatasetSink, and a recording HTTP sink on a sample.

import (
	"encoding/json"
	"fmt"
	"io"
	"math/rand"
	"net/http"
	"net/http/httptest"
	"os"
	"sort"
	"strconv"
	"strings"
	"sync"

	"github.com/mimiro-io/datahub/internal/verif/gen"
	"github.com/mimiro-io/datahub/internal/verif/model"
	"github.com/mimiro-io/datahub/internal/verif/obs"
)

func init() { Register("c10box", c10Box) }

type c10Triple struct {
	N       int  `json:"n"`
	B       int  `json:"b"`
	P       int  `json:"p"`
	Sampled bool `json:"sampled,omitempty"`
	// Large: a hand-picked big triple outside the box (sink batches of and around 1000, 2000 entities)
	Large bool `json:"large,omitempty"`
}

// c10LargeTriples: batches at the sink of exactly 1000 / 2000 entities (1:1 transform with b=1000 / 2000,
// duplicating transform with b=500) and neighbours (700, 1400, tails of 500 / 200 / 400).
var c10LargeTriples = []c10Triple{
	{N: 1000, B: 1000, P: 1, Large: true},
	{N: 2500, B: 1000, P: 3, Large: true},
	{N: 1200, B: 500, P: 2, Large: true},
	{N: 1400, B: 700, P: 1, Large: true},
	{N: 2000, B: 2000, P: 4, Large: true},
}

type c10Run struct {
	T       c10Triple
	Kind    string // incremental | fullsync
	Variant string // stamp | drop | dup | create | identity | idcopy | append (grows the input array in place) | flipback | draft (c10_flip.go)
	Sink    string // ds | http
}

var c10Variants = []string{"stamp", "drop", "dup", "create", "identity", "idcopy", "append"}

func c10BoxBounds(tier string) (N, B, P int) {
	if tier == "thorough" {
		return 24, 8, 10
	}
	return 12, 4, 6
}

// c10BoxTriples enumerates the whole box in a fixed order.
func c10BoxTriples(tier string) []c10Triple {
	N, B, P := c10BoxBounds(tier)
	var out []c10Triple
	for n := 0; n <= N; n++ {
		bs := map[int]bool{}
		for b := 1; b <= B; b++ {
			bs[b] = true
		}
		if n >= 1 {
			bs[n] = true
		}
		bs[n+1] = true
		var bl []int
		for b := range bs {
			bl = append(bl, b)
		}
		sort.Ints(bl)
		for _, b := range bl {
			for p := 1; p <= P; p++ {
				out = append(out, c10Triple{N: n, B: b, P: p})
			}
		}
	}
	return out
}

func c10RunsOf(t c10Triple) []c10Run {
	var rs []c10Run
	if t.Large {
		for _, k := range []string{"incremental", "fullsync"} {
			for _, v := range []string{"stamp", "dup"} {
				rs = append(rs, c10Run{T: t, Kind: k, Variant: v, Sink: "ds"})
			}
		}
		return rs
	}
	vars := c10Variants
	if t.Sampled {
		// large sampled triples: the exactly-once variant plus one other, chosen by the triple
		vars = []string{"stamp", c10Variants[1+(t.N+t.B+t.P)%(len(c10Variants)-1)]}
	}
	for _, k := range []string{"incremental", "fullsync"} {
		for _, v := range vars {
			rs = append(rs, c10Run{T: t, Kind: k, Variant: v, Sink: "ds"})
		}
	}
	// histories with repeated ids (see c10_flip.go): a source entity changed and changed back between two runs,
	// and a transform that emits every entity twice (draft, then the entity itself), run twice
	for _, k := range []string{"incremental", "fullsync"} {
		rs = append(rs, c10Run{T: t, Kind: k, Variant: "flipback", Sink: "ds"})
		if !t.Sampled || (t.N+t.P)%2 == 0 {
			rs = append(rs, c10Run{T: t, Kind: k, Variant: "draft", Sink: "ds"})
		}
	}
	if (t.N+2*t.B+3*t.P)%4 == 0 {
		rs = append(rs, c10Run{T: t, Kind: "incremental", Variant: "stamp", Sink: "http"})
		rs = append(rs, c10Run{T: t, Kind: "fullsync", Variant: "stamp", Sink: "http"})
	}
	return rs
}

// c10WorkList is this child's share: every nchildren-th triple of the box (and,
// in the thorough tier, ctx.Cases sampled larger triples drawn from the seed).
func c10WorkList(ctx *Ctx) (triples []c10Triple, runs []c10Run, boxShare int) {
	if ctx.Replay != "" {
		b, err := os.ReadFile(ctx.Replay)
		if err == nil {
			var rp struct {
				Ops c10Triple `json:"ops"`
			}
			if json.Unmarshal(b, &rp) == nil {
				triples = []c10Triple{rp.Ops}
			}
		}
	} else {
		idx, n := c10ChildIndex(ctx)
		for i, t := range c10BoxTriples(ctx.Tier) {
			if i%n == idx {
				triples = append(triples, t)
			}
		}
		boxShare = len(triples)
		for j, t := range c10LargeTriples {
			if j%n == idx {
				triples = append(triples, t)
			}
		}
		if ctx.Tier == "thorough" {
			r := rand.New(rand.NewSource(ctx.Seed))
			for i := 0; i < ctx.Cases; i++ {
				n := 25 + r.Intn(476)
				if r.Intn(3) == 0 {
					n = 25 + r.Intn(60)
				}
				var b int
				switch r.Intn(4) {
				case 0:
					b = 1 + r.Intn(8)
				case 1:
					b = n + r.Intn(2)
				default:
					b = 1 + r.Intn(n+1)
				}
				triples = append(triples, c10Triple{N: n, B: b, P: 1 + r.Intn(32), Sampled: true})
			}
		}
	}
	for _, t := range triples {
		runs = append(runs, c10RunsOf(t)...)
	}
	return
}

// ---------- transform code

func c10Code(variant, tag string) string {
	body := ""
	ret := "return out;"
	switch variant {
	case "stamp":
		body = `e["Properties"][pfx+":stamp"] = u; out.push(e);`
	case "drop":
		body = `if (k % 3 != 1) { e["Properties"][pfx+":stamp"] = u; out.push(e); }`
	case "dup":
		body = `e["Properties"][pfx+":stamp"] = u; e["Properties"][pfx+":copy"] = 0; out.push(e);
      var d = NewEntityFrom(e, false, true, true); d["Properties"][pfx+":copy"] = 1; out.push(d);`
	case "create":
		body = `e["Properties"][pfx+":stamp"] = u; out.push(e);
      var c = NewEntity(); SetId(c, GetId(e) + "-c"); c["Properties"][pfx+":stamp"] = u; c["Properties"][pfx+":of"] = k; out.push(c);`
	case "identity", "flipback":
		body = ``
		ret = "return entities;"
	case "draft":
		// every entity twice in one result: a draft copy (extra property) first, then the entity itself
		body = `var d = NewEntityFrom(e, false, true, true); d["Properties"][pfx+":draft"] = 1; out.push(d); out.push(e);`
	case "idcopy":
		body = `out.push(NewEntityFrom(e, false, true, true));`
	case "append":
		// stamps in place, appends one created entity to the INPUT array and returns that array
		body = `e["Properties"][pfx+":stamp"] = u;`
		ret = `if (entities.length > 0) { var a = NewEntity(); SetId(a, GetId(entities[0]) + "-a"); a["Properties"][pfx+":stamp"] = "appended"; entities.push(a); }
  return entities;`
	}
	return `function transform_entities(entities) {
  var pfx = GetNamespacePrefix("` + gen.NsP + `");
  var out = [];
  for (var i = 0; i < entities.length; i++) {
    var e = entities[i];
    var k = e["Properties"][pfx+":idx"];
    var u = UUID();
    Log("T|` + tag + `|" + k + "|" + u, "info");
    ` + body + `
  }
  ` + ret + `
}`
}

// ---------- source content

func c10SrcEnt(i, n int) model.Ent {
	e := model.Ent{ID: gen.NsA + "e" + strconv.Itoa(i),
		Props: map[string]any{
			gen.NsP + "idx":  float64(i),
			gen.NsP + "name": "n" + strconv.Itoa(i),
			gen.NsP + "f":    float64(i) + 0.5,
			gen.NsP + "arr":  []any{float64(i), "x", 1.25, true},
			gen.NsP + "big":  float64(9007199254740000 + i),
		},
		Refs: map[string]any{gen.NsR + "next": gen.NsA + "e" + strconv.Itoa((i+1)%n)}}
	if i%3 == 0 {
		e.Refs[gen.NsR+"many"] = []any{gen.NsA + "e0", gen.NsA + "e" + strconv.Itoa(i)}
	}
	if i%5 == 4 {
		e.Deleted = true
	}
	return e
}

// ---------- recording HTTP sink

type c10HTTPSink struct {
	mu   sync.Mutex
	srv  *httptest.Server
	recs map[string][]c10HTTPRec // by job id
}

type c10HTTPRec struct {
	ID    string
	Stamp string
	Start bool
	End   bool
}

func c10NewHTTPSink() *c10HTTPSink {
	s := &c10HTTPSink{recs: map[string][]c10HTTPRec{}}
	s.srv = httptest.NewServer(http.HandlerFunc(func(w http.ResponseWriter, r *http.Request) {
		job := strings.TrimPrefix(r.URL.Path, "/sink/")
		body, _ := io.ReadAll(r.Body)
		var arr []map[string]any
		if err := json.Unmarshal(body, &arr); err != nil {
			w.WriteHeader(400)
			return
		}
		s.mu.Lock()
		for _, m := range arr {
			id, _ := m["id"].(string)
			if id == "@context" {
				continue
			}
			rec := c10HTTPRec{ID: c10Local(id)}
			if p, ok := m["props"].(map[string]any); ok {
				for k, v := range p {
					if strings.HasSuffix(k, ":stamp") || strings.HasSuffix(k, "#stamp") {
						rec.Stamp, _ = v.(string)
					}
				}
			}
			s.recs[job] = append(s.recs[job], rec)
		}
		if r.Header.Get("universal-data-api-full-sync-end") == "true" {
			s.recs[job] = append(s.recs[job], c10HTTPRec{End: true})
		}
		s.mu.Unlock()
		w.WriteHeader(200)
	}))
	return s
}

func (s *c10HTTPSink) take(job string) []c10HTTPRec {
	s.mu.Lock()
	defer s.mu.Unlock()
	r := s.recs[job]
	delete(s.recs, job)
	return r
}

// c10Local strips namespace / prefix from an id: "ns3:e5" or "http://…/e5" -> "e5".
func c10Local(id string) string {
	if i := strings.LastIndexAny(id, "/#:"); i >= 0 {
		return id[i+1:]
	}
	return id
}

// ---------- the scenario

type c10State struct {
	ctx    *Ctx
	h      *c10Hub
	http   *c10HTTPSink
	srcs   map[int]bool
	plain  map[string][]obs.Rec
	caseOf map[c10Triple]string
}

func c10Class(what map[string]any, sig string) string {
	if what == nil {
		return ""
	}
	n, b, p := c10Int(what["n"]), c10Int(what["b"]), c10Int(what["p"])
	kind, _ := what["kind"].(string)
	if kind == "incremental" && c10Uneven(n, b, p) {
		return "incr-uneven-parallel-batch"
	}
	return ""
}

// c10Uneven: some source batch of the run has a length that is at least p but
// not a multiple of p (p > 1), i.e. the work cannot be split evenly.
func c10Uneven(n, b, p int) bool {
	if p <= 1 || b < 1 {
		return false
	}
	for from := 0; from < n; from += b {
		m := b
		if from+m > n {
			m = n - from
		}
		if m >= p && m%p != 0 {
			return true
		}
	}
	return false
}

func c10Box(ctx *Ctx) error {
	triples, runs, boxShare := c10WorkList(ctx)
	if !c10IsSub(ctx) {
		ok := c10Supervise(ctx, "c10box", "C10", len(runs), c10Class)
		if ctx.Replay == "" {
			if ok {
				ctx.Out.Stat("exhaustive_box_complete", 1)
				ctx.Out.Stat("box_triples_visited", int64(boxShare))
			} else {
				ctx.Out.Stat("exhaustive_box_incomplete", 1)
			}
		}
		return nil
	}
	_ = triples
	c10SetMaxStack()
	dir := ctx.NewDir("c10")
	defer os.RemoveAll(dir)
	st := &c10State{ctx: ctx, srcs: map[int]bool{}, plain: map[string][]obs.Rec{}, caseOf: map[c10Triple]string{}}
	st.h = c10OpenHub(dir, func(logger, msg string) bool { return strings.HasPrefix(msg, "T|") })
	defer st.h.Close()
	st.http = c10NewHTTPSink()
	defer st.http.srv.Close()

	from := c10SubFrom(ctx)
	for pos := from; pos < len(runs); pos++ {
		r := runs[pos]
		id, ok := st.caseOf[r.T]
		if !ok {
			id = outHash(r.T)
			st.caseOf[r.T] = id
			tags := []string{}
			if r.T.Sampled {
				tags = append(tags, "sampled")
			} else if r.T.Large {
				tags = append(tags, "large")
			} else {
				tags = append(tags, "box")
			}
			if c10Uneven(r.T.N, r.T.B, r.T.P) {
				tags = append(tags, "uneven-parallel-batch")
			}
			ctx.Out.Case(id, ctx.Seed, r.T, r.T.N > r.T.B || r.T.P > 1, tags)
		}
		what := map[string]any{"n": r.T.N, "b": r.T.B, "p": r.T.P, "kind": r.Kind, "variant": r.Variant, "sink": r.Sink}
		ctx.Out.Begin(id, pos, what)
		st.runOne(id, pos, r, what)
		ctx.Out.Ack(id, pos, nil)
		ctx.Out.FlushStats()
	}
	return nil
}

func (st *c10State) ensureSource(n int) (string, error) {
	name := "c10src" + strconv.Itoa(n)
	if st.srcs[n] {
		return name, nil
	}
	if _, err := st.h.Core.Dsm.CreateDataset(name, nil); err != nil {
		return name, err
	}
	var batch []model.Ent
	for i := 0; i < n; i++ {
		batch = append(batch, c10SrcEnt(i, n))
		chunk := 7
		if n > 600 {
			chunk = 250 // big sources are loaded in bigger batches
		}
		if len(batch) == chunk || i == n-1 {
			if err := StoreBatch(st.h.Core, name, batch, false); err != nil {
				return name, err
			}
			batch = nil
		}
	}
	st.srcs[n] = true
	return name, nil
}

func (st *c10State) jobJSON(id string, r c10Run, src, sink string, withTransform bool) string {
	cfg := map[string]any{
		"id": id, "title": id, "paused": true, "batchSize": r.T.B,
		"triggers": []any{map[string]any{"triggerType": "cron", "jobType": r.Kind, "schedule": "@every 24h"}},
		"source":   map[string]any{"Type": "DatasetSource", "Name": src},
	}
	if r.Sink == "http" {
		cfg["sink"] = map[string]any{"Type": "HttpDatasetSink", "Url": st.http.srv.URL + "/sink/" + id}
	} else {
		cfg["sink"] = map[string]any{"Type": "DatasetSink", "Name": sink}
	}
	if withTransform {
		cfg["transform"] = map[string]any{"Type": "JavascriptTransform", "Parallelism": r.T.P, "Code": c10B64(c10Code(r.Variant, id))}
	}
	b, _ := json.Marshal(cfg)
	return string(b)
}

type c10Seen struct {
	Idx   int
	Stamp string
}

// plainCopy returns the sink feed of a job without transform over the same source, batch size and pipeline type.
func (st *c10State) plainCopy(r c10Run, src string) ([]obs.Rec, error) {
	key := fmt.Sprintf("%d-%d-%s", r.T.N, r.T.B, r.Kind)
	if f, ok := st.plain[key]; ok {
		return f, nil
	}
	sink := "c10pc-" + key
	if _, err := st.h.Core.Dsm.CreateDataset(sink, nil); err != nil {
		return nil, err
	}
	id := "c10pcjob-" + key
	_, js, err := st.h.c10AddPaused(st.jobJSON(id, c10Run{T: r.T, Kind: r.Kind, Sink: "ds"}, src, sink, false))
	if err != nil {
		return nil, err
	}
	if panicked, msg, _ := c10RunGuarded(js[0].RunAsCron); panicked {
		return nil, fmt.Errorf("plain copy job panicked: %s", msg)
	}
	_ = st.h.Sched.DeleteJob(id)
	feed, _, err := obs.Feed(st.h.Core.Store, st.h.Core.Dsm.GetDataset(sink), 0, nil, false)
	if err != nil {
		return nil, err
	}
	st.plain[key] = feed
	st.ctx.Out.Stat("plain_copy_jobs", 1)
	return feed, nil
}

func (st *c10State) runOne(caseID string, pos int, r c10Run, what map[string]any) {
	out := st.ctx.Out
	viol := func(class, msg string, exp, got any) {
		out.Stat("viol:"+class, 1)
		out.Viol(caseID, "C10", class, fmt.Sprintf("n=%d b=%d p=%d %s/%s/%s: %s", r.T.N, r.T.B, r.T.P, r.Kind, r.Variant, r.Sink, msg), exp, got, map[string]any{"run": what})
	}
	uneven := r.Kind == "incremental" && c10Uneven(r.T.N, r.T.B, r.T.P)
	sfx := func(class string) string {
		if uneven && !r.T.Large {
			return class + "/incr-uneven-parallel-batch"
		}
		if r.T.Large {
			return class + "/large-batch"
		}
		return class
	}
	if r.Variant == "flipback" || r.Variant == "draft" {
		st.runFlip(caseID, pos, r, viol)
		return
	}
	src, err := st.ensureSource(r.T.N)
	if err != nil {
		out.Inconclusive(caseID, "C10", "cannot build source: "+err.Error())
		return
	}
	sink := "c10snk" + strconv.Itoa(pos)
	if r.Sink == "ds" {
		if _, err := st.h.Core.Dsm.CreateDataset(sink, nil); err != nil {
			out.Inconclusive(caseID, "C10", "cannot create sink: "+err.Error())
			return
		}
	}
	jobID := "c10-" + strconv.Itoa(pos)
	_, js, err := st.h.c10AddPaused(st.jobJSON(jobID, r, src, sink, true))
	if err != nil || len(js) != 1 {
		out.Inconclusive(caseID, "C10", fmt.Sprintf("cannot configure job: %v", err))
		return
	}
	defer func() { _ = st.h.Sched.DeleteJob(jobID) }()

	st.h.Log.Take()
	panicked, pmsg, pstack := c10RunGuarded(js[0].RunAsCron)
	logs := st.h.Log.Take()
	out.Stat("runs", 1)
	out.Stat("runs:"+r.Kind, 1)
	out.Stat("runs:variant:"+r.Variant, 1)
	out.Stat("runs:sink:"+r.Sink, 1)
	if uneven {
		out.Stat("runs_uneven_parallel_batch", 1)
	}
	if panicked {
		cl := "job-panic"
		if strings.Contains(pmsg, "makeslice") {
			cl = "job-panic-makeslice"
		}
		out.Stat("job_panics", 1)
		viol(sfx(cl), "the job goroutine panicked (jobrunner re-panics, which ends the hub process): "+firstLine(pmsg), "run completes", map[string]any{"panic": pmsg, "stack": c10Trunc(pstack, 3000)})
		return
	}
	var seen []c10Seen
	for _, l := range logs {
		// the transform code of every job logs its own job id, so that worker goroutines
		// left behind by an earlier (panicked) run cannot be mistaken for this run's
		parts := strings.Split(l.Msg, "|")
		if len(parts) != 4 || parts[1] != jobID {
			continue
		}
		parts = parts[1:]
		k, err := strconv.ParseFloat(parts[1], 64)
		if err != nil {
			viol("transform-input-garbled", "transform was handed an entity without its idx property: "+l.Msg, nil, l.Msg)
			continue
		}
		seen = append(seen, c10Seen{Idx: int(k), Stamp: parts[2]})
	}
	out.Stat("transform_inputs_seen", int64(len(seen)))
	out.Stat("source_entities", int64(r.T.N))

	res, _ := st.h.JobResult(jobID)
	if res == nil {
		viol("no-job-result", "the run left no recorded outcome", "a jobResult", nil)
		return
	}
	if res.LastError != "" {
		viol(sfx("job-error"), "the run failed: "+res.LastError, "", res.LastError)
		return
	}

	// --- exactly once
	cnt := map[int]int{}
	stamps := map[int][]string{}
	for _, s := range seen {
		cnt[s.Idx]++
		stamps[s.Idx] = append(stamps[s.Idx], s.Stamp)
	}
	// with the HTTP sink a fullsync reads entities instead of changes; whether tombstones are part
	// of that source view is not C10's business: a tombstone may be seen 0 or 1 times there.
	optional := func(i int) bool { return r.Sink == "http" && r.Kind == "fullsync" && c10SrcEnt(i, r.T.N).Deleted }
	var missed, twice, foreign []int
	for i := 0; i < r.T.N; i++ {
		switch {
		case cnt[i] == 0 && !optional(i):
			missed = append(missed, i)
		case cnt[i] > 1:
			twice = append(twice, i)
		}
	}
	for k := range cnt {
		if k < 0 || k >= r.T.N {
			foreign = append(foreign, k)
		}
	}
	sort.Ints(foreign)
	seenBad := false
	if len(missed) > 0 {
		seenBad = true
		viol(sfx("transform-missed"), fmt.Sprintf("%d of %d source entities never reached the transform: idx %v", len(missed), r.T.N, missed), "every idx once", map[string]any{"missed": missed, "seen": len(seen)})
	}
	if len(twice) > 0 {
		seenBad = true
		viol(sfx("transform-twice"), fmt.Sprintf("source entities reached the transform more than once: idx %v", twice), "every idx once", map[string]any{"twice": twice})
	}
	if len(foreign) > 0 {
		seenBad = true
		viol("transform-foreign", fmt.Sprintf("the transform saw entities that are not in the source: idx %v", foreign), nil, foreign)
	}

	// --- what the transform returned must be in the sink, in source order
	var exp []string
	for i := 0; i < r.T.N; i++ {
		for _, s := range stamps[i] {
			id := "e" + strconv.Itoa(i)
			switch r.Variant {
			case "stamp":
				exp = append(exp, id+"|"+s+"|")
			case "drop":
				if i%3 != 1 {
					exp = append(exp, id+"|"+s+"|")
				}
			case "dup":
				exp = append(exp, id+"|"+s+"|0", id+"|"+s+"|1")
			case "create":
				exp = append(exp, id+"|"+s+"|", id+"-c|"+s+"|")
			case "append":
				exp = append(exp, id+"|"+s+"|")
			}
		}
	}
	var got []string
	var feed []obs.Rec
	appended := 0
	if r.Sink == "http" {
		sawEnd := false
		for _, h := range st.http.take(jobID) {
			if h.End {
				sawEnd = true
				continue
			}
			got = append(got, h.ID+"|"+h.Stamp+"|")
		}
		if r.Kind == "fullsync" && !sawEnd {
			viol("http-fullsync-no-end", "fullsync to the HTTP sink did not send the full-sync-end request", "end marker", nil)
		}
		out.Stat("http_sink_entities", int64(len(got)))
	} else {
		var err error
		feed, _, err = obs.Feed(st.h.Core.Store, st.h.Core.Dsm.GetDataset(sink), 0, nil, false)
		if err != nil {
			out.Inconclusive(caseID, "C10", "cannot read sink feed: "+err.Error())
			return
		}
		out.Stat("sink_changes_read", int64(len(feed)))
		for _, f := range feed {
			stamp, _ := f.Props[gen.NsP+"stamp"].(string)
			cp := ""
			if v, ok := f.Props[gen.NsP+"copy"]; ok {
				cp = fmt.Sprint(v)
			}
			if r.Variant == "append" && strings.HasSuffix(f.ID, "-a") {
				out.Stat("appended_entities_in_sink", 1)
				appended++
				continue // one per transform call; how many calls there are is the pipeline's business
			}
			got = append(got, c10Local(f.ID)+"|"+stamp+"|"+cp)
		}
		if r.Variant == "append" && len(exp) > 0 && appended == 0 && !seenBad {
			// ... but every call pushed one created entity onto its input array and returned that array
			viol(sfx("sink-missing/created-by-push-onto-the-input-array"), fmt.Sprintf("the transform pushed a created entity onto its input array in every call and returned that array; %d source entities went through it and none of the created entities reached the sink", len(exp)), ">= 1", 0)
		}
	}
	switch r.Variant {
	case "stamp", "drop", "dup", "create", "append":
		if !c10EqStr(exp, got) {
			em, gm := c10Bag(exp), c10Bag(got)
			var missing, extra []string
			for k, c := range em {
				if gm[k] < c {
					missing = append(missing, k)
				}
			}
			for k, c := range gm {
				if em[k] < c {
					extra = append(extra, k)
				}
			}
			sort.Strings(missing)
			sort.Strings(extra)
			switch {
			case len(missing) > 0:
				viol(sfx("sink-missing"), fmt.Sprintf("%d entities returned by the transform never reached the sink: %v", len(missing), c10Head(missing, 6)), len(exp), map[string]any{"got": len(got), "missing": c10Head(missing, 20)})
			case len(extra) > 0:
				viol(sfx("sink-extra"), fmt.Sprintf("the sink received %d entities the transform did not return: %v", len(extra), c10Head(extra, 6)), len(exp), map[string]any{"got": len(got), "extra": c10Head(extra, 20)})
			default:
				if !seenBad {
					viol(sfx("sink-order"), "the sink received the transformed entities in an order different from the source order", c10Head(exp, 40), c10Head(got, 40))
				}
			}
		} else {
			out.Stat("sink_feed_matches", 1)
		}
	case "identity", "idcopy":
		pc, err := st.plainCopy(r, src)
		if err != nil {
			out.Inconclusive(caseID, "C10", "plain copy: "+err.Error())
			return
		}
		if d := c10DiffFeeds(pc, feed); d != "" {
			if !seenBad {
				viol(sfx("identity-differs/"+r.Variant), "identity transform is not equivalent to a plain copy: "+d, len(pc), len(feed))
			}
		} else {
			out.Stat("identity_equals_plain_copy", 1)
		}
		// run it again: no new changes
		st.h.Log.Take()
		panicked, pmsg, _ := c10RunGuarded(js[0].RunAsCron)
		st.h.Log.Take()
		if panicked {
			viol(sfx("job-panic"), "second run panicked: "+firstLine(pmsg), nil, pmsg)
			return
		}
		res2, _ := st.h.JobResult(jobID)
		if res2 != nil && res2.LastError != "" {
			viol(sfx("job-error"), "second run failed: "+res2.LastError, "", res2.LastError)
			return
		}
		feed2, _, err := obs.Feed(st.h.Core.Store, st.h.Core.Dsm.GetDataset(sink), 0, nil, false)
		if err != nil {
			out.Inconclusive(caseID, "C10", "cannot read sink feed: "+err.Error())
			return
		}
		out.Stat("second_runs", 1)
		if len(feed2) != len(feed) {
			viol(sfx("rerun-adds-changes/"+r.Variant+"/"+r.Kind), fmt.Sprintf("running the identity job again added %d changes to the sink", len(feed2)-len(feed)), len(feed), len(feed2))
		} else {
			out.Stat("second_run_no_new_changes", 1)
		}
	}
}

func firstLine(s string) string {
	if i := strings.Index(s, "\n"); i >= 0 {
		return s[:i]
	}
	return s
}

func c10Trunc(s string, n int) string {
	if len(s) > n {
		return s[:n]
	}
	return s
}

func c10Head(s []string, n int) []string {
	if len(s) > n {
		return s[:n]
	}
	return s
}

func c10EqStr(a, b []string) bool {
	if len(a) != len(b) {
		return false
	}
	for i := range a {
		if a[i] != b[i] {
			return false
		}
	}
	return true
}

func c10Bag(a []string) map[string]int {
	m := map[string]int{}
	for _, s := range a {
		m[s]++
	}
	return m
}

// c10DiffFeeds compares two feeds position by position on id, deleted flag, props and refs.
func c10DiffFeeds(want, got []obs.Rec) string {
	if len(want) != len(got) {
		return fmt.Sprintf("plain copy has %d changes, identity job has %d", len(want), len(got))
	}
	for i := range want {
		if want[i].ID != got[i].ID {
			return fmt.Sprintf("position %d: plain copy has %s, identity job has %s", i, want[i].ID, got[i].ID)
		}
		a, b := model.NormEnt(want[i].Ent), model.NormEnt(got[i].Ent)
		if !model.SameContent(&a, &b) {
			return fmt.Sprintf("position %d (%s): content differs: plain copy %s, identity job %s", i, want[i].ID, c10JSON(a), c10JSON(b))
		}
	}
	return ""
}
