package scen

// dsmgmt: histories mixing writes with create / delete / rename / re-create of
// datasets, garbage collection and restarts. Oracles: C07 (deleted data is
// hidden everywhere, others unaffected, raw key scan after GC) and C19
// (catalogue / core.Dataset / datasets agree). The model-differential checks
// of C01-C03 run on every live dataset after every op.

import (
	"bytes"
	"encoding/binary"
	"encoding/json"
	"fmt"
	"math/rand"
	"os"
	"sort"
	"strings"

	"github.com/dgraph-io/badger/v4"

	"github.com/mimiro-io/datahub/internal/server"
	"github.com/mimiro-io/datahub/internal/verif/gen"
	"github.com/mimiro-io/datahub/internal/verif/hub"
	"github.com/mimiro-io/datahub/internal/verif/model"
	"github.com/mimiro-io/datahub/internal/verif/obs"
)

func init() { Register("dsmgmt", dsMgmt) }

type mgmtState struct {
	ctxStore   *server.Store                // long-lived contextual store created before deletions
	deletedIDs map[uint32]string            // internal dataset ids of deleted incarnations
	stale      map[string][]*server.Dataset // handles of deleted datasets, by the name they had
	everNames  map[string]bool
	pubNS      map[string]bool     // dataset name -> created with a publicNamespaces setting
	pubList    map[string][]string // dataset name -> public namespaces last set through the meta-entity (setpubns)
	kind       map[string]string   // dataset name -> "", "pubns", "proxy", "virtual" as configured at creation
	sharedHit  bool
}

func isMgmt(op SDOp) bool {
	switch op.Kind {
	case "create", "delete", "rename", "gc", "restart", "stalewrite":
		return true
	}
	return false
}

func genMgmtCase(r *rand.Rand) SDCase {
	c := SDCase{Datasets: []string{"da", "db"}, NIDs: 3 + r.Intn(2)}
	v := gen.NewVocab(c.NIDs, 3, 3)
	names := []string{"da", "db", "dc", "dd"}
	live := map[string]bool{"da": true, "db": true}
	cur := map[string]model.Ent{}
	tags := map[string]bool{}
	n := 8 + r.Intn(14)
	liveList := func() []string {
		var l []string
		for _, n := range names {
			if live[n] {
				l = append(l, n)
			}
		}
		return l
	}
	deleted := false
	var deletedNames []string
	for i := 0; i < n; i++ {
		k := r.Intn(100)
		ll := liveList()
		switch {
		case k < 50 && len(ll) > 0:
			ds := ll[r.Intn(len(ll))]
			m := 1 + r.Intn(3)
			var ents []model.Ent
			for j := 0; j < m; j++ {
				id := v.IDs[r.Intn(len(v.IDs))]
				var e model.Ent
				if p, ok := cur[ds+"|"+id]; ok && r.Intn(3) != 0 {
					e = gen.Mutate(r, v, p)
					tags["restored-id"] = true
				} else {
					e = gen.Entity(r, v, id)
				}
				cur[ds+"|"+id] = e
				ents = append(ents, e)
			}
			c.Ops = append(c.Ops, SDOp{Kind: "batch", DS: ds, Ents: ents})
		case k < 56 && len(ll) >= 2:
			a, b := ll[0], ll[len(ll)-1]
			t := map[string][]model.Ent{a: {gen.Entity(r, v, v.IDs[r.Intn(len(v.IDs))])}, b: {gen.Entity(r, v, v.IDs[r.Intn(len(v.IDs))])}}
			c.Ops = append(c.Ops, SDOp{Kind: "txn", Txn: t})
			tags["txn"] = true
			if r.Intn(2) == 0 {
				c.Ops = append(c.Ops, genBadTxn(r, append([]string{}, ll...), len(c.Ops)))
				tags["rejected-txn"] = true
			}
		case k%25 == 7 && len(ll) > 0:
			// a client changes (or takes away: empty list) a dataset's public namespaces the documented way: it
			// stores the dataset's meta-entity into core.Dataset
			c.Ops = append(c.Ops, SDOp{Kind: "setpubns", DS: ll[r.Intn(len(ll))], To: []string{"none", "one", "two", "none"}[r.Intn(4)]})
			tags["public-namespaces-changed"] = true
		case k < 58 && len(ll) > 0:
			// a replica of the catalogue (the meta-entities, same ids) inside a regular dataset
			c.Ops = append(c.Ops, SDOp{Kind: "replicate", DS: ll[r.Intn(len(ll))]})
			tags["catalogue-replica"] = true
		case k < 66:
			nm := names[r.Intn(len(names))]
			if live[nm] {
				continue
			}
			if _, was := cur["#"+nm]; was {
				tags["recreate"] = true
			}
			live[nm] = true
			op := SDOp{Kind: "create", DS: nm}
			switch r.Intn(6) {
			case 0, 1:
				op.To = "pubns" // created with a publicNamespaces setting
				tags["public-namespaces"] = true
			case 2:
				op.To = "proxy" // created as a proxy dataset
				tags["proxy-dataset"] = true
			case 3:
				op.To = "virtual" // created as a virtual dataset
				tags["virtual-dataset"] = true
			}
			c.Ops = append(c.Ops, op)
		case k < 78 && len(ll) > 0:
			nm := ll[r.Intn(len(ll))]
			live[nm] = false
			cur["#"+nm] = model.Ent{}
			for key := range cur {
				if strings.HasPrefix(key, nm+"|") {
					delete(cur, key)
				}
			}
			deleted = true
			deletedNames = append(deletedNames, nm)
			tags["delete"] = true
			c.Ops = append(c.Ops, SDOp{Kind: "delete", DS: nm})
		case k < 86 && len(ll) > 0:
			from := ll[r.Intn(len(ll))]
			to := names[r.Intn(len(names))]
			if live[to] {
				continue
			}
			live[from] = false
			live[to] = true
			cur["#"+from] = model.Ent{}
			for key, val := range cur {
				if strings.HasPrefix(key, from+"|") {
					delete(cur, key)
					cur[to+"|"+key[len(from)+1:]] = val
				}
			}
			tags["rename"] = true
			c.Ops = append(c.Ops, SDOp{Kind: "rename", DS: from, To: to})
		case k < 91:
			if deleted {
				tags["gc-after-delete"] = true
			}
			c.Ops = append(c.Ops, SDOp{Kind: "gc"})
		case k < 95:
			// a client that resolved a dataset before it was deleted (a multi-batch upload, a job sink)
			// stores another batch through that handle afterwards
			if len(deletedNames) > 0 {
				nm := deletedNames[r.Intn(len(deletedNames))]
				c.Ops = append(c.Ops, SDOp{Kind: "stalewrite", DS: nm, Ents: []model.Ent{gen.Entity(r, v, v.IDs[r.Intn(len(v.IDs))]), gen.Entity(r, v, v.IDs[r.Intn(len(v.IDs))])}})
				tags["stale-handle-write"] = true
			}
		default:
			tags["restart"] = true
			c.Ops = append(c.Ops, SDOp{Kind: "restart"})
		}
	}
	for t := range tags {
		c.Tags = append(c.Tags, t)
	}
	sort.Strings(c.Tags)
	return c
}

func dsMgmt(ctx *Ctx) error {
	if ctx.Replay != "" {
		b, err := os.ReadFile(ctx.Replay)
		if err != nil {
			return err
		}
		var w struct {
			Ops SDCase `json:"ops"`
		}
		if err := json.Unmarshal(b, &w); err != nil {
			return err
		}
		runMgmtCase(ctx, w.Ops)
		return nil
	}
	r := rand.New(rand.NewSource(ctx.Seed))
	for i := 0; i < ctx.Cases; i++ {
		runMgmtCase(ctx, genMgmtCase(r))
	}
	return nil
}

func runMgmtCase(ctx *Ctx, c SDCase) {
	id := outHash(c)
	nontrivial := hasTag(c.Tags, "delete") || hasTag(c.Tags, "rename")
	if ctx.Has("C19") && !ctx.Has("C07") {
		nontrivial = hasTag(c.Tags, "restored-id") && (hasTag(c.Tags, "delete") || hasTag(c.Tags, "rename") || hasTag(c.Tags, "recreate"))
	}
	ctx.Out.Case(id, ctx.Seed, c, nontrivial, c.Tags)
	dir := ctx.NewDir("mg")
	defer os.RemoveAll(dir)
	core := hub.OpenCore(dir)
	s := &sdRun{ctx: ctx, id: id, c: c, core: core, dir: dir, m: model.New(), vocab: gen.NewVocab(c.NIDs, 3, 3),
		seen: map[string]bool{}, rec: map[string][]uint64{}, iids: map[string]uint64{}}
	s.mg = &mgmtState{deletedIDs: map[uint32]string{}, everNames: map[string]bool{}}
	s.mg.ctxStore = server.NewContextualStore(core.Store)
	s.extra = s.mgmtChecks
	defer func() { s.core.Close() }()
	defer func() {
		if p := recover(); p != nil {
			s.viol(s.mainProp(), "panic", fmt.Sprintf("panic: %v", p), nil, nil)
		}
	}()
	for _, d := range c.Datasets {
		if _, err := core.Dsm.CreateDataset(d, nil); err != nil {
			ctx.Out.Inconclusive(id, "", "create dataset: "+err.Error())
			return
		}
		s.m.Create(d)
		s.mg.everNames[d] = true
	}
	for i, op := range c.Ops {
		s.opIdx = i
		ctx.Out.Begin(id, i, op.Kind)
		var before map[string]string
		if isMgmt(op) && ctx.Has("C07") {
			before = s.scopedSnapshot()
		}
		err := s.apply(op)
		ctx.Out.Ack(id, i, err)
		if err != nil {
			s.viol(s.mainProp(), "op-error", fmt.Sprintf("%s returned error: %v", op.Kind, err), nil, op)
			break
		}
		if before != nil {
			s.othersUnaffected(op, before)
		}
		s.checkAll(op)
		if s.abort {
			break
		}
	}
	ctx.Out.Stat("queries", s.nQueries)
}

func (s *sdRun) applyMgmt(op SDOp) error {
	switch op.Kind {
	case "create":
		var cfg *server.CreateDatasetConfig
		switch op.To {
		case "pubns":
			cfg = &server.CreateDatasetConfig{PublicNamespaces: []string{gen.NsA, gen.NsP}}
		case "proxy":
			cfg = &server.CreateDatasetConfig{ProxyDatasetConfig: &server.ProxyDatasetConfig{RemoteURL: "http://localhost:1/datasets/" + op.DS, AuthProviderName: "none", TimeoutSeconds: 3}}
		case "virtual":
			cfg = &server.CreateDatasetConfig{VirtualDatasetConfig: &server.VirtualDatasetConfig{Transform: "ZnVuY3Rpb24gYnVpbGRfZW50aXRpZXMoKSB7fQ=="}}
		}
		if _, err := s.core.Dsm.CreateDataset(op.DS, cfg); err != nil {
			return err
		}
		s.m.Create(op.DS)
		s.mg.everNames[op.DS] = true
		if s.mg.pubNS == nil {
			s.mg.pubNS = map[string]bool{}
		}
		s.mg.pubNS[op.DS] = op.To == "pubns"
		delete(s.mg.pubList, op.DS)
		if s.mg.kind == nil {
			s.mg.kind = map[string]string{}
		}
		s.mg.kind[op.DS] = op.To
	case "setpubns":
		if s.m.Live(op.DS) == nil {
			return nil
		}
		cd := s.core.Dsm.GetDataset("core.Dataset")
		nsi, err := s.core.Store.NamespaceManager.GetDatasetNamespaceInfo()
		if err != nil {
			return err
		}
		res, err := cd.GetEntities("", 1000)
		if err != nil {
			return err
		}
		want := map[string][]string{"none": {}, "one": {gen.NsA}, "two": {gen.NsR, gen.NsP}}[op.To]
		for _, e := range res.Entities {
			if e.ID == nsi.DatasetPrefix+":"+op.DS && !e.IsDeleted {
				l := make([]interface{}, 0, len(want))
				for _, n := range want {
					l = append(l, n)
				}
				e.Properties[nsi.PublicNamespacesKey] = l
				if err := cd.StoreEntities([]*server.Entity{e}); err != nil {
					return err
				}
				if s.mg.pubList == nil {
					s.mg.pubList = map[string][]string{}
				}
				if s.mg.pubNS == nil {
					s.mg.pubNS = map[string]bool{}
				}
				s.mg.pubList[op.DS] = want
				s.mg.pubNS[op.DS] = len(want) > 0
				s.ctx.Out.Stat("c19_public_namespaces_set_through_meta_entity:"+op.To, 1)
				break
			}
		}
	case "replicate":
		// what a copy job with core.Dataset as its source does: the meta-entities (same ids) land in a regular dataset
		if s.m.Live(op.DS) == nil {
			return nil
		}
		metas, err := obs.Listing(s.core.Store, s.core.Dsm.GetDataset("core.Dataset"), 0)
		if err != nil {
			return err
		}
		var ents []model.Ent
		for _, m := range metas {
			if !m.Deleted {
				ents = append(ents, model.NormEnt(m.Ent))
			}
		}
		if len(ents) == 0 {
			return nil
		}
		if err := StoreBatch(s.core, op.DS, ents, false); err != nil {
			return err
		}
		s.m.Apply(op.DS, ents)
		s.ctx.Out.Stat("c19_catalogue_replicas_written", 1)
	case "stalewrite":
		hs := s.mg.stale[op.DS]
		if len(hs) == 0 {
			return nil
		}
		h := hs[len(hs)-1]
		esp := server.NewEntityStreamParser(s.core.Store)
		var batch []*server.Entity
		if err := esp.ParseStream(bytes.NewReader(gen.Payload(op.Ents, false)), func(e *server.Entity) error { batch = append(batch, e); return nil }); err != nil {
			return err
		}
		// the write may be refused or accepted; either way nothing of it may become visible anywhere
		if err := h.StoreEntities(batch); err != nil {
			s.ctx.Out.Stat("c07_stale_writes_refused", 1)
		} else {
			s.ctx.Out.Stat("c07_stale_writes_accepted", 1)
		}
	case "delete":
		if ds := s.core.Dsm.GetDataset(op.DS); ds != nil {
			s.mg.deletedIDs[ds.InternalID] = op.DS
			if s.mg.stale == nil {
				s.mg.stale = map[string][]*server.Dataset{}
			}
			s.mg.stale[op.DS] = append(s.mg.stale[op.DS], ds)
		}
		var open []*c07Paged
		if s.ctx.Has("C07") {
			open = s.c07OpenPaged(op.DS)
		}
		if err := s.core.Dsm.DeleteDataset(op.DS); err != nil {
			return err
		}
		s.m.Delete(op.DS)
		delete(s.mg.pubList, op.DS)
		delete(s.rec, op.DS)
		s.c07ContinuePaged(op.DS, open)
	case "rename":
		if _, err := s.core.Dsm.UpdateDataset(op.DS, &server.UpdateDatasetConfig{ID: op.To}); err != nil {
			return err
		}
		s.m.Rename(op.DS, op.To)
		if s.mg.pubNS != nil {
			s.mg.pubNS[op.To] = s.mg.pubNS[op.DS]
			delete(s.mg.pubNS, op.DS)
		}
		if s.mg.kind != nil {
			s.mg.kind[op.To] = s.mg.kind[op.DS]
			delete(s.mg.kind, op.DS)
		}
		if l, ok := s.mg.pubList[op.DS]; ok {
			s.mg.pubList[op.To] = l
			delete(s.mg.pubList, op.DS)
		}
		s.rec[op.To] = s.rec[op.DS]
		delete(s.rec, op.DS)
		s.mg.everNames[op.To] = true
	case "gc":
		var before map[string]bool
		if s.ctx.Has("C07") {
			before = s.rawKeys()
		}
		gc := server.NewGarbageCollector(s.core.Store, s.core.Env)
		if err := gc.Cleandeleted(); err != nil {
			return err
		}
		if before != nil {
			s.rawScanAfterGC(before)
		}
	case "restart":
		if err := s.core.Close(); err != nil {
			return err
		}
		s.core = hub.OpenCore(s.dir)
		s.mg.ctxStore = server.NewContextualStore(s.core.Store)
		s.mg.stale = nil // handles do not survive the process
	default:
		return fmt.Errorf("unknown op kind %q", op.Kind)
	}
	return nil
}

// scopedSnapshot captures every dataset-scoped read of every live dataset.
func (s *sdRun) scopedSnapshot() map[string]string {
	snap := map[string]string{}
	st := s.core.Store
	for _, d := range s.dsNames() {
		ds := s.core.Dsm.GetDataset(d)
		if ds == nil {
			continue
		}
		l, _ := obs.Listing(st, ds, 0)
		sort.Slice(l, func(i, j int) bool { return l[i].ID < l[j].ID })
		snap["list|"+d] = strings.Join(recStr(l), "\n")
		f, tok, _ := obs.Feed(st, ds, 0, nil, false)
		snap["feed|"+d] = strings.Join(recStr(f), "\n") + fmt.Sprintf("\ntoken=%d", tok)
		for _, id := range s.vocab.IDs {
			r, _ := obs.Lookup(st, id, []string{d})
			snap["lookup|"+d+"|"+id] = lookupAnswer(r)
			for _, p := range append([]string{"*"}, s.vocab.Preds...) {
				o, err := obs.Related(st, id, p, false, []string{d}, 0)
				if err == nil || isNoPred(err) {
					snap["out|"+d+"|"+id+"|"+p] = strings.Join(model.PairList(o.Set()), ";")
				}
				if p != "*" { // incoming: concrete predicate + single-dataset scope is outside the open C03 findings
					in, err := obs.Related(st, id, p, true, []string{d}, 0)
					if err == nil || isNoPred(err) {
						snap["in|"+d+"|"+id+"|"+p] = strings.Join(model.PairList(in.Set()), ";")
					}
				}
			}
		}
		s.nQueries += int64(2 + len(s.vocab.IDs)*(1+2*len(s.vocab.Preds)+1))
	}
	return snap
}

// othersUnaffected: the scoped observable state of every dataset the op does
// not name is identical before and after (hub against hub).
func (s *sdRun) othersUnaffected(op SDOp, before map[string]string) {
	after := s.scopedSnapshot()
	skip := map[string]bool{}
	if op.Kind == "create" || op.Kind == "delete" || op.Kind == "rename" {
		skip[op.DS] = true
		if op.To != "" {
			skip[op.To] = true
		}
	}
	n := 0
	for k, v := range before {
		parts := strings.SplitN(k, "|", 3)
		if skip[parts[1]] {
			continue
		}
		n++
		if a, ok := after[k]; !ok || a != v {
			s.viol("C07", "others-affected-by-"+op.Kind, fmt.Sprintf("%s of %s%s changed the answer of %s on an unrelated dataset", op.Kind, op.DS, op.To, k), v, after[k])
			return
		}
	}
	s.ctx.Out.Stat("c07_unaffected_answers_compared", int64(n))
	if op.Kind == "rename" { // content reachable under the new name only, unchanged
		for k, v := range before {
			parts := strings.SplitN(k, "|", 3)
			if parts[1] != op.DS {
				continue
			}
			nk := parts[0] + "|" + op.To
			if len(parts) > 2 {
				nk += "|" + parts[2]
			}
			if after[nk] != v {
				s.viol("C07", "rename-content", fmt.Sprintf("rename %s -> %s: %s differs from what %s answered before", op.DS, op.To, nk, k), v, after[nk])
				return
			}
		}
	}
}

func (s *sdRun) rawKeys() map[string]bool {
	keys := map[string]bool{}
	_ = s.core.Store.VerifDB().View(func(txn *badger.Txn) error {
		opts := badger.DefaultIteratorOptions
		opts.PrefetchValues = false
		it := txn.NewIterator(opts)
		defer it.Close()
		for it.Rewind(); it.Valid(); it.Next() {
			keys[string(it.Item().KeyCopy(nil))] = true
		}
		return nil
	})
	return keys
}

// keyDataset returns the internal dataset id a data key belongs to.
func keyDataset(k []byte) (uint32, bool) {
	if len(k) < 2 {
		return 0, false
	}
	switch binary.BigEndian.Uint16(k) {
	case uint16(server.EntityIDToJSONIndexID):
		if len(k) >= 14 {
			return binary.BigEndian.Uint32(k[10:]), true
		}
	case uint16(server.DatasetEntityChangeLog), uint16(server.DatasetLatestEntities):
		if len(k) >= 6 {
			return binary.BigEndian.Uint32(k[2:]), true
		}
	case uint16(server.OutgoingRefIndex), uint16(server.IncomingRefIndex):
		if len(k) >= 40 {
			return binary.BigEndian.Uint32(k[36:]), true
		}
	}
	return 0, false
}

func (s *sdRun) rawScanAfterGC(before map[string]bool) {
	after := s.rawKeys()
	left := 0
	for k := range after {
		if id, ok := keyDataset([]byte(k)); ok {
			if name, del := s.mg.deletedIDs[id]; del {
				left++
				if left == 1 {
					s.viol("C07", "gc-leftover-key", fmt.Sprintf("after garbage collection a key of index family %d still carries the id of deleted dataset %s", binary.BigEndian.Uint16([]byte(k)), name), nil, fmt.Sprintf("%x", k))
				}
			}
		}
	}
	removed := 0
	for k := range before {
		if after[k] {
			continue
		}
		removed++
		id, ok := keyDataset([]byte(k))
		if _, del := s.mg.deletedIDs[id]; !ok || !del {
			s.viol("C07", "gc-removed-live-key", "garbage collection removed a key that does not belong to a deleted dataset", nil, fmt.Sprintf("%x", k))
			return
		}
	}
	s.ctx.Out.Stat("c07_gc_keys_removed", int64(removed))
	s.ctx.Out.Stat("c07_gc_runs", 1)
}

// mgmtChecks runs after every op: C07 visibility clauses and C19 invariants.
func (s *sdRun) mgmtChecks(op SDOp) {
	if s.ctx.Has("C07") {
		s.checkC07()
	}
	if s.ctx.Has("C19") {
		s.checkC19()
	}
}

func (s *sdRun) checkC07() {
	// dataset catalogue = live names (+ core.Dataset)
	var got []string
	for _, n := range s.core.Dsm.GetDatasetNames() {
		if n.Name != "core.Dataset" {
			got = append(got, n.Name)
		}
	}
	sort.Strings(got)
	want := s.dsNames()
	if strings.Join(got, ",") != strings.Join(want, ",") {
		s.viol("C07", "catalogue", "dataset list differs from the datasets that exist", want, got)
	}
	// deleted / renamed-away names are not reachable
	for n := range s.mg.everNames {
		if s.m.Live(n) == nil && s.core.Dsm.GetDataset(n) != nil {
			s.viol("C07", "name-still-reachable", fmt.Sprintf("dataset name %s was deleted or renamed away but still resolves", n), nil, nil)
		}
	}
	// unscoped reads through the long-lived contextual store (as a running transform sees them)
	for _, id := range s.vocab.IDs {
		want := s.m.Lookup(id, nil, -1)
		e, err := s.mg.ctxStore.GetEntity(id, nil, true)
		s.nQueries++
		if err != nil {
			continue
		}
		var r *obs.Rec
		if e != nil {
			c := obs.Canon(s.core.Store, e)
			r = &c
		}
		if msg := compareLookup(want, r, false); msg != "" {
			s.viol("C07", "contextual-store-stale", fmt.Sprintf("lookup %s through a contextual store created before the dataset operations: %s", id, msg), lookupStr(want), r)
			break
		}
		for _, p := range []string{"*"} {
			wantRel := s.m.Related(id, p, false, nil, -1)
			q, err := s.mg.ctxStore.GetManyRelatedEntitiesBatch([]string{id}, p, false, nil, 0, true)
			s.nQueries++
			if err != nil {
				continue
			}
			gotRel := map[model.Pair]bool{}
			for _, rel := range q.Relations {
				gotRel[model.Pair{Pred: obsExpand(s.core.Store, rel.PredicateURI), Other: obsExpand(s.core.Store, rel.RelatedEntity.ID)}] = true
			}
			if strings.Join(model.PairList(wantRel), ";") != strings.Join(model.PairList(gotRel), ";") {
				s.viol("C07", "contextual-store-stale", fmt.Sprintf("outgoing relations of %s through a contextual store created before the dataset operations differ", id), model.PairList(wantRel), model.PairList(gotRel))
			}
		}
	}
	if len(s.mg.deletedIDs) > 0 {
		s.ctx.Out.Stat("c07_checks_after_delete", 1)
	}
}

// ---------- C19

func (s *sdRun) checkC19() {
	core := s.core.Dsm.GetDataset("core.Dataset")
	if core == nil {
		s.viol("C19", "no-core-dataset", "core.Dataset missing", nil, nil)
		return
	}
	metas, err := obs.Listing(s.core.Store, core, 0)
	s.nQueries++
	if err != nil {
		s.viol("C19", "core-listing-error", err.Error(), nil, nil)
		return
	}
	const ns = "http://data.mimiro.io/core/dataset/"
	liveMeta := map[string][]obs.Rec{}
	for _, m := range metas {
		name := strings.TrimPrefix(m.ID, ns)
		if !m.Deleted {
			liveMeta[name] = append(liveMeta[name], m)
		}
	}
	// the dataset list agrees with the datasets that exist
	var listed []string
	for _, n := range s.core.Dsm.GetDatasetNames() {
		if n.Name != "core.Dataset" {
			listed = append(listed, n.Name)
		}
	}
	sort.Strings(listed)
	if strings.Join(listed, ",") != strings.Join(s.dsNames(), ",") {
		s.viol("C19", "catalogue", "the dataset list differs from the datasets that exist", s.dsNames(), listed)
	}
	for _, n := range s.dsNames() {
		ms := liveMeta[n]
		if len(ms) != 1 {
			s.viol("C19", "meta-entity-count", fmt.Sprintf("dataset %s has %d live meta-entities in core.Dataset", n, len(ms)), 1, len(ms))
			continue
		}
		m := ms[0]
		if nm, _ := m.Props[ns+"name"].(string); nm != n {
			s.viol("C19", "meta-entity-name", fmt.Sprintf("meta-entity of %s carries name %v", n, m.Props[ns+"name"]), n, m.Props[ns+"name"])
		}
		// public-namespace setting carried by the meta-entity and by the dataset itself
		hasPub := false
		var metaList []string
		switch v := m.Props[ns+"publicNamespaces"].(type) {
		case []any:
			for _, x := range v {
				metaList = append(metaList, fmt.Sprint(x))
			}
			hasPub = len(v) > 0
		case nil:
		default:
			hasPub = true
			metaList = []string{fmt.Sprint(v)}
		}
		if want, set := s.mg.pubList[n]; set {
			d := s.core.Dsm.GetDataset(n)
			if d != nil && fmt.Sprint(append([]string{}, d.PublicNamespaces...)) != fmt.Sprint(want) {
				s.viol("C19", "dataset-settings", fmt.Sprintf("dataset %s: its public namespaces were set to %v through its meta-entity; the dataset carries %v (its meta-entity: %v)", n, want, d.PublicNamespaces, metaList), want, d.PublicNamespaces)
			}
			if fmt.Sprint(append([]string{}, metaList...)) != fmt.Sprint(want) {
				s.viol("C19", "meta-entity-settings", fmt.Sprintf("dataset %s: its public namespaces were set to %v through its meta-entity; the meta-entity carries %v", n, want, metaList), want, metaList)
			}
			s.ctx.Out.Stat("c19_public_namespace_lists_compared", 1)
		}
		if s.mg.pubNS != nil && hasPub != s.mg.pubNS[n] {
			s.viol("C19", "meta-entity-settings", fmt.Sprintf("dataset %s: publicNamespaces setting configured=%v, carried by its meta-entity=%v", n, s.mg.pubNS[n], hasPub), s.mg.pubNS[n], hasPub)
		}
		if d := s.core.Dsm.GetDataset(n); d != nil && s.mg.pubNS != nil && (len(d.PublicNamespaces) > 0) != s.mg.pubNS[n] {
			s.viol("C19", "dataset-settings", fmt.Sprintf("dataset %s: publicNamespaces setting configured=%v, dataset carries %v", n, s.mg.pubNS[n], d.PublicNamespaces), s.mg.pubNS[n], d.PublicNamespaces)
		}
		if k, known := s.mg.kind[n]; known {
			d := s.core.Dsm.GetDataset(n)
			_, metaProxy := m.Props[ns+"remoteUrl"]
			_, metaVirtual := m.Props[ns+"transform"]
			dsProxy := d != nil && d.ProxyConfig != nil && d.ProxyConfig.RemoteURL != ""
			dsVirtual := d != nil && d.VirtualDatasetConfig != nil && d.VirtualDatasetConfig.Transform != ""
			if metaProxy != (k == "proxy") || metaVirtual != (k == "virtual") {
				s.viol("C19", "meta-entity-settings", fmt.Sprintf("dataset %s was created as %q; its meta-entity says proxy=%v virtual=%v", n, k, metaProxy, metaVirtual), k, fmt.Sprintf("proxy=%v virtual=%v", metaProxy, metaVirtual))
			}
			if dsProxy != (k == "proxy") || dsVirtual != (k == "virtual") {
				s.viol("C19", "dataset-settings", fmt.Sprintf("dataset %s was created as %q; the dataset itself says proxy=%v virtual=%v (its meta-entity: proxy=%v virtual=%v)", n, k, dsProxy, dsVirtual, metaProxy, metaVirtual), k, fmt.Sprintf("proxy=%v virtual=%v", dsProxy, dsVirtual))
			}
			s.ctx.Out.Stat("c19_settings_compared", 1)
		}
		items, _ := m.Props[ns+"items"].(float64)
		want := len(s.m.Live(n).Ids)
		// independent count from the dataset's own feed
		ds := s.core.Dsm.GetDataset(n)
		feed, _, _ := obs.Feed(s.core.Store, ds, 0, nil, false)
		distinct := map[string]bool{}
		for _, f := range feed {
			distinct[f.ID] = true
		}
		if int(items) != want || len(distinct) != want {
			s.viol("C19", "items-counter", fmt.Sprintf("dataset %s: items=%v, distinct ids in its feed=%d, model=%d", n, m.Props[ns+"items"], len(distinct), want), want, items)
		}
		s.ctx.Out.Stat("c19_counters_compared", 1)
		// GetDatasetDetails agrees
		det, found, err := s.core.Dsm.GetDatasetDetails(n)
		if err != nil || !found || det == nil {
			s.viol("C19", "details-missing", fmt.Sprintf("GetDatasetDetails(%s) found=%v err=%v", n, found, err), nil, nil)
		}
	}
	for n := range s.mg.everNames {
		if s.m.Live(n) == nil && len(liveMeta[n]) > 0 {
			s.viol("C19", "stale-meta-entity", fmt.Sprintf("dataset name %s was deleted or renamed away but has a live meta-entity", n), 0, len(liveMeta[n]))
		}
	}
	for n := range liveMeta {
		if n != "core.Dataset" && s.m.Live(n) == nil && !s.mg.everNames[n] {
			s.viol("C19", "unknown-meta-entity", fmt.Sprintf("live meta-entity for unknown dataset %s", n), nil, nil)
		}
	}
}

// c07Paged is a relation query opened with limit 1 before a dataset is deleted and continued afterwards. Its
// continuation carries the internal ids of the datasets in scope as resolved when it was opened.
type c07Paged struct {
	q       string
	start   string
	inv     bool
	rest    []string // the datasets in scope other than the one being deleted
	cont    []*server.RelatedFrom
	onlyInD map[model.Pair]bool // pairs asserted by the dataset about to be deleted and by no other dataset in scope
}

func (s *sdRun) c07OpenPaged(d string) []*c07Paged {
	var others []string
	for _, n := range s.m.LiveNames() {
		if n != d {
			others = append(others, n)
		}
	}
	scopes := [][]string{{d}, nil}
	if len(others) > 0 {
		scopes = append(scopes, []string{d, others[0]})
	}
	var open []*c07Paged
	for _, start := range s.vocab.IDs {
		for _, inv := range []bool{false, true} {
			for _, sc := range scopes {
				inD := s.m.Related(start, "*", inv, []string{d}, -1)
				if len(inD) == 0 {
					continue
				}
				rest := others
				if sc != nil {
					rest = sc[1:]
				}
				if len(rest) > 0 {
					for p := range s.m.Related(start, "*", inv, rest, -1) {
						delete(inD, p)
					}
				}
				if len(inD) == 0 {
					continue
				}
				q, err := s.core.Store.GetManyRelatedEntitiesBatch([]string{start}, "*", inv, sc, 1, true)
				s.nQueries++
				if err != nil || len(q.Cont) == 0 {
					continue
				}
				open = append(open, &c07Paged{q: fmt.Sprintf("start=%s pred=* inverse=%v scope=%v limit=1", start, inv, sc), start: start, inv: inv, rest: rest, cont: q.Cont, onlyInD: inD})
			}
		}
	}
	return open
}

// c07ContinuePaged: the pages served after the delete must not carry a relation that only the deleted dataset asserted.
func (s *sdRun) c07ContinuePaged(d string, open []*c07Paged) {
	for _, p := range open {
		s.ctx.Out.Stat("c07_paged_queries_continued_across_delete", 1)
		for page := 0; page < 200 && len(p.cont) > 0; page++ {
			q, err := s.core.Store.GetManyRelatedEntitiesAtTime(p.cont, 1, true)
			s.nQueries++
			if err != nil {
				break
			}
			for _, rel := range q.Relations {
				other := ""
				if rel.RelatedEntity != nil {
					other = obsExpand(s.core.Store, rel.RelatedEntity.ID)
				}
				pair := model.Pair{Pred: obsExpand(s.core.Store, rel.PredicateURI), Other: other}
				s.ctx.Out.Stat("c07_paged_relations_served_after_delete", 1)
				if p.onlyInD[pair] && p.inv && len(p.rest) > 0 {
					// a stale index key of a surviving dataset (open C03 finding), not the deleted dataset's data?
					if c := s.m.ClassifyIncoming(p.start, "*", p.rest, -1, true, []model.Pair{pair}); c != "" {
						s.viol("C03", c, fmt.Sprintf("%s continued across the delete of %s: %v is explained by the incoming-scan finding on the surviving datasets", p.q, d, pair), nil, pair.String())
						continue
					}
				}
				if p.onlyInD[pair] {
					s.viol("C07", "paged-query-continued-across-delete", fmt.Sprintf("%s was opened before dataset %s was deleted; a page served after the delete carries %v, which only the deleted dataset asserted", p.q, d, pair), nil, pair.String())
					return
				}
			}
			p.cont = q.Cont
		}
	}
}
