package scen

// c05conc: concurrent writers / transactions / readers / dataset create+delete (C05),
// with the counter invariant of C19 checked at the final quiescent point.
//
// Deciding monitors:
//  1. lock monitor (hooks around Dataset.WriteLock and DsManager.lock): live
//     wait-for cycle = deadlock; cycle in the accumulated lock-order graph
//     between different goroutines without a common gate lock = reachable deadlock
//  2. feed-order checker: per dataset, every acknowledged write is one contiguous
//     block in the final feed, blocks respect each client's program order and
//     real-time order; final latest view = fold of the feed
//  3. per (dataset, entity) register histories are emitted for the offline
//     porcupine check in the driver
//  4. atomic visibility of single-call reads (listing, feed page, unscoped lookup)
//  5. (driver) crash-capable race reports when run under -race

import (
	"bytes"
	"encoding/json"
	"fmt"
	"hash/fnv"
	"math/rand"
	"os"
	"reflect"
	"runtime"
	"sort"
	"strings"
	"sync"
	"sync/atomic"
	"time"

	"github.com/mimiro-io/datahub/internal/server"
	"github.com/mimiro-io/datahub/internal/service/types"
	"github.com/mimiro-io/datahub/internal/verif/gen"
	"github.com/mimiro-io/datahub/internal/verif/hub"
	"github.com/mimiro-io/datahub/internal/verif/model"
	"github.com/mimiro-io/datahub/internal/verif/obs"
	"github.com/mimiro-io/datahub/internal/verif/vh"
)

func init() { Register("c05conc", c05Conc) }

// ---------- lock monitor

type lockSection struct{ from, to int64 } // wall-clock ns, [lockheld, lockfree]

type lockMon struct {
	jitter   *rand.Rand // PRNG sleeps before blocking on a lock (between critical sections)
	jmu      sync.Mutex
	sections map[string][]lockSection
	openSec  map[string]int64 // "gid|lock" -> start
	mu       sync.Mutex
	held     map[int64][]string
	waiting  map[int64]string
	owner    map[string]int64
	edges    map[[2]string]map[string]bool // (A,B) -> intersection of other locks held at acquisition ("gates")
	edgeG    map[[2]string]map[int64]bool  // goroutines that produced the edge
	events   int64
}

func newLockMon() *lockMon {
	return &lockMon{sections: map[string][]lockSection{}, openSec: map[string]int64{}, held: map[int64][]string{}, waiting: map[int64]string{}, owner: map[string]int64{}, edges: map[[2]string]map[string]bool{}, edgeG: map[[2]string]map[int64]bool{}}
}

// isHeld: some goroutine is inside the critical section of the named lock right now.
func (l *lockMon) isHeld(name string) bool {
	l.mu.Lock()
	defer l.mu.Unlock()
	for _, hs := range l.held {
		for _, h := range hs {
			if h == name {
				return true
			}
		}
	}
	return false
}

// c05CurMon is the lock monitor of the case in progress (one case runs at a time in a child).
var c05CurMon *lockMon

// c05WaitHeld gives a long batch the chance to be inside its critical section before a rename / delete of the same
// dataset is issued (bounded; it only shapes the workload).
func c05WaitHeld(name string) {
	for i := 0; i < 2000 && c05CurMon != nil && !c05CurMon.isHeld(name); i++ {
		time.Sleep(500 * time.Microsecond)
	}
}

func (l *lockMon) heldBy(g int64) []string {
	l.mu.Lock()
	defer l.mu.Unlock()
	return append([]string(nil), l.held[g]...)
}

func (l *lockMon) sectionsOf(name string) []lockSection {
	l.mu.Lock()
	defer l.mu.Unlock()
	r := append([]lockSection(nil), l.sections[name]...)
	for k, from := range l.openSec {
		if strings.HasSuffix(k, "|"+name) {
			r = append(r, lockSection{from, 1 << 62})
		}
	}
	return r
}

func (l *lockMon) trace(kind, name string, g int64) {
	if kind == "lockwait" && l.jitter != nil {
		// a delay between critical sections (never inside one): widens the window between whatever a
		// writer does before it queues for the lock and the moment it gets it
		l.jmu.Lock()
		d := l.jitter.Intn(4)
		us := l.jitter.Intn(400)
		l.jmu.Unlock()
		if d == 0 {
			time.Sleep(time.Duration(us) * time.Microsecond)
		}
	}
	now := time.Now().UnixNano()
	l.mu.Lock()
	defer l.mu.Unlock()
	l.events++
	switch kind {
	case "lockwait":
		hs := l.held[g]
		for i, h := range hs {
			if h == name {
				continue
			}
			e := [2]string{h, name}
			gates := map[string]bool{}
			for j, o := range hs {
				if j != i {
					gates[o] = true
				}
			}
			if cur, ok := l.edges[e]; ok {
				for k := range cur {
					if !gates[k] {
						delete(cur, k)
					}
				}
			} else {
				l.edges[e] = gates
				l.edgeG[e] = map[int64]bool{}
			}
			l.edgeG[e][g] = true
		}
		l.waiting[g] = name
	case "lockheld":
		delete(l.waiting, g)
		l.held[g] = append(l.held[g], name)
		l.owner[name] = g
		l.openSec[fmt.Sprintf("%d|%s", g, name)] = now
	case "lockfree":
		if from, ok := l.openSec[fmt.Sprintf("%d|%s", g, name)]; ok {
			l.sections[name] = append(l.sections[name], lockSection{from, now})
			delete(l.openSec, fmt.Sprintf("%d|%s", g, name))
		}
		hs := l.held[g]
		for i := len(hs) - 1; i >= 0; i-- {
			if hs[i] == name {
				l.held[g] = append(hs[:i], hs[i+1:]...)
				break
			}
		}
		if l.owner[name] == g {
			delete(l.owner, name)
		}
	}
}

// liveCycle returns a wait-for cycle among goroutines, if any.
func (l *lockMon) liveCycle() []string {
	l.mu.Lock()
	defer l.mu.Unlock()
	for g0 := range l.waiting {
		seen := map[int64]bool{}
		var path []string
		g := g0
		for {
			lk, ok := l.waiting[g]
			if !ok {
				break
			}
			o, ok := l.owner[lk]
			if !ok {
				break
			}
			path = append(path, fmt.Sprintf("g%d waits for %s held by g%d", g, lk, o))
			if o == g0 {
				return path
			}
			if seen[o] {
				break
			}
			seen[o] = true
			g = o
		}
	}
	return nil
}

// orderCycles returns 2-cycles A->B, B->A of the lock-order graph that are produced by
// different goroutines and share no gate lock.
func (l *lockMon) orderCycles() [][]string {
	l.mu.Lock()
	defer l.mu.Unlock()
	var res [][]string
	for e, gates := range l.edges {
		if e[0] >= e[1] {
			continue
		}
		r := [2]string{e[1], e[0]}
		rg, ok := l.edges[r]
		if !ok {
			continue
		}
		common := false
		for k := range gates {
			if rg[k] {
				common = true
			}
		}
		if common {
			continue
		}
		// different goroutines?
		diff := false
		for g1 := range l.edgeG[e] {
			for g2 := range l.edgeG[r] {
				if g1 != g2 {
					diff = true
				}
			}
		}
		if diff {
			res = append(res, []string{e[0], e[1]})
		}
	}
	sort.Slice(res, func(i, j int) bool { return res[i][0]+res[i][1] < res[j][0]+res[j][1] })
	return res
}

// ---------- workload

type c05Op struct {
	Client int      `json:"c"`
	Kind   string   `json:"k"` // batch | txn | lookup | ulookup | list | feed | mkds | rmds
	DS     []string `json:"ds,omitempty"`
	IDs    []string `json:"ids,omitempty"`
	Tag    string   `json:"tag,omitempty"`
	Sync   int      `json:"sync,omitempty"` // rendezvous number: all writers arrive at this op together (bounded wait)
}

type c05Case struct {
	Clients  int       `json:"clients"`
	Readers  int       `json:"readers"`
	Ops      [][]c05Op `json:"ops"` // per client
	Datasets []string  `json:"datasets"`
	Shared   []string  `json:"shared,omitempty"` // datasets that several writers create at the same rendezvous
}

const c05FlipID = gen.NsA + "flip" // written with two contents only (tags flipX / flipY): identical re-writes happen
const c05PairID = gen.NsA + "pair" // written only by transactions, to both datasets, same tag
const c05TwinA = gen.NsA + "twinA" // always written together in one batch
const c05TwinB = gen.NsA + "twinB"

func genC05Case(r *rand.Rand, clients, readers, opsPer int, churn bool) c05Case {
	c := c05Case{Clients: clients, Readers: readers, Datasets: []string{"da", "db", "dc"}}
	ids := gen.NewVocab(5, 1, 1).IDs
	for cl := 0; cl < clients+readers; cl++ {
		var ops []c05Op
		for i := 0; i < opsPer; i++ {
			tag := fmt.Sprintf("c%d-%d", cl, i)
			if cl >= clients { // reader
				switch r.Intn(6) {
				case 4, 5:
					// a token-following reader polling one dataset's feed while it is being written
					ops = append(ops, c05Op{Client: cl, Kind: "poll", DS: []string{c.Datasets[cl%3]}, IDs: []string{fmt.Sprint([]int{1, 2, 3, 0}[r.Intn(4)])}})
				case 0:
					ops = append(ops, c05Op{Client: cl, Kind: "lookup", DS: []string{c.Datasets[r.Intn(3)]}, IDs: []string{ids[r.Intn(len(ids))]}})
				case 1:
					ops = append(ops, c05Op{Client: cl, Kind: "ulookup", IDs: []string{c05PairID}})
				case 2:
					if r.Intn(2) == 0 {
						ops = append(ops, c05Op{Client: cl, Kind: "feedlo", DS: []string{c.Datasets[r.Intn(3)]}})
						continue
					}
					ops = append(ops, c05Op{Client: cl, Kind: "list", DS: []string{c.Datasets[r.Intn(3)]}})
				default:
					ops = append(ops, c05Op{Client: cl, Kind: "feed", DS: []string{c.Datasets[r.Intn(3)]}})
				}
				continue
			}
			// rendezvous ops: every writer does the same kind of thing at the same op index
			if i%5 == 3 {
				// brand-new URIs mentioned by all writers at once, in different datasets
				var l []string
				for j := 0; j < 10; j++ {
					l = append(l, fmt.Sprintf("%sfresh-%d-%d", gen.NsA, i, j))
				}
				if cl == clients-1 {
					// ... while one client sends batches that the store refuses (nil reference value) to another dataset
					ops = append(ops, c05Op{Client: cl, Kind: "badbatch", DS: []string{c.Datasets[(cl+1)%3]}, IDs: []string{fmt.Sprintf("%srefused-%d", gen.NsA, i)}, Tag: tag, Sync: i})
					continue
				}
				ops = append(ops, c05Op{Client: cl, Kind: "batch", DS: []string{c.Datasets[cl%3]}, IDs: l, Tag: tag, Sync: i})
				continue
			}
			if i%10 == 7 {
				// a new dataset name created (and written once) by all writers at once
				ops = append(ops, c05Op{Client: cl, Kind: "mkds", DS: []string{fmt.Sprintf("sh%d", i)}, IDs: []string{fmt.Sprintf("%sw%d", gen.NsA, cl)}, Tag: tag, Sync: i})
				continue
			}
			if i%10 == 5 && cl == 0 {
				// a dataset that is written (long batch), renamed and deleted by three clients at the next rendezvous
				ops = append(ops, c05Op{Client: cl, Kind: "mkds", DS: []string{fmt.Sprintf("rd%d", i+1)}, IDs: []string{ids[0]}, Tag: tag})
				continue
			}
			if i%10 == 6 && cl < 3 {
				d := fmt.Sprintf("rd%d", i)
				switch cl {
				case 0:
					var l []string
					for j := 0; j < 400; j++ {
						l = append(l, fmt.Sprintf("%srd-%d-%d", gen.NsA, i, j))
					}
					ops = append(ops, c05Op{Client: cl, Kind: "batch", DS: []string{d}, IDs: l, Tag: tag, Sync: 1000 + i})
				case 1:
					if i%20 == 16 {
						// variant: a one-entity write through a handle resolved before the delete queues up behind the
						// long batch ...
						ops = append(ops, c05Op{Client: cl, Kind: "qwrite", DS: []string{d}, IDs: []string{fmt.Sprintf("%srdq-%d", gen.NsA, i)}, Tag: tag, Sync: 1000 + i})
					} else {
						ops = append(ops, c05Op{Client: cl, Kind: "rename1", DS: []string{d, d + "x"}, Sync: 1000 + i})
					}
				case 2:
					if i%20 == 16 {
						// ... while the dataset is deleted and created again under the same name
						ops = append(ops, c05Op{Client: cl, Kind: "rmmk", DS: []string{d}, Sync: 1000 + i})
					} else {
						ops = append(ops, c05Op{Client: cl, Kind: "rmds", DS: []string{d}, Sync: 1000 + i})
					}
				}
				continue
			}
			// the flip entity: written with one of two contents only, by batches and transactions alike
			if i%10 == 1 {
				if r.Intn(2) == 0 {
					ops = append(ops, c05Op{Client: cl, Kind: "batch", DS: []string{"da"}, IDs: []string{c05FlipID}, Tag: []string{"flipX", "flipY"}[r.Intn(2)]})
				} else {
					ops = append(ops, c05Op{Client: cl, Kind: "txn", DS: []string{"da", "db"}, IDs: []string{c05FlipID}, Tag: []string{"flipX", "flipY"}[r.Intn(2)]})
				}
				continue
			}
			if cl == 0 && i%4 == 1 {
				ops = append(ops, c05Op{Client: cl, Kind: "rename", DS: []string{"rnA", "rnB"}})
				continue
			}
			if cl != 0 && i%4 == 1 {
				// a new id into the dataset that is being renamed back and forth (whatever its name is right now)
				ops = append(ops, c05Op{Client: cl, Kind: "rnwrite", DS: []string{"rnA", "rnB"}, IDs: []string{fmt.Sprintf("%srn-%d-%d", gen.NsA, cl, i)}, Tag: tag})
				continue
			}
			if churn && i%3 == 2 {
				// dataset churn (race stage): scratch datasets are created, written and deleted all the time while the
				// readers look entities up (every lookup consults the set of deleted datasets)
				if i%6 == 2 {
					ops = append(ops, c05Op{Client: cl, Kind: "mkds", DS: []string{fmt.Sprintf("tmp%d", cl)}, IDs: []string{ids[0]}, Tag: tag})
				} else {
					ops = append(ops, c05Op{Client: cl, Kind: "rmds", DS: []string{fmt.Sprintf("tmp%d", cl)}})
				}
				continue
			}
			switch k := r.Intn(100); {
			case k < 45:
				n := 1 + r.Intn(3)
				perm := r.Perm(len(ids))[:n]
				var l []string
				for _, p := range perm {
					l = append(l, ids[p])
				}
				ops = append(ops, c05Op{Client: cl, Kind: "batch", DS: []string{c.Datasets[r.Intn(3)]}, IDs: l, Tag: tag})
			case k < 55:
				ops = append(ops, c05Op{Client: cl, Kind: "batch", DS: []string{c.Datasets[r.Intn(3)]}, IDs: []string{c05TwinA, c05TwinB}, Tag: tag})
			case k < 78:
				// the pair da/db is named in both orders by different clients
				a, b := "da", "db"
				if r.Intn(3) == 0 {
					b = "dc"
				}
				if r.Intn(2) == 0 {
					a, b = b, a
				}
				ops = append(ops, c05Op{Client: cl, Kind: "txn", DS: []string{a, b}, IDs: []string{c05PairID, ids[r.Intn(len(ids))]}, Tag: tag})
			case k < 83:
				// a transaction naming the scratch dataset of another client, which may not exist (any more):
				// it is refused as a whole and must leave nothing behind, in particular no lock
				ops = append(ops, c05Op{Client: cl, Kind: "txn", DS: []string{c.Datasets[r.Intn(3)], fmt.Sprintf("tmp%d", r.Intn(clients))}, IDs: []string{ids[r.Intn(len(ids))]}, Tag: tag})
			case k < 86:
				ops = append(ops, c05Op{Client: cl, Kind: "mkds", DS: []string{fmt.Sprintf("tmp%d", cl)}, IDs: []string{ids[0]}, Tag: tag})
			case k < 92:
				ops = append(ops, c05Op{Client: cl, Kind: "rmds", DS: []string{fmt.Sprintf("tmp%d", cl)}})
			default:
				ops = append(ops, c05Op{Client: cl, Kind: "lookup", DS: []string{c.Datasets[r.Intn(3)]}, IDs: []string{ids[r.Intn(len(ids))]}})
			}
		}
		c.Ops = append(c.Ops, ops)
	}
	for i := 7; i < opsPer; i += 10 {
		c.Shared = append(c.Shared, fmt.Sprintf("sh%d", i))
	}
	return c
}

type c05Rec struct {
	op        c05Op
	t0, t1    int64 // wall clock around a read (only used to select reads that overlap no critical section)
	call, ret int64
	err       string
	done      bool
	seen      string // tag seen by a lookup
}

func c05Ent(id, tag string, idx int) model.Ent {
	// every write points at one of five targets, chosen by its tag: two writes of one entity usually differ in it
	h := fnv.New32a()
	h.Write([]byte(tag))
	return model.Ent{ID: id, Props: map[string]any{gen.NsP + "op": tag, gen.NsP + "i": float64(idx)},
		Refs: map[string]any{c05Pred: fmt.Sprintf("%st%d", gen.NsA, h.Sum32()%5)}}
}

const c05Pred = gen.NsR + "to"

func c05Conc(ctx *Ctx) error {
	r := rand.New(rand.NewSource(ctx.Seed))
	clients, readers, opsPer := 8, 4, 30
	fmt.Sscanf(ctx.Arg("clients", "8"), "%d", &clients)
	fmt.Sscanf(ctx.Arg("readers", "4"), "%d", &readers)
	fmt.Sscanf(ctx.Arg("ops", "30"), "%d", &opsPer)
	if ctx.Replay != "" {
		b, err := os.ReadFile(ctx.Replay)
		if err != nil {
			return err
		}
		var w struct {
			Ops c05Case `json:"ops"`
		}
		if err := json.Unmarshal(b, &w); err != nil {
			return err
		}
		for i := 0; i < 5; i++ {
			runC05Case(ctx, w.Ops)
		}
		return nil
	}
	for i := 0; i < ctx.Cases; i++ {
		runC05Case(ctx, genC05Case(r, clients, readers, opsPer, ctx.Arg("churn", "") != ""))
	}
	return nil
}

func runC05Case(ctx *Ctx, c c05Case) {
	id := outHash(c)
	prop := ctx.Arg("prop", "")
	if prop == "" {
		prop = "C05"
		if ctx.Has("C19") && !ctx.Has("C05") {
			prop = "C19"
		}
	}
	dir := ctx.NewDir("c05")
	defer os.RemoveAll(dir)
	core := hub.OpenCore(dir)
	defer core.Close()
	for _, d := range c.Datasets {
		core.Dsm.CreateDataset(d, nil)
	}
	core.Dsm.CreateDataset("rnA", nil) // renamed back and forth (rnA <-> rnB) by client 0 while others write new ids into it
	mon := newLockMon()
	mon.jitter = rand.New(rand.NewSource(ctx.Seed ^ int64(len(c.Ops))))
	vh.SetLockTracer(mon.trace)
	defer vh.SetLockTracer(nil)
	c05CurMon = mon
	defer func() { c05CurMon = nil }()

	type poller struct {
		token uint64
		acc   []obs.Rec
		calls int
	}
	pollers := make([]map[string]*poller, len(c.Ops))
	for i := range pollers {
		pollers[i] = map[string]*poller{}
	}
	pollOnce := func(cl int, d string, limit int) (int, error) {
		p := pollers[cl][d]
		if p == nil {
			p = &poller{}
			pollers[cl][d] = p
		}
		ds := core.Dsm.GetDataset(d)
		ch, err := ds.GetChanges(p.token, limit, false)
		if err != nil {
			return 0, err
		}
		for _, e := range ch.Entities {
			p.acc = append(p.acc, obs.Canon(core.Store, e))
		}
		p.token = ch.NextToken
		p.calls++
		return len(ch.Entities), nil
	}
	var clock int64
	now := func() int64 { return atomic.AddInt64(&clock, 1) } // one logical clock; also orders call/return events
	recs := make([][]*c05Rec, len(c.Ops))
	var visMu sync.Mutex
	var visViol []string
	var progress int64
	var wg sync.WaitGroup
	start := make(chan struct{})
	var fatal atomic.Value
	rendezvous := &c05Barrier{waiting: map[int]chan struct{}{}, count: map[int]int{}}
	for cl := range c.Ops {
		wg.Add(1)
		recs[cl] = make([]*c05Rec, 0, len(c.Ops[cl]))
		go func(cl int) {
			defer wg.Done()
			<-start
			for _, op := range c.Ops[cl] {
				rec := &c05Rec{op: op}
				recs[cl] = append(recs[cl], rec)
				if op.Sync >= 1000 {
					rendezvous.arrive(op.Sync, 3)
				} else if op.Sync > 0 {
					rendezvous.arrive(op.Sync, c.Clients)
				}
				rec.call = now()
				func() {
					defer func() {
						if p := recover(); p != nil {
							rec.err = fmt.Sprintf("panic: %v", p)
							fatal.Store(fmt.Sprintf("client %d op %s: panic: %v", cl, op.Kind, p))
						}
					}()
					if op.Kind == "poll" {
						lim := 0
						fmt.Sscanf(op.IDs[0], "%d", &lim)
						if _, err := pollOnce(cl, op.DS[0], lim); err != nil {
							rec.err = err.Error()
						}
						return
					}
					c05Do(core, op, rec, &visMu, &visViol)
				}()
				rec.ret = now()
				rec.done = true
				if h := mon.heldBy(vh.Gid()); len(h) > 0 {
					fatal.Store(fmt.Sprintf("LOCKLEAK client %d: operation %s on %v returned (err=%q) while still holding %v", cl, op.Kind, op.DS, rec.err, h))
				}
				atomic.AddInt64(&progress, 1)
			}
		}(cl)
	}
	// dataset churn (race stage): while scratch datasets are deleted, two goroutines keep asking the hub's own service
	// accessor whether a dataset is deleted (what every compaction and service-layer lookup does per key)
	churning := false
	for _, l := range c.Ops {
		for _, op := range l {
			if op.Kind == "rmds" && len(op.DS) > 0 && strings.HasPrefix(op.DS[0], "tmp") {
				churning = true
			}
		}
	}
	stopAsk := make(chan struct{})
	var askWG sync.WaitGroup
	var asked int64
	if churning {
		ba := server.NewBadgerAccess(core.Store, core.Dsm)
		for g := 0; g < 2; g++ {
			askWG.Add(1)
			go func() {
				defer askWG.Done()
				defer func() { _ = recover() }()
				for {
					select {
					case <-stopAsk:
						return
					default:
					}
					for k := 1; k <= 48; k++ {
						_ = ba.IsDatasetDeleted(types.InternalDatasetID(k))
					}
					atomic.AddInt64(&asked, 48)
					runtime.Gosched()
				}
			}()
		}
	}
	defer func() {
		close(stopAsk)
		askWG.Wait()
		if churning {
			ctx.Out.Stat("c05_deleted_set_questions_during_churn", atomic.LoadInt64(&asked))
		}
	}()
	close(start)
	doneCh := make(chan struct{})
	go func() { wg.Wait(); close(doneCh) }()
	// watchdog on progress (logical): no wall-clock verdict; a stall is judged by the wait-for graph
	stalled := false
	last := int64(-1)
	idle := 0
loop:
	for {
		select {
		case <-doneCh:
			break loop
		case <-time.After(500 * time.Millisecond):
			p := atomic.LoadInt64(&progress)
			if p == last {
				idle++
			} else {
				idle = 0
			}
			last = p
			if cyc := mon.liveCycle(); cyc != nil && idle >= 4 {
				overlap := 0
				ctx.Out.Case(id, ctx.Seed, c, true, []string{"deadlocked"})
				ctx.Out.Viol(id, prop, "deadlock", "clients stopped making progress and the lock monitor shows a wait-for cycle: "+strings.Join(cyc, "; "), nil, cyc, map[string]any{"order_cycles": mon.orderCycles()})
				_ = overlap
				ctx.Out.FlushStats()
				ctx.Out.Close()
				os.Exit(0) // goroutines are stuck for good; the verdict is recorded
			}
			if f := fatal.Load(); f != nil && idle >= 6 && strings.HasPrefix(f.(string), "LOCKLEAK") {
				ctx.Out.Case(id, ctx.Seed, c, true, []string{"lock-leaked"})
				ctx.Out.Viol(id, prop, "lock-leaked-by-returned-operation", f.(string)+"; the other clients are blocked on it", nil, nil, nil)
				ctx.Out.FlushStats()
				ctx.Out.Close()
				os.Exit(0)
			}
			if idle >= 120 {
				stalled = true
				break loop
			}
		}
	}
	if stalled {
		ctx.Out.Case(id, ctx.Seed, c, false, nil)
		ctx.Out.Inconclusive(id, prop, "watchdog: no progress for 60 s without a wait-for cycle among hooked locks")
		ctx.Out.FlushStats()
		ctx.Out.Close()
		os.Exit(0)
	}

	// ---- offline checks over the recorded history (quiescent now)
	overlaps := 0
	var all []*c05Rec
	for _, rs := range recs {
		all = append(all, rs...)
	}
	for i, a := range all {
		if a.op.Kind != "batch" && a.op.Kind != "txn" {
			continue
		}
		for _, b := range all[i+1:] {
			if (b.op.Kind == "batch" || b.op.Kind == "txn") && a.call < b.ret && b.call < a.ret && sharesDS(a.op, b.op) {
				overlaps++
			}
		}
	}
	ctx.Out.Case(id, ctx.Seed, c, overlaps >= 1, nil)
	ctx.Out.Stat("overlapping_write_pairs", int64(overlaps))
	ctx.Out.Stat("lock_events", mon.events)
	ctx.Out.Stat("lock_order_edges", int64(len(mon.edges)))
	if f := fatal.Load(); f != nil {
		cls := "panic"
		if strings.HasPrefix(f.(string), "LOCKLEAK") {
			cls = "lock-leaked-by-returned-operation"
		}
		ctx.Out.Viol(id, prop, cls, f.(string), nil, nil, nil)
	}
	if prop == "C02" || prop == "C05" {
		// every token-following reader, drained at the quiescent end, has read exactly the feed: nothing
		// skipped, nothing twice, although it polled (also at the end of the feed) while writers committed
		nReaders, nCalls := 0, 0
		for cl := range pollers {
			for d, p := range pollers[cl] {
				for i := 0; i < 100000; i++ {
					n, err := pollOnce(cl, d, 0)
					if err != nil || n == 0 {
						break
					}
				}
				final, _, _ := obs.Feed(core.Store, core.Dsm.GetDataset(d), 0, nil, false)
				nReaders++
				nCalls += p.calls
				if len(final) != len(p.acc) || !recsEqual(final, p.acc) {
					ctx.Out.Viol(id, prop, "concurrent-reader-skipped-or-repeated", fmt.Sprintf("dataset %s: a token-following reader that polled while writers were committing ended with %d entries, the feed has %d (first difference at %d)", d, len(p.acc), len(final), firstRecDiff(final, p.acc)), recStr(final), recStr(p.acc), nil)
				}
			}
		}
		ctx.Out.Stat("concurrent_feed_readers", int64(nReaders))
		ctx.Out.Stat("concurrent_feed_reader_calls", int64(nCalls))
	}
	if prop == "C01" || prop == "C05" || prop == "C06" || prop == "C03" || prop == "C04" {
		c05FinalState(ctx, id, prop, core, c)
	}
	if prop == "C03" || prop == "C05" {
		c05FinalRelations(ctx, id, prop, core, c)
	}
	if prop == "C05" || prop == "C19" || prop == "C07" || prop == "C04" {
		c05SharedDatasets(ctx, id, prop, core, c, recs)
	}
	if prop == "C05" || prop == "C07" {
		c05DeletedStayDeleted(ctx, id, prop, core)
		for _, rs := range recs {
			for _, r := range rs {
				if r.op.Kind == "rename1" || (r.op.Kind == "rmds" && r.op.Sync >= 1000) {
					out := "ok"
					if r.err != "" {
						out = "refused:" + firstLine(r.err)
					}
					ctx.Out.Stat("rendezvous_"+r.op.Kind+"_"+out, 1)
				}
			}
		}
	}
	if prop == "C05" || prop == "C02" {
		c05NoAdjacentDuplicates(ctx, id, prop, core)
	}
	if prop == "C05" {
		if msg := crossIndexInvariant(core); msg != "" {
			ctx.Out.Viol(id, "C05", "cross-index-"+strings.SplitN(msg, ":", 2)[0], "raw key scan at the final quiescent point of the concurrent history: "+msg, nil, nil, nil)
		}
	}
	if prop == "C04" {
		if msg := crossIndexInvariant(core); msg != "" {
			ctx.Out.Viol(id, "C04", "cross-index-"+strings.SplitN(msg, ":", 2)[0]+"-after-concurrent-writers", "raw key scan at the final quiescent point of a concurrent history: "+msg, nil, nil, nil)
		}
		ctx.Out.Stat("c04_cross_index_scans_after_concurrent_histories", 1)
	}
	if prop == "C06" {
		c05AsOfReads(ctx, id, core, c, recs, mon)
	}
	if prop == "C05" {
		for _, cyc := range mon.orderCycles() {
			ctx.Out.Viol(id, "C05", "lock-order-cycle", fmt.Sprintf("locks %s and %s are acquired in both orders by different goroutines without a common gate lock: a schedule exists in which they deadlock", cyc[0], cyc[1]), nil, cyc, nil)
		}
		for _, v := range visViol {
			ctx.Out.Viol(id, "C05", "atomic-visibility", v, nil, nil, nil)
			break
		}
		c05FeedOrder(ctx, id, core, c, recs)
		c05EmitRegisters(ctx, id, c, recs)
	}
	if ctx.Has("C19") {
		c05Counters(ctx, id, core, prop)
	}
	if prop == "C05" || prop == "C19" {
		c05RenamedDataset(ctx, id, prop, core, recs)
	}
}

// c05RenamedDataset: the dataset that was renamed back and forth while other clients wrote new ids into it exists
// under exactly one of its two names, has exactly one live meta-entity (under that name, none under the other), holds
// every acknowledged write, and its items counter equals the number of distinct ids.
func c05RenamedDataset(ctx *Ctx, id, prop string, core *hub.Core, recs [][]*c05Rec) {
	const ns = "http://data.mimiro.io/core/dataset/"
	a, b := core.Dsm.GetDataset("rnA"), core.Dsm.GetDataset("rnB")
	if (a == nil) == (b == nil) {
		ctx.Out.Viol(id, prop, "renamed-dataset-names", fmt.Sprintf("after the renames rnA<->rnB settled: rnA exists=%v, rnB exists=%v", a != nil, b != nil), nil, nil, nil)
		return
	}
	name, other, ds := "rnA", "rnB", a
	if a == nil {
		name, other, ds = "rnB", "rnA", b
	}
	metas, err := obs.Listing(core.Store, core.Dsm.GetDataset("core.Dataset"), 0)
	if err != nil {
		return
	}
	live := map[string][]obs.Rec{}
	for _, m := range metas {
		if !m.Deleted {
			n := strings.TrimPrefix(m.ID, ns)
			live[n] = append(live[n], m)
		}
	}
	if len(live[name]) != 1 || len(live[other]) != 0 {
		ctx.Out.Viol(id, prop, "renamed-dataset-meta-entities", fmt.Sprintf("dataset %s (renamed back and forth under concurrent writes): %d live meta-entities under its name, %d under the name it was renamed away from", name, len(live[name]), len(live[other])), "1 / 0", fmt.Sprintf("%d / %d", len(live[name]), len(live[other])), nil)
		return
	}
	feed, _, err := obs.Feed(core.Store, ds, 0, nil, false)
	if err != nil {
		return
	}
	inFeed := map[string]bool{}
	distinct := map[string]bool{}
	for i := range feed {
		inFeed[tagOf(&feed[i])] = true
		distinct[feed[i].ID] = true
	}
	nAck, nRen := 0, 0
	for _, rs := range recs {
		for _, r := range rs {
			if r.op.Kind == "rename" && r.done && r.err == "" {
				nRen++
			}
			if r.op.Kind == "rnwrite" && r.done && r.err == "" {
				nAck++
				if !inFeed[r.op.Tag] {
					ctx.Out.Viol(id, prop, "acked-write-lost-during-rename", fmt.Sprintf("write %s into the dataset being renamed was acknowledged but is not in the feed of %s", r.op.Tag, name), r.op.Tag, nil, nil)
					return
				}
			}
		}
	}
	items, _ := live[name][0].Props[ns+"items"].(float64)
	if int(items) != len(distinct) {
		ctx.Out.Viol(id, prop, "items-counter-after-concurrent-renames", fmt.Sprintf("dataset %s: items=%v, %d distinct ids stored (%d acknowledged writes, %d renames)", name, items, len(distinct), nAck, nRen), len(distinct), items, nil)
		return
	}
	ctx.Out.Stat("renames_under_concurrent_writes", int64(nRen))
	ctx.Out.Stat("writes_into_dataset_being_renamed", int64(nAck))
}

func sharesDS(a, b c05Op) bool {
	for _, x := range a.DS {
		for _, y := range b.DS {
			if x == y {
				return true
			}
		}
	}
	return false
}

func tagOf(r *obs.Rec) string {
	if r == nil {
		return ""
	}
	t, _ := r.Props[gen.NsP+"op"].(string)
	return t
}

var (
	c05DeletedMu  sync.Mutex
	c05DeletedIDs = map[string][]uint32{} // per case (core pointer): internal ids of datasets whose delete was acknowledged
	c05SeenMu     sync.Mutex
	c05Seen       = map[string]map[string]bool{}
)

func c05Do(core *hub.Core, op c05Op, rec *c05Rec, visMu *sync.Mutex, vis *[]string) {
	st := core.Store
	addVis := func(s string) {
		visMu.Lock()
		*vis = append(*vis, s)
		visMu.Unlock()
	}
	switch op.Kind {
	case "batch":
		var ents []model.Ent
		for i, id := range op.IDs {
			ents = append(ents, c05Ent(id, op.Tag, i))
		}
		if err := StoreBatch(core, op.DS[0], ents, false); err != nil {
			rec.err = err.Error()
		}
	case "badbatch":
		// several refused batches in a row, so that one of them overlaps the other writers' id assertions
		ds := core.Dsm.GetDataset(op.DS[0])
		for k := 0; k < 25 && ds != nil; k++ {
			runtime.Gosched()
			esp := server.NewEntityStreamParser(st)
			var batch []*server.Entity
			_ = esp.ParseStream(bytes.NewReader(gen.Payload([]model.Ent{c05Ent(fmt.Sprintf("%s-%d", op.IDs[0], k), op.Tag, 0)}, false)), func(e *server.Entity) error { batch = append(batch, e); return nil })
			for _, e := range batch {
				for r := range e.References {
					e.References[r] = nil
				}
			}
			if err := ds.StoreEntities(batch); err == nil {
				addVis("a batch with a nil reference value was accepted")
			}
		}
		rec.err = "refused on purpose"
	case "txn":
		t := map[string][]model.Ent{}
		for _, d := range op.DS {
			var ents []model.Ent
			for i, id := range op.IDs {
				ents = append(ents, c05Ent(id, op.Tag, i))
			}
			t[d] = ents
		}
		if err := StoreTxn(core, t); err != nil {
			rec.err = err.Error()
		}
	case "mkds":
		if _, err := core.Dsm.CreateDataset(op.DS[0], nil); err != nil {
			rec.err = err.Error()
			return
		}
		if err := StoreBatch(core, op.DS[0], []model.Ent{c05Ent(op.IDs[0], op.Tag, 0)}, false); err != nil {
			rec.err = err.Error()
		}
	case "rename1":
		c05WaitHeld("ds:" + op.DS[0])
		if core.Dsm.GetDataset(op.DS[0]) == nil {
			rec.err = "no such dataset"
			return
		}
		if _, err := core.Dsm.UpdateDataset(op.DS[0], &server.UpdateDatasetConfig{ID: op.DS[1]}); err != nil {
			rec.err = err.Error()
		}
	case "rename":
		for k, n := range op.DS {
			if core.Dsm.GetDataset(n) != nil {
				if _, err := core.Dsm.UpdateDataset(n, &server.UpdateDatasetConfig{ID: op.DS[1-k]}); err != nil {
					rec.err = err.Error()
				}
				return
			}
		}
	case "rnwrite":
		for _, n := range op.DS {
			if core.Dsm.GetDataset(n) != nil {
				if err := StoreBatch(core, n, []model.Ent{c05Ent(op.IDs[0], op.Tag, 0)}, false); err != nil {
					rec.err = err.Error()
				}
				return
			}
		}
		rec.err = "dataset is between two names"
	case "qwrite":
		ds := core.Dsm.GetDataset(op.DS[0])
		if ds == nil {
			rec.err = "no such dataset"
			return
		}
		esp := server.NewEntityStreamParser(core.Store)
		var batch []*server.Entity
		if err := esp.ParseStream(bytes.NewReader(gen.Payload([]model.Ent{c05Ent(op.IDs[0], op.Tag, 0)}, false)), func(e *server.Entity) error {
			batch = append(batch, e)
			return nil
		}); err != nil {
			rec.err = err.Error()
			return
		}
		c05WaitHeld("ds:" + op.DS[0])
		if err := ds.StoreEntities(batch); err != nil {
			rec.err = err.Error()
		}
	case "rmmk":
		c05WaitHeld("ds:" + op.DS[0])
		time.Sleep(300 * time.Microsecond)
		if ds := core.Dsm.GetDataset(op.DS[0]); ds != nil {
			iid := ds.InternalID
			if err := core.Dsm.DeleteDataset(op.DS[0]); err != nil {
				rec.err = err.Error()
				return
			}
			c05DeletedMu.Lock()
			c05DeletedIDs[fmt.Sprintf("%p", core)] = append(c05DeletedIDs[fmt.Sprintf("%p", core)], iid)
			c05DeletedMu.Unlock()
			if _, err := core.Dsm.CreateDataset(op.DS[0], nil); err != nil {
				rec.err = err.Error()
			}
		} else {
			rec.err = "no such dataset"
		}
	case "rmds":
		if op.Sync >= 1000 {
			// the delete of the rendezvous comes a moment after the rename started to wait
			c05WaitHeld("ds:" + op.DS[0])
			time.Sleep(300 * time.Microsecond)
		}
		if ds := core.Dsm.GetDataset(op.DS[0]); ds != nil {
			iid := ds.InternalID
			if err := core.Dsm.DeleteDataset(op.DS[0]); err != nil {
				rec.err = err.Error()
			} else {
				c05DeletedMu.Lock()
				c05DeletedIDs[fmt.Sprintf("%p", core)] = append(c05DeletedIDs[fmt.Sprintf("%p", core)], iid)
				c05DeletedMu.Unlock()
			}
		} else {
			rec.err = "no such dataset"
		}
	case "lookup":
		rec.t0 = time.Now().UnixNano()
		r, err := obs.Lookup(st, op.IDs[0], op.DS)
		rec.t1 = time.Now().UnixNano()
		if err != nil {
			rec.err = err.Error()
			return
		}
		rec.seen = tagOf(r)
	case "ulookup":
		// the pair entity is only ever written by transactions, to two datasets, with one tag:
		// a single unscoped lookup merges the datasets and must not mix two transactions
		e, err := st.GetEntity(op.IDs[0], nil, false)
		if err != nil || e == nil {
			return
		}
		b, _ := json.Marshal(e)
		var m map[string]any
		_ = json.Unmarshal(b, &m)
		props, _ := m["props"].(map[string]any)
		parts, _ := props["http://data.mimiro.io/core/partials"].([]any)
		tagsByDS := map[string]string{}
		for _, p := range parts {
			pm, _ := p.(map[string]any)
			pp, _ := pm["props"].(map[string]any)
			var tag, dsn string
			for k, v := range pp {
				if strings.HasSuffix(k, ":op") {
					tag, _ = v.(string)
				}
				if k == "http://data.mimiro.io/core/datasetname" {
					dsn, _ = v.(string)
				}
			}
			tagsByDS[dsn] = tag
		}
		// a transaction da+db writes both; da+dc writes da and dc. All partials written by
		// the most recent transaction on each dataset; da is in every transaction, so da's tag
		// must also be the tag of at least one other dataset.
		if t, ok := tagsByDS["da"]; ok && len(tagsByDS) > 1 {
			match := false
			for d, x := range tagsByDS {
				if d != "da" && x == t {
					match = true
				}
			}
			if !match {
				addVis(fmt.Sprintf("one unscoped lookup of the pair entity saw dataset da at transaction %s but no other dataset at that transaction: %v", t, tagsByDS))
			}
		}
	case "list":
		ds := core.Dsm.GetDataset(op.DS[0])
		if ds == nil {
			return
		}
		l, err := obs.Listing(st, ds, 0)
		if err != nil {
			rec.err = err.Error()
			return
		}
		var ta, tb string
		var ha, hb bool
		for i := range l {
			if l[i].ID == c05TwinA {
				ta, ha = tagOf(&l[i]), true
			}
			if l[i].ID == c05TwinB {
				tb, hb = tagOf(&l[i]), true
			}
		}
		if ha != hb || ta != tb {
			addVis(fmt.Sprintf("one listing call of %s saw the twin entities (always written together in one batch) at different batches: %q vs %q", op.DS[0], ta, tb))
		}
	case "feedlo":
		// one latest-only page: the twin entities are always written together in one batch, so the newest version
		// of both comes from the same batch
		ds := core.Dsm.GetDataset(op.DS[0])
		if ds == nil {
			return
		}
		ch, err := ds.GetChanges(0, 0, true)
		if err != nil {
			rec.err = err.Error()
			return
		}
		var ta, tb string
		var ha, hb bool
		for _, e := range ch.Entities {
			r := obs.Canon(st, e)
			if r.ID == c05TwinA {
				ta, ha = tagOf(&r), true
			}
			if r.ID == c05TwinB {
				tb, hb = tagOf(&r), true
			}
		}
		if ha != hb || ta != tb {
			addVis(fmt.Sprintf("one latest-only feed page of %s saw the twin entities (always written together in one batch) at different batches: %q (present %v) vs %q (present %v)", op.DS[0], ta, ha, tb, hb))
		}
		// a latest-only page holds the newest version of EVERY entity of the dataset: an entity this reader has
		// seen in an earlier page cannot be missing from a later one
		key := fmt.Sprintf("%p|%d|%s", core, op.Client, op.DS[0])
		page := map[string]bool{}
		for _, e := range ch.Entities {
			page[obs.Canon(st, e).ID] = true
		}
		c05SeenMu.Lock()
		prev := c05Seen[key]
		for id := range prev {
			if !page[id] {
				addVis(fmt.Sprintf("a latest-only feed page of %s (%d entities) lacks %s, which the same reader saw in an earlier latest-only page of that dataset: the page mixes two points in time", op.DS[0], len(page), id))
				break
			}
		}
		c05Seen[key] = page
		c05SeenMu.Unlock()
	case "feed":
		ds := core.Dsm.GetDataset(op.DS[0])
		if ds == nil {
			return
		}
		ch, err := ds.GetChanges(0, 0, false)
		if err != nil {
			rec.err = err.Error()
			return
		}
		// every batch appears completely or not at all in one feed call
		counts := map[string]map[float64]bool{}
		maxIdx := map[string]float64{}
		for _, e := range ch.Entities {
			r := obs.Canon(st, e)
			t := tagOf(&r)
			i, _ := r.Props[gen.NsP+"i"].(float64)
			if counts[t] == nil {
				counts[t] = map[float64]bool{}
			}
			counts[t][i] = true
			if i > maxIdx[t] {
				maxIdx[t] = i
			}
		}
		for t, m := range counts {
			// indices 0..k-1 of a batch: seeing index j implies seeing all smaller ones
			for j := float64(0); j < maxIdx[t]; j++ {
				if !m[j] {
					addVis(fmt.Sprintf("one feed call of %s saw part of batch %s (index %v missing)", op.DS[0], t, j))
				}
			}
		}
	}
}

// c05FeedOrder: final per-dataset feed vs the clients' op logs.
func c05FeedOrder(ctx *Ctx, id string, core *hub.Core, c c05Case, recs [][]*c05Rec) {
	st := core.Store
	type wr struct {
		rec *c05Rec
		n   int
	}
	for _, d := range c.Datasets {
		ds := core.Dsm.GetDataset(d)
		feed, _, err := obs.Feed(st, ds, 0, nil, false)
		if err != nil {
			ctx.Out.Viol(id, "C05", "feed-error", err.Error(), nil, nil, nil)
			continue
		}
		// (the flip entity carries one of two tags over and over: it has its own rule, c05NoAdjacentDuplicates)
		fullFeed := feed
		{
			var f2 []obs.Rec
			for i := range feed {
				if feed[i].ID != c05FlipID {
					f2 = append(f2, feed[i])
				}
			}
			feed = f2
		}
		// expected writes on this dataset
		exp := map[string]wr{}
		maybe := map[string]string{} // writes that returned an error: they may or may not have taken effect
		for _, rs := range recs {
			for _, r := range rs {
				if len(r.op.IDs) > 0 && r.op.IDs[0] == c05FlipID {
					continue
				}
				if (r.op.Kind == "batch" || r.op.Kind == "txn") && r.err != "" {
					maybe[r.op.Tag] = r.err
				}
				if r.op.Kind == "batch" || r.op.Kind == "txn" {
					for _, x := range r.op.DS {
						if x == d {
							exp[r.op.Tag] = wr{r, len(r.op.IDs)}
						}
					}
				}
			}
		}
		// blocks
		type blk struct {
			tag        string
			start, end int
		}
		var blocks []blk
		seenTag := map[string]bool{}
		for i := 0; i < len(feed); {
			t := tagOf(&feed[i])
			j := i
			for j < len(feed) && tagOf(&feed[j]) == t {
				j++
			}
			if seenTag[t] {
				ctx.Out.Viol(id, "C05", "batch-interleaved", fmt.Sprintf("dataset %s: the entries of write %s are not contiguous in the feed (another write is interleaved)", d, t), nil, recStr(feed), nil)
				return
			}
			seenTag[t] = true
			blocks = append(blocks, blk{t, i, j})
			i = j
		}
		pos := map[string]int{}
		for bi, b := range blocks {
			w, ok := exp[b.tag]
			if !ok {
				ctx.Out.Viol(id, "C05", "unacknowledged-write-in-feed", fmt.Sprintf("dataset %s: feed contains write %s which no client acknowledged on this dataset", d, b.tag), nil, nil, nil)
				return
			}
			if b.end-b.start != w.n {
				ctx.Out.Viol(id, "C05", "write-count", fmt.Sprintf("dataset %s: write %s has %d feed entries, the batch had %d entities", d, b.tag, b.end-b.start, w.n), nil, nil, nil)
				return
			}
			for k := b.start; k < b.end; k++ {
				if i, _ := feed[k].Props[gen.NsP+"i"].(float64); int(i) != k-b.start || feed[k].ID != w.rec.op.IDs[k-b.start] {
					ctx.Out.Viol(id, "C05", "batch-order", fmt.Sprintf("dataset %s: entries of write %s are not in batch order", d, b.tag), nil, nil, nil)
					return
				}
			}
			pos[b.tag] = bi
		}
		for t := range exp {
			if _, failed := maybe[t]; failed {
				if _, ok := pos[t]; ok {
					ctx.Out.Stat("errored_writes_that_took_effect", 1)
				}
				continue
			}
			if _, ok := pos[t]; !ok {
				ctx.Out.Viol(id, "C05", "acknowledged-write-lost", fmt.Sprintf("dataset %s: acknowledged write %s is not in the feed", d, t), nil, nil, nil)
				return
			}
		}
		// program order and real-time order
		pairs := 0
		for t1, w1 := range exp {
			for t2, w2 := range exp {
				if t1 == t2 {
					continue
				}
				if _, f1 := maybe[t1]; f1 {
					continue
				}
				if _, f2 := maybe[t2]; f2 {
					continue
				}
				if w1.rec.ret < w2.rec.call { // w1 returned before w2 was called
					pairs++
					if pos[t1] > pos[t2] {
						ctx.Out.Viol(id, "C05", "real-time-order", fmt.Sprintf("dataset %s: write %s returned before %s was called but comes later in the feed", d, t1, t2), nil, nil, nil)
						return
					}
				}
			}
		}
		ctx.Out.Stat("feed_order_pairs_checked", int64(pairs))
		ctx.Out.Stat("feed_blocks_checked", int64(len(blocks)))
		// latest view = fold of the feed
		lastOf := map[string]*obs.Rec{}
		for i := range fullFeed {
			lastOf[fullFeed[i].ID] = &fullFeed[i]
		}
		l, _ := obs.Listing(st, ds, 0)
		if len(l) != len(lastOf) {
			ctx.Out.Viol(id, "C05", "latest-view", fmt.Sprintf("dataset %s: listing has %d entities, the feed implies %d", d, len(l), len(lastOf)), nil, nil, nil)
			return
		}
		for i := range l {
			if f := lastOf[l[i].ID]; f == nil || !sameEnt(&f.Ent, &l[i].Ent) {
				ctx.Out.Viol(id, "C05", "latest-view", fmt.Sprintf("dataset %s: latest version of %s is not the last feed entry of that entity", d, l[i].ID), nil, nil, nil)
				return
			}
		}
	}
}

// c05EmitRegisters emits per (dataset, entity) register operations for porcupine.
func c05EmitRegisters(ctx *Ctx, id string, c c05Case, recs [][]*c05Rec) {
	n := 0
	for cl, rs := range recs {
		for _, r := range rs {
			switch r.op.Kind {
			case "batch", "txn":
				if len(r.op.IDs) > 0 && r.op.IDs[0] == c05FlipID {
					continue
				}
				ret := r.ret
				if r.err != "" {
					// an operation that returned an error may still have taken effect (or take effect later):
					// it stays open until the end of the history
					ret = 1 << 60
				}
				for _, d := range r.op.DS {
					if strings.HasPrefix(d, "tmp") {
						continue
					}
					for _, e := range r.op.IDs {
						ctx.Out.Ev(map[string]any{"case": id, "k": "reg", "c": cl, "w": true, "key": d + "|" + e, "val": r.op.Tag, "call": r.call, "ret": ret})
						n++
					}
				}
			case "lookup":
				if r.err != "" {
					continue
				}
				ctx.Out.Ev(map[string]any{"case": id, "k": "reg", "c": cl, "w": false, "key": r.op.DS[0] + "|" + r.op.IDs[0], "val": r.seen, "call": r.call, "ret": r.ret})
				n++
			}
		}
	}
	ctx.Out.Stat("register_ops_emitted", int64(n))
}

// c05Counters: at the final quiescent point every dataset's items counter equals the
// number of distinct ids in its own feed (C19, concurrent variant).
func c05Counters(ctx *Ctx, id string, core *hub.Core, prop string) {
	const ns = "http://data.mimiro.io/core/dataset/"
	cd := core.Dsm.GetDataset("core.Dataset")
	metas, err := obs.Listing(core.Store, cd, 0)
	if err != nil {
		return
	}
	items := map[string]float64{}
	live := map[string]int{}
	for _, m := range metas {
		if !m.Deleted {
			name := strings.TrimPrefix(m.ID, ns)
			items[name], _ = m.Props[ns+"items"].(float64)
			live[name]++
		}
	}
	for _, n := range core.Dsm.GetDatasetNames() {
		if n.Name == "core.Dataset" {
			continue
		}
		ds := core.Dsm.GetDataset(n.Name)
		feed, _, _ := obs.Feed(core.Store, ds, 0, nil, false)
		distinct := map[string]bool{}
		for _, f := range feed {
			distinct[f.ID] = true
		}
		if live[n.Name] != 1 {
			ctx.Out.Viol(id, "C19", "meta-entity-count-concurrent", fmt.Sprintf("dataset %s has %d live meta-entities after the concurrent workload", n.Name, live[n.Name]), 1, live[n.Name], nil)
			continue
		}
		if int(items[n.Name]) != len(distinct) {
			ctx.Out.Viol(id, "C19", "items-counter-concurrent", fmt.Sprintf("dataset %s: items=%v but %d distinct ids were stored (concurrent counter updates through core.Dataset)", n.Name, items[n.Name], len(distinct)), len(distinct), items[n.Name], nil)
		}
		ctx.Out.Stat("c19_concurrent_counters_compared", 1)
	}
	_ = server.StorageIDFileName
}

// c05FinalState: at the final quiescent point every read path agrees on what the last write was:
// the dataset's feed is in commit order and its recorded times never go backwards, and the scoped
// lookup of every entity returns the last feed entry of that entity (as the listing does).
func c05FinalState(ctx *Ctx, id, prop string, core *hub.Core, c c05Case) {
	st := core.Store
	for _, d := range c.Datasets {
		ds := core.Dsm.GetDataset(d)
		feed, _, err := obs.Feed(st, ds, 0, nil, false)
		if err != nil {
			continue
		}
		lastOf := map[string]*obs.Rec{}
		for i := range feed {
			if i > 0 && feed[i].Recorded < feed[i-1].Recorded {
				ctx.Out.Viol(id, prop, "commit-order-vs-recorded-time", fmt.Sprintf("dataset %s: feed entry %d (write %s) was committed after entry %d (write %s) but carries an earlier recorded time (%d < %d): queries as of an instant between the two change their answer, and lookups pick a different latest version than the listing", d, i, tagOf(&feed[i]), i-1, tagOf(&feed[i-1]), feed[i].Recorded, feed[i-1].Recorded), nil, nil, nil)
				break
			}
		}
		for i := range feed {
			lastOf[feed[i].ID] = &feed[i]
		}
		n := 0
		for u, f := range lastOf {
			r, err := obs.Lookup(st, u, []string{d})
			if err != nil {
				continue
			}
			n++
			if r == nil || tagOf(r) != tagOf(f) {
				ctx.Out.Viol(id, prop, "lookup-vs-last-write", fmt.Sprintf("dataset %s: scoped lookup of %s returns write %q, the last committed write of that entity is %q", d, u, tagOf(r), tagOf(f)), tagOf(f), tagOf(r), nil)
				break
			}
		}
		ctx.Out.Stat("final_lookups_vs_feed", int64(n))
	}
}

// c05AsOfReads (C06 under concurrency): a scoped lookup whose call interval overlaps no critical
// section of its dataset (lock hooks, wall clock only used for this selection) saw a stable state;
// the as-of lookup at the beginning and at the end of that interval must return the same write.
func c05AsOfReads(ctx *Ctx, id string, core *hub.Core, c c05Case, recs [][]*c05Rec, mon *lockMon) {
	st := core.Store
	iids := map[string]uint64{}
	for _, d := range c.Datasets {
		l, _ := obs.Listing(st, core.Dsm.GetDataset(d), 0)
		for _, r := range l {
			iids[r.ID] = r.InternalID
		}
	}
	judged, skipped := 0, 0
	for _, rs := range recs {
		for _, r := range rs {
			if r.op.Kind != "lookup" || r.err != "" || r.t0 == 0 {
				continue
			}
			d := r.op.DS[0]
			overlap := false
			for _, sec := range mon.sectionsOf("ds:" + d) {
				if sec.from <= r.t1+2000 && sec.to >= r.t0-2000 {
					overlap = true
					break
				}
			}
			iid, ok := iids[r.op.IDs[0]]
			if overlap || !ok {
				skipped++
				continue
			}
			judged++
			for _, at := range []int64{r.t0, r.t1} {
				e, err := st.GetEntityAtPointInTimeWithInternalID(iid, at, st.DatasetsToInternalIDs([]string{d}), true)
				if err != nil || e == nil {
					continue
				}
				got := obs.Canon(st, e)
				if tagOf(&got) != r.seen {
					ctx.Out.Viol(id, "C06", "asof-differs-from-read-outside-critical-sections", fmt.Sprintf("dataset %s entity %s: a lookup that overlapped no write critical section of the dataset returned write %q; the lookup as of that instant now returns %q (a write was stamped with a time before it became visible)", d, r.op.IDs[0], r.seen, tagOf(&got)), r.seen, tagOf(&got), nil)
					return
				}
			}
		}
	}
	ctx.Out.Stat("c06_concurrent_reads_judged", int64(judged))
	ctx.Out.Stat("c06_concurrent_reads_overlapping_a_write", int64(skipped))
}

func recsEqual(a, b []obs.Rec) bool {
	return firstRecDiff(a, b) < 0
}

func firstRecDiff(a, b []obs.Rec) int {
	n := len(a)
	if len(b) < n {
		n = len(b)
	}
	for i := 0; i < n; i++ {
		if !sameEnt(&a[i].Ent, &b[i].Ent) {
			return i
		}
	}
	if len(a) != len(b) {
		return n
	}
	return -1
}

// c05FinalRelations (C03 under concurrency): at the final quiescent point the relation answers of every dataset
// equal the graph of the last committed version of each entity (commit order = feed order). Outgoing with the
// wildcard, incoming with the concrete predicate, both scoped to the one dataset (outside the open C03 findings).
func c05FinalRelations(ctx *Ctx, id, prop string, core *hub.Core, c c05Case) {
	st := core.Store
	n := 0
	for _, d := range c.Datasets {
		ds := core.Dsm.GetDataset(d)
		if ds == nil {
			continue
		}
		feed, _, err := obs.Feed(st, ds, 0, nil, false)
		if err != nil {
			continue
		}
		lastOf := map[string]*obs.Rec{}
		for i := range feed {
			lastOf[feed[i].ID] = &feed[i]
		}
		incoming := map[string]map[model.Pair]bool{}
		for u, f := range lastOf {
			want := map[model.Pair]bool{}
			if !f.Deleted {
				for p, tv := range f.Refs {
					for _, t := range model.RefTargets(tv) {
						want[model.Pair{Pred: p, Other: t}] = true
						if incoming[t] == nil {
							incoming[t] = map[model.Pair]bool{}
						}
						incoming[t][model.Pair{Pred: p, Other: u}] = true
					}
				}
			}
			r, err := obs.Related(st, u, "*", false, []string{d}, 0)
			if err != nil {
				continue
			}
			n++
			if !reflect.DeepEqual(model.PairList(r.Set()), model.PairList(want)) {
				ctx.Out.Viol(id, prop, "relations-vs-last-write", fmt.Sprintf("dataset %s: outgoing relations of %s differ from the references of its last committed write %q", d, u, tagOf(f)), model.PairList(want), model.PairList(r.Set()), nil)
				return
			}
		}
		for k := 0; k < 5; k++ {
			t := fmt.Sprintf("%st%d", gen.NsA, k)
			r, err := obs.Related(st, t, c05Pred, true, []string{d}, 0)
			if err != nil {
				continue
			}
			n++
			want := incoming[t]
			if want == nil {
				want = map[model.Pair]bool{}
			}
			if !reflect.DeepEqual(model.PairList(r.Set()), model.PairList(want)) {
				ctx.Out.Viol(id, prop, "incoming-relations-vs-last-writes", fmt.Sprintf("dataset %s: incoming %s relations of %s differ from the entities whose last committed write refers to it", d, c05Pred, t), model.PairList(want), model.PairList(r.Set()), nil)
				return
			}
		}
	}
	ctx.Out.Stat("final_relation_queries_vs_feed", int64(n))
}

// c05Barrier lets the writers arrive at a rendezvous op together. The wait is bounded (a writer that is blocked in
// the hub, or gone, must not hold the others for ever); the bound only shapes the workload, it decides nothing.
type c05Barrier struct {
	mu      sync.Mutex
	waiting map[int]chan struct{}
	count   map[int]int
}

func (b *c05Barrier) arrive(n, parties int) {
	b.mu.Lock()
	ch := b.waiting[n]
	if ch == nil {
		ch = make(chan struct{})
		b.waiting[n] = ch
	}
	b.count[n]++
	if b.count[n] == parties {
		close(ch)
	}
	b.mu.Unlock()
	select {
	case <-ch:
	case <-time.After(2 * time.Second):
	}
}

// c05SharedDatasets: a dataset name that several writers created at the same moment exists once, and the one write
// each creator made right after its own successful create is in that dataset's feed, found by a scoped lookup and
// counted.
func c05SharedDatasets(ctx *Ctx, id, prop string, core *hub.Core, c c05Case, recs [][]*c05Rec) {
	st := core.Store
	for _, d := range c.Shared {
		acked := map[string]string{} // tag -> entity id
		for _, rs := range recs {
			for _, r := range rs {
				if r.op.Kind == "mkds" && r.op.DS[0] == d && r.done && r.err == "" {
					acked[r.op.Tag] = r.op.IDs[0]
				}
			}
		}
		if len(acked) == 0 {
			continue
		}
		ds := core.Dsm.GetDataset(d)
		if ds == nil {
			ctx.Out.Viol(id, prop, "concurrently-created-dataset-missing", fmt.Sprintf("%d writers created dataset %s at the same moment and wrote to it without error; the dataset does not exist", len(acked), d), nil, nil, nil)
			return
		}
		feed, _, err := obs.Feed(st, ds, 0, nil, false)
		if err != nil {
			continue
		}
		inFeed := map[string]bool{}
		for i := range feed {
			inFeed[tagOf(&feed[i])] = true
		}
		for tag, eid := range acked {
			if !inFeed[tag] {
				ctx.Out.Viol(id, prop, "acked-write-lost-after-concurrent-create", fmt.Sprintf("dataset %s was created by %d writers at the same moment; the acknowledged write %s (entity %s) made right after one of the creates is not in the dataset's feed (%d entries)", d, len(acked), tag, eid, len(feed)), tag, recStr(feed), nil)
				return
			}
			if r, _ := obs.Lookup(st, eid, []string{d}); r == nil || tagOf(r) != tag {
				ctx.Out.Viol(id, prop, "acked-write-lost-after-concurrent-create", fmt.Sprintf("dataset %s: scoped lookup of %s does not return the acknowledged write %s", d, eid, tag), tag, tagOf(r), nil)
				return
			}
		}
		ctx.Out.Stat("concurrently_created_datasets_checked", 1)
		ctx.Out.Stat("writes_after_concurrent_create_checked", int64(len(acked)))
	}
}

// c05DeletedStayDeleted: a dataset whose delete was acknowledged is reachable under no name afterwards (a rename that
// was waiting for the dataset while it was deleted must not bring it back), and nothing of it is served.
func c05DeletedStayDeleted(ctx *Ctx, id, prop string, core *hub.Core) {
	c05DeletedMu.Lock()
	dead := map[uint32]bool{}
	for _, i := range c05DeletedIDs[fmt.Sprintf("%p", core)] {
		dead[i] = true
	}
	delete(c05DeletedIDs, fmt.Sprintf("%p", core))
	c05DeletedMu.Unlock()
	for _, n := range core.Dsm.GetDatasetNames() {
		ds := core.Dsm.GetDataset(n.Name)
		if ds != nil && dead[ds.InternalID] {
			l, _ := obs.Listing(core.Store, ds, 0)
			ctx.Out.Viol(id, prop, "deleted-dataset-reachable-under-a-name", fmt.Sprintf("the dataset with internal id %d was deleted (acknowledged) while a rename and a long batch were in flight on it; afterwards it is reachable as %q and lists %d entities", ds.InternalID, n.Name, len(l)), nil, n.Name, nil)
			return
		}
	}
	ctx.Out.Stat("deleted_datasets_checked_unreachable", int64(len(dead)))
}

// c05NoAdjacentDuplicates: the flip entity is only ever written with one of two contents; whatever the order in which
// the concurrent writers were served, a write identical to the version current at that moment adds nothing, so no two
// adjacent versions of it in a dataset's feed are identical.
func c05NoAdjacentDuplicates(ctx *Ctx, id, prop string, core *hub.Core) {
	for _, d := range []string{"da", "db"} {
		ds := core.Dsm.GetDataset(d)
		if ds == nil {
			continue
		}
		feed, _, err := obs.Feed(core.Store, ds, 0, nil, false)
		if err != nil {
			continue
		}
		prev := ""
		n := 0
		for i := range feed {
			if feed[i].ID != c05FlipID {
				continue
			}
			n++
			cur := model.CanonString(&feed[i].Ent)
			if cur == prev {
				ctx.Out.Viol(id, prop, "identical-version-appended-under-concurrency", fmt.Sprintf("dataset %s: two adjacent versions of %s in the feed are identical (%s): a write identical to the current version was appended (it was compared with a version that was no longer current)", d, c05FlipID, tagOf(&feed[i])), nil, cur, nil)
				return
			}
			prev = cur
		}
		ctx.Out.Stat("flip_entity_versions_checked", int64(n))
	}
}
