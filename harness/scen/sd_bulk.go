package scen

// One "bulk" case per storediff child (C01, C02; the rejected-batch part also for C04): a dataset with far more
// entities than the generated histories ever hold, so that internal ids pass byte boundaries and batches pass the
// sizes at which an implementation might start to slice its work.
//
//   - a batch of 1500 entities whose 1200th carries an invalid (nil) reference value must be refused as a whole:
//     nothing of it is listed, fed or found afterwards;
//   - batches of 250, 1200 and 150 new entities: the one-call listing holds every id exactly once with the content
//     written; the listing read in pages of 1, 3, 7, 64, 100, 256, 1000 is the same sequence; the feed read with
//     limits 1, 7, 100, 1000 is the same sequence as in one call; sampled lookups agree.

import (
	"bytes"
	"encoding/json"
	"fmt"
	"math/rand"
	"os"
	"strings"

	"github.com/mimiro-io/datahub/internal/server"
	"github.com/mimiro-io/datahub/internal/verif/gen"
	"github.com/mimiro-io/datahub/internal/verif/hub"
	"github.com/mimiro-io/datahub/internal/verif/model"
	"github.com/mimiro-io/datahub/internal/verif/obs"
)

type sdBulk struct {
	Huge  bool   `json:"huge,omitempty"` // include the 26 MB batches
	Kind  string `json:"kind"`
	Sizes []int  `json:"sizes"`
	Bad   int    `json:"bad"`
	Salt  int    `json:"salt"`
}

func bulkEnt(salt, i int) model.Ent {
	return model.Ent{ID: fmt.Sprintf("%sbulk-%d-%d", gen.NsA, salt, i),
		Props: map[string]any{gen.NsP + "n": float64(i)},
		Refs:  map[string]any{gen.NsR + "next": fmt.Sprintf("%sbulk-%d-%d", gen.NsA, salt, (i+1)%7)}}
}

func sdBulkCase(ctx *Ctx, r *rand.Rand) {
	runSDBulk(ctx, sdBulk{Huge: ctx.Arg("huge", "") != "" || ctx.Seed%4 == 0, Kind: "bulk", Sizes: []int{250, 1200, 150}, Bad: 1100 + r.Intn(300), Salt: r.Intn(1000)})
}

func runSDBulk(ctx *Ctx, c sdBulk) {
	id := outHash(c)
	prop := "C01"
	for _, p := range []string{"C01", "C02", "C04", "C05"} {
		if ctx.Has(p) {
			prop = p
			break
		}
	}
	ctx.Out.Case(id, ctx.Seed, map[string]any{"ops": c}, true, []string{"bulk"})
	dir := ctx.NewDir("bulk")
	defer os.RemoveAll(dir)
	core := hub.OpenCore(dir)
	defer core.Close()
	viol := func(p, class, msg string, exp, got any) {
		if p != prop {
			class = "via-" + p + "-" + class
		}
		ctx.Out.Viol(id, prop, class, msg, exp, got, nil)
	}
	defer func() {
		if p := recover(); p != nil {
			viol(prop, "panic", fmt.Sprintf("panic in a read/write API on the bulk dataset: %v", p), nil, nil)
		}
	}()
	if _, err := core.Dsm.CreateDataset("big", nil); err != nil {
		ctx.Out.Inconclusive(id, prop, "create dataset: "+err.Error())
		return
	}
	ds := core.Dsm.GetDataset("big")
	st := core.Store

	// 1. a large batch with one invalid entity late in it
	var bad []model.Ent
	for i := 0; i < 1500; i++ {
		bad = append(bad, bulkEnt(c.Salt+1, i))
	}
	esp := server.NewEntityStreamParser(st)
	var parsed []*server.Entity
	if err := esp.ParseStream(bytes.NewReader(gen.Payload(bad, false)), func(e *server.Entity) error { parsed = append(parsed, e); return nil }); err != nil {
		ctx.Out.Inconclusive(id, prop, "parse: "+err.Error())
		return
	}
	for k := range parsed[c.Bad].References {
		parsed[c.Bad].References[k] = nil
	}
	if err := ds.StoreEntities(parsed); err == nil {
		viol("C04", "invalid-batch-accepted", fmt.Sprintf("a batch of 1500 entities whose entity %d carries a nil reference value was accepted", c.Bad), nil, nil)
		return
	}
	l, _ := obs.Listing(st, ds, 0)
	f, _, _ := obs.Feed(st, ds, 0, nil, false)
	found := 0
	for _, i := range []int{0, 1, 999, 1000, 1001, c.Bad - 1, c.Bad + 1, 1499} {
		if rec, _ := obs.Lookup(st, bad[i].ID, []string{"big"}); rec != nil {
			found++
		}
	}
	if len(l) != 0 || len(f) != 0 || found != 0 {
		viol("C04", "refused-batch-partly-stored", fmt.Sprintf("a batch of 1500 entities was refused (invalid entity at position %d), yet the dataset lists %d entities, feeds %d changes and %d of 8 sampled ids are found", c.Bad, len(l), len(f), found), 0, len(l))
		return
	}
	ctx.Out.Stat("bulk_refused_batches_without_effect", 1)

	// 1b. a batch too large for one storage transaction (44 entities of 600 KB): stored as a whole or refused as a
	// whole - with an invalid last entity it can only be refused, and nothing of it may stay
	for _, poison := range []bool{true, false} {
		if !c.Huge {
			break
		}
		var huge []model.Ent
		pad := strings.Repeat("x", 600<<10)
		for i := 0; i < 44; i++ {
			e := bulkEnt(c.Salt+2, i)
			e.Props[gen.NsP+"pad"] = pad
			huge = append(huge, e)
		}
		var hp []*server.Entity
		if err := server.NewEntityStreamParser(st).ParseStream(bytes.NewReader(gen.Payload(huge, false)), func(e *server.Entity) error { hp = append(hp, e); return nil }); err != nil {
			ctx.Out.Inconclusive(id, prop, "parse huge: "+err.Error())
			return
		}
		if poison {
			for k := range hp[len(hp)-1].References {
				hp[len(hp)-1].References[k] = nil
			}
		}
		err := ds.StoreEntities(hp)
		l, _ := obs.Listing(st, ds, 0)
		f, _, _ := obs.Feed(st, ds, 0, nil, false)
		switch {
		case err != nil && (len(l) != 0 || len(f) != 0):
			viol("C04", "refused-batch-partly-stored", fmt.Sprintf("a batch of 44 entities of 600 KB each (invalid last entity: %v) was refused (%s), yet the dataset lists %d entities and feeds %d changes", poison, bulkTrunc(firstLine(err.Error()), 160), len(l), len(f)), 0, len(l))
			return
		case err == nil && poison:
			viol("C04", "invalid-batch-accepted", "a 26 MB batch whose last entity carries a nil reference value was accepted", nil, nil)
			return
		case err == nil && (len(l) != 44 || len(f) != 44):
			viol("C04", "accepted-batch-partly-stored", fmt.Sprintf("a 26 MB batch of 44 entities was accepted, the dataset lists %d entities and feeds %d changes", len(l), len(f)), 44, len(l))
			return
		}
		if err == nil {
			// accepted as a whole: start the rest of the case from an empty dataset again
			_ = core.Dsm.DeleteDataset("big")
			if _, cerr := core.Dsm.CreateDataset("big", nil); cerr != nil {
				ctx.Out.Inconclusive(id, prop, "re-create dataset: "+cerr.Error())
				return
			}
			ds = core.Dsm.GetDataset("big")
		}
		ctx.Out.Stat("bulk_oversized_batches_all_or_nothing", 1)
	}

	// 2. the bulk content
	var all []model.Ent
	n := 0
	for _, sz := range c.Sizes {
		var b []model.Ent
		for i := 0; i < sz; i++ {
			b = append(b, bulkEnt(c.Salt, n))
			n++
		}
		if err := StoreBatch(core, "big", b, false); err != nil {
			viol(prop, "write-error", "a valid batch of "+fmt.Sprint(sz)+" entities returned an error: "+err.Error(), nil, nil)
			return
		}
		all = append(all, b...)
	}
	want := map[string]string{}
	for i := range all {
		e := model.NormEnt(all[i])
		want[e.ID] = model.CanonString(&e)
	}
	one, err := obs.Listing(st, ds, 0)
	if err != nil {
		viol("C01", "bulk-listing-error", err.Error(), nil, nil)
		return
	}
	seen := map[string]bool{}
	for i := range one {
		if seen[one[i].ID] {
			viol("C01", "bulk-listing-duplicate", fmt.Sprintf("the one-call listing of %d entities holds %s twice", len(all), one[i].ID), nil, nil)
			return
		}
		seen[one[i].ID] = true
		if w, ok := want[one[i].ID]; !ok || w != model.CanonString(&one[i].Ent) {
			viol("C01", "bulk-listing-content", fmt.Sprintf("the one-call listing holds %s with a content that was not written", one[i].ID), w, model.CanonString(&one[i].Ent))
			return
		}
	}
	if len(one) != len(all) {
		viol("C01", "bulk-listing-count", fmt.Sprintf("%d entities were written, the one-call listing holds %d", len(all), len(one)), len(all), len(one))
		return
	}
	ids := func(rs []obs.Rec) []string {
		o := make([]string, len(rs))
		for i := range rs {
			o[i] = rs[i].ID
		}
		return o
	}
	for _, page := range []int{1, 3, 7, 64, 100, 256, 1000} {
		got, complete := bulkPagedListing(ds, st, page, 2*len(all)+10)
		if !complete || !sameStrings(ids(got), ids(one)) {
			viol("C01", "bulk-paged-listing", fmt.Sprintf("listing of %d entities read in pages of %d: %d entities served (terminated: %v), not the one-call sequence; first difference at position %d", len(all), page, len(got), complete, firstStringDiff(ids(got), ids(one))), len(one), len(got))
			return
		}
		ctx.Out.Stat("bulk_paged_listings_equal_to_one_call", 1)
	}
	feed, _, err := obs.Feed(st, ds, 0, nil, false)
	if err != nil || !sameStrings(ids(feed), func() []string {
		o := make([]string, len(all))
		for i := range all {
			o[i] = all[i].ID
		}
		return o
	}()) {
		viol("C02", "bulk-feed", fmt.Sprintf("the one-call feed of %d single-version entities does not list them in write order (%d entries, err %v)", len(all), len(feed), err), len(all), len(feed))
		return
	}
	for _, lim := range []int{1, 7, 100, 1000} {
		got, _, err := obs.Feed(st, ds, 0, []int{lim}, false)
		if err != nil || !sameStrings(ids(got), ids(feed)) {
			viol("C02", "bulk-paged-feed", fmt.Sprintf("feed of %d entries read with limit %d: %d entries (err %v), not the one-call sequence; first difference at position %d", len(feed), lim, len(got), err, firstStringDiff(ids(got), ids(feed))), len(feed), len(got))
			return
		}
		ctx.Out.Stat("bulk_paged_feeds_equal_to_one_call", 1)
	}
	for _, i := range []int{0, 254, 255, 256, 257, 511, 512, 1023, 1024, len(all) - 1} {
		rec, err := obs.Lookup(st, all[i].ID, []string{"big"})
		if err != nil || rec == nil || model.CanonString(&rec.Ent) != want[all[i].ID] {
			viol("C01", "bulk-lookup", fmt.Sprintf("lookup of entity %d of %d (%s) does not return what was written", i, len(all), all[i].ID), want[all[i].ID], rec)
			return
		}
	}
	ctx.Out.Stat("bulk_entities_written", int64(len(all)))
}

// bulkPagedListing follows continuation tokens with a fixed page size; it gives up (complete=false) once more than
// max entities were served, which a listing that re-serves a block would do for ever.
func bulkPagedListing(ds *server.Dataset, st *server.Store, page, max int) ([]obs.Rec, bool) {
	var out []obs.Rec
	from := ""
	for len(out) <= max {
		res, err := ds.GetEntities(from, page)
		if err != nil {
			return out, false
		}
		if len(res.Entities) == 0 {
			return out, true
		}
		for _, e := range res.Entities {
			out = append(out, obs.Canon(st, e))
		}
		from = res.ContinuationToken
	}
	return out, false
}

func sameStrings(a, b []string) bool { return firstStringDiff(a, b) < 0 }

func firstStringDiff(a, b []string) int {
	for i := 0; i < len(a) && i < len(b); i++ {
		if a[i] != b[i] {
			return i
		}
	}
	if len(a) != len(b) {
		if len(a) < len(b) {
			return len(a)
		}
		return len(b)
	}
	return -1
}

func bulkReplay(ctx *Ctx, b []byte) bool {
	var w struct {
		Ops struct {
			Ops sdBulk `json:"ops"`
		} `json:"ops"`
	}
	if json.Unmarshal(b, &w) != nil || w.Ops.Ops.Kind != "bulk" {
		return false
	}
	runSDBulk(ctx, w.Ops.Ops)
	return true
}

func init() { Register("sdbulk", sdBulkScenario) }

// sdBulkScenario runs only bulk cases (used by C04 for the refused-large-batch clause).
func sdBulkScenario(ctx *Ctx) error {
	if ctx.Replay != "" {
		b, err := os.ReadFile(ctx.Replay)
		if err != nil {
			return err
		}
		if !bulkReplay(ctx, b) {
			return fmt.Errorf("not a bulk witness")
		}
		return nil
	}
	r := rand.New(rand.NewSource(ctx.Seed))
	for i := 0; i < ctx.Cases; i++ {
		sdBulkCase(ctx, r)
	}
	return nil
}

func bulkTrunc(s string, n int) string {
	if len(s) > n {
		return s[:n] + "…"
	}
	return s
}
