// vchild is the child-process entry point of the verification harness.
package main

import (
	"flag"
	"fmt"
	"os"
	"runtime"
	"runtime/pprof"
	"strings"

	"github.com/mimiro-io/datahub/internal/verif/out"
	"github.com/mimiro-io/datahub/internal/verif/scen"
	"github.com/mimiro-io/datahub/internal/verif/vh"
)

func main() {
	scenario := flag.String("scenario", "", "scenario name")
	seed := flag.Int64("seed", 1, "seed")
	cases := flag.Int("cases", 1, "number of cases")
	tier := flag.String("tier", "quick", "quick|thorough")
	scratch := flag.String("scratch", "", "scratch dir")
	outp := flag.String("out", "", "output jsonl")
	replay := flag.String("replay", "", "replay file")
	args := flag.String("args", "", "k=v,k=v scenario arguments (values may use + for commas)")
	list := flag.Bool("list", false, "list scenarios")
	flag.Parse()
	if *list {
		for _, n := range scen.Names() {
			fmt.Println(n)
		}
		return
	}
	s, ok := scen.Get(*scenario)
	if !ok {
		fmt.Fprintln(os.Stderr, "unknown scenario", *scenario)
		os.Exit(3)
	}
	if *scratch == "" || *outp == "" {
		fmt.Fprintln(os.Stderr, "-scratch and -out are required")
		os.Exit(3)
	}
	w, err := out.Open(*outp)
	if err != nil {
		fmt.Fprintln(os.Stderr, err)
		os.Exit(3)
	}
	if err := vh.Install(*seed); err != nil {
		fmt.Fprintln(os.Stderr, err)
		os.Exit(3)
	}
	am := map[string]string{}
	for _, kv := range strings.Split(*args, ",") {
		if kv == "" {
			continue
		}
		i := strings.Index(kv, "=")
		if i < 0 {
			am[kv] = "1"
		} else {
			am[kv[:i]] = strings.ReplaceAll(kv[i+1:], "+", ",")
		}
	}
	ctx := &scen.Ctx{Seed: *seed, Cases: *cases, Tier: *tier, Scratch: *scratch, Out: w, Args: am, Replay: *replay}
	if err := s(ctx); err != nil {
		w.Emit(map[string]any{"t": "error", "msg": err.Error()})
		w.Close()
		fmt.Fprintln(os.Stderr, "scenario error:", err)
		os.Exit(4)
	}
	for k, v := range vh.Hits() {
		w.Stat("hook:"+k, v)
	}
	w.Close()
	if hp := os.Getenv("VERIF_HEAPPROF"); hp != "" { // debugging aid for the harness' own memory use
		runtime.GC()
		if f, err := os.Create(hp); err == nil {
			_ = pprof.WriteHeapProfile(f)
			f.Close()
		}
		if f, err := os.Create(hp + ".goroutines"); err == nil {
			_ = pprof.Lookup("goroutine").WriteTo(f, 1)
			f.Close()
		}
	}
}
