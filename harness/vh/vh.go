// Package vh is the run-time side of internal/verifhook: an action table for
// named points (count / sleep / crash / pause / call) and a lock tracer.
package vh

import (
	"fmt"
	"math/rand"
	"os"
	"runtime"
	"strconv"
	"strings"
	"sync"
	"syscall"
	"time"

	"github.com/mimiro-io/datahub/internal/verifhook"
)

type action struct {
	kind string // count, sleep, crash, call, pause
	dur  time.Duration
	pct  float64 // for sleep: probability in percent (0 = always)
	hit  int64   // only on this hit (0 = every hit)
	fn   func(name string, hit int64)
}

var (
	mu      sync.Mutex
	actions = map[string][]action{}
	hits    = map[string]int64{}
	rng     = rand.New(rand.NewSource(1))
	lockFn  func(kind, name string, gid int64)
	// BeforeCrash is called (if set) just before a crash action kills the process.
	BeforeCrash func(name string, hit int64)
	// OnShutdown is called (if set) by a shutdown action: the process is being stopped while the operation that
	// reached the point is in flight (the store is closed under it); the operation then continues.
	OnShutdown func(name string, hit int64)
)

// Install installs the dispatcher and parses VERIF_HOOKS.
func Install(seed int64) error {
	mu.Lock()
	rng = rand.New(rand.NewSource(seed ^ 0x5eed))
	mu.Unlock()
	verifhook.SetHandler(dispatch)
	return Parse(os.Getenv("VERIF_HOOKS"))
}

// Parse adds actions from "name=action[@hit][;…]".
func Parse(spec string) error {
	for _, part := range strings.Split(spec, ";") {
		part = strings.TrimSpace(part)
		if part == "" {
			continue
		}
		eq := strings.Index(part, "=")
		if eq < 0 {
			return fmt.Errorf("bad hook spec %q", part)
		}
		name, act := part[:eq], part[eq+1:]
		a := action{}
		if at := strings.LastIndex(act, "@"); at >= 0 {
			h, err := strconv.ParseInt(act[at+1:], 10, 64)
			if err != nil {
				return fmt.Errorf("bad hit in %q", part)
			}
			a.hit = h
			act = act[:at]
		}
		switch {
		case act == "count":
			a.kind = "count"
		case act == "crash":
			a.kind = "crash"
		case act == "shutdown":
			a.kind = "shutdown"
		case strings.HasPrefix(act, "sleep:"):
			a.kind = "sleep"
			d := act[len("sleep:"):]
			if pc := strings.Index(d, "%"); pc >= 0 {
				p, err := strconv.ParseFloat(d[pc+1:], 64)
				if err != nil {
					return fmt.Errorf("bad pct in %q", part)
				}
				a.pct = p
				d = d[:pc]
			}
			dur, err := time.ParseDuration(d)
			if err != nil {
				return fmt.Errorf("bad duration in %q", part)
			}
			a.dur = dur
		default:
			return fmt.Errorf("unknown action %q", part)
		}
		mu.Lock()
		actions[name] = append(actions[name], a)
		mu.Unlock()
	}
	return nil
}

// OnPoint registers an in-process callback for a point (hit 0 = every hit).
func OnPoint(name string, hit int64, fn func(name string, hit int64)) {
	mu.Lock()
	actions[name] = append(actions[name], action{kind: "call", hit: hit, fn: fn})
	mu.Unlock()
}

// Clear removes all actions of a point ("" = all points); hit counts stay.
func Clear(name string) {
	mu.Lock()
	if name == "" {
		actions = map[string][]action{}
	} else {
		delete(actions, name)
	}
	mu.Unlock()
}

// ResetHits zeroes the hit counters.
func ResetHits() {
	mu.Lock()
	hits = map[string]int64{}
	mu.Unlock()
}

// Hits returns a copy of the hit counters.
func Hits() map[string]int64 {
	mu.Lock()
	defer mu.Unlock()
	r := make(map[string]int64, len(hits))
	for k, v := range hits {
		r[k] = v
	}
	return r
}

// SetLockTracer installs the lock event sink.
func SetLockTracer(f func(kind, name string, gid int64)) {
	mu.Lock()
	lockFn = f
	mu.Unlock()
}

// Gid returns the current goroutine id.
func Gid() int64 {
	var buf [64]byte
	n := runtime.Stack(buf[:], false)
	s := string(buf[:n])
	s = strings.TrimPrefix(s, "goroutine ")
	if i := strings.IndexByte(s, ' '); i > 0 {
		id, _ := strconv.ParseInt(s[:i], 10, 64)
		return id
	}
	return 0
}

func dispatch(kind, name string) {
	if kind != "point" {
		mu.Lock()
		f := lockFn
		mu.Unlock()
		if f != nil {
			f(kind, name, Gid())
		}
		return
	}
	mu.Lock()
	hits[name]++
	h := hits[name]
	acts := actions[name]
	var todo []action
	for _, a := range acts {
		if a.hit != 0 && a.hit != h {
			continue
		}
		if a.kind == "sleep" && a.pct > 0 && rng.Float64()*100 >= a.pct {
			continue
		}
		todo = append(todo, a)
	}
	mu.Unlock()
	for _, a := range todo {
		switch a.kind {
		case "sleep":
			time.Sleep(a.dur)
		case "call":
			a.fn(name, h)
		case "shutdown":
			if OnShutdown != nil {
				OnShutdown(name, h)
			}
		case "crash":
			if BeforeCrash != nil {
				BeforeCrash(name, h)
			}
			syscall.Kill(os.Getpid(), syscall.SIGKILL)
			select {} // never continue past the crash point
		}
	}
}
