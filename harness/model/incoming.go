package model

// IncomingKeyProfile describes the reference-index keys that the versions of
// source entity x have written towards `start` in the in-scope datasets
// (over-approximated): which predicates, which datasets, how many keys.
// It is the witness-side input of the C03 incoming-scan classifiers.
type IncomingKeyProfile struct {
	Preds    map[string]bool
	Datasets map[string]bool
	Keys     int
}

func refersTo(refs map[string]any, start string) map[string]bool {
	r := map[string]bool{}
	for p, tv := range refs {
		for _, t := range RefTargets(tv) {
			if t == start {
				r[p] = true
			}
		}
	}
	return r
}

func (h *Hub) IncomingKeys(x, start string, scope []string, asOf int) IncomingKeyProfile {
	pr := IncomingKeyProfile{Preds: map[string]bool{}, Datasets: map[string]bool{}}
	for _, d := range h.inScope(scope) {
		prev := map[string]bool{}
		for _, v := range d.Versions {
			if v.ID != x || (asOf >= 0 && v.Commit > asOf) {
				continue
			}
			cur := refersTo(v.Refs, start)
			touched := map[string]bool{}
			for p := range cur {
				touched[p] = true
			}
			for p := range prev {
				touched[p] = true // live again or tombstone
			}
			for p := range touched {
				pr.Preds[p] = true
				pr.Datasets[d.Name] = true
				pr.Keys++
			}
			if v.Deleted {
				cur = map[string]bool{}
			}
			prev = cur
		}
	}
	return pr
}

// ClassifyIncoming explains a mismatch of an incoming (inverse) relation query
// by the known defects of the incoming index scan. mis = the mis-reported
// pairs (symmetric difference expected/observed, or duplicated pairs).
// Returns "" when some pair is not explained.
//
//	incoming-wildcard-multipred : predicate "*" and the source has keys of >=2 predicates towards start
//	incoming-multidataset       : the source has keys towards start in >=2 in-scope datasets
//	incoming-paged-multikey     : paged query and the source has >=2 keys towards start
func (h *Hub) ClassifyIncoming(start, pred string, scope []string, asOf int, paged bool, mis []Pair) string {
	if len(mis) == 0 {
		return ""
	}
	best := ""
	rank := map[string]int{"incoming-wildcard-multipred": 3, "incoming-multidataset": 2, "incoming-paged-multikey": 1}
	for _, p := range mis {
		k := h.IncomingKeys(p.Other, start, scope, asOf)
		c := ""
		switch {
		case pred == "*" && len(k.Preds) >= 2:
			c = "incoming-wildcard-multipred"
		case len(k.Datasets) >= 2:
			c = "incoming-multidataset"
		case paged && k.Keys >= 2:
			c = "incoming-paged-multikey"
		default:
			return ""
		}
		if rank[c] > rank[best] {
			best = c
		}
	}
	return best
}

// SymDiff returns the pairs in exactly one of a, b.
func SymDiff(a, b map[Pair]bool) []Pair {
	var r []Pair
	for p := range a {
		if !b[p] {
			r = append(r, p)
		}
	}
	for p := range b {
		if !a[p] {
			r = append(r, p)
		}
	}
	return r
}
