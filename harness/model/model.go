// Package model is the executable reference model of the hub, written from the
// property statements (C01–C03, C06, C07, C12, C19), not from the code.
// It has no datahub imports.
package model

import (
	"encoding/json"
	"fmt"
	"reflect"
	"sort"
)

// Ent is one entity content in canonical form: full URIs for id, keys and
// reference targets; JSON-normalised property values.
type Ent struct {
	ID      string         `json:"id"`
	Props   map[string]any `json:"props"`
	Refs    map[string]any `json:"refs"` // string or []any of strings
	Deleted bool           `json:"deleted,omitempty"`
}

// Version is a stored version of an entity inside a dataset incarnation.
type Version struct {
	Ent
	Commit int // global commit counter value of the op that stored it
	Seq    int // position in the dataset's feed
}

type Dataset struct {
	Name     string
	Inc      int // incarnation number (unique per created dataset)
	Alive    bool
	Versions []*Version
	// distinct ids ever stored (C19)
	Ids map[string]bool
}

type Hub struct {
	Datasets []*Dataset // every incarnation ever, creation order
	Commit   int
	nextInc  int
}

func New() *Hub { return &Hub{} }

// Norm returns v passed through JSON so that numeric and container types are
// the ones a reader of JSON sees.
func Norm(v any) any {
	b, err := json.Marshal(v)
	if err != nil {
		panic(err)
	}
	var o any
	if err := json.Unmarshal(b, &o); err != nil {
		panic(err)
	}
	return o
}

func NormEnt(e Ent) Ent {
	r := Ent{ID: e.ID, Deleted: e.Deleted, Props: map[string]any{}, Refs: map[string]any{}}
	for k, v := range e.Props {
		r.Props[k] = Norm(v)
	}
	for k, v := range e.Refs {
		r.Refs[k] = Norm(v)
	}
	return r
}

// SameContent: identical deleted flag, props and refs (JSON value equality).
func SameContent(a, b *Ent) bool {
	if a.Deleted != b.Deleted {
		return false
	}
	return mapsEqual(a.Props, b.Props) && mapsEqual(a.Refs, b.Refs)
}

func mapsEqual(a, b map[string]any) bool {
	if len(a) != len(b) {
		return false
	}
	for k, v := range a {
		w, ok := b[k]
		if !ok {
			return false
		}
		if !reflect.DeepEqual(v, w) {
			return false
		}
	}
	return true
}

// Live returns the alive dataset with the name, or nil.
func (h *Hub) Live(name string) *Dataset {
	for i := len(h.Datasets) - 1; i >= 0; i-- {
		if h.Datasets[i].Name == name && h.Datasets[i].Alive {
			return h.Datasets[i]
		}
	}
	return nil
}

func (h *Hub) LiveNames() []string {
	var r []string
	for _, d := range h.Datasets {
		if d.Alive {
			r = append(r, d.Name)
		}
	}
	sort.Strings(r)
	return r
}

func (h *Hub) Create(name string) *Dataset {
	if d := h.Live(name); d != nil {
		return d
	}
	h.nextInc++
	d := &Dataset{Name: name, Inc: h.nextInc, Alive: true, Ids: map[string]bool{}}
	h.Datasets = append(h.Datasets, d)
	return d
}

func (h *Hub) Delete(name string) bool {
	d := h.Live(name)
	if d == nil {
		return false
	}
	d.Alive = false
	return true
}

func (h *Hub) Rename(from, to string) bool {
	d := h.Live(from)
	if d == nil || h.Live(to) != nil {
		return false
	}
	d.Name = to
	return true
}

// latestIn returns the newest version of id in d with Commit <= asOf (asOf<0: no bound).
func (d *Dataset) latestIn(id string, asOf int) *Version {
	for i := len(d.Versions) - 1; i >= 0; i-- {
		v := d.Versions[i]
		if v.ID == id && (asOf < 0 || v.Commit <= asOf) {
			return v
		}
	}
	return nil
}

// Apply stores a batch into the named dataset; returns the indices of the
// elements that produced a new version. A new commit number is used iff
// something was stored.
func (h *Hub) Apply(name string, batch []Ent) []int {
	return h.ApplyTxn(map[string][]Ent{name: batch})[name]
}

// ApplyTxn stores several batches atomically (one commit number).
func (h *Hub) ApplyTxn(batches map[string][]Ent) map[string][]int {
	res := map[string][]int{}
	commit := h.Commit + 1
	any := false
	names := make([]string, 0, len(batches))
	for n := range batches {
		names = append(names, n)
	}
	sort.Strings(names)
	for _, name := range names {
		d := h.Live(name)
		if d == nil {
			continue
		}
		for i, e := range batches[name] {
			e = NormEnt(e)
			cur := d.latestIn(e.ID, -1)
			if cur != nil && SameContent(&cur.Ent, &e) {
				continue
			}
			d.Versions = append(d.Versions, &Version{Ent: e, Commit: commit, Seq: len(d.Versions)})
			d.Ids[e.ID] = true
			res[name] = append(res[name], i)
			any = true
		}
	}
	if any {
		h.Commit = commit
	}
	return res
}

// Latest returns the latest version per entity id (asOf<0 = now), sorted by id.
func (d *Dataset) Latest(asOf int) []*Version {
	m := map[string]*Version{}
	for _, v := range d.Versions {
		if asOf < 0 || v.Commit <= asOf {
			m[v.ID] = v
		}
	}
	ids := make([]string, 0, len(m))
	for id := range m {
		ids = append(ids, id)
	}
	sort.Strings(ids)
	r := make([]*Version, 0, len(ids))
	for _, id := range ids {
		r = append(r, m[id])
	}
	return r
}

// Feed is the full ordered version history.
func (d *Dataset) Feed() []*Version { return d.Versions }

// FeedLatestOnly: exactly the newest version of each entity, in feed order.
func (d *Dataset) FeedLatestOnly() []*Version {
	last := map[string]*Version{}
	for _, v := range d.Versions {
		last[v.ID] = v
	}
	var r []*Version
	for _, v := range d.Versions {
		if last[v.ID] == v {
			r = append(r, v)
		}
	}
	return r
}

// inScope returns alive datasets restricted to scope (nil/empty = all).
func (h *Hub) inScope(scope []string) []*Dataset {
	var r []*Dataset
	for _, d := range h.Datasets {
		if !d.Alive {
			continue
		}
		if len(scope) == 0 {
			r = append(r, d)
			continue
		}
		for _, s := range scope {
			if s == d.Name {
				r = append(r, d)
				break
			}
		}
	}
	return r
}

// LookupResult is the model's answer to an entity lookup.
type LookupResult struct {
	Partials   []*Version // per-dataset latest non-deleted versions
	HasDeleted bool       // some in-scope dataset's latest version is a tombstone
	Known      bool       // some in-scope dataset has any version at all
}

func (h *Hub) Lookup(id string, scope []string, asOf int) LookupResult {
	var r LookupResult
	for _, d := range h.inScope(scope) {
		v := d.latestIn(id, asOf)
		if v == nil {
			continue
		}
		r.Known = true
		if v.Deleted {
			r.HasDeleted = true
		} else {
			r.Partials = append(r.Partials, v)
		}
	}
	return r
}

// Flatten one level: list members are added individually.
func flat(v any) []any {
	if l, ok := v.([]any); ok {
		return l
	}
	return []any{v}
}

// MergedBag returns, per key, the multiset (as canonical JSON strings, sorted)
// of the values of all partials.
func MergedBag(parts []map[string]any) map[string][]string {
	r := map[string][]string{}
	for _, p := range parts {
		for k, v := range p {
			for _, x := range flat(v) {
				b, _ := json.Marshal(x)
				r[k] = append(r[k], string(b))
			}
		}
	}
	for k := range r {
		sort.Strings(r[k])
	}
	return r
}

// Pair is one relationship result.
type Pair struct {
	Pred  string
	Other string
}

func (p Pair) String() string { return p.Pred + " " + p.Other }

func RefTargets(v any) []string {
	switch t := v.(type) {
	case string:
		return []string{t}
	case []any:
		var r []string
		for _, x := range t {
			if s, ok := x.(string); ok {
				r = append(r, s)
			}
		}
		return r
	case []string:
		return t
	}
	return nil
}

// Related returns the set of pairs per the statement of C03.
func (h *Hub) Related(start, pred string, inverse bool, scope []string, asOf int) map[Pair]bool {
	res := map[Pair]bool{}
	for _, d := range h.inScope(scope) {
		for _, v := range d.Latest(asOf) {
			if v.Deleted {
				continue
			}
			for p, tv := range v.Refs {
				if pred != "*" && pred != p {
					continue
				}
				for _, t := range RefTargets(tv) {
					if !inverse && v.ID == start {
						res[Pair{p, t}] = true
					}
					if inverse && t == start {
						res[Pair{p, v.ID}] = true
					}
				}
			}
		}
	}
	return res
}

func PairList(m map[Pair]bool) []string {
	r := make([]string, 0, len(m))
	for p := range m {
		r = append(r, p.String())
	}
	sort.Strings(r)
	return r
}

// Compact applies deduplicating compaction to d in the model: removes every
// version identical to its immediate predecessor of the same entity.
// (Used as the *maximal* legal removal; C12 demands removed ⊆ this.)
func (d *Dataset) DuplicateSeqs() map[int]bool {
	prev := map[string]*Version{}
	dup := map[int]bool{}
	for _, v := range d.Versions {
		if p := prev[v.ID]; p != nil && SameContent(&p.Ent, &v.Ent) {
			dup[v.Seq] = true
		}
		prev[v.ID] = v
	}
	return dup
}

func (v *Version) String() string {
	b, _ := json.Marshal(v.Ent)
	return fmt.Sprintf("%s@c%d", b, v.Commit)
}

// CanonString gives a canonical JSON string of an Ent (sorted keys by encoding/json).
func CanonString(e *Ent) string {
	b, _ := json.Marshal(e)
	return string(b)
}
