// Package hub assembles parts of the datahub the way app.go does.
package hub

import (
	"fmt"
	"os"
	"runtime/debug"
	"strings"
	"sync"

	"go.uber.org/zap/zapcore"
	"time"

	"github.com/DataDog/datadog-go/v5/statsd"
	"go.uber.org/zap"

	"github.com/mimiro-io/datahub/internal/conf"
	"github.com/mimiro-io/datahub/internal/server"
)

type Core struct {
	Env   *conf.Config
	Store *server.Store
	Dsm   *server.DsManager
	Bus   server.EventBus
}

func Env(dir string) *conf.Config {
	logger := zap.NewNop().Sugar()
	if os.Getenv("VERIF_LOG") != "" {
		if l, err := zap.NewDevelopment(); err == nil {
			logger = l.Sugar()
		}
	}
	return &conf.Config{
		Logger:               logger,
		StoreLocation:        dir,
		FullsyncLeaseTimeout: 0,
		RunnerConfig:         &conf.RunnerConfig{PoolIncremental: 10, PoolFull: 5, Concurrent: 1},
	}
}

// OpenCore opens (or re-opens) a store and dataset manager in dir.
func OpenCore(dir string) *Core {
	return OpenCoreEnv(Env(dir))
}

func OpenCoreEnv(env *conf.Config) *Core {
	_ = os.MkdirAll(env.StoreLocation, 0o755)
	st := server.NewStore(env, &statsd.NoOpClient{})
	eb := server.NoOpBus()
	dsm := server.NewDsManager(env, st, eb)
	return &Core{Env: env, Store: st, Dsm: dsm, Bus: eb}
}

func (c *Core) Close() error { return c.Store.Close() }

// TryOpenCore is OpenCore that turns a panic during assembly into an error
// (with the stack) and does not leak an open database.
func TryOpenCore(dir string) (core *Core, err error) {
	env := Env(dir)
	// record what the hub logs at error level while opening: Store.Open swallows badger's error
	var logged []string
	var lmu sync.Mutex
	rec := zap.New(zapcore.NewCore(zapcore.NewConsoleEncoder(zap.NewDevelopmentEncoderConfig()), zapcore.AddSync(writerFunc(func(b []byte) {
		if os.Getenv("VERIF_LOG") != "" {
			os.Stderr.Write(b)
		}
		lmu.Lock()
		if len(logged) < 20 {
			logged = append(logged, strings.TrimSpace(string(b)))
		}
		lmu.Unlock()
	})), zapcore.InfoLevel), zap.WithFatalHook(zapcore.WriteThenPanic))
	env.Logger = rec.Sugar()
	defer func() {
		if err != nil {
			lmu.Lock()
			err = fmt.Errorf("%v\nhub error log: %v", err, logged)
			lmu.Unlock()
		}
	}()
	var st *server.Store
	defer func() {
		if p := recover(); p != nil {
			err = fmt.Errorf("panic: %v\n%s", p, debug.Stack())
			core = nil
			if st != nil {
				func() {
					defer func() { _ = recover() }()
					_ = st.Close()
				}()
			}
		}
	}()
	_ = os.MkdirAll(env.StoreLocation, 0o755)
	st = server.NewStore(env, &statsd.NoOpClient{})
	eb := server.NoOpBus()
	dsm := server.NewDsManager(env, st, eb)
	return &Core{Env: env, Store: st, Dsm: dsm, Bus: eb}, nil
}

var _ = time.Second

type writerFunc func(b []byte)

func (w writerFunc) Write(b []byte) (int, error) { w(b); return len(b), nil }
