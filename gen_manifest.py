#!/usr/bin/env python3
"""Generates MANIFEST.json from the table below (kept in one place so that it stays valid)."""
import json, subprocess
claimed = {
 "C01": ("exploration", "model-differential runtime monitor over seeded write histories (listing, paging, scoped/unscoped lookups after every op)", "3.C01"),
 "C02": ("exploration", "model-differential runtime monitor of the change feed with token-following readers and limit sequences", "3.C02"),
 "C03": ("exploration", "model-differential runtime monitor of relation queries (pair sets, paging, transpose) after every op", "3.C03"),
 "C06": ("exploration", "hub-against-own-past replay monitor: stored current-state answers re-asked as of recorded commit times", "3.C06"),
 "C04": ("fault_enumeration", "crash injection at every hook-point hit (SIGKILL via verifhook) + timed kills; reopen; all-or-nothing vs op log, raw cross-index invariant scan, post-restart monotonicity", "3.C04"),
 "C07": ("exploration", "model-differential monitor with dataset incarnations + hub-vs-hub snapshots of unrelated datasets + raw key scan after GC + crash injection inside create/rename/delete", "3.C07"),
 "C12": ("exploration", "before/after snapshot monitor around compaction (hub-vs-hub), feed subsequence rule, writer placed between snapshot and flush by a hook, crash injection between flushes", "3.C12"),
 "C14": ("exploration", "snapshot-equality monitor across stop/start after every operation of generated data / dataset / job / security histories", "3.C14"),
 "C19": ("exploration", "invariant monitor at quiescent points: catalogue vs core.Dataset meta-entities vs model and feed distinct-id counts", "3.C19"),
 "C05": ("exploration", "recorded concurrent history + offline checkers: lock-order / wait-for graph from lock hooks, feed-block order checker, porcupine linearizability per (dataset, entity), atomic-visibility checks, Go race detector (crash-capable blocks)", "3.C05"),
 "C08": ("fault_enumeration", "conservation monitor sink-vs-source over job runs with enumerated sink failures, kills at batch boundaries and SIGKILL at pipeline hook points; token <= delivered; idle-run no-op", "3.C08"),
 "C09": ("exploration", "sequence monitor over recorded request/response codes + feed inspection (exact deletion set, exactly-one tombstone), hook-stretched lease windows, Go race detector", "3.C09"),
 "C10": ("exploration", "exactly-once / order checker at the sink over an exhaustively enumerated (n, batch, parallelism) box of real job runs", "3.C10"),
 "C11": ("exploration", "run-lifecycle monitor (ticket borrow/return, outcome, stored result) over the cross product of job building blocks in sub-processes + interval non-overlap / pool-bound checkers over concurrent triggers + Go race detector", "3.C11"),
 "C13": ("exploration", "recorded concurrent assert/lookup history checked with porcupine ('unset or set once forever'), global injectivity monitor incl. restart, CURIE round-trip monitor, panic/fatal monitor, Go race detector", "3.C13"),
 "C15": ("exploration", "panic monitor + round-trip / store-state oracle over grammar-mutated and noisy payloads at the parser and the real HTTP handlers", "3.C15"),
 "C16": ("exploration", "reference decision function (served => granted and not denied) evaluated against the real router for all routes x token variants x an exhaustively enumerated ACL lattice; restart persistence", "3.C16"),
 "C17": ("fault_enumeration", "accept/reject log vs handler log checker (exactly-once, early stop, outcome) over exhaustively enumerated failing subsets; retry-count monitor for reRun", "3.C17"),
 "C18": ("exploration", "completeness monitor: model-computed required set must be contained in the entities the recording sink received, runs repeated to the token fixpoint, sink failures at every request index", "3.C18"),
 "C20": ("exploration", "restore-vs-source snapshot monitor after every backup run (badger Load into an empty store), foreign-location directory hash", "3.C20"),
}
texts = {
 "C01": "Held on every generated history explored: after each operation of each history the hub's listing (one call and paged), scoped and unscoped lookups equalled the reference model. Exploration is the right level: the property quantifies over all histories and contents, which only sampling with a strong oracle can approach at run time.",
 "C02": "Held on every generated history explored: full feed, latest-only feed, token-following reads with several limit sequences, since-values beyond the end and persistent readers equalled the model feed after each operation.",
 "C03": "Held on every generated history explored: each (start, predicate|*, direction, scope) query, single-call and paged, equalled the model's pair set and the transpose relation held hub-against-hub.",
 "C04": "Held on every (history, crash point) pair explored: after SIGKILL at an instrumented boundary (each hit count) or at a PRNG-chosen instant the store reopened, its state equalled the acknowledged ops with or without the whole in-flight op (same choice in every dataset), the six index families were mutually consistent and post-restart writes got fresh positions and ids. Fault enumeration is the right level: the quantifier is over crash points, which are enumerated per history.",
 "C07": "Held on every generated management history explored (and every crash point inside create/rename/delete that was enumerated): deleted data invisible scoped, unscoped, through a long-lived contextual store, after GC and restart; other datasets' answers unchanged; no key of a deleted incarnation left after GC.",
 "C12": "Held on every generated history explored: every read answer (current and as-of) equal before and after each compaction, latest-only feed equal as a multiset, full feed = previous minus versions identical to their predecessor; also with a writer committing between snapshot and flush and with kills at every flush boundary.",
 "C14": "Held on every generated history explored: the complete snapshot (reads, tokens, namespaces, job definitions/states/history, clients, ACLs, providers) was identical across a stop/start after every operation, and writes after the restart matched the model.",
 "C19": "Held at every quiescent point of every generated history explored: one live meta-entity per dataset with its name, none for deleted / renamed-away names, items counter = distinct ids ever stored.",
 "C05": "Held on every concurrent history produced: all clients completed (no wait-for cycle, no lock-order cycle between goroutines without a common gate), every acknowledged write is one contiguous complete block in its dataset's feed in an order consistent with program and real-time order, per-entity histories linearizable (porcupine), no single-call read mixed two batches or transactions, no crash-capable race block and no process death.",
 "C08": "Held on every (schedule, fault) pair enumerated: equality of sink and source latest views after each successful run, persisted token never ahead of the sink after a sink failure / kill / crash at a hook point, equality restored by the next successful run, idle run a no-op.",
 "C09": "Held on every generated request history: every end answered 200 tombstoned exactly the unwritten previously-live entities once, everything written stayed live; every rejected, foreign-id, superseded, abandoned or expired sync deleted nothing then or later; no crash-capable race.",
 "C10": "Held on every (n, batch, parallelism) triple of the exhaustively enumerated box (and the sampled larger ones): each source entity reached the transform exactly once, sink feed = f(seen) in source order, identity = plain copy, re-run adds nothing, no panic.",
 "C11": "Held on every job definition of the enumerated cover / product and on every concurrent trigger history: each run ended with an outcome, a stored result and a returned slot, the process survived, no two runs of one id overlapped and pools were never exceeded; no crash-capable race.",
 "C13": "Held on every concurrent history produced: assert/lookup histories explained by 'unset or set once forever', every (expansion,prefix) and (URI,id) pair injective and stable incl. across a restart, every generated URI round-trips, no panic / fatal / crash-capable race.",
 "C15": "Held on every generated input: no panic or generic 500, no malformed element accepted or stored, valid payloads stored exactly, served collections parse back to the same entities.",
 "C16": "Held on every request of the enumerated space: defective tokens rejected on all protected routes; no request served without a granting entry or against a matching deny entry (except the listed finding GET /); clients and ACLs unchanged by a restart.",
 "C17": "Held on every enumerated (failing subset, maxItems, batching) and reRun case: every other entity delivered once, each rejected entity reported once, early stop at maxItems, outcome carries the error, re-executions within maxRetries and never after success or kill.",
 "C18": "Held on every generated join / history: every main entity the model requires was emitted by the time the tokens stopped moving, emitted entities are main versions, dependency tokens never beyond the feed end nor past undelivered changes after a sink failure.",
 "C20": "Held on every generated history: after every completed backup run the restored hub answered every read like the source hub at the start of the run, also with restarts between runs; a foreign location was left untouched.",
 "C06": "Held on every generated history explored: answers recorded at each commit were reproduced by as-of queries at instants inside [T_k, T_k+1) after later writes; paged queries continued across writes added up to the set as of their first page.",
}
notes = {
 "C01": "Trusted: the reference model (harness/model), the canonicaliser (harness/obs), Go-API level (parser + StoreEntities / ExecuteTransaction). Only histories the seeded generator produces are covered.",
 "C02": "Trusted: reference model and canonicaliser. Readers are stepped between writes, not concurrently with them (concurrency is C05).",
 "C03": "Trusted: reference model written from the statement; ids and predicates from a small pool; bodies of related entities are not compared here (C06 does).",
 "C04": "Process kill, not power loss (the hub runs badger with SyncWrites=false). Trusted: reference model, raw-key layout knowledge in the scanner, hook placement (MANIFEST.hooks). Instants between hook points only via timed kills.",
 "C07": "Trusted: reference model with incarnations; hub-vs-hub snapshots use incoming queries only outside the open C03 findings. Concurrency of management ops with writers is C05's.",
 "C12": "Trusted: legacy duplicates are injected by raw keys laid out like StoreEntities does; racing writers are placed at the compact.beforeFlush hook (one placement per compaction), not at arbitrary instants.",
 "C14": "In-process restarts (scheduler stopped, store closed, all services re-assembled); the web layer and metrics are not part of the snapshot.",
 "C19": "Sequential histories (every op boundary is quiescent); concurrent counter updates are exercised by the C05 workload.",
 "C05": "Interleavings are those the Go scheduler produced under GOMAXPROCS 2/4/16 with PRNG sleeps at hook points; the evidence reports overlapping write pairs and lock-order edges seen. A stall without a wait-for cycle is inconclusive. The copy-on-write publication of the deleted-set in DeleteDataset is exempted from the crash-capable race rule (documented in DESIGN.md).",
 "C08": "Runs are issued synchronously through the scheduler-built job objects (cron / raffle dispatch is C11's); crash instants are the four pipeline hook points; weak reading of token-vs-sink.",
 "C09": "Verdicts use status codes and feed contents only; job ops start at the real datasetSink; lease 100-200 ms with hook-stretched windows.",
 "C10": "The transform's view is observed through Log()/UUID() of the transform API; HttpTransform and non-dataset sources not covered.",
 "C11": "Run identity by goroutine-per-run and title == id; a hang is a violation only when outcome and result exist but the slot is held, otherwise inconclusive.",
 "C13": "Implicit assertions (through the parser) are modelled as 'set to an unobserved prefix'; crash points in the id path are C04's.",
 "C15": "Inputs the UDA grammar leaves unspecified (null values, >2^53 integers, unknown keys) are only required not to panic.",
 "C16": "One-directional oracle (over-rejection is not alarmed); 'served' is decided from the status; OPA endpoint empty (ACL path decides) plus a stub scenario.",
 "C17": "Rejections are HTTP 400 at a scripted loopback sink; the retry delay is checked one-sided on recorded stamps.",
 "C18": "Smallest required-set reading; only under-emission is a violation; faults are sink failures only.",
 "C20": "Sequential histories; native mode always, rsync mode when rsync is on PATH.",
 "C06": "Trusted: commit times are read back from the `recorded` field; an op that commits nothing creates no instant; maintenance ops are excluded per the statement.",
}
props=[json.loads(l) for l in open('/verif/properties.jsonl')]
checks=[]
na=[]
for p in props:
    i=p['id']
    if i in claimed:
        lvl,tech,ref=claimed[i]
        checks.append({
          "property_id": i,
          "quick_cmd": f"bin/vcheck {i} quick",
          "thorough_cmd": f"bin/vcheck {i} thorough",
          "evidence_file": f"/verif/evidence/{i}.json",
          "replay_cmd_template": f"bin/vcheck {i} replay {{path}}",
          "engine": "vdriver",
          "level_claimed": {"category": lvl, "text": texts[i], "design_ref": "DESIGN.md §"+ref},
          "level_note": notes[i],
          "technique": tech,
        })
    else:
        na.append({"property_id": i, "reason": "runtime monitor for this property is designed (DESIGN.md §3) but not built yet in this tree; not claimed until its check exists"})
hooks_commits = subprocess.run(["git","-C","/repo","log","--format=%h %s","--grep=^verif:"],capture_output=True,text=True).stdout.strip().split("\n")
m={
 "version": 1,
 "setup_cmd": "cd /verif/driver && GOFLAGS=-mod=mod GOPROXY=off GOSUMDB=off GOTOOLCHAIN=local go build -o /verif/bin/vdriver .",
 "hooks": {
   "guard": "verif",
   "enable": "go build -tags verif -overlay <generated> (overlay maps /verif/harness into /repo/internal/verif and accessor files into existing packages; it also replaces badger's txn.go by a generated copy in which a successful Txn.Commit calls a hook variable that only the crash writer sets; /repo and the module cache are never copied or modified)",
   "baseline_off_cmd": "cd /repo && GOFLAGS=-mod=mod GOPROXY=off GOSUMDB=off GOTOOLCHAIN=local go test -json -vet=off -count=1 -timeout 25m ./...",
   "source_commits": [c.split()[0] for c in hooks_commits if c],
   "add_only": True,
 },
 "engines": [{"name":"vdriver","path":"/verif/driver","serves_properties":[c["property_id"] for c in checks],"kind_free_text":"Go orchestrator: builds the harness child from /repo's working tree (build tag verif + overlay), runs scenario children in parallel, offline checkers (porcupine, race-report classifier), known-finding classification, evidence"}],
 "checks": checks,
 "not_applicable": na,
 "notes": "All checks honour VERIF_SEED, VERIF_REPO (default /repo), VERIF_SCRATCH (default /var/tmp/verif), VERIF_JOBS (default 16).",
}
json.dump(m, open('/verif/MANIFEST.json','w'), indent=1)
print("checks:",len(checks),"not_applicable:",len(na))
