#!/usr/bin/env python3
"""Generates MANIFEST.json from the table below (kept in one place so that it stays valid)."""
import json, subprocess
claimed = {
 "C01": ("exploration", "model-differential runtime monitor over seeded write histories (listing, paging, scoped/unscoped lookups after every op)", "3.C01"),
 "C02": ("exploration", "model-differential runtime monitor of the change feed with token-following readers and limit sequences", "3.C02"),
 "C03": ("exploration", "model-differential runtime monitor of relation queries (pair sets, paging, transpose) after every op", "3.C03"),
 "C06": ("exploration", "hub-against-own-past replay monitor: stored current-state answers re-asked as of recorded commit times", "3.C06"),
}
texts = {
 "C01": "Held on every generated history explored: after each operation of each history the hub's listing (one call and paged), scoped and unscoped lookups equalled the reference model. Exploration is the right level: the property quantifies over all histories and contents, which only sampling with a strong oracle can approach at run time.",
 "C02": "Held on every generated history explored: full feed, latest-only feed, token-following reads with several limit sequences, since-values beyond the end and persistent readers equalled the model feed after each operation.",
 "C03": "Held on every generated history explored: each (start, predicate|*, direction, scope) query, single-call and paged, equalled the model's pair set and the transpose relation held hub-against-hub.",
 "C06": "Held on every generated history explored: answers recorded at each commit were reproduced by as-of queries at instants inside [T_k, T_k+1) after later writes; paged queries continued across writes added up to the set as of their first page.",
}
notes = {
 "C01": "Trusted: the reference model (harness/model), the canonicaliser (harness/obs), Go-API level (parser + StoreEntities / ExecuteTransaction). Only histories the seeded generator produces are covered.",
 "C02": "Trusted: reference model and canonicaliser. Readers are stepped between writes, not concurrently with them (concurrency is C05).",
 "C03": "Trusted: reference model written from the statement; ids and predicates from a small pool; bodies of related entities are not compared here (C06 does).",
 "C06": "Trusted: commit times are read back from the `recorded` field; an op that commits nothing creates no instant; maintenance ops are excluded per the statement.",
}
props=[json.loads(l) for l in open('/verif/properties.jsonl')]
checks=[]
na=[]
for p in props:
    i=p['id']
    if i in claimed:
        lvl,tech,ref=claimed[i]
        checks.append({
          "property_id": i,
          "quick_cmd": f"bin/vcheck {i} quick",
          "thorough_cmd": f"bin/vcheck {i} thorough",
          "evidence_file": f"/verif/evidence/{i}.json",
          "replay_cmd_template": f"bin/vcheck {i} replay {{path}}",
          "engine": "vdriver",
          "level_claimed": {"category": lvl, "text": texts[i], "design_ref": "DESIGN.md §"+ref},
          "level_note": notes[i],
          "technique": tech,
        })
    else:
        na.append({"property_id": i, "reason": "runtime monitor for this property is designed (DESIGN.md §3) but not built yet in this tree; not claimed until its check exists"})
hooks_commits = subprocess.run(["git","-C","/repo","log","--format=%h %s","--grep=^verif:"],capture_output=True,text=True).stdout.strip().split("\n")
m={
 "version": 1,
 "setup_cmd": "cd /verif/driver && GOFLAGS=-mod=mod GOPROXY=off GOSUMDB=off GOTOOLCHAIN=local go build -o /verif/bin/vdriver .",
 "hooks": {
   "guard": "verif",
   "enable": "go build -tags verif -overlay <generated> (overlay maps /verif/harness into /repo/internal/verif and accessor files into existing packages; /repo is never copied or modified)",
   "baseline_off_cmd": "cd /repo && GOFLAGS=-mod=mod GOPROXY=off GOSUMDB=off GOTOOLCHAIN=local go test -vet=off -count=1 -timeout 25m ./...",
   "source_commits": [c.split()[0] for c in hooks_commits if c],
   "add_only": True,
 },
 "engines": [{"name":"vdriver","path":"/verif/driver","serves_properties":[c["property_id"] for c in checks],"kind_free_text":"Go orchestrator: builds the harness child from /repo's working tree (build tag verif + overlay), runs scenario children in parallel, offline checkers (porcupine, race-report classifier), known-finding classification, evidence"}],
 "checks": checks,
 "not_applicable": na,
 "notes": "All checks honour VERIF_SEED, VERIF_REPO (default /repo), VERIF_SCRATCH (default /var/tmp/verif), VERIF_JOBS (default 16).",
}
json.dump(m, open('/verif/MANIFEST.json','w'), indent=1)
print("checks:",len(checks),"not_applicable:",len(na))
