package main

import (
	"fmt"
	"strings"
	"time"
)

func init() {
	plans["C16"] = Plan{Prop: "C16", Level: "exploration", Exhaustive: true,
		Rule: "full application (NewDatahubInstance, node security 'local', all middlewares) driven in-process through echo.ServeHTTP. " +
			"(1) every e.Routes() entry x 8 listed token defects (absent, garbage, expired, wrong key, wrong issuer, wrong audience, HS256-with-public-key, none) + 2 unlisted (no audience, no issuer), plus one variant per signing algorithm the JWT library knows other than RS256 (RS384/512, PS256/384/512 correctly signed with the node's own RSA key, HS256/384/512 keyed with the node's public key PEM, ES256/384/512 and EdDSA with fresh keys, none), all claiming the admin role with right issuer / audience / expiry: must be 401/403 on every non-open route. " +
			"(2) every ordered ACL list without repetition of size <=2 (quick) / <=3 (thorough) over {/datasets/a, /datasets/a*, /datasets/*, /datasets/a/entities, /jobs*, /*} x {read,write} x {allow,deny}, installed through the admin API for a registered client whose token is obtained by the real assertion exchange, plus, outside the exhaustive box, the star-shaped resources {/datasets/*/changes, /datasets/a*/entities, /*/clients, /datasets/a*b*, */entities} x {read,write} x {allow,deny}: each alone and paired both ways with two companions (quick) / with the whole lattice and each other (thorough); a '*' that is not the last character is an ordinary character for the reference; x every route (dataset routes also for the neighbours ab and b): status not in {401,403} => reference decision (written from the statement) grants and does not deny; GET /datasets may list only granted names. " +
			"(3) every sequence of <=3 (quick) / <=4 (thorough) security-admin operations (register, unregister, set ACL incl. for a never-registered client, delete ACL): clients and ACLs identical after re-initialising the security core from disk; plus one re-boot of the whole application per child. " +
			"(4) OPA branch against a loopback stub. (6) c16reuse: the same token string presented again: short-lived (2 s) correctly signed tokens of every source (node key / external issuer from a loopback well-known key set, admin role / client subject) used on 5-7 routes while valid and again 1.5 s after exp: the second use must be 401; one access token string across ACL narrowed / deny added / ACL deleted / client unregistered: every request judged against the ACL in force. (7) c16storm (GOMAXPROCS 16 and 2, and under -race): 8-16 goroutines x 1500 requests with one client token against 4 allow+deny lists, every answer judged by the reference; an administrator goroutine reads the ACL back and persists the table meanwhile; afterwards API and acls.json must hold the installed entries; race blocks with both sides inside the token / ACL decision are violations. (5) path-spelling dimension, applied to every request of (1), (2) and (4): percent-encoded first / last / all characters of every path parameter (lower- and upper-case hex), of the first and last static segment, encoded slash before / after a parameter and at the end, double slash (leading, before / after a parameter), trailing slash, dot and dot-dot segments (plain and encoded); the real router is asked which route it picks, spellings it does not route (its own 404 / 405) are counted and not judged; the reference decision is taken on the percent-DECODED request path, and a served entities / changes body is attributed to the dataset whose content it holds. One case = one ACL list / token variant / op sequence; non-trivial = some ACL entry's pattern matches a requested path (ACL cases), >=2 kinds of operations (restart cases)",
		Assumptions: []string{
			"one-directional oracle: served (status not in {401,403}) => granted and not denied; over-rejection is counted, not alarmed",
			"needed action: write for every method other than GET/HEAD/OPTIONS (also for the read-like POST /query, which the hub also demands)",
			"a write grant is taken to include read; a deny entry blocks only its own action (weakest readings)",
			"the path an ACL entry speaks about is the percent-decoded request path; double / trailing slashes and dot segments are NOT normalised away (the statement does not say so): such a spelling is judged on its literal decoded path",
			"every algorithm other than RS256 (the one the hub signs with) is 'the wrong algorithm'",
			"open routes are those the documentation and the JWT skipper name: /health, /security/token (+ static/api paths, which have no registered route)",
			"OPA_ENDPOINT is empty in (1)-(3), so the OPA call fails at once and the ACL decides; with OPA allowing, the documented union semantics is not alarmed on",
			"token expiry is relative to the wall clock by nature of JWT; verdicts are functions of the recorded status codes only",
		},
		Stages: func(tier string) []Stage {
			aclMax, aclShards, seqLen, seqShards := 2, 8, 3, 1
			if tier == "thorough" {
				aclMax, aclShards, seqLen, seqShards = 3, 16, 4, 4
			}
			stormN, stormC, stormRounds := 1500, 2, 1
			if tier == "thorough" {
				stormN, stormC, stormRounds = 4000, 4, 4
			}
			st := []Stage{
				{Name: "acl", Scenario: "c16acl", Args: fmt.Sprintf("max=%d,shards=%d,base=0", aclMax, aclShards), Children: aclShards, Cases: 1, Timeout: 25 * time.Minute},
				{Name: "restart", Scenario: "c16restart", Args: fmt.Sprintf("len=%d,shards=%d,base=%d", seqLen, seqShards, aclShards), Children: seqShards, Cases: 1, Timeout: 10 * time.Minute},
				{Name: "tokens", Scenario: "c16tokens", Children: 1, Cases: 1, Timeout: 10 * time.Minute},
				{Name: "opa", Scenario: "c16opa", Children: 1, Cases: 1, Timeout: 10 * time.Minute},
				{Name: "reuse", Scenario: "c16reuse", Children: 1, Cases: 1, Timeout: 10 * time.Minute},
				{Name: "storm16", Scenario: "c16storm", Args: fmt.Sprintf("g=16,n=%d", stormN), Children: stormC, Cases: stormRounds, GOMAXPROCS: 16, Timeout: 15 * time.Minute},
				{Name: "storm2", Scenario: "c16storm", Args: fmt.Sprintf("g=8,n=%d", stormN), Children: stormC, Cases: stormRounds, GOMAXPROCS: 2, Timeout: 15 * time.Minute},
				{Name: "stormrace", Scenario: "c16storm", Args: fmt.Sprintf("g=8,n=%d", stormN/5), Children: 1, Cases: 1, Race: true, GOMAXPROCS: 8, Timeout: 15 * time.Minute},
			}
			return st
		},
		Post: func(res *Result) {
			c16RaceViolations(res)
			sortViolsBySize(res)
		},
	}
}

// c16RaceViolations: a data race reported by the race detector in which BOTH sides run inside the
// token / ACL decision (internal/security or the authentication / authorization middlewares) is a
// violation: the decision of one request then depends on what another request is doing at the same
// moment. Races elsewhere (or between a decision and an administrator's write) are counted, not judged.
func c16RaceViolations(res *Result) {
	d := dedupeRace(res.RaceBlocks)
	res.Stats["race_blocks_total"] = int64(len(res.RaceBlocks))
	res.Stats["race_blocks_distinct"] = int64(len(d))
	n := 0
	for _, k := range sortedKeys(d) {
		b := d[k]
		parts := strings.SplitN(b, "Previous ", 2)
		if len(parts) != 2 {
			continue
		}
		inDecision := func(stack string) bool {
			if i := strings.Index(stack, "Goroutine "); i > 0 {
				stack = stack[:i] // only the two access stacks, not where the goroutines were created
			}
			return strings.Contains(stack, "internal/security.(*ServiceCore).Check") ||
				strings.Contains(stack, "middlewares.doAclCheck") || strings.Contains(stack, "middlewares.(*JwtConfig).ValidateToken") ||
				strings.Contains(stack, "middlewares.JWTHandler")
		}
		if inDecision(parts[0]) && inDecision(parts[1]) {
			n++
			site := c16RaceSite(parts[0]) + "<->" + c16RaceSite(parts[1])
			res.Viols = append(res.Viols, Viol{Prop: "C16", Class: "race-inside-access-decision:" + site,
				Msg: "data race between two requests' token / ACL decisions (one request's answer depends on what another one is doing): " + site, Raw: map[string]any{"block": b}})
		}
	}
	res.Stats["race_blocks_inside_access_decision"] = int64(n)
}

// c16RaceSite: the innermost datahub function of an access stack.
func c16RaceSite(stack string) string {
	for _, l := range strings.Split(stack, "\n") {
		l = strings.TrimSpace(l)
		if strings.HasPrefix(l, "github.com/mimiro-io/datahub/internal/") && !strings.Contains(l, "/internal/verif/") {
			if i := strings.LastIndex(l, "("); i > 0 {
				l = l[:i]
			}
			return strings.TrimPrefix(l, "github.com/mimiro-io/datahub/internal/")
		}
	}
	return "?"
}
