package main

import (
	"fmt"
	"time"
)

func init() {
	plans["C16"] = Plan{Prop: "C16", Level: "exploration", Exhaustive: true,
		Rule: "full application (NewDatahubInstance, node security 'local', all middlewares) driven in-process through echo.ServeHTTP. " +
			"(1) every e.Routes() entry x 8 listed token defects (absent, garbage, expired, wrong key, wrong issuer, wrong audience, HS256-with-public-key, none) + 2 unlisted (no audience, no issuer), plus one variant per signing algorithm the JWT library knows other than RS256 (RS384/512, PS256/384/512 correctly signed with the node's own RSA key, HS256/384/512 keyed with the node's public key PEM, ES256/384/512 and EdDSA with fresh keys, none), all claiming the admin role with right issuer / audience / expiry: must be 401/403 on every non-open route. " +
			"(2) every ordered ACL list without repetition of size <=2 (quick) / <=3 (thorough) over {/datasets/a, /datasets/a*, /datasets/*, /datasets/a/entities, /jobs*, /*} x {read,write} x {allow,deny}, installed through the admin API for a registered client whose token is obtained by the real assertion exchange, x every route (dataset routes also for the neighbours ab and b): status not in {401,403} => reference decision (written from the statement) grants and does not deny; GET /datasets may list only granted names. " +
			"(3) every sequence of <=3 (quick) / <=4 (thorough) security-admin operations (register, unregister, set ACL incl. for a never-registered client, delete ACL): clients and ACLs identical after re-initialising the security core from disk; plus one re-boot of the whole application per child. " +
			"(4) OPA branch against a loopback stub. (5) path-spelling dimension, applied to every request of (1), (2) and (4): percent-encoded first / last / all characters of every path parameter (lower- and upper-case hex), of the first and last static segment, encoded slash before / after a parameter and at the end, double slash (leading, before / after a parameter), trailing slash, dot and dot-dot segments (plain and encoded); the real router is asked which route it picks, spellings it does not route (its own 404 / 405) are counted and not judged; the reference decision is taken on the percent-DECODED request path, and a served entities / changes body is attributed to the dataset whose content it holds. One case = one ACL list / token variant / op sequence; non-trivial = some ACL entry's pattern matches a requested path (ACL cases), >=2 kinds of operations (restart cases)",
		Assumptions: []string{
			"one-directional oracle: served (status not in {401,403}) => granted and not denied; over-rejection is counted, not alarmed",
			"needed action: write for every method other than GET/HEAD/OPTIONS (also for the read-like POST /query, which the hub also demands)",
			"a write grant is taken to include read; a deny entry blocks only its own action (weakest readings)",
			"the path an ACL entry speaks about is the percent-decoded request path; double / trailing slashes and dot segments are NOT normalised away (the statement does not say so): such a spelling is judged on its literal decoded path",
			"every algorithm other than RS256 (the one the hub signs with) is 'the wrong algorithm'",
			"open routes are those the documentation and the JWT skipper name: /health, /security/token (+ static/api paths, which have no registered route)",
			"OPA_ENDPOINT is empty in (1)-(3), so the OPA call fails at once and the ACL decides; with OPA allowing, the documented union semantics is not alarmed on",
			"token expiry is relative to the wall clock by nature of JWT; verdicts are functions of the recorded status codes only",
		},
		Stages: func(tier string) []Stage {
			aclMax, aclShards, seqLen, seqShards := 2, 8, 3, 1
			if tier == "thorough" {
				aclMax, aclShards, seqLen, seqShards = 3, 16, 4, 4
			}
			st := []Stage{
				{Name: "acl", Scenario: "c16acl", Args: fmt.Sprintf("max=%d,shards=%d,base=0", aclMax, aclShards), Children: aclShards, Cases: 1, Timeout: 25 * time.Minute},
				{Name: "restart", Scenario: "c16restart", Args: fmt.Sprintf("len=%d,shards=%d,base=%d", seqLen, seqShards, aclShards), Children: seqShards, Cases: 1, Timeout: 10 * time.Minute},
				{Name: "tokens", Scenario: "c16tokens", Children: 1, Cases: 1, Timeout: 10 * time.Minute},
				{Name: "opa", Scenario: "c16opa", Children: 1, Cases: 1, Timeout: 10 * time.Minute},
			}
			return st
		},
		Post: sortViolsBySize,
	}
}
