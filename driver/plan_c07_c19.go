package main

import "time"

func mgStages(props string, qc, qn, tc, tn int) func(string) []Stage {
	return func(tier string) []Stage {
		ch, cs := qc, qn
		if tier == "thorough" {
			ch, cs = tc, tn
		}
		return []Stage{{Name: "mg", Scenario: "dsmgmt", Args: "props=" + props, Children: ch, Cases: cs, Timeout: 25 * time.Minute}}
	}
}

func init() {
	plans["C07"] = Plan{Prop: "C07", Level: "exploration",
		Rule: "seeded histories over {batch, txn, create, delete, rename, re-create, Cleandeleted(), restart} on names da..dd sharing 3-4 entity ids; after every op: catalogue, deleted names unreachable, every live dataset compared with the incarnation model (listing, feed, lookups, relations), scoped snapshot of every unrelated dataset identical before/after each management op (hub-vs-hub), raw key scan after GC, reads through a contextual store created before the deletions. Non-trivial = the history deletes or renames a dataset",
		Assumptions: append([]string{"crash points inside create/rename/delete: second stage (crashdrive family=mgmt): writer killed at (hook point, hit) pairs of dsm.create|rename|delete.* and ds.store.*, store reopened and compared with the model before / after the in-flight operation",
			"hub-vs-hub snapshots use incoming queries only with a concrete predicate and single-dataset scope (outside the open C03 findings)"}, assumeStore...),
		Stages: func(tier string) []Stage {
			st := mgStages("C07+C01+C02+C03", 16, 12, 16, 250)(tier)
			// concurrent stage: a dataset written (long batch), renamed and deleted by three clients at once, a new name
			// created by all writers at once: what was deleted stays unreachable under every name
			n, c := 3, 2
			if tier == "thorough" {
				n, c = 8, 10
			}
			st = append(st, Stage{Name: "conc", Scenario: "c05conc", Args: "prop=C07,props=C07", Children: n, Cases: c, GOMAXPROCS: 8, Env: []string{c05Hooks}, Timeout: 20 * time.Minute})
			if tier == "thorough" {
				return append(st, crashStage("crashmg", "mgmt", "C07", 16, 6, 0, 3))
			}
			return append(st, crashStage("crashmg", "mgmt", "C07", 8, 1, 12, 1))
		}}
	plans["C19"] = Plan{Prop: "C19", Level: "exploration",
		Rule:        "same management histories; at every op boundary (quiescent): each live dataset has exactly one live meta-entity in core.Dataset with its name, deleted / renamed-away names have none, and the items counter equals both the model's and the feed's distinct-id count. Non-trivial = an id was stored twice and a management op happened; second stage: the concurrent C05 workload (8 writers, transactions, scratch dataset create/delete) with the counters compared at the final quiescent point",
		Assumptions: assumeStore,
		Stages: func(tier string) []Stage {
			st := mgStages("C19", 16, 25, 16, 400)(tier)
			// concurrent variant: writers, transactions and dataset create/delete all funnel their counter
			// updates through core.Dataset; the counters are compared at the final quiescent point
			n, c := 3, 2
			if tier == "thorough" {
				n, c = 8, 10
			}
			return append(st, Stage{Name: "conc", Scenario: "c05conc", Args: "props=C19", Children: n, Cases: c, GOMAXPROCS: 8, Env: []string{c05Hooks}, Timeout: 20 * time.Minute})
		}}
}
