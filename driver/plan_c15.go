package main

import (
	"sort"
	"time"
)

func init() {
	plans["C15"] = Plan{Prop: "C15", Level: "exploration",
		Rule: "one case = one generated valid UDA document (entity array with context, or transaction; default '_' prefix or absolute http/https URIs; all JSON value shapes, nested entities, array refs, shuffled key order, deleted/recorded fields; key-omission dimension: in half of the documents an entity or nested entity without properties / references leaves the props / refs key out (bare tombstones, nested entities with props only / refs only / id only); identifier-shape dimension: in half of the documents ids, reference values, property and reference keys get local parts containing ':', '/', '#', '%', non-ASCII letters or sub-delimiters, written as prefix:local, as bare names under the default prefix, or absolutely)  -- the first case of every child is instead a large-but-flat document (300-450 entities with 4-6 list-valued properties each and list-valued references, >1000 arrays side by side, none deeper than two levels, as entity array or, at the Go boundary, transaction) -- plus N inputs derived from it by ONE grammar mutation each (wrong JSON type / null / missing for id, deleted, recorded, props, refs, ref values, namespaces, expansions, context, elements, dataset values; unknown and duplicate keys; unresolvable CURIEs; deep arrays; truncation; trailing garbage; empty body) or by byte noise. " +
			"Go boundary (c15parse): recover() around ParseStream/ParseTransaction; the valid document must parse to exactly the model entities and store/list/feed as the model says; the stored entities and changes, serialised the way the read handlers do (dataset context, json.Marshal per entity, continuation element), must be read back by the hub's own parser to the same entities, and a reader that uses nothing but JSON and the collection's own context (local part = everything after the first colon) must get them too; an input that is definitely not a valid payload must return an error, and the entities emitted before the error must be the well-formed elements preceding the malformed one. " +
			"HTTP boundary (c15http, full app through echo.ServeHTTP incl. recover middleware): POST valid -> GET entities/changes (limits 0,1,3,10 following continuation tokens), every response fed back to the hub's own parser and compared with the model and with the Go API, and read a second time with the response's own context only; the GET entities and GET changes bodies (continuation element taken off) are POSTed into a fresh dataset, which must accept them and then hold the same entities / history; mutated POSTs (fresh dataset each): no generic 500 (panic), definitely malformed => 4xx, dataset holds only well-formed preceding elements. c15deep: 10^4..5*10^6 deep nesting in a sub-process. c15nsconc (full app, GOMAXPROCS 16 and 4): 12-16 clients POST at the same instant, each into its own dataset, a valid payload whose ids / property keys / reference keys live in three namespaces the hub has never seen, three rounds; then the application is stopped and booted again on the same directories: the context serialised per dataset and globally must be the one serialised before the restart, and every dataset must pass the whole GET -> parse back (hub parser and response-context-only reader) -> POST into another dataset check, once right after the restart and once more after a further new namespace was introduced. " +
			"Non-trivial = at least one mutated input, or the valid document has a nested-entity / array shape",
		Assumptions: []string{
			"'valid' excludes null values, integers beyond 2^53, unknown or duplicate keys, unresolvable CURIEs, entities without id: for those (verdict 'unspec') only 'no panic / no generic 500' is demanded",
			"'definitely malformed' (an error is demanded) = not JSON, wrong top-level / context / element type, or a non-null wrongly typed value for id, deleted, recorded, props, refs, a ref value, namespaces, an expansion",
			"entities handed to the caller's emit function count as stored (the HTTP handler stores what is emitted, in batches of 10)",
			"a 5xx whose body is the recover middleware's generic one is taken as a handler panic; a 5xx HTTPError with the handler's own message counts as 'an error'",
			"JSON-LD output (Accept: application/ld+json), proxy and virtual datasets are not exercised",
			"an entity without properties / references may omit the key; a context without a 'namespaces' key stays in the 'unspec' set (only no-panic is demanded)",
			"prefix:local denotes expansion(prefix) + local with local = everything after the FIRST colon; a bare name denotes expansion('_') + name; nothing is percent-decoded or normalised",
		},
		Stages: func(tier string) []Stage {
			pc, pcases, nmut := 16, 25, 50 // 16*25*51 = 20 400 parser inputs
			hc, hcases, hmut := 6, 7, 8    // 6*7*9 = 378 posts
			if tier == "thorough" {
				pc, pcases, nmut = 16, 1000, 62 // ~1.0 M parser inputs
				hc, hcases, hmut = 16, 60, 10   // ~10.5 k posts
			}
			st := []Stage{
				{Name: "parse", Scenario: "c15parse", Args: "nmut=" + itoa(nmut), Children: pc, Cases: pcases, Timeout: 25 * time.Minute},
				{Name: "http", Scenario: "c15http", Args: "nmut=" + itoa(hmut), Children: hc, Cases: hcases, Timeout: 25 * time.Minute},
			}
			// concurrent first uses of new namespaces, restart, serialise-and-parse-back of every dataset
			nc, ncases := 4, 3
			if tier == "thorough" {
				nc, ncases = 8, 25
			}
			st = append(st,
				Stage{Name: "nsconc", Scenario: "c15nsconc", Args: "g=12,rounds=3", Children: nc, Cases: ncases, GOMAXPROCS: 16, Timeout: 20 * time.Minute},
				Stage{Name: "nsconc4", Scenario: "c15nsconc", Args: "g=16,rounds=3", Children: nc / 2, Cases: ncases, GOMAXPROCS: 4, Timeout: 20 * time.Minute})
			if tier == "thorough" {
				st = append(st, Stage{Name: "deep", Scenario: "c15deep", Children: 1, Cases: 1, Timeout: 10 * time.Minute})
			}
			return st
		},
		Post: sortViolsBySize,
	}
}

func itoa(n int) string {
	s := ""
	if n == 0 {
		return "0"
	}
	for n > 0 {
		s = string(rune('0'+n%10)) + s
		n /= 10
	}
	return s
}

// sortViolsBySize puts, per class, the smallest witness first (the driver
// prints and stores the first witness of every class).
func sortViolsBySize(res *Result) {
	size := func(v Viol) int {
		n := 0
		if s, ok := v.Raw["input_len"].(float64); ok {
			n = int(s)
		}
		if c, ok := res.Cases[v.Case]; ok {
			if o, ok := c["ops"].(map[string]any); ok {
				if a, ok := o["acl"].([]any); ok {
					n += len(a) * 1000
				}
				if a, ok := o["secops"].([]any); ok {
					n += len(a) * 1000
				}
			}
		}
		return n + len(v.Msg)
	}
	sort.SliceStable(res.Viols, func(i, j int) bool {
		if res.Viols[i].Class != res.Viols[j].Class {
			return res.Viols[i].Class < res.Viols[j].Class
		}
		return size(res.Viols[i]) < size(res.Viols[j])
	})
}
