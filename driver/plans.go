package main

import "time"

var assumeStore = []string{
	"internal ids, timestamps, sequence numbers and prefixes are opaque: only order, stability and injectivity are checked",
	"JSON numbers are doubles: generated values are exactly representable; null property values are outside the valid set",
	"a scoped lookup of a tombstoned entity must report deleted; its content is not compared",
	"merged (unscoped) lookups are compared per key as value multisets",
	"relation answers are compared as (predicate, related id) sets; page sizes may be exceeded",
	"the reference model (harness/model) is written from the property statements and trusted",
}

func sdStages(props string, quickChildren, quickCases, thChildren, thCases int) func(string) []Stage {
	return func(tier string) []Stage {
		ch, cs := quickChildren, quickCases
		if tier == "thorough" {
			ch, cs = thChildren, thCases
		}
		st := []Stage{{Name: "sd", Scenario: "storediff", Args: "props=" + props, Children: ch, Cases: cs, Timeout: 25 * time.Minute}}
		if props == "C01" || props == "C02" || props == "C03" {
			// the same oracle over HTTP through the real router of the assembled application
			hc, hn := 4, 4
			if tier == "thorough" {
				hc, hn = 16, 40
			}
			st = append(st, Stage{Name: "http", Scenario: "storehttp", Args: "props=" + props, Children: hc, Cases: hn, Timeout: 25 * time.Minute})
		}
		if props == "C01" || props == "C02" || props == "C06" || props == "C03" {
			// (C03: relation answers at the final quiescent point equal the graph of the last committed writes)
			// concurrent stage: the C05 workload (8 writers incl. transactions queued behind batches), judged at the
			// final quiescent point: every read path agrees on the last write, recorded times follow commit order;
			// for C06 also: as-of lookups reproduce reads that overlapped no write critical section;
			// for C02: token-following readers polling the feeds while the writers commit read exactly the feed
			n, c := 6, 3
			if tier == "thorough" {
				n, c = 8, 10
			}
			st = append(st, Stage{Name: "conc", Scenario: "c05conc", Args: "prop=" + props + ",props=" + props, Children: n, Cases: c, GOMAXPROCS: 8, Env: []string{c05Hooks}, Timeout: 20 * time.Minute})
		}
		if props == "C01" || props == "C02" {
			// the same oracles in histories with dataset management between the writes (create, delete, rename,
			// re-create under an old name, restart): a new dataset starts empty, a renamed one keeps its feed
			mc, mn := 6, 12
			if tier == "thorough" {
				mc, mn = 8, 100
			}
			st = append(st, Stage{Name: "mg", Scenario: "dsmgmt", Args: "props=" + props, Children: mc, Cases: mn, Timeout: 25 * time.Minute})
		}
		return st
	}
}

var plans = map[string]Plan{}

func init() {
	for k, v := range storePlans {
		plans[k] = v
	}
}

var storePlans = map[string]Plan{
	"C01": {Prop: "C01", Level: "exploration",
		Rule:        "seeded histories of batches/transactions/reader steps over 3-5 ids in 2-3 datasets, compared with the reference model after every op (listing in one call and paged 1,2,3,7; scoped and unscoped lookups of every pool id). Distinct = hash of the history; non-trivial = the history overwrites an existing id AND contains an un-delete, an in-batch repeat, the same id in two datasets, or an equal-serialized-length pair",
		Assumptions: assumeStore,
		Stages:      sdStages("C01", 16, 20, 16, 400)},
	"C02": {Prop: "C02", Level: "exploration",
		Rule:        "same histories as C01; after every op the full feed (one call), the latest-only feed, token-following reads with limit sequences {1},{2},{5,1},{1,0},{3,2,1}, since-values at and beyond the end, and persistent readers stepped between writes are compared with the model feed. Non-trivial = history has an overwrite and an in-batch repeat / un-delete / multi-dataset id",
		Assumptions: assumeStore,
		Stages:      sdStages("C02", 16, 20, 16, 400)},
	"C03": {Prop: "C03", Level: "exploration",
		Rule:        "same histories; after every op every (start in pool, predicate or *, direction, scope in {all, each dataset, first pair}) is queried in one call (and with limits 1,2,3 following continuations on every third op and at the end) and compared with the model's pair set; transpose checked hub-against-hub. Non-trivial as C01",
		Assumptions: assumeStore,
		Stages:      sdStages("C03", 16, 12, 16, 300)},
	"C06": {Prop: "C06", Level: "exploration",
		Rule:        "same histories; after each commit k the answers of all lookups / relation queries are stored with the commit time T_k; mid-history and at the end every stored question is re-asked as of T_k, T_k+1, the midpoint and T_k+1 - 1 and must equal the stored answer; paged relation queries are opened and continued across later writes. Non-trivial as C01",
		Assumptions: assumeStore,
		Stages:      sdStages("C06", 16, 10, 16, 250)},
}

func selftest() int { return 0 }
