package main

import "time"

func init() {
	plans["C08"] = Plan{Prop: "C08", Level: "fault_enumeration",
		Rule: "seeded schedules = job configuration (DatasetSource or UnionDatasetSource with disjoint id pools, +-LatestOnly per member, DatasetSink or HttpDatasetSink->loopback, incremental / fullsync / both triggers, batch size 1..7, same or fresh job objects per run) + source writes interleaved with runs and idle re-runs. Each schedule is executed fault-free (probe: equality after every run, idle-run no-op, measures batches per run), then once per fault (quick: one kill-inside-a-batch-with-immediate-restart of an incremental run, one sink-400, one KillJob-from-hook, one SIGKILL-in-sub-child, at probe-measured batch indexes; thorough: every hit index x {sink 400, kill, crash} x {afterSink, afterToken | afterEndFullSync} x recovery type of the run with most batches). After a faulty run: token-vs-sink check, recovery run, equality, idle run, rest of the schedule. Case = (schedule, fault); One extra case per run (stage bigpage): 264 entities of 100 KB enter the source in six writes and are copied with the hub's default batch size, i.e. as ONE 26 MB page, more than the store takes in one transaction (about 19 MB): the run either fails by itself (then the token-vs-sink check applies) or reports success (then equality as always); counted non-trivial when the page measured > 20 MB. Otherwise non-trivial = the fault FIRED (measured) at a batch boundary with >=1 batch delivered before and >=1 batch pending after (batches measured by the probe)",
		Assumptions: []string{
			"latest views are compared per entity id, tombstones included: an entity the source lists (live or deleted) must be listed by the sink with the same deleted flag; the content of a tombstone is not compared",
			"kill-and-restart cases (incremental and fullsync runs): run A is held while the sink write of one batch is in flight (HTTP sink: the remote end holds the request; dataset sink: A waits in front of the sink dataset's write lock), killed, the job is requested again at once through Scheduler.RunJob (refused or accepted), the monitor waits for the recorded end of that run, then A is let go and awaited; the second run must not write to the sink while A is in progress, and the token of an incremental job never goes backwards (also checked across every incremental run)",
			"union members have disjoint id pools",
			"idle run: decoded token and sink latest view unchanged; sink change feed unchanged only for incremental runs",
			"a run refused by the remote end because an abandoned full sync still holds its lease is a failed run (allowed); the monitor waits for the lease-expiry event and runs again",
			"token-vs-sink check is the weak reading (every change the token has passed was written to the sink at some time, that version or a later one); the deciding clause is equality after the next successful run",
			"durability is against SIGKILL of the process, not power loss",
			"runs are issued synchronously through job.Run of the objects the scheduler builds (what the cron entry calls); cron dispatch itself belongs to C11",
		},
		Stages: func(tier string) []Stage {
			n, c, args := 8, 14, "faults=4"
			if tier == "thorough" {
				n, c = 32, 14
			}
			return []Stage{
				{Name: "jobs", Scenario: "c08jobs", Args: args, Children: n, Cases: c, Timeout: 25 * time.Minute},
				// ONE case, one child: a job page larger than one store transaction (26 MB of 100 KB entities that entered the source in 4.4 MB writes)
				{Name: "bigpage", Scenario: "c08jobs", Args: "mode=bigpage", Children: 1, Cases: 1, Timeout: 10 * time.Minute},
			}
		},
	}
}
