module vdriver

go 1.23

require github.com/anishathalye/porcupine v1.3.0
