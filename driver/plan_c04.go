package main

import (
	"fmt"
	"time"
)

func crashStage(name, family, prop string, children, cases, pairs, timed int) Stage {
	return Stage{Name: name, Scenario: "crashdrive", Args: fmt.Sprintf("family=%s,prop=%s,pairs=%d,timed=%d", family, prop, pairs, timed), Children: children, Cases: cases, Timeout: 25 * time.Minute}
}

// transactions through a contextual store (the JavaScript transform path): identifiers are committed with the data
func ctxTxnStage(children, cases int) Stage {
	return Stage{Name: "ctxtxn", Scenario: "ctxtxn", Args: "prop=C04", Children: children, Cases: cases, Timeout: 10 * time.Minute}
}

// c04ConcStage: the C05 workload (transactions queued behind batches) judged at the final quiescent point by the raw
// cross-index scan and "every read path agrees on the last write": a transaction that took effect partly (its version
// is the latest in the change log but its keys are stamped older than a competitor's) is not all-or-nothing.
func c04ConcStage(children, cases int) Stage {
	return Stage{Name: "conc", Scenario: "c05conc", Args: "prop=C04,props=C04", Children: children, Cases: cases, GOMAXPROCS: 8, Env: []string{c05Hooks}, Timeout: 20 * time.Minute}
}

// c04BulkStage: a batch of 1500 entities with an invalid entity beyond position 1000 is refused without any effect.
func c04BulkStage(children, cases int) Stage {
	return Stage{Name: "bulk", Scenario: "sdbulk", Args: "props=C04,huge=1", Children: children, Cases: cases, Timeout: 10 * time.Minute}
}

func init() {
	plans["C04"] = Plan{Prop: "C04", Level: "fault_enumeration",
		Rule: "per generated write history (dataset creation, batches, two-dataset transactions; <= 14 ops): a dry run counts the hits of every hook point in StoreEntities / ExecuteTransaction / CreateDataset; then for (point, hit) pairs (quick: a PRNG sample per history; thorough: all) and PRNG-timed SIGKILLs a fresh writer process is killed there, the store is reopened and judged: state = acked ops or acked ops + the whole in-flight op (same choice in every dataset), raw cross-index invariant, post-restart writes get fresh positions and ids. A fifth stage (bulk) stores a 1500-entity batch whose invalid entity lies beyond position 1000: it must be refused without any effect (then 1600 entities are written and read back in one call and in pages). A fourth stage (conc) runs 8 concurrent writers incl. transactions queued behind batches without a crash and applies the raw cross-index scan and the last-write agreement at the end. A third stage executes transactions through a contextual store (the JavaScript transform path), abandons the store without a further write and checks readability and the cross-index invariant after reopening. One case = (history, crash point); non-trivial = the kill landed inside an op (BEGIN without ACK)",
		Assumptions: []string{"process kill (SIGKILL), not power loss: badger runs with the hub's own SyncWrites=false",
			"crash points are the instrumented boundaries (MANIFEST.hooks) plus timed kills; instants between two hook points are reached only by the timed kills",
			"the reference model decides what 'fully present' means; incoming-relation answers explained by the open C03 findings are not counted as crash effects"},
		Stages: func(tier string) []Stage {
			if tier == "thorough" {
				return []Stage{crashStage("crash", "write", "C04", 16, 12, 0, 6), crashStage("crashmg", "mgmt", "C04", 8, 6, 40, 3), ctxTxnStage(8, 40), c04ConcStage(8, 10), c04BulkStage(8, 4)}
			}
			return []Stage{crashStage("crash", "write", "C04", 16, 1, 14, 2), ctxTxnStage(2, 8), c04ConcStage(3, 2), c04BulkStage(2, 1)}
		}}
}
