package main

import (
	"fmt"
	"time"
)

func crashStage(name, family, prop string, children, cases, pairs, timed int) Stage {
	return Stage{Name: name, Scenario: "crashdrive", Args: fmt.Sprintf("family=%s,prop=%s,pairs=%d,timed=%d", family, prop, pairs, timed), Children: children, Cases: cases, Timeout: 25 * time.Minute}
}

// transactions through a contextual store (the JavaScript transform path): identifiers are committed with the data
func ctxTxnStage(children, cases int) Stage {
	return Stage{Name: "ctxtxn", Scenario: "ctxtxn", Args: "prop=C04", Children: children, Cases: cases, Timeout: 10 * time.Minute}
}

func init() {
	plans["C04"] = Plan{Prop: "C04", Level: "fault_enumeration",
		Rule: "per generated write history (dataset creation, batches, two-dataset transactions; <= 14 ops): a dry run counts the hits of every hook point in StoreEntities / ExecuteTransaction / CreateDataset; then for (point, hit) pairs (quick: a PRNG sample per history; thorough: all) and PRNG-timed SIGKILLs a fresh writer process is killed there, the store is reopened and judged: state = acked ops or acked ops + the whole in-flight op (same choice in every dataset), raw cross-index invariant, post-restart writes get fresh positions and ids. A third stage executes transactions through a contextual store (the JavaScript transform path), abandons the store without a further write and checks readability and the cross-index invariant after reopening. One case = (history, crash point); non-trivial = the kill landed inside an op (BEGIN without ACK)",
		Assumptions: []string{"process kill (SIGKILL), not power loss: badger runs with the hub's own SyncWrites=false",
			"crash points are the instrumented boundaries (MANIFEST.hooks) plus timed kills; instants between two hook points are reached only by the timed kills",
			"the reference model decides what 'fully present' means; incoming-relation answers explained by the open C03 findings are not counted as crash effects"},
		Stages: func(tier string) []Stage {
			if tier == "thorough" {
				return []Stage{crashStage("crash", "write", "C04", 16, 12, 0, 6), crashStage("crashmg", "mgmt", "C04", 8, 6, 40, 3), ctxTxnStage(8, 40)}
			}
			return []Stage{crashStage("crash", "write", "C04", 16, 1, 14, 2), ctxTxnStage(2, 8)}
		}}
}
