package main

import "time"

func init() {
	plans["C12"] = Plan{Prop: "C12", Level: "exploration",
		Rule: "seeded histories (values flipping A->B->A, references kept across property changes, delete/un-delete runs, legacy duplicate versions injected by raw keys with their own or a shared commit time, restarts) with compactions at flush thresholds {1,2,3,default}, some with a writer placed between the compactor's snapshot and its first flush (hook compact.beforeFlush); before/after each compaction the scoped and unscoped reads, as-of lookups/relations at the newest dozen commit instants and the latest-only feed (multiset) are compared hub-vs-hub and the full feed by the 'minus versions identical to their predecessor' rule; the C01-C03 model oracles run after every op. Non-trivial = some compaction actually removed a version",
		Assumptions: append([]string{"the latest-only feed is compared as a multiset across a compaction (removing a trailing duplicate legitimately moves an entity's entry)",
			"removed ⊆ duplicates is demanded, not that every duplicate is removed",
			"kills between flushes are exercised by the crash stage (scenario crashdrive)"}, assumeStore...),
		Stages: func(tier string) []Stage {
			ch, cs := 16, 10
			if tier == "thorough" {
				ch, cs = 16, 200
			}
			st := []Stage{{Name: "cp", Scenario: "compact", Args: "props=C12+C01+C02+C03", Children: ch, Cases: cs, Timeout: 25 * time.Minute}}
			if tier == "thorough" {
				return append(st, crashStage("crashcp", "compact", "C12", 16, 6, 0, 3))
			}
			return append(st, crashStage("crashcp", "compact", "C12", 8, 1, 10, 1))
		}}
}
