package main

import "time"

func init() {
	plans["C18"] = Plan{Prop: "C18", Level: "exploration",
		Rule: "seeded cases = MultiSource job (main + 1-2 declared join paths of 1-3 hops, every direction mix, intermediate link datasets, sometimes through the main dataset or with one predicate on two hops; declared in JSON, via track_queries of a JS transform, or both; +-LatestOnly; batch size 1..5; first run fullsync or incremental; dataset creation order shuffled; sometimes a dependency / link dataset empty at the first run) + 3-5 rounds of writes to main / link / dependency datasets (new entities, rewiring, unlinking, tombstones, identical rewrites, ids shared between datasets). After every round the job runs until a successful run leaves the persisted MultiDatasetContinuation unchanged; the recording HTTP sink sees every emitted entity; the reference model computes the required set (smallest reading). Every history is executed fault-free first; then, as further cases, with the sink refusing (400) the k-th request of the first catch-up run of the round that made most requests (quick: 3 values of k, thorough: every k) - after a failed run the direct monitor checks that no dependency token moved past a change whose connected main entities were not delivered. Non-trivial = in some round >=1 a dependency / link change reaches >=1 main entity that did not change itself (measured on the model)",
		Assumptions: []string{
			"only under-emission is a violation; over-emission is legal",
			"smallest required set: a hop counts only when the reference is carried by the latest live version of the referencing entity in its natural dataset; a required main entity is live in the main dataset",
			"intermediate join datasets other than the main dataset count as dependency datasets (implicit dependencies); a path through the main dataset does not make main a dependency",
			"'as it stood at the previous run' = the state when the job had last caught up (previous token fixpoint); only the first hop, only when it is outgoing",
			"no write happens while a run is in progress; failed runs (injected sink failure) do not count as catching up",
			"emitted bodies are compared with the main dataset's versions only when no JS transform is configured (ids are always checked)",
			"a miss explained by a mis-reported incoming hop of the store is attributed to the open C03 findings (class via-C03-incoming)",
			"the reference model (harness/model) is written from the property statements and trusted",
		},
		Stages: func(tier string) []Stage {
			n, c := 8, 60
			if tier == "thorough" {
				n, c = 128, 40
			}
			return []Stage{{Name: "multi", Scenario: "c18multi", Children: n, Cases: c, Timeout: 25 * time.Minute}}
		},
	}
}
