package main

import "time"

func init() {
	plans["C18"] = Plan{Prop: "C18", Level: "exploration",
		Rule: "seeded cases = MultiSource job (main + 1-2 declared join paths of 1-3 hops, every direction mix, intermediate link datasets, sometimes through the main dataset or with one predicate on two hops; declared in JSON, via track_queries of a JS transform, or both; +-LatestOnly; batch size 1..5; first run fullsync or incremental; dataset creation order shuffled; sometimes a dependency / link dataset empty at the first run) + 3-5 rounds of writes to main / link / dependency datasets (new entities, rewiring, unlinking, tombstones, identical rewrites, ids shared between datasets). After every round the job runs until a successful run leaves the persisted MultiDatasetContinuation unchanged; the recording HTTP sink sees every emitted entity; the reference model computes the required set (smallest reading). Every history is executed fault-free first; then, as further cases, with the sink refusing (400) the k-th request of the first catch-up run of the round that made most requests (quick: 3 values of k, thorough: every k) - after a failed run the direct monitor checks that no dependency token moved past a change whose connected main entities were not delivered. Every clean history is also executed with one generated write (spare write of a round: dependency / link entity changed, link added or removed, sometimes a main entity) performed WHILE a run is in progress, by the job's goroutine right after a PRNG-chosen batch was handed to the sink (hook points pipeline.full.afterSink / pipeline.incr.afterSink): first run of the job (explicit or implicit full sync), incremental runs, an explicit fullsync run later in the history; then every main entity connected now to what that write changed must be delivered in a batch AFTER the write before the tokens stop moving, and a dependency token that passed that change at the end of the run means the connected main entities were delivered after the write. Non-trivial = in some round >=1 a dependency / link change reaches >=1 main entity that did not change itself (measured on the model)",
		Assumptions: []string{
			"only under-emission is a violation; over-emission is legal",
			"smallest required set: a hop counts only when the reference is carried by the latest live version of the referencing entity in its natural dataset; a required main entity is live in the main dataset",
			"intermediate join datasets other than the main dataset count as dependency datasets (implicit dependencies); a path through the main dataset does not make main a dependency",
			"'as it stood at the previous run' = the state when the job had last caught up (previous token fixpoint); only the first hop, only when it is outgoing",
			"writes happen between runs, except the one scripted write of a write-during-run case, which happens between two batches (never inside a sink call); a run during which the graph changed does not count as catching up, nor does a failed run (injected sink failure)",
			"for a change written during a run only the links as they stand after the write are required ('previous run' is not defined for it); histories with a path through the main dataset get no write-during-run cases",
			"emitted bodies are compared with the main dataset's versions only when no JS transform is configured (ids are always checked)",
			"a miss explained by a mis-reported incoming hop of the store is attributed to the open C03 findings (class via-C03-incoming)",
			"the reference model (harness/model) is written from the property statements and trusted",
		},
		Stages: func(tier string) []Stage {
			n, c := 8, 60
			if tier == "thorough" {
				n, c = 96, 30
			}
			return []Stage{{Name: "multi", Scenario: "c18multi", Children: n, Cases: c, Timeout: 25 * time.Minute}}
		},
	}
}
