package main

import "time"

func init() {
	plans["C14"] = Plan{Prop: "C14", Level: "exploration",
		Rule: "seeded histories (5-10 ops) over data writes, dataset create/delete, job add/pause/unpause/delete/reset/run, client register/delete, ACL set/delete (also for never-registered clients), login provider add/delete; after EVERY op the complete snapshot (dataset list, listings incl. recorded times, internal ids and tokens, feeds incl. next tokens, lookups, relations, namespaces, job definitions, job states, job history, schedule entries, clients, ACLs, providers) is taken, the hub is stopped and assembled again like app.go, and the snapshot must be identical; the data part keeps running against the reference model across the restarts. Non-trivial = the history touches >= 2 persistence paths (data, dataset mgmt, jobs, job runs, security, providers)",
		Assumptions: append([]string{"restarts are in-process (scheduler stopped, store closed, everything re-assembled from disk); the web layer is not part of the snapshot",
			"cron triggers are set to fire once a year so that no run starts by itself; runs are started with RunJob and awaited"}, assumeStore...),
		Stages: func(tier string) []Stage {
			ch, cs := 16, 3
			if tier == "thorough" {
				ch, cs = 16, 60
			}
			return []Stage{{Name: "rs", Scenario: "c14restart", Args: "props=C14+C01+C02+C03", Children: ch, Cases: cs, Timeout: 25 * time.Minute}}
		}}
}
