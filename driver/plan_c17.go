package main

import (
	"fmt"
	"time"
)

func init() {
	plans["C17"] = Plan{Prop: "C17", Level: "fault_enumeration",
		Rule: "one case = one job configuration + one sink script. enum: k source entities, batch size b, set F of entities whose presence makes the loopback HTTP sink reject a request (permanently, or only the first t requests = transient), log handler maxItems M: " +
			"ALL subsets F of k<=5 (quick) / k<=8 (thorough) entities in one batch x M in {0,1,2,3,9}, the same subsets split over batch sizes 1..3, transient budgets 1,2; plus seeded cases with k<=40; every 7th case as fullsync; a few per child through the real '@every 1s' cron trigger; a separate stage repeats a smaller enumeration with a JS transform in the pipeline. " +
			"refire: for every non-empty F (k>=2), b in {1,2,k}, M in {0,2}: the same job object is executed again (as a further cron tick would) while the run waits for the sink's answer to its 2nd / 3rd / every later request; the extra execution must be skipped without effect on the counts of the run in progress. " +
			"failing-then-clean: the same job object is executed 3-4 times (as consecutive cron ticks), the sink is down during the first 1-2 executions and healthy afterwards, k in {3,5(,8)} x b in {1,2,k} x M in {0,1,2} x transform on/off x incremental/fullsync; a clean execution (sink offered something, rejected nothing, nothing reported) must be recorded without error and must not be followed by a re-execution (executions that offer nothing are not judged). " +
			"two triggers of one job type: a second trigger (cron with another schedule, or onchange) of the same jobType with a different log-handler maxItems ((1,0),(0,1),(1,3),(2,0)), every failing set with >= 2 entities whose first member lies in the first batch, k in {3,5}; one execution per trigger, either order; each execution is judged against its OWN trigger's maxItems and, as both read the whole source, for complete delivery. " +
			"killed full syncs: fullsync-type trigger with reRun (alone / next to log), killed at the first request or after a reported rejection; a run counts as killed when the hub logged its termination or when it failed with the interrupt error of its cancelled context. " +
			"several triggers inside one retry delay: a permanently failing job (reRun alone / capped log + reRun, maxRetries 1..3, delay 400 ms / 1 s) is triggered 2-3 times back to back on the same job object; re-executions made by the reRun handler (executions beyond the triggers, and the hub's own 're-running job' lines) must stay <= maxRetries in total - the budget belongs to the job, not to the trigger. " +
			"rerun: transform on/off x capped log + reRun with the sink down during the first 1-2 executions; reRun handler (alone / next to log) x maxRetries 1..3 x sink failing the first t in {0,1,2,3,all} runs x kill (at the first request, and after the log handler has already reported a rejected entity of the killed run), with retryDelay 1 s (real) and patched 40/150 ms. " +
			"Jobs are built by the scheduler from JSON (AddJob) and executed exactly as cron executes them (jobrunner.New(job).Run()), because RunJob drops error handlers. " +
			"Non-trivial = the failing set is neither empty nor everything (enum) / at least one failed or killed run (rerun)",
		Assumptions: []string{
			"the handler's view is the log line 'entity <id> failed to process' recorded by a zap core; the sink's view is the loopback server's accept/reject log; both share one logical clock and the pipeline calls them from one goroutine, so their order is the real order",
			"an entity counts as rejected when the sink rejected a request that contained only it; entities of a rejected larger request that are accepted later in the same run are not 'rejected' (transient failures)",
			"'every other entity is delivered' is demanded for the first run of a fresh job (its input is the whole source) unless the run stopped at maxItems; later runs (cron re-firing, re-runs) are only checked for at-most-once delivery, exactly-once reporting and the stop rule",
			"'the recorded outcome carries the error' = jobResult.lastError is non-empty when at least one entity was reported; which error text is not demanded",
			"rejections are HTTP 400: the sink's HTTP client retries 5xx answers itself (3 x 2 s), which would only slow the enumeration down",
			"reRun: counted at the hub's own 'Starting …' log lines; 'success' / 'kill' are taken from the run's recorded end (finished / terminated); a kill that reaches a run which then fails on the sink's answer is not counted as killed (weaker reading); an expected re-execution that does not show up before the watchdog is inconclusive, not a violation; the delay is checked one-sided (start of re-run - end of failed run >= retryDelay) on recorded monotonic stamps",
		},
		Stages: func(tier string) []Stage {
			if tier == "thorough" {
				return []Stage{
					{Name: "enum", Scenario: "c17enum", Args: "nchildren=16,cron=6", Children: 16, Cases: 400, Timeout: 20 * time.Minute},
					{Name: "rerun", Scenario: "c17rerun", Args: "nchildren=16", Children: 16, Cases: 0, Timeout: 20 * time.Minute},
					{Name: "enumT", Scenario: "c17enum", Args: "nchildren=16,cron=1,transform=1", Children: 16, Cases: 40, Timeout: 20 * time.Minute},
				}
			}
			return []Stage{
				{Name: "enum", Scenario: "c17enum", Args: fmt.Sprintf("nchildren=%d,cron=1", 16), Children: 16, Cases: 20, Timeout: 10 * time.Minute},
				{Name: "rerun", Scenario: "c17rerun", Args: "nchildren=16", Children: 16, Cases: 0, Timeout: 10 * time.Minute},
				{Name: "enumT", Scenario: "c17enum", Args: "nchildren=8,cron=1,transform=1", Children: 8, Cases: 3, Timeout: 10 * time.Minute},
			}
		},
	}
}
