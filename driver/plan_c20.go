package main

import "time"

func init() {
	plans["C20"] = Plan{Prop: "C20", Level: "exploration",
		Rule:        "seeded histories interleaving batches, dataset create/delete, BackupManager.Run() and hub restarts (new BackupManager, persisted cursor); native mode, rsync mode for every 4th history when rsync is on PATH; after EVERY completed backup run the backup location is restored into an empty directory (badger Load / copied directory), opened with NewStore, and every read answer (catalogue, listings, feeds with tokens, lookups, relations, core.Dataset, namespaces) is compared with the source hub's answers at the start of the run; plus one foreign-location case per child (directory hash before/after). Busy runs (native mode, at most two per history): one client appends new single-entity batches to one dataset while BackupManager.Run() streams a 4000-entity store and the scheduler fires three more invocations 3 ms apart; the restore of that run must be the state before the run plus a prefix of the acknowledged batches (the same prefix in listing and change feed, every other answer unchanged, no read API panics), and the quiet run that follows must restore to the complete state. Non-trivial = >= 2 backup runs with a write between them",
		Assumptions: append([]string{"writes overlap a backup run only in the busy-run operation (one sequential client, new ids only), where the state at the start of the run is known up to that client's prefix", "restore = badger DB.Load of datahub-backup.kv into an empty directory (native) or opening the rsync'ed directory copy"}, assumeStore...),
		Stages: func(tier string) []Stage {
			ch, cs := 16, 4
			if tier == "thorough" {
				ch, cs = 16, 60
			}
			return []Stage{{Name: "bk", Scenario: "c20backup", Args: "props=C20", Children: ch, Cases: cs, Timeout: 25 * time.Minute}}
		}}
}
