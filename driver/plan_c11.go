package main

import (
	"fmt"
	"sort"
	"strings"
	"time"
)

// Plan of property C11 ("every accepted job ends with a recorded outcome; one run per job id").
//
//	stage sweep : configuration sweep (scenario c11sweep); every configuration runs in a hub
//	              process of its own (sub-child of the vchild), so a fatal configuration is
//	              attributed and the sweep continues
//	stage conc  : concurrent cron / on-change / RunJob / re-run / queue-retry / KillJob on 3 job
//	              ids with pools (2,1) (scenario c11conc)
//	stage race  : the same concurrency workload under the race detector; Post classifies the
//	              race report blocks
//	stages storm16 / storm2 / stormrace : request storm on ONE job id (scenario c11storm): per round
//	              8 goroutines released through a barrier fire an on-change event or RunJob for the
//	              same id, from an idle state or at the instant a run gives its slot back;
//	              GOMAXPROCS 16 and 2, and once under the race detector
func init() {
	plans["C11"] = Plan{Prop: "C11", Level: "exploration",
		Rule: "sweep: one case = one job definition out of source{Sample,Slow,Dataset,Dataset+LatestOnly,Union,Multi,Http(loopback)} x transform{none,JS p=1,JS p=3,Http(loopback)} x " +
			"sink{Dataset,DevNull,Console,Http(loopback)} x trigger{cron @every 1s,onchange} x type{incremental,fullsync} x handlers{none,log,reRun,log+reRun,reQueue} x fault{none, one building block fails / run killed}; " +
			"quick = greedy 3-wise cover of the product, thorough = full product; each accepted definition is triggered twice (new data in between), drained, and judged per run " +
			"(slot returned, stored result newer than the run's start, tickets+running==pool, GetRunningJobs empty, process alive). " +
			"conc: one case = one seeded schedule of writer/event, RunJob, KillJob and status-poll actors against 3 job ids with cron, on-change, reRun and fullsync-queue retries, pools (2,1). " +
			"storm: one case = one seeded sequence of rounds; in each round N=8 goroutines parked on a barrier are released together and each fires an on-change event (event bus) or Scheduler.RunJob for the SAME job id, " +
			"two rounds out of three from an idle state, every third at the instant a run returns its slot; cron @every 1s ticks meanwhile; GOMAXPROCS 16 and 2 and once under -race; evidence counts rounds and the maximal number of requests in flight at once. " +
			"Non-trivial = the definition has >= 2 optional features (transform, handlers, onchange, fullsync, LatestOnly, fault) or >= 2 run requests overlapped (two runs open at once, RunJob refused as already running, or fullsync back-pressure)",
		Assumptions: []string{
			"run lifecycle is observed through the statsd client the runner is constructed with (ticket gauges are emitted inside the raffle's critical sections; jobs.count/success/error/cancelled by job.Run) and correlated per goroutine; title == id in all generated jobs",
			"a run result is compared by wall-clock End >= the instant the monitor saw the slot being taken (same process, same clock; never compared with a deadline)",
			"a watchdog (run not ended in 25 s, hub sub-process not finished) gives inconclusive; a hang is a violation only when the pipeline reported its outcome and stored its result but the slot is still held",
			"liveness is bounded: only the finite workloads generated here are observed",
			"loopback HTTP endpoints always answer (4xx for injected rejections so that the sink's 5xx retry back-off is not exercised)",
			"race detector: only blocks with a runtime map access on one side decide (crash-capable); all others are counted",
		},
		Stages: func(tier string) []Stage {
			if tier == "thorough" {
				return []Stage{
					{Name: "sweep", Scenario: "c11sweep", Args: "cover=full,shards=16,par=4", Children: 16, Cases: 100000, Timeout: 14 * time.Minute},
					{Name: "conc", Scenario: "c11conc", Args: "steps=120", Children: 6, Cases: 2, Timeout: 12 * time.Minute},
					{Name: "race", Scenario: "c11conc", Args: "steps=80", Children: 4, Cases: 1, Race: true, Timeout: 12 * time.Minute},
					{Name: "storm16", Scenario: "c11storm", Args: "rounds=200,n=8,burst=25", Children: 3, Cases: 2, GOMAXPROCS: 16, Timeout: 12 * time.Minute},
					{Name: "storm2", Scenario: "c11storm", Args: "rounds=200,n=8,burst=25", Children: 3, Cases: 2, GOMAXPROCS: 2, Timeout: 12 * time.Minute},
					{Name: "stormrace", Scenario: "c11storm", Args: "rounds=60,n=8,burst=25", Children: 2, Cases: 1, Race: true, GOMAXPROCS: 16, Timeout: 12 * time.Minute},
				}
			}
			return []Stage{
				{Name: "sweep", Scenario: "c11sweep", Args: "cover=3,shards=16,par=4", Children: 16, Cases: 100000, Timeout: 5 * time.Minute},
				{Name: "conc", Scenario: "c11conc", Args: "steps=40", Children: 4, Cases: 1, Timeout: 5 * time.Minute},
				{Name: "race", Scenario: "c11conc", Args: "steps=30", Children: 2, Cases: 1, Race: true, Timeout: 6 * time.Minute},
				{Name: "storm16", Scenario: "c11storm", Args: "rounds=40,n=8,burst=25", Children: 2, Cases: 1, GOMAXPROCS: 16, Timeout: 6 * time.Minute},
				{Name: "storm2", Scenario: "c11storm", Args: "rounds=40,n=8,burst=25", Children: 2, Cases: 1, GOMAXPROCS: 2, Timeout: 6 * time.Minute},
				{Name: "stormrace", Scenario: "c11storm", Args: "rounds=15,n=8,burst=25", Children: 1, Cases: 1, Race: true, GOMAXPROCS: 16, Timeout: 6 * time.Minute},
			}
		},
		Post: c11Post,
	}
}

// c11RaceSides splits a race report block into its two access stacks (function names only).
func c11RaceSides(b string) [][]string {
	var sides [][]string
	var cur []string
	in := false
	flush := func() {
		if in {
			sides = append(sides, cur)
		}
		cur, in = nil, false
	}
	for _, l := range strings.Split(b, "\n") {
		t := strings.TrimSpace(l)
		switch {
		case strings.HasPrefix(t, "Goroutine ") && strings.Contains(t, "created at"):
			flush()
			return sides
		case strings.Contains(t, " by goroutine ") || strings.Contains(t, " by main goroutine"):
			flush()
			in = true
		case t == "":
			flush()
		case in && strings.HasPrefix(l, "  ") && !strings.HasPrefix(l, "      "):
			if i := strings.LastIndex(t, "("); i > 0 {
				t = t[:i]
			}
			cur = append(cur, t)
		}
	}
	flush()
	return sides
}

func c11IsMapFrame(f string) bool {
	return strings.HasPrefix(f, "runtime.mapassign") || strings.HasPrefix(f, "runtime.mapaccess") || strings.HasPrefix(f, "runtime.mapiter") ||
		strings.HasPrefix(f, "runtime.mapdelete") || strings.HasPrefix(f, "internal/runtime/maps.")
}

// c11Outermost returns the datahub (non-harness) function at the outer end of an access
// stack as the race detector prints it, i.e. the topmost datahub frame = the function that
// performs the access. (The API-level entry point at the other end of the stack would split
// one unsynchronised access into a class per caller; it is only counted: c11Entry.)
func c11Outermost(side []string) string {
	const modp = "github.com/mimiro-io/datahub/"
	for _, f := range side { // printed order: the access first
		if strings.HasPrefix(f, modp) && !strings.HasPrefix(f, modp+"internal/verif") {
			return strings.TrimPrefix(strings.TrimPrefix(f, modp), "internal/")
		}
	}
	return "non-datahub"
}

func c11Entry(side []string) string {
	const modp = "github.com/mimiro-io/datahub/"
	out := "non-datahub"
	for _, f := range side {
		if strings.HasPrefix(f, modp) && !strings.HasPrefix(f, modp+"internal/verif") {
			out = strings.TrimPrefix(strings.TrimPrefix(f, modp), "internal/")
		}
	}
	return out
}

func c11Post(res *Result) {
	if len(res.RaceBlocks) == 0 {
		return
	}
	type agg struct {
		n     int
		first string
	}
	crash := map[string]*agg{}
	other := map[string]int{}
	for _, b := range res.RaceBlocks {
		sides := c11RaceSides(b)
		if len(sides) < 2 {
			other["unparsed"]++
			continue
		}
		isMap := false
		for _, s := range sides[:2] {
			if len(s) > 0 && c11IsMapFrame(s[0]) {
				isMap = true
			}
		}
		pair := []string{c11Outermost(sides[0]), c11Outermost(sides[1])}
		sort.Strings(pair)
		key := pair[0] + "|" + pair[1]
		if !isMap {
			other[key]++
			continue
		}
		if crash[key] == nil {
			crash[key] = &agg{first: b}
		}
		crash[key].n++
		ent := []string{c11Entry(sides[0]), c11Entry(sides[1])}
		sort.Strings(ent)
		res.Stats["race.crash_capable_entrypoints:"+ent[0]+"|"+ent[1]]++
	}
	res.Stats["race.blocks_total"] = int64(len(res.RaceBlocks))
	res.Stats["race.blocks_crash_capable"] = 0
	res.Stats["race.pairs_other_distinct"] = int64(len(other))
	for k, n := range other {
		res.Stats["race.other:"+k] += int64(n)
	}
	keys := make([]string, 0, len(crash))
	for k := range crash {
		keys = append(keys, k)
	}
	sort.Strings(keys)
	for _, k := range keys {
		a := crash[k]
		res.Stats["race.blocks_crash_capable"] += int64(a.n)
		res.Stats["race.crash_capable:"+k] = int64(a.n)
		blk := a.first
		if len(blk) > 6000 {
			blk = blk[:6000]
		}
		res.Viols = append(res.Viols, Viol{Prop: "C11", Class: "race-map:" + k, Child: "race",
			Msg: fmt.Sprintf("unsynchronised Go map access (the runtime aborts the process on it: \"concurrent map read and map write\") between %s; %d report(s)", strings.ReplaceAll(k, "|", " and "), a.n),
			Raw: map[string]any{"race_block": blk, "reports": a.n}})
	}
}
