package main

import (
	"fmt"
	"time"
)

func init() {
	plans["C10"] = Plan{Prop: "C10", Level: "exploration",
		Rule: "one case = one (n source entities, batch size b, transform parallelism p); the box n<=12, b in 1..4 u {n,n+1}, p<=6 (quick) / n<=24, b in 1..8 u {n,n+1}, p<=10 (thorough) is enumerated completely " +
			"(each child takes every 16th triple; exhaustive=true only if every child visited its whole share), thorough adds seeded triples with n<=500, p<=32. " +
			"Per triple 12 real jobs (DatasetSource -> JavascriptTransform(Parallelism p) -> DatasetSink; incremental and fullsync x transform variants stamp/drop/dup/create/identity/identity-by-copy) " +
			"plus, on every 4th triple, the stamp variant into a recording HttpDatasetSink, are built by the scheduler from JSON and executed the way cron does (jobrunner.New(job).Run()). " +
			"Outside the box, in both tiers: 5 large triples whose sink batches are exactly / around 1000 and 2000 entities (n,b = 1000,1000; 2500,1000; 1200,500 with the duplicating transform; 1400,700; 2000,2000), stamp and dup variants, incremental and fullsync. " +
			"Histories with repeated ids, per triple and pipeline type: flip-back (run 1 copies version a; every second source entity is then written as b and as a again, two writes each; run 2 through an identity transform must leave sink change feed == source change feed and sink latest == source latest; run 3 adds no change (incremental) / leaves the latest view (fullsync replays the history)) " +
			"and draft (the transform returns a draft copy followed by the entity itself for every input; run twice; sink feed == returned sequence with only repeats of the current version dropped, latest == the entity). " +
			"Deciding monitors: multiset of entities the transform logged (exactly once), sink change feed == f(seen entities) in source order, identity == plain copy job, second run adds no change, no panic / process death. " +
			"Non-trivial = n > b (more than one batch) or p > 1",
		Assumptions: []string{
			"the transform's view is observed through the transform API itself (Log() of every input entity, UUID() stamp) and recorded by a zap core; nothing inside the pipeline is instrumented",
			"a panic of the job goroutine is caught above jobrunner's re-panic and reported as a violation (in production it ends the hub process); a fatal death of a worker process is attributed to the (n,b,p,kind,variant) logged before the run and the sweep continues in a new worker",
			"sink order is compared on (id, stamp, copy#); timestamps, internal ids and sequence numbers are opaque",
			"HttpDatasetSink + fullsync reads entities instead of changes: whether tombstones belong to that source view is not demanded (a tombstone may reach the transform 0 or 1 times there)",
			"'running it again produces no new changes' is checked for the identity transforms only (a stamping transform legitimately produces new versions on a fullsync re-run)",
		},
		Exhaustive: true,
		Stages: func(tier string) []Stage {
			n, c := 16, 0
			if tier == "thorough" {
				c = 50 // sampled large triples per child
			}
			return []Stage{{Name: "box", Scenario: "c10box", Args: fmt.Sprintf("nchildren=%d", n), Children: n, Cases: c, Timeout: 20 * time.Minute}}
		},
	}
}
